(* C04 — reverse proxy relays requests and responses faithfully: executable model.
   Mirrors caskethttp/proxy/proxy.go (createUpstreamRequest, mutateHeadersByRules, the
   per-attempt part of Proxy.ServeHTTP, match), reverseproxy.go (singleJoiningSlash, the
   director of NewSingleHostReverseProxy, the response half of ReverseProxy.ServeHTTP,
   copyHeader, shallowCopyTrailers), upstream.go (parseBlock: header_upstream /
   header_downstream / transparent / websocket / without), and the parts of net/textproto
   (CanonicalMIMEHeaderKey, Header Get/Set/Add/Del) and httpserver.Replacer they rely on.
   Definitions only; proofs are in C04_Proofs.v. *)
Require Import V.Lib V.GoPath V.GoNet V.Gen_C04.
Open Scope N_scope.

Definition is_nil {A} (l : list A) : bool := match l with [] => true | _ => false end.

(* ---- strings ---- *)
Definition is_space (c : N) : bool := (c =? 32) || ((9 <=? c) && (c <=? 13)).
Fixpoint drop_space (s : bytes) : bytes :=
  match s with
  | c :: r => if is_space c then drop_space r else s
  | [] => []
  end.
(* strings.TrimSpace on ASCII input *)
Definition trim_space (s : bytes) : bytes := rev (drop_space (rev (drop_space s))).
Definition trim_prefix (s p : bytes) : bytes := if has_prefix s p then skipn (length p) s else s.
Definition COMMA : N := 44.

(* ---- net/textproto.CanonicalMIMEHeaderKey ---- *)
Definition is_lower (c : N) : bool := (97 <=? c) && (c <=? 122).
Definition is_upper (c : N) : bool := (65 <=? c) && (c <=? 90).
Definition is_digit (c : N) : bool := (48 <=? c) && (c <=? 57).
Definition valid_field_byte (c : N) : bool :=
  is_lower c || is_upper c || is_digit c ||
  existsb (N.eqb c) [33; 35; 36; 37; 38; 39; 42; 43; 45; 46; 94; 95; 96; 124; 126].
Fixpoint canon_go (upper : bool) (s : bytes) : bytes :=
  match s with
  | [] => []
  | c :: r =>
      let c' := if upper && is_lower c then c - 32
                else if negb upper && is_upper c then c + 32 else c in
      c' :: canon_go (c' =? 45) r
  end.
Definition canon_key (s : bytes) : bytes :=
  if forallb valid_field_byte s then canon_go true s else s.

(* ---- http.Header as an association list (a Go map: keys unique, order irrelevant) ---- *)
Definition hdr := list (bytes * list bytes).
Fixpoint hlookup (h : hdr) (k : bytes) : option (list bytes) :=
  match h with
  | [] => None
  | (k', v) :: r => if beq k' k then Some v else hlookup r k
  end.
Definition hdel_raw (h : hdr) (k : bytes) : hdr := filter (fun kv => negb (beq (fst kv) k)) h.
Definition hput (h : hdr) (k : bytes) (vs : list bytes) : hdr := hdel_raw h k ++ [(k, vs)].
Definition hget (h : hdr) (k : bytes) : bytes :=
  match hlookup h (canon_key k) with Some (v :: _) => v | _ => [] end.
Definition hdel (h : hdr) (k : bytes) : hdr := hdel_raw h (canon_key k).
Definition hset (h : hdr) (k v : bytes) : hdr := hput h (canon_key k) [v].
Definition hadd (h : hdr) (k v : bytes) : hdr :=
  let ck := canon_key k in
  hput h ck (match hlookup h ck with Some vs => vs ++ [v] | None => [v] end).

Definition K_CONNECTION := bs "Connection"%string.
Definition K_XFF := bs "X-Forwarded-For"%string.
Definition K_AUTHZ := bs "Authorization"%string.
Definition K_HOST := bs "Host"%string.
Definition K_TRAILER := bs "Trailer"%string.
Definition K_SERVER := bs "Server"%string.
Definition TRAILER_PREFIX := bs "Trailer:"%string.

(* tokens of one Connection value: strings.Split(c, ","), TrimSpace, non-empty *)
Definition conn_tokens (c : bytes) : list bytes :=
  filter (fun f => negb (is_nil f)) (map trim_space (split COMMA c)).

(* ---- createUpstreamRequest (header part) ---- *)
(* every Connection value is consulted (range over Header["Connection"]; the slice is evaluated
   once, so deleting "Connection" itself on the way does not cut the iteration short) *)
Definition conn_values (h : hdr) : list bytes :=
  match hlookup h K_CONNECTION with Some vs => vs | None => [] end.
Definition listed_conn_tokens (h : hdr) : list bytes := flat_map conn_tokens (conn_values h).
Definition strip_conn_listed (h : hdr) : hdr := fold_left hdel (listed_conn_tokens h) h.
(* every hop-by-hop header is deleted (Header.Del), whatever its values. outreq.Header is always a
   copy of r.Header: nothing below ever writes to the client's own header map *)
Definition strip_hop_req (h : hdr) : hdr := fold_left hdel gen_hop_headers h.
Definition COMMA_SP : bytes := [44; 32].
Definition add_xff (remote : bytes) (h : hdr) : hdr :=
  match split_host_port remote with
  | Some (ip, _) =>
      let v := match hlookup h K_XFF with
               | Some prior => join COMMA_SP prior ++ COMMA_SP ++ ip
               | None => ip
               end in
      hset h K_XFF v
  | None => h
  end.
Definition create_upstream_headers (remote : bytes) (h : hdr) : hdr :=
  add_xff remote (strip_hop_req (strip_conn_listed h)).

(* ---- httpserver.Replacer.Replace (no backslash escapes) ---- *)
Definition LBRACE : N := 123.
Definition RBRACE : N := 125.
Fixpoint replace_go (fuel : nat) (subst : bytes -> bytes) (s : bytes) : bytes :=
  match fuel with
  | O => s
  | S f =>
      match index_of LBRACE s with
      | None => s
      | Some i =>
          let rest := skipn i s in
          match index_of RBRACE rest with
          | None => s
          | Some j => firstn i s ++ subst (firstn (j + 1) rest) ++ replace_go f subst (skipn (j + 1) rest)
          end
      end
  end.
Definition replace_ph (subst : bytes -> bytes) (s : bytes) : bytes :=
  if contains_byte LBRACE s || contains_byte RBRACE s then replace_go (S (length s)) subst s else s.

Record reqenv := { e_method : bytes; e_host : bytes; e_remote : bytes }.
Definition eq_fold (a b : bytes) : bool := beq (to_lower a) (to_lower b).
(* getSubstitution for the placeholders the generator uses; [live] is r.Header at that moment *)
Definition subst_of (e : reqenv) (live : hdr) (p : bytes) : bytes :=
  match p with
  | _ :: 62 :: _ =>
      let want := firstn (length p - 3) (skipn 2 p) in
      match find (fun kv => eq_fold (fst kv) want) live with
      | Some kv => join [COMMA] (snd kv)
      | None => []
      end
  | _ =>
      if beq p (bs "{method}"%string) then e_method e
      else if beq p (bs "{scheme}"%string) then bs "http"%string
      else if beq p (bs "{host}"%string) then e_host e
      else if beq p (bs "{hostonly}"%string) then strip_port (e_host e)
      else if beq p (bs "{remote}"%string) then strip_port (e_remote e)
      else if beq p (bs "{port}"%string) then
        match split_host_port (e_remote e) with Some (_, p) => p | None => [] end
      else if beq p (bs "{server_port}"%string) then
        match split_host_port (e_host e) with Some (_, p) => p | None => bs "80"%string end
      else []
  end.

(* ---- mutateHeadersByRules ---- *)
Definition rule := (bytes * list bytes)%type.
Definition PLUS : N := 43.
Definition MINUS : N := 45.
(* [h0]: r.Header, the client's own header map, which the {>Header} placeholders read; the rules
   rewrite [h], a different map (outreq.Header is a copy; resp.Header in the response direction) *)
Definition apply_rule (e : reqenv) (h0 : hdr) (h : hdr) (r : rule) : hdr :=
  let '(f, vals) := r in
  match f with
  | c :: name =>
      if c =? PLUS then
        fold_left (fun h v => let x := replace_ph (subst_of e h0) v in
                              if is_nil x then h else hadd h name x) vals h
      else if c =? MINUS then hdel h name
      else match rev vals with
           | [] => h
           | v :: _ => let x := replace_ph (subst_of e h0) v in
                       if is_nil x then h else hset h f x
           end
  | [] => match rev vals with
          | [] => h
          | v :: _ => let x := replace_ph (subst_of e h0) v in
                      if is_nil x then h else hset h f x
          end
  end.

(* regexp.ReplaceAllString for a non-empty literal pattern and a replacement without '$' *)
Fixpoint replace_all_go (fuel : nat) (pat to s : bytes) : bytes :=
  match fuel with
  | O => s
  | S f =>
      match s with
      | [] => []
      | c :: r => if has_prefix s pat then to ++ replace_all_go f pat to (skipn (length pat) s)
                  else c :: replace_all_go f pat to r
      end
  end.
Definition replace_all (pat to s : bytes) : bytes :=
  match pat with [] => s | _ => replace_all_go (S (length s)) pat to s end.

Definition rerule := (bytes * list (bytes * bytes))%type.
Definition apply_rerule (e : reqenv) (h0 : hdr) (h : hdr) (r : rerule) : hdr :=
  fold_left (fun h pt =>
               let x := replace_ph (subst_of e h0) (snd pt) in
               let orig := hget h (fst r) in
               if negb (is_nil x) && negb (is_nil orig) then hset h (fst r) (replace_all (fst pt) x orig) else h)
            (snd r) h.

Definition mutate_headers (e : reqenv) (h0 : hdr) (rules : list rule) (res : list rerule) (h : hdr) : hdr :=
  fold_left (apply_rerule e h0) res (fold_left (apply_rule e h0) rules h).

(* ---- upstream.go parseBlock: the directives that shape relaying ---- *)
Inductive directive :=
| DUp (name value : bytes) | DDown (name value : bytes)
| DUpRe (name pat to : bytes) | DDownRe (name pat to : bytes)
| DTransparent | DWebsocket | DWithout (p : bytes).

Record pcfg := { c_up : hdr; c_down : hdr; c_upre : list rerule; c_downre : list rerule; c_without : bytes }.
Definition readd (l : list rerule) (name : bytes) (pt : bytes * bytes) : list rerule :=
  let ck := canon_key name in
  let old := match find (fun r => beq (fst r) ck) l with Some r => snd r | None => [] end in
  filter (fun r => negb (beq (fst r) ck)) l ++ [(ck, old ++ [pt])].
Definition parse_directive (c : pcfg) (d : directive) : pcfg :=
  match d with
  | DUp n v => {| c_up := hadd (c_up c) n v; c_down := c_down c; c_upre := c_upre c; c_downre := c_downre c; c_without := c_without c |}
  | DDown n v => {| c_up := c_up c; c_down := hadd (c_down c) n v; c_upre := c_upre c; c_downre := c_downre c; c_without := c_without c |}
  | DUpRe n p t => {| c_up := c_up c; c_down := c_down c; c_upre := readd (c_upre c) n (p, t); c_downre := c_downre c; c_without := c_without c |}
  | DDownRe n p t => {| c_up := c_up c; c_down := c_down c; c_upre := c_upre c; c_downre := readd (c_downre c) n (p, t); c_without := c_without c |}
  | DTransparent =>
      let u := hadd (hadd (hadd (hadd (c_up c) K_HOST (bs "{host}"%string)) (bs "X-Real-IP"%string) (bs "{remote}"%string))
                          (bs "X-Forwarded-Proto"%string) (bs "{scheme}"%string)) (bs "X-Forwarded-Port"%string) (bs "{server_port}"%string) in
      {| c_up := u; c_down := c_down c; c_upre := c_upre c; c_downre := c_downre c; c_without := c_without c |}
  | DWebsocket =>
      let u := hadd (hadd (c_up c) K_CONNECTION (bs "{>Connection}"%string)) (bs "Upgrade"%string) (bs "{>Upgrade}"%string) in
      {| c_up := u; c_down := c_down c; c_upre := c_upre c; c_downre := c_downre c; c_without := c_without c |}
  | DWithout p => {| c_up := c_up c; c_down := c_down c; c_upre := c_upre c; c_downre := c_downre c; c_without := p |}
  end.
Definition cfg0 : pcfg := {| c_up := []; c_down := []; c_upre := []; c_downre := []; c_without := [] |}.
Definition parse_cfg (ds : list directive) : pcfg := fold_left parse_directive ds cfg0.

(* ---- director ---- *)
Definition sjs (a b : bytes) : bytes :=
  let aS := has_suffix a [SLASH] in
  let bS := has_prefix b [SLASH] in
  if aS && bS then a ++ skipn 1 b
  else if negb aS && negb bS && negb (is_nil b) then a ++ [SLASH] ++ b
  else a ++ b.
(* independent formulation: exactly one slash between a non-empty b and a *)
Definition strip_trailing_slash (a : bytes) : bytes := if has_suffix a [SLASH] then removelast a else a.
Definition strip_leading_slash (b : bytes) : bytes := if has_prefix b [SLASH] then skipn 1 b else b.
Definition join_one_slash (a b : bytes) : bytes :=
  match b with [] => a | _ => strip_trailing_slash a ++ [SLASH] ++ strip_leading_slash b end.

Record target := { t_host : bytes; t_path : bytes; t_rawpath : bytes; t_query : bytes; t_auth : option bytes }.
Record urlst := { u_path : bytes; u_rawpath : bytes; u_query : bytes }.
Definition prefer (v d : bytes) : bytes := if is_nil v then d else v.
Definition AMP : N := 38.
Definition director (t : target) (without : bytes) (u : urlst) : urlst :=
  let p := if is_nil without then u_path u else trim_prefix (u_path u) without in
  let rp := if is_nil without || is_nil (u_rawpath u) then u_rawpath u else trim_prefix (u_rawpath u) without in
  let rp' := if negb (is_nil rp) || negb (is_nil (t_rawpath t))
             then sjs (prefer (t_rawpath t) (t_path t)) (prefer rp p) else rp in
  let q := if is_nil (t_query t) || is_nil (u_query u) then t_query t ++ u_query u
           else t_query t ++ [AMP] ++ u_query u in
  {| u_path := sjs (t_path t) p; u_rawpath := rp'; u_query := q |}.

(* ---- one attempt of the retry loop ----
   [h0]: what the {>Header} placeholders read (the client's header map). When retries are possible
   (try_duration != 0, [retriable]) every attempt starts from a fresh copy of the URL and the
   headers createUpstreamRequest produced; otherwise the (single) attempt works on the request itself. *)
Record rstate := { s_url : urlst; s_hdr : hdr }.
Record sent := { o_host : bytes; o_urlhost : bytes; o_url : urlst; o_hdr : hdr }.
Definition last_or {A} (l : list A) (d : A) : A := match rev l with x :: _ => x | [] => d end.
Definition attempt (c : pcfg) (e : reqenv) (h0 : hdr) (st : rstate) (t : target) : rstate * sent :=
  let h1 := match t_auth t with
            | Some a => if is_nil (hget (s_hdr st) K_AUTHZ) then hset (s_hdr st) K_AUTHZ a else s_hdr st
            | None => s_hdr st
            end in
  let h2 := mutate_headers e h0 (c_up c) (c_upre c) h1 in
  let host := match hlookup h2 K_HOST with
              | Some vs => if is_nil vs then t_host t else last_or vs []
              | None => t_host t
              end in
  let u := director t (c_without c) (s_url st) in
  ({| s_url := u; s_hdr := h2 |}, {| o_host := host; o_urlhost := t_host t; o_url := u; o_hdr := h2 |}).

Fixpoint attempts (c : pcfg) (e : reqenv) (h0 : hdr) (retriable : bool) (st0 st : rstate) (ts : list target) : list sent * rstate :=
  match ts with
  | [] => ([], st)
  | t :: r => let '(st', o) := attempt c e h0 (if retriable then st0 else st) t in
              let '(os, stf) := attempts c e h0 retriable st0 st' r in (o :: os, stf)
  end.

Record request := { q_method : bytes; q_host : bytes; q_remote : bytes; q_url : urlst; q_hdr : hdr }.
Definition env_of (q : request) : reqenv := {| e_method := q_method q; e_host := q_host q; e_remote := q_remote q |}.
Definition init_state (q : request) : rstate :=
  {| s_url := q_url q; s_hdr := create_upstream_headers (q_remote q) (q_hdr q) |}.
Definition run_request (c : pcfg) (retriable : bool) (q : request) (ts : list target) : list sent * rstate :=
  attempts c (env_of q) (q_hdr q) retriable (init_state q) (init_state q) ts.

(* ---- response half of ReverseProxy.ServeHTTP ---- *)
(* every Connection value of the backend response is consulted (range over res.Header["Connection"]) *)
Definition resp_strip (h : hdr) : hdr :=
  fold_left hdel gen_hop_headers (fold_left hdel (listed_conn_tokens h) h).
Definition copy_header_step (dst : hdr) (kv : bytes * list bytes) : hdr :=
  let '(k, vv) := kv in
  match hlookup dst k with
  | Some _ =>
      if existsb (beq k) gen_skip_headers then dst
      else fold_left (fun d v => hadd d k v) vv (if beq k K_SERVER then dst else hdel dst k)
  | None => fold_left (fun d v => hadd d k v) vv dst
  end.
Definition copy_header (dst src : hdr) : hdr := fold_left copy_header_step src dst.

Record bresp := { b_status : N; b_hdr : hdr; b_announced : list bytes; b_trailers : hdr }.
(* final res.Trailer: announced keys (nil when never sent) overlaid with what arrived; all of it
   reaches the client: announced trailers through the Trailer header + early flush, unannounced
   ones through http.TrailerPrefix after a flush that keeps a short body from getting a Content-Length *)
Definition final_trailers (b : bresp) : hdr :=
  fold_left (fun t kv => hput t (fst kv) (snd kv)) (b_trailers b) (map (fun k => (k, [])) (b_announced b)).
Definition nodup_keys (l : list bytes) : list bytes :=
  fold_left (fun acc k => if existsb (beq k) acc then acc else acc ++ [k]) l [].
Record cview := { v_status : N; v_hdr : hdr; v_trailers : hdr }.
(* [live] = r.Header when the downstream rules run (placeholders of header_downstream) *)
Definition client_view (c : pcfg) (e : reqenv) (live : hdr) (pre : hdr) (b : bresp) : cview :=
  let h1 := mutate_headers e live (c_down c) (c_downre c) (resp_strip (b_hdr b)) in
  let h2 := copy_header pre h1 in
  let ann := nodup_keys (b_announced b) in
  let h3 := if is_nil ann then h2 else hput h2 K_TRAILER ann in
  {| v_status := b_status b; v_hdr := h3; v_trailers := final_trailers b |}.

(* Proxy.match: longest matching base path, first wins among equals *)
Definition match_step (path : bytes) (acc : nat * nat * option nat) (f : bytes) : nat * nat * option nat :=
  let '(i, best, sel) := acc in
  if path_matches false path f && Nat.ltb best (length f) then (S i, length f, Some i)
  else (S i, best, sel).
Definition match_upstream (path : bytes) (froms : list bytes) : option nat :=
  snd (fold_left (match_step path) froms (O, O, None)).

(* ================= executable specification (independent of the functions above) ================= *)
(* hop-by-hop headers per RFC 7230 §6.1 / RFC 2616 §13.5.1 plus the de-facto ones casket documents *)
Definition spec_hop : list bytes :=
  map bs ["Connection"; "Keep-Alive"; "Proxy-Authenticate"; "Proxy-Authorization"; "Proxy-Connection";
          "Te"; "Trailer"; "Transfer-Encoding"; "Upgrade"; "Alt-Svc"; "Alternate-Protocol"]%string.
Definition mem (k : bytes) (l : list bytes) : bool := existsb (beq k) l.
Definition all_conn_tokens (h : hdr) : list bytes :=
  match hlookup h K_CONNECTION with Some vs => flat_map conn_tokens vs | None => [] end.
Definition is_hop_for (h : hdr) (k : bytes) : bool :=
  mem k spec_hop || existsb (fun tok => beq (canon_key tok) k) (all_conn_tokens h).

Definition oval := option (list bytes).
Definition oval_eqb (a b : oval) : bool :=
  match a, b with
  | None, None => true
  | Some x, Some y => list_beq beq x y
  | _, _ => false
  end.
Definition olist (v : oval) : list bytes := match v with Some l => l | None => [] end.

(* value of header k that must leave createUpstreamRequest *)
Definition spec_req_base (q : request) (k : bytes) : oval :=
  let b := if is_hop_for (q_hdr q) k then None else hlookup (q_hdr q) k in
  if beq k K_XFF then
    match split_host_port (q_remote q) with
    | Some (ip, _) => Some [join COMMA_SP (olist b ++ [ip])]
    | None => b
    end
  else b.

(* single-value semantics of the rule kinds *)
Inductive vop := VSet (v : bytes) | VAdd (vs : list bytes) | VDel | VRe (pat to : bytes).
Definition vop_apply (v : oval) (o : vop) : oval :=
  match o with
  | VSet x => if is_nil x then v else Some [x]
  | VAdd xs => match filter (fun x => negb (is_nil x)) xs with
               | [] => v
               | xs' => Some (olist v ++ xs')
               end
  | VDel => None
  | VRe pat to =>
      match v with
      | Some (orig :: _) => if negb (is_nil to) && negb (is_nil orig) then Some [replace_all pat to orig] else v
      | _ => v
      end
  end.
(* the operations a rule table prescribes for header k, in table order *)
Definition rule_target (f : bytes) : bytes :=
  match f with
  | c :: name => if (c =? PLUS) || (c =? MINUS) then canon_key name else canon_key f
  | [] => []
  end.
Definition vops_for (sub : bytes -> bytes) (rules : list rule) (k : bytes) : list vop :=
  flat_map (fun r : rule =>
              let '(f, vals) := r in
              let setop := match rev vals with [] => [] | v :: _ => [VSet (replace_ph sub v)] end in
              match f with
              | c :: name =>
                  if c =? PLUS then (if negb (beq (canon_key name) k) then [] else [VAdd (map (replace_ph sub) vals)])
                  else if c =? MINUS then (if negb (beq (canon_key name) k) then [] else [VDel])
                  else (if negb (beq (canon_key f) k) then [] else setop)
              | [] => if negb (beq (canon_key f) k) then [] else setop
              end) rules.
Definition revops_for (sub : bytes -> bytes) (res : list rerule) (k : bytes) : list vop :=
  flat_map (fun r : rerule => if beq (canon_key (fst r)) k
                              then map (fun pt => VRe (fst pt) (replace_ph sub (snd pt))) (snd r) else []) res.

Fixpoint perms {A} (l : list A) : list (list A) :=
  match l with
  | [] => [[]]
  | x :: r => flat_map (fun p => map (fun i => firstn i p ++ x :: skipn i p) (seq 0 (S (length p)))) (perms r)
  end.
(* the rule table is a Go map: any iteration order is allowed (orders only matter when several
   fields target the same header); regex replacements always run after the plain rules *)
Definition spec_rule_outcomes (sub : bytes -> bytes) (rules : list rule) (res : list rerule) (k : bytes) (v : oval) : list oval :=
  map (fun ops => fold_left vop_apply (ops ++ revops_for sub res k) v) (perms (vops_for sub rules k)).

Definition spec_req_values (c : pcfg) (q : request) (t : target) (k : bytes) : list oval :=
  let b := spec_req_base q k in
  let b1 := if beq k K_AUTHZ then
              match t_auth t with
              | Some a => match b with Some (x :: _) => if is_nil x then Some [a] else b | _ => Some [a] end
              | None => b
              end
            else b in
  spec_rule_outcomes (subst_of (env_of q) (q_hdr q)) (c_up c) (c_upre c) k b1.

Definition spec_path (t : target) (without path : bytes) : bytes :=
  join_one_slash (t_path t) (if is_nil without then path else trim_prefix path without).
Definition spec_query (t : target) (q : bytes) : bytes :=
  match t_query t, q with
  | [], _ => q
  | tq, [] => tq
  | tq, _ => tq ++ [AMP] ++ q
  end.

Definition keys_of (h : hdr) : list bytes := map fst h.
Definition hdr_sub (a b : hdr) : bool := forallb (fun kv => oval_eqb (hlookup b (fst kv)) (Some (snd kv))) a.
Definition hdr_eqb (a b : hdr) : bool := hdr_sub a b && hdr_sub b a.
(* trailers: a key with no values is the same as an absent key *)
Definition hdr_sub_ne (a b : hdr) : bool :=
  forallb (fun kv => is_nil (snd kv) || oval_eqb (hlookup b (fst kv)) (Some (snd kv))) a.
Definition hdr_eqb_ne (a b : hdr) : bool := hdr_sub_ne a b && hdr_sub_ne b a.
Definition urlst_eqb (a b : urlst) : bool :=
  beq (u_path a) (u_path b) && beq (u_rawpath a) (u_rawpath b) && beq (u_query a) (u_query b).

(* ---- spec for one request as seen by the backend transport: the list of failing items ---- *)
Definition tag (s : string) : bytes := bs s.
Definition when_not (b : bool) (t : bytes) : list bytes := if b then [] else [t].

Definition spec_rawpath (t : target) (without : bytes) (u : urlst) : bytes :=
  if is_nil (u_rawpath u) && is_nil (t_rawpath t) then []
  else
    let rp :=
      if is_nil without then prefer (u_rawpath u) (u_path u)
      else if is_nil (u_rawpath u) then trim_prefix (u_path u) without
      else prefer (trim_prefix (u_rawpath u) without) (trim_prefix (u_path u) without) in
    join_one_slash (prefer (t_rawpath t) (t_path t)) rp.

Definition spec_sent_fail (ds : list directive) (q : request) (t : target) (o : sent) : list bytes :=
  let c := parse_cfg ds in
  let keys := keys_of (q_hdr q) ++ keys_of (o_hdr o) ++ map (fun r => rule_target (fst r)) (c_up c) ++ [K_XFF; K_AUTHZ] in
  filter (fun k => negb (existsb (oval_eqb (hlookup (o_hdr o) k)) (spec_req_values c q t k))) keys ++
  when_not (beq (u_path (o_url o)) (spec_path t (c_without c) (u_path (q_url q)))) (tag "<path>"%string) ++
  when_not (beq (u_rawpath (o_url o)) (spec_rawpath t (c_without c) (q_url q))) (tag "<rawpath>"%string) ++
  when_not (beq (u_query (o_url o)) (spec_query t (u_query (q_url q)))) (tag "<query>"%string) ++
  when_not (beq (o_urlhost o) (t_host t)) (tag "<urlhost>"%string) ++
  (* the Host the backend sees is the last Host value the rules produced, else the upstream's own *)
  when_not (beq (o_host o) (match hlookup (o_hdr o) K_HOST with Some (x :: r) => last_or (x :: r) [] | _ => t_host t end))
           (tag "<host>"%string).

(* ---- spec for the response as seen by the client ---- *)
Definition spec_skip : list bytes :=
  map bs ["Content-Type"; "Content-Disposition"; "Accept-Ranges"; "Set-Cookie"; "Cache-Control"; "Expires"]%string.
Definition spec_resp_values (c : pcfg) (q : request) (pre : hdr) (b : bresp) (k : bytes) : list oval :=
  let base := if is_hop_for (b_hdr b) k then None else hlookup (b_hdr b) k in
  map (fun v : oval =>
         match hlookup pre k, v with
         | None, _ => v
         | Some p, None => Some p
         | Some p, Some vs => if mem k spec_skip then Some p
                              else if beq k K_SERVER then Some (p ++ vs) else Some vs
         end)
      (spec_rule_outcomes (subst_of (env_of q) (q_hdr q)) (c_down c) (c_downre c) k base).
Definition set_eqb (a b : list bytes) : bool :=
  forallb (fun x => mem x b) a && forallb (fun x => mem x a) b.
Record cview_obs := { w_status : N; w_hdr : hdr; w_trailers : hdr }.
Definition spec_client_fail (ds : list directive) (q : request) (pre : hdr) (b : bresp) (v : cview_obs) : list bytes :=
  let c := parse_cfg ds in
  let keys := keys_of (b_hdr b) ++ keys_of (w_hdr v) ++ keys_of pre ++ map (fun r => rule_target (fst r)) (c_down c) in
  when_not (w_status v =? b_status b) (tag "<status>"%string) ++
  filter (fun k =>
            negb (if beq k K_TRAILER && negb (is_nil (b_announced b))
                  then match hlookup (w_hdr v) k with Some ks => set_eqb ks (b_announced b) | None => false end
                  else existsb (oval_eqb (hlookup (w_hdr v) k)) (spec_resp_values c q pre b k))) keys ++
  when_not (hdr_eqb_ne (w_trailers v) (b_trailers b)) (tag "<trailers>"%string).


(* ================= response relay: copy loop, ResponseWriter, trailers ================= *)
(* ---- copyResponse -> pooledIoCopy -> io.CopyBuffer(dst, src, buf):
        for { nr, er := src.Read(buf); if nr > 0 { dst.Write(buf[0:nr]) }; if er != nil { break } }
   The reader is arbitrary: remaining data, a script of per-call caps (the i-th Read returns at most
   that many bytes; a cap of 0 is a Read that returns (0, nil); script used up = as much as fits the
   buffer), and whether the last bytes come together with io.EOF or EOF needs a Read of its own. ---- *)
Record breader := { r_data : bytes; r_script : list nat; r_eofd : bool }.
Definition r_read (r : breader) (m : nat) : bytes * bool * breader :=
  match r_data r with
  | [] => ([], true, r)
  | _ =>
      let cap := match r_script r with [] => m | k :: _ => Nat.min k m end in
      let rest := skipn cap (r_data r) in
      (firstn cap (r_data r),
       match rest with [] => r_eofd r | _ => false end,
       {| r_data := rest; r_script := tl (r_script r); r_eofd := r_eofd r |})
  end.
(* the Write calls the loop makes, in order *)
Fixpoint copy_loop (fuel bufsz : nat) (r : breader) : list bytes :=
  match fuel with
  | O => []
  | S f =>
      let '(d, eof, r') := r_read r bufsz in
      let ws := match d with [] => [] | _ => [d] end in
      if eof then ws else ws ++ copy_loop f bufsz r'
  end.
Definition copy_writes (bufsz : nat) (r : breader) : list bytes :=
  copy_loop (S (length (r_script r) + length (r_data r))) bufsz r.
Definition POOL_BUF : nat := 32768. (* createBuffer: make([]byte, 0, 32*1024), used at full capacity *)

(* ---- the http.ResponseWriter of net/http's HTTP/1.1 server, as far as framing, body bytes and
   trailers go (stdlib model, re-validated by the wire cases): a 2048-byte bufio.Writer in front of
   the chunkWriter; the header is committed (cw.writeHeader) by the first flush of that buffer -
   Flush(), overflow, or the end of the handler; only in the last case, and only when no trailer is
   declared, a Content-Length is computed; otherwise the response is chunked; trailers are written
   after a chunked body only (finalTrailers). ---- *)
Inductive rwop := OSetKey (k : bytes) (vv : list bytes) | OWriteHeader (st : N) | OWrite (p : bytes) | OFlush.
Record rwst := { rs_live : hdr; rs_status : option N; rs_snap : hdr; rs_pending : bytes; rs_committed : bool;
                 rs_chunking : bool; rs_cl : option nat; rs_declared : list bytes; rs_out : bytes }.
Definition BUFIO : nat := 2048.
Definition K_CL := bs "Content-Length"%string.
Definition has_key (h : hdr) (k : bytes) : bool := match hlookup h k with Some _ => true | None => false end.
(* foreachHeaderElement over the Trailer header + CanonicalHeaderKey (declareTrailer) *)
Definition declared_of (snap : hdr) : list bytes := map canon_key (flat_map conn_tokens (olist (hlookup snap K_TRAILER))).
Definition declares_trailers (snap : hdr) : bool :=
  has_key snap K_TRAILER || existsb (fun kv => has_prefix (fst kv) TRAILER_PREFIX) snap.
Definition chunking_of (body_ok done : bool) (snap : hdr) : bool :=
  body_ok && negb (has_key snap K_CL) && negb (done && negb (declares_trailers snap)).
Definition rw_init (h : hdr) : rwst :=
  {| rs_live := h; rs_status := None; rs_snap := []; rs_pending := []; rs_committed := false;
     rs_chunking := false; rs_cl := None; rs_declared := []; rs_out := [] |}.
Definition set_live (s : rwst) (l : hdr) : rwst :=
  {| rs_live := l; rs_status := rs_status s; rs_snap := rs_snap s; rs_pending := rs_pending s; rs_committed := rs_committed s;
     rs_chunking := rs_chunking s; rs_cl := rs_cl s; rs_declared := rs_declared s; rs_out := rs_out s |}.
Definition write_header (s : rwst) (st : N) : rwst :=
  match rs_status s with
  | Some _ => s
  | None => {| rs_live := rs_live s; rs_status := Some st; rs_snap := rs_live s; rs_pending := rs_pending s; rs_committed := rs_committed s;
               rs_chunking := rs_chunking s; rs_cl := rs_cl s; rs_declared := rs_declared s; rs_out := rs_out s |}
  end.
(* cw.writeHeader; [done] = the handler has returned, [plen] = bytes in the buffer at that moment *)
Definition commit (body_ok done : bool) (s : rwst) : rwst :=
  if rs_committed s then s else
  let ch := chunking_of body_ok done (rs_snap s) in
  {| rs_live := rs_live s; rs_status := rs_status s; rs_snap := rs_snap s; rs_pending := rs_pending s; rs_committed := true;
     rs_chunking := ch;
     rs_cl := if done && negb (declares_trailers (rs_snap s)) && body_ok && negb (has_key (rs_snap s) K_CL)
              then Some (length (rs_pending s)) else None;
     rs_declared := declared_of (rs_snap s); rs_out := rs_out s |}.
(* the buffer is handed to the connection (a response that may not have a body discards it) *)
Definition drain (body_ok : bool) (s : rwst) : rwst :=
  {| rs_live := rs_live s; rs_status := rs_status s; rs_snap := rs_snap s; rs_pending := []; rs_committed := rs_committed s;
     rs_chunking := rs_chunking s; rs_cl := rs_cl s; rs_declared := rs_declared s;
     rs_out := if body_ok then rs_out s ++ rs_pending s else rs_out s |}.
Definition buffer (s : rwst) (p : bytes) : rwst :=
  {| rs_live := rs_live s; rs_status := rs_status s; rs_snap := rs_snap s; rs_pending := rs_pending s ++ p; rs_committed := rs_committed s;
     rs_chunking := rs_chunking s; rs_cl := rs_cl s; rs_declared := rs_declared s; rs_out := rs_out s |}.
Definition rw_step (body_ok : bool) (s : rwst) (o : rwop) : rwst :=
  match o with
  | OSetKey k vv => set_live s (hput (rs_live s) k vv)
  | OWriteHeader st => write_header s st
  | OWrite p =>
      let s1 := buffer (write_header s 200) p in
      if Nat.leb (length (rs_pending s1)) BUFIO then s1 else drain body_ok (commit body_ok false s1)
  | OFlush => drain body_ok (commit body_ok false (write_header s 200))
  end.
Definition rw_finish (body_ok : bool) (s : rwst) : rwst := drain body_ok (commit body_ok true (write_header s 200)).
Definition rw_run (body_ok : bool) (h : hdr) (ops : list rwop) : rwst := rw_finish body_ok (fold_left (rw_step body_ok) ops (rw_init h)).
(* response.finalTrailers: every "Trailer:"-prefixed key of the handler's header map, then the
   values the map holds for the declared keys *)
Definition cut_prefix (p k : bytes) : option bytes := if has_prefix k p then Some (skipn (length p) k) else None.
Definition srv_final_trailers (live : hdr) (declared : list bytes) : hdr :=
  fold_left (fun t k => fold_left (fun t v => hadd t k v) (olist (hlookup live k)) t) declared
    (fold_left (fun t kv => match cut_prefix TRAILER_PREFIX (fst kv) with Some kk => hput t kk (snd kv) | None => t end) live []).
Definition rw_trailers (s : rwst) : hdr := if rs_chunking s then srv_final_trailers (rs_live s) (rs_declared s) else [].

(* ---- what ReverseProxy.ServeHTTP does to the ResponseWriter once the headers are copied:
   Trailer header for announced keys, WriteHeader, Flush when trailers are announced, the copy
   loop's writes ([mid]: possibly interleaved with Flush calls of the maxLatencyWriter), Flush when
   unannounced trailers arrived (len(res.Trailer) grew), shallowCopyTrailers ---- *)
Definition trailers_forced (b : bresp) : bool := negb (forallb (fun kv => mem (fst kv) (b_announced b)) (b_trailers b)).
Definition resp_ops_with (b : bresp) (mid : list rwop) : list rwop :=
  let ann := nodup_keys (b_announced b) in
  (if is_nil ann then [] else [OSetKey K_TRAILER ann]) ++ [OWriteHeader (b_status b)] ++ (if is_nil ann then [] else [OFlush]) ++
  mid ++
  (if trailers_forced b then [OFlush] else []) ++
  map (fun kv => OSetKey (if trailers_forced b then TRAILER_PREFIX ++ fst kv else fst kv) (snd kv)) (final_trailers b).
Definition resp_ops (b : bresp) (writes : list bytes) : list rwop := resp_ops_with b (map OWrite writes).
(* Flush calls (maxLatencyWriter's timer) may fall anywhere between the writes *)
Inductive flush_interleave : list rwop -> list rwop -> Prop :=
| FI_nil : flush_interleave [] []
| FI_keep o a b : flush_interleave a b -> flush_interleave (o :: a) (o :: b)
| FI_flush a b : flush_interleave a b -> flush_interleave a (OFlush :: b).
Definition payloads (ops : list rwop) : bytes := flat_map (fun o => match o with OWrite p => p | _ => [] end) ops.
(* the whole response half: header map handed to the ResponseWriter, then the operations above *)
Definition relay_response (c : pcfg) (e : reqenv) (live pre : hdr) (b : bresp) (body_ok : bool) (bufsz : nat) (r : breader) : rwst :=
  rw_run body_ok (copy_header pre (mutate_headers e live (c_down c) (c_downre c) (resp_strip (b_hdr b))))
         (resp_ops b (copy_writes bufsz r)).
(* the pre-f844a4b sequence (no Flush before unannounced trailers are set): kept to show what the
   second Flush is for, see C04_Props.C04_trailers_flush_needed *)
Definition resp_ops_old (b : bresp) (writes : list bytes) : list rwop :=
  let ann := nodup_keys (b_announced b) in
  (if is_nil ann then [] else [OSetKey K_TRAILER ann]) ++ [OWriteHeader (b_status b)] ++ (if is_nil ann then [] else [OFlush]) ++
  map OWrite writes ++
  map (fun kv => OSetKey (if trailers_forced b then TRAILER_PREFIX ++ fst kv else fst kv) (snd kv)) (final_trailers b).

(* copyHeader, pointwise (independent formulation): the value of header k on the client side given
   what was there (p) and what the backend response carries (s) *)
Definition nonempty (vv : list bytes) : oval := if is_nil vv then None else Some vv.
Definition copy_value (skip : list bytes) (p s : oval) (k : bytes) : oval :=
  match s with
  | None => p
  | Some vv =>
      match p with
      | None => nonempty vv
      | Some pv => if mem k skip then Some pv else if beq k K_SERVER then Some (pv ++ vv) else nonempty vv
      end
  end.

Definition no_diff (d : option N) : bool := match d with None => true | Some _ => false end.

(* ---- concurrent requests through one proxy (harness/c04_conc.go) ----
   Bodies are patterns: byte i of the body with salt s is pat_byte s i (c04BodyOf in the harness).
   A byte string is observed as: its length, the first offset where it differs from the expected
   pattern (computed by the harness), and its first and last [window] bytes verbatim. *)
Definition pat_byte (salt i : N) : N := (i * 7 + i / 251 + salt) mod 253.
Definition window : N := 48.
Fixpoint pat_range (salt start : N) (n : nat) : bytes :=
  match n with
  | O => []
  | S m => pat_byte salt start :: pat_range salt (start + 1) m
  end.
Definition pat (salt len : N) : bytes := pat_range salt 0 (N.to_nat len).
Record bobs := { bo_len : N; bo_diff : option N; bo_head : bytes; bo_tail : bytes }.
Definition desc_of_pat (salt len : N) : bobs :=
  let h := N.min len window in
  {| bo_len := len; bo_diff := None; bo_head := pat_range salt 0 (N.to_nat h);
     bo_tail := pat_range salt (len - h) (N.to_nat h) |}.
Definition opt_N_eqb (a b : option N) : bool :=
  match a, b with None, None => true | Some x, Some y => x =? y | _, _ => false end.
Definition bobs_eqb (a b : bobs) : bool :=
  (bo_len a =? bo_len b) && opt_N_eqb (bo_diff a) (bo_diff b) && beq (bo_head a) (bo_head b) && beq (bo_tail a) (bo_tail b).

(* newBufferedBody + rewind: the body is read once (ioutil.ReadAll) and every attempt of the retry
   loop reads the same bytes again from offset 0 *)
Definition buffered_attempt_bodies (body : bytes) (attempts : nat) : list bytes := repeat body attempts.

(* ---- bufferedBody (body.go): the buffered bytes and the read offset of the embedded bytes.Reader.
   Before EVERY attempt the retry loop calls rewind (Seek(0, SeekStart), whatever the offset);
   the attempt's transport then reads some of the body — all of it, or only [k] bytes when the
   backend dies mid-body — and that is where the next attempt finds the offset. ---- *)
Record bbody := { bb_data : bytes; bb_off : nat }.
Definition bb_len (b : bbody) : nat := length (bb_data b) - bb_off b.                    (* Reader.Len *)
Definition bb_rewind (b : bbody) : bbody := {| bb_data := bb_data b; bb_off := 0 |}.
(* reading at most k bytes (None: until EOF) *)
Definition bb_read (b : bbody) (k : option nat) : bytes * bbody :=
  let rest := skipn (bb_off b) (bb_data b) in
  let got := match k with Some n => firstn n rest | None => rest end in
  (got, {| bb_data := bb_data b; bb_off := bb_off b + length got |}).
Fixpoint attempt_reads_with (rw : bbody -> bbody) (b : bbody) (ks : list (option nat)) : list bytes :=
  match ks with
  | [] => []
  | k :: r => let '(got, b') := bb_read (rw b) k in got :: attempt_reads_with rw b' r
  end.
Definition attempt_reads : bbody -> list (option nat) -> list bytes := attempt_reads_with bb_rewind.
(* what every attempt must be able to read: the client's body from its first byte *)
Definition prefix_asked (body : bytes) (k : option nat) : bytes :=
  match k with Some n => firstn n body | None => body end.
(* a rewind that only acts on a drained body (offset = length), for C04_Props.C04_rewind_only_when_drained_refuted *)
Definition bb_rewind_if_drained (b : bbody) : bbody := if Nat.eqb (bb_len b) 0 then bb_rewind b else b.
Definition asked_of (z : Z) : option nat := if (z <? 0)%Z then None else Some (Z.to_nat z).

Record creq := { cr_salt : N; cr_len : N; cr_chunked : bool; cr_fails : nat; cr_rsalt : N; cr_rlen : N }.
Record cattempt := { ca_target : nat; ca_body : bobs; ca_cl : Z }.
Record cobs := { cq_attempts : list cattempt; cq_status : N; cq_ret : N; cq_body : bobs }.

(* model, on descriptors: S fails attempts, each carrying the request's own body; the client gets
   status 200 and the response's own body *)
Definition conc_model_ok (r : creq) (o : cobs) : bool :=
  list_beq bobs_eqb (map ca_body (cq_attempts o)) (repeat (desc_of_pat (cr_salt r) (cr_len r)) (S (cr_fails r))) &&
  (cq_status o =? 200) && bobs_eqb (cq_body o) (desc_of_pat (cr_rsalt r) (cr_rlen r)).

(* spec, written on the observed bytes: every byte that reached Coq is the byte of this request's
   own pattern at its offset, lengths are exact, the harness found no differing offset *)
Fixpoint bytes_are (l : bytes) (salt off : N) : bool :=
  match l with
  | [] => true
  | c :: r => (c =? pat_byte salt off) && bytes_are r salt (off + 1)
  end.
Definition own_bytes (o : bobs) (salt len : N) : bool :=
  let h := N.min len window in
  (bo_len o =? len) && no_diff (bo_diff o) &&
  (N.of_nat (length (bo_head o)) =? h) && (N.of_nat (length (bo_tail o)) =? h) &&
  bytes_are (bo_head o) salt 0 && bytes_are (bo_tail o) salt (len - h).
Definition conc_spec_fail (nhosts : nat) (r : creq) (o : cobs) : list bytes :=
  when_not (Nat.eqb (length (cq_attempts o)) (S (cr_fails r))) (tag "<attempts>"%string) ++
  when_not (forallb (fun a => Nat.ltb (ca_target a) nhosts) (cq_attempts o)) (tag "<target>"%string) ++
  when_not (forallb (fun a => own_bytes (ca_body a) (cr_salt r) (cr_len r)) (cq_attempts o)) (tag "<request-body>"%string) ++
  when_not (forallb (fun a => if cr_chunked r then (ca_cl a <=? 0)%Z else (ca_cl a =? Z.of_N (cr_len r))%Z) (cq_attempts o))
           (tag "<content-length>"%string) ++
  when_not ((cq_status o =? 200) && (cq_ret o =? 0)) (tag "<status>"%string) ++
  when_not (own_bytes (cq_body o) (cr_rsalt r) (cr_rlen r)) (tag "<response-body>"%string).


(* ---- retries after a backend died mid-body (harness kind "retrybody"): per attempt, how many body
   bytes its backend asked for before failing (-1: read to EOF), what it could read, the
   Content-Length it was announced, and whether it was a scripted failure ---- *)
Record ratt := { ra_asked : Z; ra_body : bobs; ra_cl : Z; ra_failed : bool }.
Definition eff_len (len : N) (asked : Z) : N := if (asked <? 0)%Z then len else N.min (Z.to_N asked) len.
(* descriptor of a byte string relative to the pattern of [salt] *)
Fixpoint first_diff (l : bytes) (salt off : N) : option N :=
  match l with
  | [] => None
  | c :: r => if c =? pat_byte salt off then first_diff r salt (off + 1) else Some off
  end.
Definition describe (salt : N) (l : bytes) : bobs :=
  let n := N.of_nat (length l) in
  let h := N.to_nat (N.min n window) in
  {| bo_len := n; bo_diff := first_diff l salt 0; bo_head := firstn h l; bo_tail := skipn (length l - h) l |}.
Definition SMALL_BODY : N := 600.
Definition retry_model_bodies (salt len : N) (asks : list Z) : list bobs :=
  if len <=? SMALL_BODY
  then map (describe salt) (attempt_reads {| bb_data := pat salt len; bb_off := 0 |} (map asked_of asks))
  else map (fun a => desc_of_pat salt (eff_len len a)) asks.
Fixpoint fails_then_ok (l : list bool) : bool :=
  match l with
  | [] => false
  | [f] => negb f
  | f :: r => f && fails_then_ok r
  end.
Definition retry_spec_fail (salt len : N) (chunked : bool) (atts : list ratt) (status ret : N) : list bytes :=
  when_not (fails_then_ok (map ra_failed atts)) (tag "<attempts>"%string) ++
  when_not (forallb (fun a => own_bytes (ra_body a) salt (eff_len len (ra_asked a))) atts) (tag "<request-body>"%string) ++
  when_not (forallb (fun a => if chunked then (ra_cl a <=? 0)%Z else (ra_cl a =? Z.of_N len)%Z) atts) (tag "<content-length>"%string) ++
  when_not ((status =? 200) && (ret =? 0)) (tag "<status>"%string).


(* ================= cases ================= *)
Record client_obs := { co_status : N; co_hdr : hdr; co_trailers : hdr; co_body : bytes }.
(* so_read: the attempt's backend read the body; so_asked: how many bytes it asked for before it
   failed (-1: until EOF); so_body: what it could read *)
Record sent_obs := { so_target : nat; so_method : bytes; so_sent : sent; so_read : bool; so_asked : Z; so_body : bytes; so_cl : Z; so_chunked : bool }.


(* ---- recording ResponseWriter (harness): the calls ReverseProxy.ServeHTTP made on it ---- *)
Inductive oop := XWriteHeader (st : N) | XWrite (n : N) | XFlush.
Record relay_obs := { ro_trailer_hdr : option (list bytes); (* Trailer header at WriteHeader time *)
                      ro_ops : list oop;
                      ro_post : hdr;                         (* keys assigned after WriteHeader *)
                      ro_body : bobs }.
Definition oop_eqb (a b : oop) : bool :=
  match a, b with
  | XWriteHeader x, XWriteHeader y => x =? y
  | XWrite x, XWrite y => x =? y
  | XFlush, XFlush => true
  | _, _ => false
  end.
(* projection of the model's operations: (Trailer header set before WriteHeader, calls, keys set afterwards) *)
Definition project_ops (ops : list rwop) : option (list bytes) * list oop * hdr :=
  let '(_, pre, xs, post) :=
  fold_left (fun (acc : bool * option (list bytes) * list oop * hdr) o =>
               let '(seen, pre, xs, post) := acc in
               match o with
               | OSetKey k vv => if seen then (seen, pre, xs, post ++ [(k, vv)])
                                 else (seen, (if beq k K_TRAILER then Some vv else pre), xs, post)
               | OWriteHeader st => (true, pre, xs ++ [XWriteHeader st], post)
               | OWrite p => (seen, pre, xs ++ [XWrite (N.of_nat (length p))], post)
               | OFlush => (seen, pre, xs ++ [XFlush], post)
               end) ops (false, None, [], []) in (pre, xs, post).
(* the observed calls as operations on the ResponseWriter model, the written bytes cut from [data] *)
Fixpoint rebuild (xs : list oop) (data : bytes) : list rwop :=
  match xs with
  | [] => []
  | XWriteHeader st :: r => OWriteHeader st :: rebuild r data
  | XFlush :: r => OFlush :: rebuild r data
  | XWrite n :: r => OWrite (firstn (N.to_nat n) data) :: rebuild r (skipn (N.to_nat n) data)
  end.
Definition write_sizes (xs : list oop) : list N := flat_map (fun x => match x with XWrite n => [n] | _ => [] end) xs.
Definition sumN (l : list N) : N := fold_left N.add l 0.
Definition opt_list_set_eqb (a b : option (list bytes)) : bool :=
  match a, b with None, None => true | Some x, Some y => set_eqb x y | _, _ => false end.
Definition status_allows_body (method : bytes) (st : N) : bool :=
  negb (beq method (bs "HEAD"%string)) && (200 <=? st) && negb (st =? 204) && negb (st =? 304).

Record seqitem := { si_q : request; si_body : bytes; si_chunked : bool; si_pre : hdr; si_b : bresp; si_bbody : bytes;
                    si_sent : list sent_obs; si_client : client_obs; si_ret : N }.

Inductive case :=
| CKey (s obs : bytes)
| CSjs (a b obs : bytes)
| CReplace (q : request) (s obs : bytes)
| CMatch (path : bytes) (froms : list bytes) (obs : option nat)
(* scripted transport: directives, the targets of the block, the request, its body and framing,
   headers already on the ResponseWriter, scripted backend answer + body, number of failing
   attempts, retries configured?; observations: every attempt seen by the transport, what the
   client got, status code returned to the server *)
| CProxy (ds : list directive) (ts : list target) (q : request) (body : bytes) (chunked : bool)
         (pre : hdr) (b : bresp) (bbody : bytes) (fails : nat) (retry : bool)
         (obs_sent : list sent_obs) (obs_client : client_obs) (obs_ret : N)
(* real sockets on both sides: sizes and first differing offsets instead of the bytes *)
| CWire (method : bytes) (req_len : N) (req_chunked : bool) (up_method : bytes) (up_len : N) (up_diff : option N)
        (up_cl : Z) (b : bresp) (b_len : N) (c_status : N) (c_len : N) (c_diff : option N)
        (c_hdr : hdr) (c_trailers : hdr) (c_chunked : bool)
(* scripted backend body reader (pattern body, per-Read caps, EOF with or after the last bytes) through
   Proxy.ServeHTTP into a recording ResponseWriter: every call on the writer, in order *)
| CRelay (b : bresp) (salt len : N) (script : list nat) (eofd : bool) (obs : relay_obs)
(* concurrent requests through one proxy with retries (see above) *)
| CConc (nhosts : nat) (reqs : list (creq * cobs))
(* one request whose first attempts die after their backend read only part of the body (scripted
   transport, or the real transport against loopback backends that reset the connection) *)
| CRetryBody (wire : bool) (salt len : N) (chunked : bool) (atts : list ratt) (status ret : N)
(* 2-4 requests, one after the other or concurrently, through ONE parsed upstream block (scripted
   transport): each request with what its backend saw and what its client got *)
| CSeq (ds : list directive) (ts : list target) (retry : bool) (items : list seqitem).

Definition opt_nat_eqb (a b : option nat) : bool :=
  match a, b with None, None => true | Some x, Some y => Nat.eqb x y | _, _ => false end.

(* the rule table is a Go map: the fields that target header k are tried in every order *)
Definition reorder_for (k : bytes) (rules : list rule) : list (list rule) :=
  let mine := filter (fun r : rule => beq (rule_target (fst r)) k) rules in
  let others := filter (fun r : rule => negb (beq (rule_target (fst r)) k)) rules in
  match mine with
  | [] | [_] => [rules]
  | _ => rules :: map (fun p => others ++ p) (perms mine)
  end.
Definition with_up (c : pcfg) (r : hdr) : pcfg :=
  {| c_up := r; c_down := c_down c; c_upre := c_upre c; c_downre := c_downre c; c_without := c_without c |}.
Definition with_down (c : pcfg) (r : hdr) : pcfg :=
  {| c_up := c_up c; c_down := r; c_upre := c_upre c; c_downre := c_downre c; c_without := c_without c |}.

Definition dflt_url : urlst := {| u_path := []; u_rawpath := []; u_query := [] |}.
Definition dflt_target : target := {| t_host := []; t_path := []; t_rawpath := []; t_query := []; t_auth := None |}.
Definition dflt_sent : sent := {| o_host := []; o_urlhost := []; o_url := dflt_url; o_hdr := [] |}.

(* model vs implementation, request direction: failing (attempt, item) pairs *)
Definition sent_eqb (a b : sent) : bool :=
  beq (o_host a) (o_host b) && beq (o_urlhost a) (o_urlhost b) && urlst_eqb (o_url a) (o_url b) &&
  hdr_eqb (o_hdr a) (o_hdr b).
Definition agree_sent_pointwise (cfg : pcfg) (retriable : bool) (q : request) (chosen : list target) (obs : list sent) : list (nat * bytes) :=
  let m0s := fst (run_request cfg retriable q chosen) in
  flat_map (fun i =>
    let o := nth i obs dflt_sent in
    let m0 := nth i m0s dflt_sent in
    let keys := keys_of (o_hdr o) ++ keys_of (o_hdr m0) ++ [K_HOST] in
    map (fun t => (i, t))
      (when_not (beq (o_urlhost m0) (o_urlhost o)) (tag "<urlhost>"%string) ++
       when_not (urlst_eqb (o_url m0) (o_url o)) (tag "<url>"%string) ++
       filter (fun k =>
                 negb ((oval_eqb (hlookup (o_hdr m0) k) (hlookup (o_hdr o) k) &&
                        (negb (beq k K_HOST) || beq (o_host m0) (o_host o))) ||
                       existsb (fun rules =>
                                  let m := nth i (fst (run_request (with_up cfg rules) retriable q chosen)) dflt_sent in
                                  oval_eqb (hlookup (o_hdr m) k) (hlookup (o_hdr o) k) &&
                                  (negb (beq k K_HOST) || beq (o_host m) (o_host o)))
                               (tl (reorder_for k (c_up cfg))))) keys))
    (seq 0 (length obs)).

(* The client of the proxied cases is httptest's ResponseRecorder.  Its Result() reports as trailers,
   for every key declared in the snapshotted Trailer header, the values the header map holds under that
   key at the end, and then adds the values of every TrailerPrefix key.  As long as every trailer was
   announced, shallowCopyTrailers has ASSIGNED the declared keys: the final trailers.  Once an
   unannounced trailer arrived, all trailers were set under the prefix and the declared keys still
   hold what the response HEADER of that name holds ([snap]: the snapshotted header) - the behaviour
   of net/http's own writer (srv_final_trailers) up to the order of the values; finding F-C04-7. *)
Definition rec_trailers (snap : hdr) (b : bresp) : hdr :=
  if trailers_forced b then
    fold_left (fun t kv => fold_left (fun t v => hadd t (fst kv) v) (snd kv) t) (final_trailers b)
              (flat_map (fun k => match hlookup snap k with Some vs => [(k, vs)] | None => [] end)
                        (nodup_keys (b_announced b)))
  else final_trailers b.
Definition agree_client_fail (cfg : pcfg) (q : request) (live : hdr) (pre : hdr) (b : bresp) (oc : client_obs) : list bytes :=
  let m0 := client_view cfg (env_of q) live pre b in
  let keys := keys_of (co_hdr oc) ++ keys_of (v_hdr m0) in
  when_not (co_status oc =? v_status m0) (tag "<status>"%string) ++
  when_not (hdr_eqb_ne (co_trailers oc) (rec_trailers (co_hdr oc) b)) (tag "<trailers>"%string) ++
  filter (fun k =>
            negb (if beq k K_TRAILER then
                    match hlookup (co_hdr oc) k, hlookup (v_hdr m0) k with
                    | Some x, Some y => set_eqb x y
                    | None, None => true
                    | _, _ => false
                    end
                  else oval_eqb (hlookup (v_hdr m0) k) (hlookup (co_hdr oc) k) ||
                       existsb (fun rules =>
                                  let m := client_view (with_down cfg rules) (env_of q) live pre b in
                                  oval_eqb (hlookup (v_hdr m) k) (hlookup (co_hdr oc) k))
                               (tl (reorder_for k (c_down cfg))))) keys.

Definition spec_attempt_fail (ds : list directive) (ts : list target) (q : request) (body : bytes) (chunked : bool)
           (so : sent_obs) : list bytes :=
  when_not (Nat.ltb (so_target so) (length ts)) (tag "<target>"%string) ++
  when_not (beq (so_method so) (q_method q)) (tag "<method>"%string) ++
  when_not (negb (so_read so) || beq (so_body so) (prefix_asked body (asked_of (so_asked so)))) (tag "<body>"%string) ++
  when_not (if chunked then (so_cl so <=? 0)%Z else (so_cl so =? Z.of_nat (length body))%Z) (tag "<content-length>"%string) ++
  spec_sent_fail ds q (nth (so_target so) ts dflt_target) (so_sent so).


(* ---- one proxied request judged by itself: CProxy, and every request of a CSeq ---- *)
Definition proxy_agree (ds : list directive) (ts : list target) (q : request) (body : bytes) (pre : hdr) (b : bresp)
           (fails : nat) (retry : bool) (obs_sent : list sent_obs) (oc : client_obs) (ret : N) : bool :=
  let cfg := parse_cfg ds in
  let chosen := map (fun so => nth (so_target so) ts dflt_target) obs_sent in
  let answered := Nat.ltb fails (length obs_sent) in
  let readers := filter so_read obs_sent in
  list_beq beq (map so_body readers)
           (attempt_reads {| bb_data := body; bb_off := 0 |} (map (fun so => asked_of (so_asked so)) readers)) &&
  is_nil (agree_sent_pointwise cfg retry q chosen (map so_sent obs_sent)) &&
  (if answered then is_nil (agree_client_fail cfg q (q_hdr q) pre b oc) else (ret =? 502)).
Definition proxy_spec (ds : list directive) (ts : list target) (q : request) (body : bytes) (chunked : bool) (pre : hdr) (b : bresp)
           (bbody : bytes) (fails : nat) (retry : bool) (obs_sent : list sent_obs) (oc : client_obs) (ret : N) : bool :=
  let nobs := length obs_sent in
  Nat.eqb nobs (if retry then S fails else 1%nat) &&
  forallb (fun so => is_nil (spec_attempt_fail ds ts q body chunked so)) obs_sent &&
  (if Nat.ltb fails nobs then
     (ret =? 0) && beq (co_body oc) bbody &&
     is_nil (spec_client_fail ds q pre b {| w_status := co_status oc; w_hdr := co_hdr oc; w_trailers := co_trailers oc |})
   else (ret =? 502)).

(* ---- a SEQUENCE of requests served with one loaded configuration (harness kind "seq") ----
   Proxy.ServeHTTP builds everything that evaluates the header rules per request: the replacer
   (httpserver.NewReplacer(r, nil, "")), the outgoing request (createUpstreamRequest) and, inside the
   retry loop, the response update function (createRespHeaderUpdateFn(host.DownstreamHeaders,
   replacer, ...)). What an UpstreamHost keeps between requests (Conns, Fails, Unhealthy) feeds the
   policy's Select only. [exch]: one request as it meets the host the policy chose, with the headers
   already on its ResponseWriter and its backend's response. The sequence model hands every step
   the HISTORY (all exchanges served before through the same configuration), which is everything a
   host object could remember; the step of the code as it is ([serve_one]) does not look at it. *)
Record exch := { x_q : request; x_t : target; x_pre : hdr; x_b : bresp }.
Record xres := { xr_sent : sent; xr_view : cview }.
(* [dq]: the request whose replacer evaluates the header_downstream placeholders *)
Definition serve_with (c : pcfg) (retriable : bool) (dq : request) (x : exch) : xres :=
  {| xr_sent := nth 0 (fst (run_request c retriable (x_q x) [x_t x])) dflt_sent;
     xr_view := client_view c (env_of dq) (q_hdr dq) (x_pre x) (x_b x) |}.
Definition serve_one (c : pcfg) (retriable : bool) (x : exch) : xres := serve_with c retriable (x_q x) x.
Fixpoint serve_seq_with (step : list exch -> exch -> xres) (hist xs : list exch) : list xres :=
  match xs with
  | [] => []
  | x :: r => step hist x :: serve_seq_with step (hist ++ [x]) r
  end.
Definition serve_seq (c : pcfg) (retriable : bool) : list exch -> list exch -> list xres :=
  serve_seq_with (fun _ x => serve_one c retriable x).
(* for contrast (C04_Props.C04_downstream_fn_cached_per_host_differs): a response update function
   built once per host and kept, its closure holding the replacer of the FIRST request that reached
   that host *)
Definition first_to_host (hist : list exch) (x : exch) : exch :=
  match find (fun f => beq (t_host (x_t f)) (t_host (x_t x))) hist with Some f => f | None => x end.
Definition serve_seq_cached (c : pcfg) (retriable : bool) : list exch -> list exch -> list xres :=
  serve_seq_with (fun hist x => serve_with c retriable (x_q (first_to_host hist x)) x).


Definition judge (c : case) : N :=
  match c with
  | CKey s obs => verdict (beq (canon_key s) obs) true
  | CSjs a b obs => verdict (beq (sjs a b) obs) (beq obs (join_one_slash a b))
  | CReplace q s obs => verdict (beq (replace_ph (subst_of (env_of q) (q_hdr q)) s) obs) true
  | CMatch path froms obs =>
      let spec := match obs with
                  | None => forallb (fun f => negb (path_matches false path f)) froms
                  | Some i => match nth_error froms i with
                              | Some f => path_matches false path f &&
                                          forallb (fun g => negb (path_matches false path g) || Nat.leb (length g) (length f)) froms &&
                                          forallb (fun g => negb (path_matches false path g) || Nat.ltb (length g) (length f)) (firstn i froms)
                              | None => false
                              end
                  end in
      verdict (opt_nat_eqb (match_upstream path froms) obs) spec
  | CProxy ds ts q body chunked pre b bbody fails retry obs_sent oc ret =>
      verdict (proxy_agree ds ts q body pre b fails retry obs_sent oc ret)
              (proxy_spec ds ts q body chunked pre b bbody fails retry obs_sent oc ret)
  | CWire method req_len req_chunked up_method up_len up_diff up_cl b b_len c_status c_len c_diff c_hdr c_trailers c_chunked =>
      let spec :=
        beq up_method method && (up_len =? req_len) && no_diff up_diff &&
        (if req_chunked then true else (up_cl =? Z.of_N req_len)%Z) &&
        (c_status =? b_status b) && (c_len =? b_len) && no_diff c_diff &&
        forallb (fun kv => if is_hop_for (b_hdr b) (fst kv)
                           then beq (fst kv) K_CONNECTION || is_nil (olist (hlookup c_hdr (fst kv)))
                           else oval_eqb (hlookup c_hdr (fst kv)) (Some (snd kv))) (b_hdr b) &&
        hdr_eqb_ne c_trailers (b_trailers b) in
      let e0 := {| e_method := method; e_host := []; e_remote := [] |} in
      let m := client_view cfg0 e0 [] [] b in
      (* framing and trailers of the ResponseWriter model only depend on min(body length, BUFIO+1) *)
      let s := relay_response cfg0 e0 [] [] b (status_allows_body method (b_status b)) POOL_BUF
                 {| r_data := repeat 0 (Nat.min (N.to_nat b_len) (S BUFIO)); r_script := []; r_eofd := false |} in
      (* the trailers: what the ResponseWriter model sends (below); the short view v_trailers is the
         same as long as no unannounced trailer arrived (C04_trailers_shared_name_spec) - with one, the
         writer also sends the header map's values of the declared keys (F-C04-7) *)
      let agree := (c_status =? v_status m) && (trailers_forced b || hdr_eqb_ne c_trailers (v_trailers m)) &&
                   forallb (fun kv => beq (fst kv) K_CONNECTION || oval_eqb (hlookup c_hdr (fst kv)) (hlookup (v_hdr m) (fst kv))) (b_hdr b) &&
                   hdr_eqb_ne c_trailers (rw_trailers s) && (negb (rs_chunking s) || c_chunked) &&
                   (negb (has_key (rs_snap s) K_CL) || negb c_chunked) in
      verdict agree spec
  | CRelay b salt len script eofd obs =>
      let data := pat salt len in
      let '(mpre, mxs, mpost) := project_ops (resp_ops b (copy_writes POOL_BUF {| r_data := data; r_script := script; r_eofd := eofd |})) in
      let agree := opt_list_set_eqb (ro_trailer_hdr obs) mpre && list_beq oop_eqb (ro_ops obs) mxs && hdr_eqb (ro_post obs) mpost in
      (* the property on the implementation's own calls: run the ResponseWriter model on them *)
      let ops := match ro_trailer_hdr obs with Some vv => [OSetKey K_TRAILER vv] | None => [] end ++
                 rebuild (ro_ops obs) data ++ map (fun kv => OSetKey (fst kv) (snd kv)) (ro_post obs) in
      let s := rw_run true (resp_strip (b_hdr b)) ops in
      let has_tr := negb (is_nil (b_announced b)) || negb (is_nil (b_trailers b)) in
      let spec :=
        (sumN (write_sizes (ro_ops obs)) =? len) && own_bytes (ro_body obs) salt len &&
        forallb (fun n => (0 <? n) && (n <=? N.of_nat POOL_BUF)) (write_sizes (ro_ops obs)) &&
        beq (rs_out s) data &&
        (match rs_status s with Some st => st =? b_status b | None => false end) &&
        hdr_eqb_ne (rw_trailers s) (b_trailers b) && (negb has_tr || rs_chunking s) &&
        (is_nil (b_announced b) || match hlookup (rs_snap s) K_TRAILER with Some ks => set_eqb ks (b_announced b) | None => false end) in
      verdict agree spec
  | CConc nhosts reqs =>
      verdict (forallb (fun ro => conc_model_ok (fst ro) (snd ro)) reqs)
              (forallb (fun ro => is_nil (conc_spec_fail nhosts (fst ro) (snd ro))) reqs)
  | CRetryBody wire salt len chunked atts status ret =>
      verdict (list_beq bobs_eqb (map ra_body atts) (retry_model_bodies salt len (map ra_asked atts)) && (status =? 200))
              (is_nil (retry_spec_fail salt len chunked atts status ret))
  (* every request of the sequence is judged by itself: against the model and the spec evaluated on
     THAT request, its backend's response and the configuration *)
  | CSeq ds ts retry items =>
      verdict (forallb (fun it => proxy_agree ds ts (si_q it) (si_body it) (si_pre it) (si_b it) 0 retry
                                              (si_sent it) (si_client it) (si_ret it)) items)
              (forallb (fun it => proxy_spec ds ts (si_q it) (si_body it) (si_chunked it) (si_pre it) (si_b it) (si_bbody it) 0 retry
                                             (si_sent it) (si_client it) (si_ret it)) items)
  end.
