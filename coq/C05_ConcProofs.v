(* C05 — several requests in one process: round robin counters per block, and the bytes of a buffered
   request body while other traffic uses the shared buffer pool. *)
Require Import V.Lib V.C05_Model V.C05_Proofs V.C05_RRProofs.
From Coq Require Import Lia ZifyBool ZifyN ZifyNat.
Open Scope N_scope.

(* ---------- lists ---------- *)
Lemma set_nth_length {A} (i : nat) (v : A) l : length (set_nth i v l) = length l.
Proof. revert i. induction l as [|x l IH]; intros [|i]; cbn; try reflexivity. rewrite IH. reflexivity. Qed.
Lemma nth_set_nth_eq {A} (i : nat) (v d : A) l : (i < length l)%nat -> nth i (set_nth i v l) d = v.
Proof. revert i. induction l as [|x l IH]; intros [|i] H; cbn in *; try lia; [reflexivity|]. apply IH. lia. Qed.
Lemma nth_set_nth_neq {A} (i j : nat) (v d : A) l : i <> j -> nth i (set_nth j v l) d = nth i l d.
Proof.
  revert i j. induction l as [|x l IH]; intros i j H; [destruct j; reflexivity|].
  destruct j as [|j], i as [|i]; cbn; try reflexivity; [lia|]. apply IH. lia.
Qed.
Lemma in_remove_nth {A} (i : nat) (x : A) l : In x (remove_nth i l) -> In x l.
Proof.
  revert i. induction l as [|y l IH]; intros [|i] H; cbn in *; try contradiction; [right; exact H|].
  destruct H as [H|H]; [left; exact H|right; exact (IH i H)].
Qed.

(* ---------- round robin: one counter per block ---------- *)
Lemma rrb_proj : forall sched avs st b, (b < length st)%nat ->
  proj b sched (rrb_run avs st sched) = rrs_run (nth b avs []) (nth b st 0) (count_nat b sched).
Proof.
  induction sched as [|s r IH]; intros avs st b Hb; [reflexivity|].
  cbn [rrb_run]. destruct (sel_of (PRoundRobin 0) (nth s st 0) (nth s avs [])) as [o s'] eqn:E.
  cbn [proj]. unfold count_nat. cbn [filter]. rewrite (Nat.eqb_sym b s).
  destruct (Nat.eqb_spec s b) as [->|Hne].
  - cbn [length rrs_run]. rewrite E. f_equal.
    fold (count_nat b r). rewrite (IH avs (set_nth b s' st) b) by (rewrite set_nth_length; exact Hb).
    rewrite nth_set_nth_eq by exact Hb. reflexivity.
  - fold (count_nat b r). rewrite (IH avs (set_nth s s' st) b) by (rewrite set_nth_length; exact Hb).
    rewrite nth_set_nth_neq by (intros H; apply Hne; symmetry; exact H). reflexivity.
Qed.

Lemma forallb_existsb_id av : (1 <= length av)%nat -> forallb (fun b : bool => b) av = true -> existsb (fun b : bool => b) av = true.
Proof. destruct av as [|a av]; cbn; [lia|]. intros _ H. apply andb_prop in H as [-> _]. reflexivity. Qed.

Lemma rrs_run_rr_run : forall m av robin, (2 <= length av)%nat -> forallb (fun b : bool => b) av = true ->
  rrs_run av robin m = rr_run av robin m.
Proof.
  induction m as [|m IH]; intros av robin Hn Hall; [reflexivity|]. cbn [rrs_run rr_run sel_of].
  destruct av as [|a [|a' av]]; cbn [length] in Hn; try lia.
  rewrite (forallb_existsb_id (a :: a' :: av)) by (cbn [length]; lia || exact Hall).
  destruct (rr_select (a :: a' :: av) robin) as [o robin']. f_equal. apply IH; assumption.
Qed.

Lemma rr_even_per_block avs st sched b k j :
  (b < length st)%nat -> (2 <= length (nth b avs []))%nat -> N.of_nat (length (nth b avs [])) < U32 ->
  forallb (fun x : bool => x) (nth b avs []) = true ->
  count_nat b sched = (k * length (nth b avs []))%nat -> (j < length (nth b avs []))%nat ->
  exists l, proj b sched (rrb_run avs st sched) = map Some l /\ cnt j l = k.
Proof.
  intros Hb Hn Hu Hall Hc Hj. rewrite (rrb_proj sched avs st b Hb), Hc.
  rewrite rrs_run_rr_run by assumption.
  destruct (rr_counts_run (nth b avs []) (nth b st 0) k j ltac:(lia) Hu Hall Hj) as [E C].
  eexists. split; [exact E|exact C].
Qed.

(* two blocks of two hosts served alternately: with per-block counters each block alternates between
   its hosts; with ONE shared counter block 0 only ever reaches its host 1 and block 1 its host 0 *)
Lemma rr_shared_counter_starves :
  let avs := [[true; true]; [true; true]] in
  let sched := [0; 1; 0; 1; 0; 1; 0; 1]%nat in
  proj 0 sched (rrb_run avs [0; 0] sched) = [Some 1; Some 0; Some 1; Some 0]%nat /\
  proj 1 sched (rrb_run avs [0; 0] sched) = [Some 1; Some 0; Some 1; Some 0]%nat /\
  proj 0 sched (rrb_run_shared avs 0 sched) = [Some 1; Some 1; Some 1; Some 1]%nat /\
  proj 1 sched (rrb_run_shared avs 0 sched) = [Some 0; Some 0; Some 0; Some 0]%nat /\
  block_fair [true; true] (proj 0 sched (rrb_run avs [0; 0] sched)) = true /\
  block_fair [true; true] (proj 0 sched (rrb_run_shared avs 0 sched)) = false.
Proof. vm_compute. repeat split; reflexivity. Qed.

(* ---------- the buffered body's bytes and the buffer pool ---------- *)
Definition minv (s : mem * bbody) (body : block) : Prop :=
  let '(m, b) := s in
  nth (bb_block b) (m_heap m) [] = body /\ bb_len b = length body /\ (bb_block b < length (m_heap m))%nat /\
  ~ In (bb_block b) (m_pool m) /\ ~ In (bb_block b) (m_held m) /\ mem_wf m.

Lemma new_body_inv m body : mem_wf m -> minv (new_body m body) body.
Proof.
  intros [Wp Wh]. unfold new_body, minv. cbn [bb_block bb_len m_heap m_pool m_held].
  rewrite app_length. cbn [length]. repeat split.
  - rewrite app_nth2 by lia. rewrite Nat.sub_diag. reflexivity.
  - lia.
  - intros H. specialize (Wp _ H). lia.
  - intros H. specialize (Wh _ H). lia.
  - intros k H. cbn [m_heap m_pool] in *. rewrite app_length. specialize (Wp _ H). lia.
  - intros k H. cbn [m_heap m_held] in *. rewrite app_length. specialize (Wh _ H). lia.
Qed.

Lemma mstep_inv s body e : minv s body ->
  minv (fst (mstep false s e)) body /\ (forall got, snd (mstep false s e) = Some got -> got = body).
Proof.
  destruct s as [m b]. intros (Hb & Hl & Hlt & Hp & Hh & Wp & Wh). destruct e as [pick|h data|h|]; cbn [mstep].
  - destruct (nth_error (m_pool m) pick) as [k|] eqn:E; cbn [fst snd]; (split; [|discriminate]).
    + assert (Hk : In k (m_pool m)) by (eapply nth_error_In; exact E).
      unfold minv. cbn [m_heap m_pool m_held]. repeat split; try assumption.
      * intros H. apply Hp. eapply in_remove_nth. exact H.
      * intros H. apply in_app_or in H as [H|[H|[]]]; [exact (Hh H)|]. subst k. exact (Hp Hk).
      * intros x H. apply Wp. eapply in_remove_nth. exact H.
      * intros x H. apply in_app_or in H as [H|[H|[]]]; [exact (Wh _ H)|]. subst x. exact (Wp _ Hk).
    + unfold minv. cbn [m_heap m_pool m_held]. rewrite app_length. cbn [length]. repeat split; try assumption.
      * rewrite app_nth1 by exact Hlt. exact Hb.
      * lia.
      * intros H. apply in_app_or in H as [H|[H|[]]]; [exact (Hh H)|]. lia.
      * intros x H. cbn [m_heap m_pool] in *. rewrite app_length. specialize (Wp _ H). lia.
      * intros x H. cbn [m_heap m_held] in *. rewrite app_length. cbn [length]. apply in_app_or in H as [H|[H|[]]]; [specialize (Wh _ H); lia|lia].
  - destruct (nth_error (m_held m) h) as [k|] eqn:E; cbn [fst snd]; (split; [|discriminate]).
    + assert (Hk : In k (m_held m)) by (eapply nth_error_In; exact E).
      assert (Hne : bb_block b <> k) by (intros Hx; rewrite <- Hx in Hk; exact (Hh Hk)).
      unfold minv. cbn [m_heap m_pool m_held]. rewrite set_nth_length. repeat split; try assumption.
      * rewrite nth_set_nth_neq by exact Hne. exact Hb.
      * intros x H. cbn [m_heap m_pool]. rewrite set_nth_length. exact (Wp _ H).
      * intros x H. cbn [m_heap m_held]. rewrite set_nth_length. exact (Wh _ H).
    + unfold minv. repeat split; assumption.
  - destruct (nth_error (m_held m) h) as [k|] eqn:E; cbn [fst snd]; (split; [|discriminate]).
    + assert (Hk : In k (m_held m)) by (eapply nth_error_In; exact E).
      unfold minv. cbn [m_heap m_pool m_held]. repeat split; try assumption.
      * intros [H|H]; [subst k; exact (Hh Hk)|exact (Hp H)].
      * intros H. apply Hh. eapply in_remove_nth. exact H.
      * intros x [H|H]; [subst x; exact (Wh _ Hk)|exact (Wp _ H)].
      * intros x H. apply Wh. eapply in_remove_nth. exact H.
    + unfold minv. repeat split; assumption.
  - cbn [andb fst snd]. split; [unfold minv; repeat split; assumption|].
    intros got H. injection H as <-. rewrite Hb, Hl. apply firstn_all.
Qed.

Lemma mstep_not_attempt cp s e : is_attempt e = false -> snd (mstep cp s e) = None.
Proof.
  destruct s as [m b]. destruct e as [pick|h data|h|]; cbn [mstep is_attempt]; intros H; try discriminate.
  - destruct (nth_error (m_pool m) pick); reflexivity.
  - destruct (nth_error (m_held m) h); reflexivity.
  - destruct (nth_error (m_held m) h); reflexivity.
Qed.
Lemma mstep_attempt cp s : exists got, snd (mstep cp s MAttempt) = Some got.
Proof. destruct s as [m b]. cbn [mstep]. destruct (cp && negb (bb_put b)); eexists; reflexivity. Qed.

Lemma mrun_body : forall evs s body, minv s body ->
  mrun false s evs = repeat body (length (filter is_attempt evs)).
Proof.
  induction evs as [|e r IH]; intros s body Hi; [reflexivity|]. cbn [mrun filter].
  destruct (mstep_inv s body e Hi) as [Hi' Hg].
  destruct (is_attempt e) eqn:A.
  - assert (e = MAttempt) as -> by (destruct e; try discriminate A; reflexivity).
    destruct (mstep_attempt false s) as [got Hs].
    destruct (mstep false s MAttempt) as [s' o]. cbn [fst snd] in *. subst o.
    rewrite (Hg got eq_refl). cbn [length repeat]. f_equal. apply IH. exact Hi'.
  - pose proof (mstep_not_attempt false s e A) as Hn.
    destruct (mstep false s e) as [s' o]. cbn [fst snd] in *. subst o. apply IH. exact Hi'.
Qed.

(* every attempt of the request, whatever the other goroutines do with the pool in between *)
Lemma retry_body_bytes_survive m body evs : mem_wf m ->
  mrun false (new_body m body) evs = repeat body (length (filter is_attempt evs)).
Proof. intros W. apply mrun_body. apply new_body_inv. exact W. Qed.

Lemma mem_wf_empty : mem_wf (mk_mem [] [] []).
Proof. split; intros k []. Qed.

(* a Close that hands the body's block to the pool after the first attempt: a response relayed (or a
   body buffered) through that block between the failure and the retry is what the retry sends *)
Lemma pooled_close_differs :
  let evs := [MAttempt; MGet 0; MWrite 0 [9; 9]; MPut 0; MAttempt] in
  mrun false (new_body (mk_mem [] [] []) [1; 2; 3]) evs = [[1; 2; 3]; [1; 2; 3]] /\
  mrun true (new_body (mk_mem [] [] []) [1; 2; 3]) evs = [[1; 2; 3]; [9; 9; 3]].
Proof. vm_compute. split; reflexivity. Qed.

Lemma retry_body_bytes_witness :
  mem_wf (mk_mem [] [] []) /\
  let evs := [MAttempt; MGet 0; MWrite 0 [9; 9]; MPut 0; MAttempt] in
  mrun false (new_body (mk_mem [] [] []) [1; 2; 3]) evs = [[1; 2; 3]; [1; 2; 3]] /\
  mrun true (new_body (mk_mem [] [] []) [1; 2; 3]) evs = [[1; 2; 3]; [9; 9; 3]].
Proof. split; [exact mem_wf_empty|exact pooled_close_differs]. Qed.

(* the observation of a pattern body is recognised as the request's own bytes *)
Lemma bytes_are_pat_range : forall n salt off, bytes_are (pat_range salt off n) salt off = true.
Proof. induction n as [|n IH]; intros salt off; [reflexivity|]. cbn [pat_range bytes_are]. rewrite N.eqb_refl, IH. reflexivity. Qed.
Lemma pat_range_length : forall n salt off, length (pat_range salt off n) = n.
Proof. induction n as [|n IH]; intros; [reflexivity|]. cbn [pat_range length]. rewrite IH. reflexivity. Qed.
Lemma own_bytes_desc salt len : own_bytes (desc_of_pat salt len) salt len = true.
Proof.
  unfold own_bytes, desc_of_pat. cbn [bo_len bo_diff bo_head bo_tail].
  rewrite !pat_range_length, !bytes_are_pat_range, N.eqb_refl, N2Nat.id, N.eqb_refl. reflexivity.
Qed.
