(* C17 — body-size limits and listener-wide "strictest" merging: executable model.
   Mirrors caskethttp/limits/handler.go (maxBytesReader, Limit.ServeHTTP),
   limits/setup.go (SortPathLimits order), httpserver/server.go
   (makeHTTPServerWithTimeouts, makeHTTPServerWithHeaderLimit), proxy 413 mapping. *)
Require Import V.Lib V.GoPath.
Open Scope Z_scope.

Inductive rerr := EOF | TooLarge | ErrOther.
Definition rerr_code (e : option rerr) : N :=
  match e with None => 0%N | Some EOF => 1%N | Some TooLarge => 2%N | Some ErrOther => 3%N end.


(* ---- Go int64 arithmetic: two's complement wrap ---- *)
Definition two63 : Z := 9223372036854775808.
Definition max_int64 : Z := two63 - 1.
Definition wrap64 (z : Z) : Z := (z + two63) mod (2 * two63) - two63.

(* outcome of a Go call that may panic, or hand a NEGATIVE byte count back to its caller *)
Inductive r64 (T : Type) : Type := R_ok (x : T) | R_panic | R_neg (n : Z).
Arguments R_ok {T} x.
Arguments R_panic {T}.
Arguments R_neg {T} n.
Definition r64_code {T} (r : r64 T) : N := match r with R_ok _ => 0%N | R_panic => 1%N | R_neg _ => 2%N end.

Section Reader.
Context {A : Type}.

(* underlying reader: remaining data, per-call size caps (exhausted = uncapped),
   and whether the final bytes come together with io.EOF *)
Record ureader := { u_data : list A; u_script : list nat; u_eof_with_data : bool }.

Definition u_read (u : ureader) (m : nat) : list A * option rerr * ureader :=
  match m with O => ([], None, u) | _ =>
  match u_data u with
  | [] => ([], Some EOF, u)
  | _ =>
    let cap := match u_script u with [] => m | k :: _ => Nat.min k m end in
    let d := firstn cap (u_data u) in
    let rest := skipn cap (u_data u) in
    let e := match rest with [] => if u_eof_with_data u then Some EOF else None | _ => None end in
    (d, e, {| u_data := rest; u_script := tl (u_script u); u_eof_with_data := u_eof_with_data u |})
  end end.

(* maxBytesReader{r, n, err} *)
Record mbr := { m_n : Z; m_err : option rerr; m_u : ureader }.

Definition mbr_read (s : mbr) (m : nat) : list A * option rerr * mbr :=
  match m_err s with
  | Some e => ([], Some e, s)
  | None =>
    match m with
    | O => ([], None, s)
    | _ =>
      let m' := if Z.of_nat m - 1 >? m_n s then Z.to_nat (m_n s + 1) else m in
      let '(d, e, u') := u_read (m_u s) m' in
      let k := Z.of_nat (length d) in
      if k <=? m_n s
      then (d, e, {| m_n := m_n s - k; m_err := e; m_u := u' |})
      else (firstn (Z.to_nat (m_n s)) d, Some TooLarge,
            {| m_n := 0; m_err := Some TooLarge; m_u := u' |})
    end
  end.

(* a caller reading with the given successive buffer sizes until the first error *)
Fixpoint read_all (s : mbr) (bufs : list nat) : list A * option rerr * mbr :=
  match bufs with
  | [] => ([], None, s)
  | m :: r =>
    let '(d, e, s') := mbr_read s m in
    match e with
    | Some x => (d, Some x, s')
    | None => let '(d2, e2, s2) := read_all s' r in (d ++ d2, e2, s2)
    end
  end.

Definition mbr_init (limit : Z) (body : list A) (script : list nat) (eofd : bool) : mbr :=
  {| m_n := limit; m_err := None;
     m_u := {| u_data := body; u_script := script; u_eof_with_data := eofd |} |}.

(* maxBytesReader.Read with the arithmetic Go performs: l.n+1 and l.n-n are int64 operations
   that wrap, p[:l.n+1] panics for a negative bound, and `n = int(l.n)` is returned as is
   (a negative count when l.n < 0).  The guard is `int64(len(p))-1 > l.n` as in net/http (fb48e01;
   before, `int64(len(p)) > l.n+1`, whose right-hand side wraps for l.n = 2^63-1): len(p) is a Go
   int, 0 < len(p) < 2^63 here, so the left-hand side cannot wrap. *)
Definition mbr_read64 (s : mbr) (m : nat) : r64 (list A * option rerr * mbr) :=
  match m_err s with
  | Some e => R_ok ([], Some e, s)
  | None =>
    match m with
    | O => R_ok ([], None, s)
    | _ =>
      let n1 := wrap64 (m_n s + 1) in
      let cut := Z.of_nat m - 1 >? m_n s in
      if cut && (n1 <? 0) then R_panic else
      let m' := if cut then Z.to_nat n1 else m in
      let '(d, e, u') := u_read (m_u s) m' in
      let k := Z.of_nat (length d) in
      if k <=? m_n s
      then R_ok (d, e, {| m_n := wrap64 (m_n s - k); m_err := e; m_u := u' |})
      else if m_n s <? 0 then R_neg (m_n s)
      else R_ok (firstn (Z.to_nat (m_n s)) d, Some TooLarge,
                 {| m_n := 0; m_err := Some TooLarge; m_u := u' |})
    end
  end.

Fixpoint read_all64 (s : mbr) (bufs : list nat) : r64 (list A * option rerr * mbr) :=
  match bufs with
  | [] => R_ok ([], None, s)
  | m :: r =>
    match mbr_read64 s m with
    | R_ok (d, e, s') =>
      match e with
      | Some x => R_ok (d, Some x, s')
      | None => match read_all64 s' r with
                | R_ok (d2, e2, s2) => R_ok (d ++ d2, e2, s2)
                | R_panic => R_panic
                | R_neg n => R_neg n
                end
      end
    | R_panic => R_panic
    | R_neg n => R_neg n
    end
  end.

End Reader.

(* ---- path-scoped limit table (Limit.ServeHTTP: first match wins) ---- *)
Definition select_limit (cs : bool) (table : list (bytes * Z)) (path : bytes) : option Z :=
  match find (fun bl => path_matches cs path (fst bl)) table with
  | Some bl => Some (snd bl)
  | None => None
  end.

Fixpoint sorted_len_desc (t : list (bytes * Z)) : bool :=
  match t with
  | [] => true
  | a :: r => forallb (fun b => Nat.leb (length (fst b)) (length (fst a))) r && sorted_len_desc r
  end.

(* what the innermost handler reads for a request *)
Definition handler_sees (cs : bool) (table : list (bytes * Z)) (path : bytes) (body : list N)
           (script : list nat) (eofd : bool) (bufs : list nat) : list N * option rerr :=
  match select_limit cs table path with
  | None =>
      (* no limit: plain reads of the underlying reader *)
      let fix go (u : ureader) (bufs : list nat) : list N * option rerr :=
        match bufs with
        | [] => ([], None)
        | m :: r => match m with
                    | O => go u r
                    | _ => let '(d, e, u') := u_read u m in
                           match e with Some x => (d, Some x)
                                   | None => let '(d2, e2) := go u' r in (d ++ d2, e2) end
                    end
        end in
      go {| u_data := body; u_script := script; u_eof_with_data := eofd |} bufs
  | Some lim => let '(d, e, _) := read_all (mbr_init lim body script eofd) bufs in (d, e)
  end.

(* proxy.ServeHTTP maps the too-large error of the body reader to 413, other backend errors to 502 *)
Definition proxy_status_of_body_error (e : option rerr) : Z :=
  match e with Some TooLarge => 413 | _ => 502 end.

(* ---- listener-wide merging ---- *)
(* 0 means "none/unlimited"; strictest = smallest positive value, 0 when there is none *)
Definition stricter_or_eq (a b : Z) : bool := (b =? 0) || ((0 <? a) && (a <=? b)).
Definition pick (acc v : Z) : Z :=
  if v =? 0 then acc else if acc =? 0 then v else Z.min acc v.
Definition strictest (vals : list Z) : Z := fold_left pick vals 0.

(* makeHTTPServerWithTimeouts, one field: group of (set?, duration) *)
Definition set_values (group : list (bool * Z)) : list Z :=
  map snd (filter fst group).
Definition merge_timeout (dflt : Z) (group : list (bool * Z)) : Z :=
  match set_values group with
  | [] => dflt
  | vs => strictest vs
  end.
(* makeHTTPServerWithHeaderLimit: 0 = site sets nothing; result 0 = keep net/http default *)
Definition merge_header_limit (group : list Z) : Z := strictest group.

(* the merge as coded before the fix (plain minimum, 0 counted as smallest) — kept to
   document the defect: see C17_Props.merge_timeout_plain_min_refuted *)
Definition merge_timeout_plain_min (dflt : Z) (group : list (bool * Z)) : Z :=
  match set_values group with
  | [] => dflt
  | v :: vs => fold_left Z.min vs v
  end.


(* ---- the same reader at the level of byte COUNTS: the underlying reader is a script of
   (claimed count, error) answers that ignores the buffer it is given, so that limits near
   2^63 can be reached without that many bytes.  The caller keeps reading after errors. ---- *)
Record cst := { c_n : Z; c_err : option rerr }.
Definition answer := (Z * option rerr)%type.

Definition cnt_read (s : cst) (m : Z) (answers : list answer)
  : r64 (Z * option rerr * cst * list answer) :=
  match c_err s with
  | Some e => R_ok (0, Some e, s, answers)
  | None =>
    if m =? 0 then R_ok (0, None, s, answers) else
    let n1 := wrap64 (c_n s + 1) in
    if (m - 1 >? c_n s) && (n1 <? 0) then R_panic else
    let '(c, e, rest) := match answers with [] => (0, Some EOF, []) | (c, e) :: r => (c, e, r) end in
    if c <=? c_n s
    then R_ok (c, e, {| c_n := wrap64 (c_n s - c); c_err := e |}, rest)
    else R_ok (c_n s, Some TooLarge, {| c_n := 0; c_err := Some TooLarge |}, rest)
  end.

Fixpoint cnt_run (s : cst) (bufs : list Z) (answers : list answer)
  : r64 (list answer * cst * list answer) :=
  match bufs with
  | [] => R_ok ([], s, answers)
  | m :: r =>
    match cnt_read s m answers with
    | R_ok (c, e, s', rest) =>
      match cnt_run s' r rest with
      | R_ok (outs, s2, rest2) => R_ok ((c, e) :: outs, s2, rest2)
      | R_panic => R_panic
      | R_neg n => R_neg n
      end
    | R_panic => R_panic
    | R_neg n => R_neg n
    end
  end.

Definition cnt_init (limit : Z) : cst := {| c_n := limit; c_err := None |}.
Definition zsum (l : list Z) : Z := fold_right Z.add 0 l.

(* ---- limits/setup.go: parseSize and the `size < 1` acceptance test ---- *)
Definition is_digit (c : N) : bool := ((48 <=? c) && (c <=? 57))%N.
(* strings.ToUpper on ASCII (non-ASCII input never parses: see level note) *)
Definition upper_b (c : N) : N := (if (97 <=? c) && (c <=? 122) then c - 32 else c)%N.
Definition digit_val (c : N) : Z := Z.of_N c - 48.
Fixpoint digits_val (ds : bytes) (acc : Z) : option Z :=
  match ds with
  | [] => Some acc
  | c :: r => if is_digit c then digits_val r (acc * 10 + digit_val c) else None
  end.
(* strconv.ParseInt(s, 10, 64): optional sign, at least one digit, digits only, range checked *)
Definition parse_int64 (s : bytes) : option Z :=
  match s with
  | [] => None
  | c :: r =>
    let '(neg, ds) := if (c =? 43)%N then (false, r) else if (c =? 45)%N then (true, r) else (false, s) in
    match ds with
    | [] => None
    | _ => match digits_val ds 0 with
           | None => None
           | Some u => if neg then (if u <=? two63 then Some (- u) else None)
                       else (if u <? two63 then Some u else None)
           end
    end
  end.
Definition has_suffix (s suf : bytes) : bool :=
  Nat.leb (length suf) (length s) && beq (skipn (length s - length suf) s) suf.
Definition units : list (bytes * Z) :=
  [(bs "KB"%string, 1024); (bs "MB"%string, 1048576); (bs "GB"%string, 1073741824); (bs "B"%string, 1); ([], 1)].
(* `if size < 0 || size > math.MaxInt64/unit.multiplier { return -1 }; return size * unit.multiplier`:
   the int64 product is only formed when it fits (0d07837; before, the wrapped product was returned) *)
Definition size_times (n mult : Z) : Z :=
  if (n <? 0) || (n >? max_int64 / mult) then -1 else wrap64 (n * mult).
Fixpoint parse_size_units (s : bytes) (us : list (bytes * Z)) : Z :=
  match us with
  | [] => -1
  | (sym, mult) :: r =>
    if has_suffix s sym
    then match parse_int64 (firstn (length s - length sym) s) with
         | None => -1
         | Some n => size_times n mult
         end
    else parse_size_units s r
  end.
Definition parse_size (s : bytes) : Z := parse_size_units (map upper_b s) units.
(* parseLimits/parseArguments: `if size < 1 { error }` *)
Definition accept_size (s : bytes) : option Z :=
  let v := parse_size s in if v <? 1 then None else Some v.

(* what the string denotes, read off independently of parseSize (left to right: sign, digit
   run, unit symbol) — used by the executable spec and by the theorems *)
Fixpoint span_digits (s : bytes) : bytes * bytes :=
  match s with
  | c :: r => if is_digit c then let '(d, t) := span_digits r in (c :: d, t) else ([], s)
  | [] => ([], [])
  end.
Definition dec (ds : bytes) : Z := fold_left (fun a c => a * 10 + digit_val c) ds 0.
Definition unit_of (sym : bytes) : option Z :=
  match find (fun u => beq (fst u) sym) units with Some u => Some (snd u) | None => None end.
Definition denote (s : bytes) : option (Z * Z) :=
  let u := map upper_b s in
  let '(neg, r) := match u with
                   | c :: r => if (c =? 43)%N then (false, r) else if (c =? 45)%N then (true, r) else (false, u)
                   | [] => (false, [])
                   end in
  let '(ds, sym) := span_digits r in
  match ds with
  | [] => None
  | _ => match unit_of sym with
         | Some mult => Some (if neg then - dec ds else dec ds, mult)
         | None => None
         end
  end.

(* the limits directive: `limits SIZE` sets both the header limit and the "/" body limit;
   in the block form `header SIZE` and `body [PATH] SIZE` set one each *)
Definition limits_form_result (form : N) (s : bytes) : option (option Z * option Z) :=
  match accept_size s with
  | None => None                                   (* setup error *)
  | Some v => Some (match form with
                    | 0%N => (Some v, Some v)      (* limits SIZE : (header, body) *)
                    | 1%N => (Some v, None)        (* header SIZE *)
                    | _ => (None, Some v)          (* body [PATH] SIZE *)
                    end)
  end.

(* ---- client-visible status of the handlers that read the body ---- *)
Inductive consumer := ProxyStream | ProxyBuffered | Fastcgi.
(* what the body's consumer makes of the error its reads ended with: proxy.ServeHTTP recognises
   ErrMaxBytesExceeded in the RoundTrip error with errors.Is (casket 2f5115a; before, by ==), so
   however net/http hands the body error back (unchanged for a chunked upload, wrapped in a
   *net.OpError ("readfrom") when the request has a Content-Length) the answer is 413;
   with several upstreams and try_duration the body is buffered first: the too-large error of
   newBufferedBody answers 413 (casket a49e1c0; before, 400 like any other read error);
   fastcgi's client gives up when the body cannot be read to its end and Handler.ServeHTTP maps
   ErrMaxBytesExceeded to 413 (casket 34218d7; before, Do ignored the error of io.Copy(stdin, body),
   ended the stream and relayed the responder's answer to the truncated body) *)
Definition consumer_status (k : consumer) (cl_framed : bool) (e : option rerr) (backend_status : Z) : Z :=
  match e with
  | Some TooLarge =>
    match k with
    | ProxyStream => 413
    | ProxyBuffered => 413
    | Fastcgi => 413
    end
  | _ => backend_status
  end.
(* how much of an over-limit upload has reached the backend when the consumer gives up: the
   streaming proxy's transport has sent the first [limit] bytes; the buffering proxy contacts
   nobody (-1); fastcgi's stdin stream goes through a bufio.Writer of maxWrite = 65500 bytes that
   is flushed only when full and NOT when Do gives up, so whole records only (when the limit is
   a multiple of 65500 the last full buffer is flushed or not depending on whether the reader
   reported the error together with the last bytes) *)
Definition fcgi_max_write : Z := 65500.
Definition backend_gets_ok (k : consumer) (limit obk : Z) : bool :=
  match k with
  | ProxyStream => obk =? limit
  | ProxyBuffered => obk =? -1
  | Fastcgi => let q := limit / fcgi_max_write in
               (obk =? fcgi_max_write * q) ||
               ((limit mod fcgi_max_write =? 0) && (1 <=? q) && (obk =? fcgi_max_write * (q - 1)))
  end.
(* the consumer reads the body to the end (or the first error) with some buffer sizes *)
Definition consumer_reads (limit : Z) (body : list N) (script : list nat) (eofd : bool) (bufs : list nat)
  : list N * option rerr :=
  let '(d, e, _) := read_all (mbr_init limit body script eofd) bufs in (d, e).

(* ---- the listener's http.Server as NewServer builds it from the whole site group ---- *)
Definition tv := (bool * Z)%type.                    (* (XxxTimeoutSet, XxxTimeout) *)
Record site := { s_read : tv; s_rhdr : tv; s_write : tv; s_idle : tv; s_maxhdr : Z }.
Record server := { sv_read : Z; sv_rhdr : Z; sv_write : Z; sv_idle : Z; sv_maxhdr : Z }.

(* stricterTimeout(a, b) of /repo d123c3c *)
Definition stricter_timeout (a b : Z) : bool := if a =? 0 then false else (b =? 0) || (a <? b).
Definition tstep (acc c : tv) : tv :=
  if fst c && (negb (fst acc) || stricter_timeout (snd c) (snd acc)) then (true, snd c) else acc.
(* loop body of makeHTTPServerWithTimeouts: one pass over the sites, four accumulators *)
Record tacc := { a_read : tv; a_rhdr : tv; a_write : tv; a_idle : tv }.
Definition tacc_step (a : tacc) (c : site) : tacc :=
  {| a_read := tstep (a_read a) (s_read c); a_rhdr := tstep (a_rhdr a) (s_rhdr c);
     a_write := tstep (a_write a) (s_write c); a_idle := tstep (a_idle a) (s_idle c) |}.
Definition tacc0 : tacc := {| a_read := (false, 0); a_rhdr := (false, 0); a_write := (false, 0); a_idle := (false, 0) |}.
Definition or_default (a : tv) (dflt : Z) : Z := if fst a then snd a else dflt.
(* loop body of makeHTTPServerWithHeaderLimit *)
Definition hstep (min limit : Z) : Z :=
  if limit =? 0 then min else
  let min1 := if min =? 0 then limit else min in
  if limit <? min1 then limit else min1.
Definition header_loop (group : list Z) : Z :=
  let m := fold_left hstep group 0 in if 0 <? m then m else 0.
Definition new_server (dflt : server) (group : list site) : server :=
  let a := fold_left tacc_step group tacc0 in
  {| sv_read := or_default (a_read a) (sv_read dflt); sv_rhdr := or_default (a_rhdr a) (sv_rhdr dflt);
     sv_write := or_default (a_write a) (sv_write dflt); sv_idle := or_default (a_idle a) (sv_idle dflt);
     sv_maxhdr := header_loop (map s_maxhdr group) |}.

(* "never relaxed": the listener value v honours a site's own request x (0 = the site asks nothing) *)
Definition honours (v x : Z) : bool := (x =? 0) || ((0 <? v) && (v <=? x)).
Definition site_honoured (sv : server) (c : site) : bool :=
  (negb (fst (s_read c)) || honours (sv_read sv) (snd (s_read c))) &&
  (negb (fst (s_rhdr c)) || honours (sv_rhdr sv) (snd (s_rhdr c))) &&
  (negb (fst (s_write c)) || honours (sv_write sv) (snd (s_write c))) &&
  (negb (fst (s_idle c)) || honours (sv_idle sv) (snd (s_idle c))) &&
  honours (sv_maxhdr sv) (s_maxhdr c).

(* ---- EVERY server object NewServer creates for one listener ----
   NewServer, statement by statement: (1) makeHTTPServerWithTimeouts builds the TCP http.Server with the merged
   timeouts (MaxHeaderBytes still 0); (2) makeHTTPServerWithHeaderLimit stores the merged header limit in it (when
   a site configures one); (3) when the listener serves TLS, HTTP/2 is on and the QUIC flag is set, the HTTP/3
   server is built by COPYING Addr, Handler, TLSConfig and MaxHeaderBytes from the TCP server as it is AT THAT
   MOMENT, and (/repo a99152d) its QUICConfig carries MaxIdleTimeout = the TCP server's IdleTimeout when that is
   positive (QUICConfig stays nil = the library default otherwise: quic-go reads 0 as "unset").  Nothing else is
   copied: http3.Server has no read/header/write timeout fields. *)
Record h3server := { h3_maxhdr : Z; h3_idle : Z (* 0: QUICConfig nil / MaxIdleTimeout unset *) }.
Definition ns_timeouts (dflt : server) (group : list site) : server :=
  let a := fold_left tacc_step group tacc0 in
  {| sv_read := or_default (a_read a) (sv_read dflt); sv_rhdr := or_default (a_rhdr a) (sv_rhdr dflt);
     sv_write := or_default (a_write a) (sv_write dflt); sv_idle := or_default (a_idle a) (sv_idle dflt);
     sv_maxhdr := 0 |}.
Definition ns_header (s : server) (group : list site) : server :=
  let m := fold_left hstep (map s_maxhdr group) 0 in
  {| sv_read := sv_read s; sv_rhdr := sv_rhdr s; sv_write := sv_write s; sv_idle := sv_idle s;
     sv_maxhdr := if 0 <? m then m else sv_maxhdr s |}.
Definition ns_h3 (s : server) (tls h2 quic : bool) : option h3server :=
  if tls && h2 && quic then Some {| h3_maxhdr := sv_maxhdr s; h3_idle := if 0 <? sv_idle s then sv_idle s else 0 |}
  else None.
Definition new_servers (dflt : server) (group : list site) (tls h2 quic : bool) : server * option h3server :=
  let s1 := ns_timeouts dflt group in
  let s2 := ns_header s1 group in
  (s2, ns_h3 s2 tls h2 quic).

(* ---- a SEQUENCE of uploads through one proxy upstream whose failure counting is on (max_fails, fail_timeout
   longer than the sequence) ----
   Proxy.ServeHTTP after the forward of an attempt, in the order of its checks: no error -> done; the too-large
   error of the body reader (however the transport wrapped it) -> 413, returned BEFORE the failure accounting;
   any other error of the forward is counted as a failure of the backend (Fails + 1 for fail_timeout) -> 502.
   Before the forward: Select answers nil when the backend has max_fails unexpired failures -> 502, nothing sent. *)
Definition proxy_after_forward (e : option rerr) (backend_status : Z) : Z * bool :=
  match e with
  | None | Some EOF => (backend_status, false)
  | Some TooLarge => (413, false)
  | Some ErrOther => (502, true)
  end.
(* one upload of [len] bytes: (status, failure count of the upstream afterwards); None = nothing reaches the backend
   because no host is available *)
Definition seq_step (k : consumer) (limit max_fails fails : Z) (chunked : bool) (len : nat) : Z * Z :=
  let over := limit <? Z.of_nat len in
  let e := if over then Some TooLarge else Some EOF in
  match k with
  | ProxyStream =>
      if max_fails <=? fails then (502, fails)
      else let '(st, failed) := proxy_after_forward e 200 in (st, if failed then fails + 1 else fails)
  | ProxyBuffered =>
      (* the body is buffered before any host is selected: too large -> 413 at once *)
      if over then (413, fails)
      else if max_fails <=? fails then (502, fails)
      else let '(st, failed) := proxy_after_forward e 200 in (st, if failed then fails + 1 else fails)
  | Fastcgi => (consumer_status Fastcgi (negb chunked) e 200, fails)
  end.
Fixpoint seq_run (k : consumer) (limit max_fails fails : Z) (qs : list (bool * nat)) : list (Z * Z) :=
  match qs with
  | [] => []
  | (ch, len) :: r => let '(st, f') := seq_step k limit max_fails fails ch len in
                      (st, f') :: seq_run k limit max_fails f' r
  end.

(* ---- chunked request bodies on the wire (RFC 9112 7.1, as net/http's chunkedReader decodes them) ----
   A chunk is a size line — hex digits (any case, leading zeros allowed), an optional extension up to the LF — then
   exactly that many data bytes and CRLF; the chunk of size 0 ends the body, what follows it (trailer fields, the
   empty line) is not body.  [dechunk] is the decoder; the limited reader sits ABOVE it, so the limit counts the
   decoded bytes only: neither the size lines, the extensions, the CRLFs nor the trailers. *)
Definition is_hex (c : N) : bool :=
  (is_digit c || ((65 <=? c) && (c <=? 70)) || ((97 <=? c) && (c <=? 102)))%N.
Definition hex_digit_val (c : N) : N := (if is_digit c then c - 48 else if c <=? 70 then c - 55 else c - 87)%N.
Fixpoint hex_num (ds : bytes) (acc : N) : N :=
  match ds with [] => acc | c :: r => hex_num r (16 * acc + hex_digit_val c)%N end.
Fixpoint span_hex (w : bytes) : bytes * bytes :=
  match w with
  | [] => ([], [])
  | c :: r => if is_hex c then let '(d, t) := span_hex r in (c :: d, t) else ([], w)
  end.
Fixpoint skip_line (w : bytes) : bytes :=
  match w with [] => [] | c :: r => if (c =? 10)%N then r else skip_line r end.
Fixpoint dechunk (fuel : nat) (w : bytes) : option (list N) :=
  match fuel with
  | O => None
  | S f =>
    let '(ds, r) := span_hex w in
    match ds with
    | [] => None
    | _ =>
      let n := N.to_nat (hex_num ds 0) in
      let r1 := skip_line r in
      if Nat.eqb n 0 then Some []
      else if Nat.ltb (length r1) (n + 2) then None
      else match skipn n r1 with
           | 13%N :: 10%N :: r2 => option_map (app (firstn n r1)) (dechunk f r2)
           | _ => None
           end
    end
  end.
(* the sender's side: any well-formed chunk sequence *)
Record wchunk := { wc_size : bytes; wc_ext : bytes; wc_data : list N }.
Definition wf_size_line (size ext : bytes) : Prop :=
  size <> [] /\ Forall (fun c => is_hex c = true) size /\ Forall (fun c => c <> 10%N) ext /\
  match ext with [] => True | c :: _ => is_hex c = false end.
Definition wf_chunk (c : wchunk) : Prop :=
  wf_size_line (wc_size c) (wc_ext c) /\ hex_num (wc_size c) 0 = N.of_nat (length (wc_data c)) /\ wc_data c <> [].
Fixpoint enc_chunks (cs : list wchunk) (tail : bytes) : bytes :=
  match cs with
  | [] => tail
  | c :: r => wc_size c ++ wc_ext c ++ 13%N :: 10%N :: wc_data c ++ 13%N :: 10%N :: enc_chunks r tail
  end.
(* last chunk: a size line of value 0, then anything (trailer section) *)
Definition enc_last (size ext trailers : bytes) : bytes := size ++ ext ++ 13%N :: 10%N :: trailers.

(* ---- case type for the correspondence check ---- *)
Inductive case :=
| CRead (cs : bool) (table : list (bytes * Z)) (path : bytes) (bodylen : nat) (script : list nat)
        (eofd : bool) (bufs : list nat) (obs_data : bytes) (obs_err : N)
| CTimeout (dflt : Z) (group : list (bool * Z)) (obs : Z)
| CHeader (group : list Z) (obs : Z)
| CStatus (over : bool) (obs : Z)
(* limits.MaxBytesReader called directly with ANY int64 limit; obs_code 0 = returned, 1 = panic,
   2 = negative count handed to the caller *)
| CRead64 (limit : Z) (bodylen : nat) (script : list nat) (eofd : bool) (bufs : list nat)
          (obs_code : N) (obs_data : bytes) (obs_err : N) (obs_neg : Z)
(* the same over a reader that only CLAIMS counts; the caller reads on after errors *)
| CCount (limit : Z) (bufs : list Z) (answers : list (Z * N)) (obs_code : N) (obs : list (Z * N))
         (obs_consumed : nat)
(* the limits directive on a size string; form 0 = `limits S`, 1 = `header S`, 2 = `body [P] S` *)
| CParse (form : N) (s : bytes) (obs_ok : bool) (obs_hdr obs_body : Z)
(* a real site (limits + proxy / fastcgi) over loopback: an upload followed by a pipelined GET;
   kind 0 = proxy, 1 = proxy that buffers (two upstreams + try_duration), 2 = fastcgi;
   obs_backend = bytes that reached the backend (-1: never contacted), followup = status of the
   pipelined request (-2: connection closed first) *)
| CSite (kind : N) (chunked : bool) (limit : Z) (bodylen : nat) (obs_status obs_backend : Z)
        (prefix_ok : bool) (followup : Z)
(* NewServer on a whole site group (hand-built configs, or parsed from a Casketfile and started) *)
| CListener (dflt : server) (group : list site) (obs : server)
(* a request whose header block has the given size against the merged header limit *)
| CHdr431 (maxhdr reqbytes obs_status : Z)
(* NewServer on a site group with TLS sites or not, HTTP/2 on or off, the QUIC flag set or not: EVERY server object
   it creates — the TCP http.Server and, when there is one, the HTTP/3 server (MaxHeaderBytes, MaxIdleTimeout of
   its QUICConfig; 0 = unset) *)
| CServers (dflt : server) (group : list site) (tls h2 quic : bool) (obs : server) (obs_h3 : option (Z * Z))
(* a sequence of uploads to ONE running site whose proxy upstream counts failures (max_fails 1, fail_timeout 1h):
   per request (chunked, body length, (status, bytes that reached the backend, prefix ok, sum of the upstream
   hosts' Fails after the request; -1 = not observable)) *)
| CSiteSeq (kind : N) (limit : Z) (reqs : list (bool * nat * (Z * Z * bool * Z)))
(* the limits middleware over a chunked request parsed by net/http from the given wire bytes (chunk sizes, size-line
   spellings, extensions, trailers vary), the connection delivering them in pieces; the handler behind it reads to the
   first error: what it got, the error code, whether the announced trailer arrived after a complete body *)
| CChunkRead (limit : Z) (wire : bytes) (bodylen : nat) (obs_data : bytes) (obs_err : N) (trailer_ok : bool).

Definition body_of (n : nat) : list N := map (fun i => N.of_nat (i mod 251)) (seq 0 n).

Definition longest_match_ok (cs : bool) (table : list (bytes * Z)) (path : bytes) : bool :=
  match find (fun bl => path_matches cs path (fst bl)) table with
  | None => true
  | Some bl => forallb (fun b => negb (path_matches cs path (fst b))
                                 || Nat.leb (length (fst b)) (length (fst bl))) table
  end.

(* the property's statement about the TCP server of a listener, on the observed fields only *)
Definition listener_spec (dflt : server) (group : list site) (obs : server) : bool :=
  let field_ok (f : site -> tv) (d o : Z) : bool :=
    match set_values (map f group) with
    | [] => o =? d
    | vs => existsb (Z.eqb o) vs && forallb (stricter_or_eq o) vs
    end in
  let hs := map s_maxhdr group in
  field_ok s_read (sv_read dflt) (sv_read obs) && field_ok s_rhdr (sv_rhdr dflt) (sv_rhdr obs) &&
  field_ok s_write (sv_write dflt) (sv_write obs) && field_ok s_idle (sv_idle dflt) (sv_idle obs) &&
  (if forallb (Z.eqb 0) hs then sv_maxhdr obs =? 0
   else existsb (Z.eqb (sv_maxhdr obs)) hs && (0 <? sv_maxhdr obs) &&
        forallb (stricter_or_eq (sv_maxhdr obs)) hs) &&
  forallb (site_honoured obs) group.
(* ... and about any further server of the same listener (HTTP/3): the same strictest header limit, and the
   strictest idle timeout where a site configures one, the default only where no site does (0 = none/unset) *)
Definition h3_spec (dflt_idle : Z) (group : list site) (mh idle : Z) : bool :=
  let hs := map s_maxhdr group in
  (if forallb (Z.eqb 0) hs then mh =? 0
   else existsb (Z.eqb mh) hs && (0 <? mh) && forallb (stricter_or_eq mh) hs) &&
  match set_values (map s_idle group) with
  | [] => idle =? (if 0 <? dflt_idle then dflt_idle else 0)
  | vs => existsb (Z.eqb idle) vs && forallb (stricter_or_eq idle) vs
  end.
Definition server_eqb (a b : server) : bool :=
  (sv_read a =? sv_read b) && (sv_rhdr a =? sv_rhdr b) && (sv_write a =? sv_write b) &&
  (sv_idle a =? sv_idle b) && (sv_maxhdr a =? sv_maxhdr b).

Definition judge (c : case) : N :=
  match c with
  | CRead cs table path bodylen script eofd bufs od oe =>
      let body := body_of bodylen in
      let '(d, e) := handler_sees cs table path body script eofd bufs in
      let agree := beq d od && (rerr_code e =? oe)%N in
      (* spec on the implementation's own output *)
      let lim := select_limit cs table path in
      let spec :=
        longest_match_ok cs table path &&
        beq od (firstn (length od) body) &&
        match lim with
        | None => true
        | Some l => (Z.of_nat (length od) <=? l) &&
                    (if (oe =? 1)%N then (Z.of_nat bodylen <=? l) && (length od =? bodylen)%nat else true) &&
                    (if (oe =? 2)%N then (l <? Z.of_nat bodylen) && (Z.of_nat (length od) =? l) else true)
        end in
      verdict agree spec
  | CTimeout dflt group obs =>
      let vs := set_values group in
      let spec := match vs with
                  | [] => obs =? dflt
                  | _ => existsb (Z.eqb obs) vs && forallb (stricter_or_eq obs) vs
                  end in
      verdict (merge_timeout dflt group =? obs) spec
  | CHeader group obs =>
      let spec := if forallb (Z.eqb 0) group then obs =? 0
                  else existsb (Z.eqb obs) group && (0 <? obs) && forallb (stricter_or_eq obs) group in
      verdict (merge_header_limit group =? obs) spec
  | CRead64 limit bodylen script eofd bufs oc od oe on =>
      let body := body_of bodylen in
      let r := read_all64 (mbr_init limit body script eofd) bufs in
      let agree := match r with
                   | R_ok (d, e, _) => (oc =? 0)%N && beq d od && (rerr_code e =? oe)%N
                   | R_panic => (oc =? 1)%N
                   | R_neg n => (oc =? 2)%N && (n =? on)
                   end in
      (* every limit the directive can configure (1..2^63-1) must be enforced exactly *)
      let spec := if (1 <=? limit) && (limit <=? max_int64)
                  then (oc =? 0)%N && beq od (firstn (length od) body) && (Z.of_nat (length od) <=? limit) &&
                       (if (oe =? 1)%N then (Z.of_nat bodylen <=? limit) && (length od =? bodylen)%nat else true) &&
                       (if (oe =? 2)%N then (limit <? Z.of_nat bodylen) && (Z.of_nat (length od) =? limit) else true) &&
                       negb (oe =? 3)%N
                  else true in
      verdict agree spec
  | CCount limit bufs answers oc obs ocons =>
      let dec_err (c : N) : option rerr :=
        match c with 0%N => None | 1%N => Some EOF | 2%N => Some TooLarge | _ => Some ErrOther end in
      let ans := map (fun a => (fst a, dec_err (snd a))) answers in
      let r := cnt_run (cnt_init limit) bufs ans in
      let agree := match r with
                   | R_ok (outs, _, rest) =>
                       (oc =? 0)%N &&
                       list_beq (fun a b : Z * N => (fst a =? fst b) && (snd a =? snd b)%N)
                                (map (fun o : answer => (fst o, rerr_code (snd o))) outs) obs &&
                       (length answers - length rest =? ocons)%nat
                   | R_panic => (oc =? 1)%N
                   | R_neg _ => false
                   end in
      let claimed := zsum (map fst (firstn ocons answers)) in
      let total := zsum (map fst obs) in
      let fix sticky (l : list (Z * N)) : bool :=
        match l with
        | (_, e) :: r => if (e =? 0)%N then sticky r
                         else forallb (fun o => (fst o =? 0) && (snd o =? e)%N) r
        | [] => true
        end in
      let spec := if (1 <=? limit) && (limit <=? max_int64)
                  then (oc =? 0)%N && forallb (fun o => 0 <=? fst o) obs &&
                       (total =? Z.min limit claimed) &&
                       Bool.eqb (existsb (fun o => (snd o =? 2)%N) obs) (limit <? claimed) &&
                       sticky obs
                  else true in
      verdict agree spec
  | CParse form s ok oh ob =>
      let enc (o : option Z) : Z := match o with Some v => v | None => 0 end in
      let agree := match limits_form_result form s with
                   | None => negb ok
                   | Some (h, b) => ok && (enc h =? oh) && (enc b =? ob)
                   end in
      (* independent reading of the string: accepted iff it denotes number*unit within 1..2^63-1,
         and then the configured value is exactly that product *)
      let spec := match denote s with
                  | None => negb ok
                  | Some (n, u) =>
                      let v := n * u in
                      if (1 <=? v) && (v <=? max_int64)
                      then ok && (match form with 0%N => (oh =? v) && (ob =? v)
                                             | 1%N => (oh =? v) && (ob =? 0)
                                             | _ => (oh =? 0) && (ob =? v) end)
                      else negb ok
                  end in
      verdict agree spec
  | CSite kind chunked limit bodylen ost obk pfx fu =>
      let k := match kind with 0%N => ProxyStream | 1%N => ProxyBuffered | _ => Fastcgi end in
      let over := limit <? Z.of_nat bodylen in
      let e := if over then Some TooLarge else Some EOF in
      let m_status := consumer_status k (negb chunked) e 200 in
      let backend_ok := if over then backend_gets_ok k limit obk else obk =? Z.of_nat bodylen in
      (* net/http drains up to 256 KiB of an unread body to keep the connection, else closes it *)
      let leftover := Z.of_nat bodylen - limit in
      let fu_ok := if leftover <=? 200000 then fu =? 204
                   else if 300000 <=? leftover then fu =? -2 else (fu =? 204) || (fu =? -2) in
      let agree := (m_status =? ost) && backend_ok && fu_ok in
      let spec := pfx && (obk <=? limit) && ((fu =? 204) || (fu =? -2)) &&
                  (if over then ost =? 413 else (ost =? 200) && (obk =? Z.of_nat bodylen) && (fu =? 204)) in
      verdict agree spec
  | CListener dflt group obs =>
      let m := new_server dflt group in
      let agree := (sv_read m =? sv_read obs) && (sv_rhdr m =? sv_rhdr obs) && (sv_write m =? sv_write obs) &&
                   (sv_idle m =? sv_idle obs) && (sv_maxhdr m =? sv_maxhdr obs) in
      verdict agree (listener_spec dflt group obs)
  | CHdr431 maxhdr reqbytes ost =>
      (* net/http: initial read limit = MaxHeaderBytes + 4096; beyond it the answer is 431 *)
      let m := if maxhdr + 4096 <? reqbytes then 431 else 200 in
      verdict (m =? ost) (if maxhdr + 4096 <? reqbytes then ost =? 431 else ost =? 200)
  | CServers dflt group tls h2 quic obs oh3 =>
      let '(m, mh3) := new_servers dflt group tls h2 quic in
      let agree := server_eqb m obs &&
                   match mh3, oh3 with
                   | None, None => true
                   | Some x, Some (mh, idle) => (h3_maxhdr x =? mh) && (h3_idle x =? idle)
                   | _, _ => false
                   end in
      let spec := listener_spec dflt group obs &&
                  match oh3 with None => true | Some (mh, idle) => h3_spec (sv_idle dflt) group mh idle end in
      verdict agree spec
  | CChunkRead limit wire bodylen od oe tok =>
      let body := body_of bodylen in
      let agree :=
        match dechunk (S (length wire)) wire with
        | None => false
        | Some b =>
            let m := S (length b) in
            let '(d, e, _) := read_all (mbr_init limit b [] false) [m; m; m] in
            beq d od && (rerr_code e =? oe)%N
        end in
      (* spec, on the implementation's output and the body the sender framed: decoded bytes only are counted *)
      let spec :=
        tok &&
        (if limit <? Z.of_nat bodylen
         then (oe =? 2)%N && beq od (firstn (Z.to_nat limit) body)
         else (oe =? 1)%N && beq od body) in
      verdict agree spec
  | CSiteSeq kind limit reqs =>
      let k := match kind with 0%N => ProxyStream | 1%N => ProxyBuffered | _ => Fastcgi end in
      let ms := seq_run k limit 1 0 (map fst reqs) in
      let one (x : (bool * nat * (Z * Z * bool * Z)) * (Z * Z)) : bool :=
        let '((ch, len, (ost, obk, _, ofl)), (mst, mfl)) := x in
        let over := limit <? Z.of_nat len in
        (mst =? ost) && ((ofl =? -1) || (mfl =? ofl)) &&
        (if ost =? 502 then true else if over then backend_gets_ok k limit obk else obk =? Z.of_nat len) in
      let agree := (length ms =? length reqs)%nat && forallb one (combine reqs ms) in
      (* EVERY request of the sequence, whatever preceded it: bodies up to the limit arrive intact (200, the whole
         body at the backend), larger ones are cut at the limit and answered 413; an upload the limit cut off is
         the client's doing and is not booked as a failure of the backend *)
      let spec := forallb (fun r : bool * nat * (Z * Z * bool * Z) =>
                             let '(_, len, (ost, obk, pfx, ofl)) := r in
                             pfx && (obk <=? limit) && ((ofl =? -1) || (ofl =? 0)) &&
                             (if limit <? Z.of_nat len then ost =? 413
                              else (ost =? 200) && (obk =? Z.of_nat len))) reqs in
      verdict agree spec
  | CStatus over obs =>
      (* a proxied upload: over the limit => the body reader fails with TooLarge => 413;
         within the limit => the proxy relays the backend response itself and returns 0 *)
      let m := if over then proxy_status_of_body_error (Some TooLarge) else 0 in
      verdict (m =? obs) (if over then obs =? 413 else true)
  end.
