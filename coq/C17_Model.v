(* C17 — body-size limits and listener-wide "strictest" merging: executable model.
   Mirrors caskethttp/limits/handler.go (maxBytesReader, Limit.ServeHTTP),
   limits/setup.go (SortPathLimits order), httpserver/server.go
   (makeHTTPServerWithTimeouts, makeHTTPServerWithHeaderLimit), proxy 413 mapping. *)
Require Import V.Lib V.GoPath.
Open Scope Z_scope.

Inductive rerr := EOF | TooLarge | ErrOther.
Definition rerr_code (e : option rerr) : N :=
  match e with None => 0%N | Some EOF => 1%N | Some TooLarge => 2%N | Some ErrOther => 3%N end.

Section Reader.
Context {A : Type}.

(* underlying reader: remaining data, per-call size caps (exhausted = uncapped),
   and whether the final bytes come together with io.EOF *)
Record ureader := { u_data : list A; u_script : list nat; u_eof_with_data : bool }.

Definition u_read (u : ureader) (m : nat) : list A * option rerr * ureader :=
  match u_data u with
  | [] => ([], Some EOF, u)
  | _ =>
    let cap := match u_script u with [] => m | k :: _ => Nat.min k m end in
    let d := firstn cap (u_data u) in
    let rest := skipn cap (u_data u) in
    let e := match rest with [] => if u_eof_with_data u then Some EOF else None | _ => None end in
    (d, e, {| u_data := rest; u_script := tl (u_script u); u_eof_with_data := u_eof_with_data u |})
  end.

(* maxBytesReader{r, n, err} *)
Record mbr := { m_n : Z; m_err : option rerr; m_u : ureader }.

Definition mbr_read (s : mbr) (m : nat) : list A * option rerr * mbr :=
  match m_err s with
  | Some e => ([], Some e, s)
  | None =>
    match m with
    | O => ([], None, s)
    | _ =>
      let m' := if Z.of_nat m >? m_n s + 1 then Z.to_nat (m_n s + 1) else m in
      let '(d, e, u') := u_read (m_u s) m' in
      let k := Z.of_nat (length d) in
      if k <=? m_n s
      then (d, e, {| m_n := m_n s - k; m_err := e; m_u := u' |})
      else (firstn (Z.to_nat (m_n s)) d, Some TooLarge,
            {| m_n := 0; m_err := Some TooLarge; m_u := u' |})
    end
  end.

(* a caller reading with the given successive buffer sizes until the first error *)
Fixpoint read_all (s : mbr) (bufs : list nat) : list A * option rerr * mbr :=
  match bufs with
  | [] => ([], None, s)
  | m :: r =>
    let '(d, e, s') := mbr_read s m in
    match e with
    | Some x => (d, Some x, s')
    | None => let '(d2, e2, s2) := read_all s' r in (d ++ d2, e2, s2)
    end
  end.

Definition mbr_init (limit : Z) (body : list A) (script : list nat) (eofd : bool) : mbr :=
  {| m_n := limit; m_err := None;
     m_u := {| u_data := body; u_script := script; u_eof_with_data := eofd |} |}.

End Reader.

(* ---- path-scoped limit table (Limit.ServeHTTP: first match wins) ---- *)
Definition select_limit (cs : bool) (table : list (bytes * Z)) (path : bytes) : option Z :=
  match find (fun bl => path_matches cs path (fst bl)) table with
  | Some bl => Some (snd bl)
  | None => None
  end.

Fixpoint sorted_len_desc (t : list (bytes * Z)) : bool :=
  match t with
  | [] => true
  | a :: r => forallb (fun b => Nat.leb (length (fst b)) (length (fst a))) r && sorted_len_desc r
  end.

(* what the innermost handler reads for a request *)
Definition handler_sees (cs : bool) (table : list (bytes * Z)) (path : bytes) (body : list N)
           (script : list nat) (eofd : bool) (bufs : list nat) : list N * option rerr :=
  match select_limit cs table path with
  | None =>
      (* no limit: plain reads of the underlying reader *)
      let fix go (u : ureader) (bufs : list nat) : list N * option rerr :=
        match bufs with
        | [] => ([], None)
        | m :: r => match m with
                    | O => go u r
                    | _ => let '(d, e, u') := u_read u m in
                           match e with Some x => (d, Some x)
                                   | None => let '(d2, e2) := go u' r in (d ++ d2, e2) end
                    end
        end in
      go {| u_data := body; u_script := script; u_eof_with_data := eofd |} bufs
  | Some lim => let '(d, e, _) := read_all (mbr_init lim body script eofd) bufs in (d, e)
  end.

(* proxy.ServeHTTP maps the too-large error of the body reader to 413, other backend errors to 502 *)
Definition proxy_status_of_body_error (e : option rerr) : Z :=
  match e with Some TooLarge => 413 | _ => 502 end.

(* ---- listener-wide merging ---- *)
(* 0 means "none/unlimited"; strictest = smallest positive value, 0 when there is none *)
Definition stricter_or_eq (a b : Z) : bool := (b =? 0) || ((0 <? a) && (a <=? b)).
Definition pick (acc v : Z) : Z :=
  if v =? 0 then acc else if acc =? 0 then v else Z.min acc v.
Definition strictest (vals : list Z) : Z := fold_left pick vals 0.

(* makeHTTPServerWithTimeouts, one field: group of (set?, duration) *)
Definition set_values (group : list (bool * Z)) : list Z :=
  map snd (filter fst group).
Definition merge_timeout (dflt : Z) (group : list (bool * Z)) : Z :=
  match set_values group with
  | [] => dflt
  | vs => strictest vs
  end.
(* makeHTTPServerWithHeaderLimit: 0 = site sets nothing; result 0 = keep net/http default *)
Definition merge_header_limit (group : list Z) : Z := strictest group.

(* the merge as coded before the fix (plain minimum, 0 counted as smallest) — kept to
   document the defect: see C17_Props.merge_timeout_plain_min_refuted *)
Definition merge_timeout_plain_min (dflt : Z) (group : list (bool * Z)) : Z :=
  match set_values group with
  | [] => dflt
  | v :: vs => fold_left Z.min vs v
  end.

(* ---- case type for the correspondence check ---- *)
Inductive case :=
| CRead (cs : bool) (table : list (bytes * Z)) (path : bytes) (bodylen : nat) (script : list nat)
        (eofd : bool) (bufs : list nat) (obs_data : bytes) (obs_err : N)
| CTimeout (dflt : Z) (group : list (bool * Z)) (obs : Z)
| CHeader (group : list Z) (obs : Z)
| CStatus (over : bool) (obs : Z).

Definition body_of (n : nat) : list N := map (fun i => N.of_nat (i mod 251)) (seq 0 n).

Definition longest_match_ok (cs : bool) (table : list (bytes * Z)) (path : bytes) : bool :=
  match find (fun bl => path_matches cs path (fst bl)) table with
  | None => true
  | Some bl => forallb (fun b => negb (path_matches cs path (fst b))
                                 || Nat.leb (length (fst b)) (length (fst bl))) table
  end.

Definition judge (c : case) : N :=
  match c with
  | CRead cs table path bodylen script eofd bufs od oe =>
      let body := body_of bodylen in
      let '(d, e) := handler_sees cs table path body script eofd bufs in
      let agree := beq d od && (rerr_code e =? oe)%N in
      (* spec on the implementation's own output *)
      let lim := select_limit cs table path in
      let spec :=
        longest_match_ok cs table path &&
        beq od (firstn (length od) body) &&
        match lim with
        | None => true
        | Some l => (Z.of_nat (length od) <=? l) &&
                    (if (oe =? 1)%N then (Z.of_nat bodylen <=? l) && (length od =? bodylen)%nat else true) &&
                    (if (oe =? 2)%N then (l <? Z.of_nat bodylen) && (Z.of_nat (length od) =? l) else true)
        end in
      verdict agree spec
  | CTimeout dflt group obs =>
      let vs := set_values group in
      let spec := match vs with
                  | [] => obs =? dflt
                  | _ => existsb (Z.eqb obs) vs && forallb (stricter_or_eq obs) vs
                  end in
      verdict (merge_timeout dflt group =? obs) spec
  | CHeader group obs =>
      let spec := if forallb (Z.eqb 0) group then obs =? 0
                  else existsb (Z.eqb obs) group && (0 <? obs) && forallb (stricter_or_eq obs) group in
      verdict (merge_header_limit group =? obs) spec
  | CStatus over obs =>
      (* a proxied upload: over the limit => the body reader fails with TooLarge => 413;
         within the limit => the proxy relays the backend response itself and returns 0 *)
      let m := if over then proxy_status_of_body_error (Some TooLarge) else 0 in
      verdict (m =? obs) (if over then obs =? 413 else true)
  end.
