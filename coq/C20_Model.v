(* C20 — access logs are complete and accurate; placeholders expand once: executable model.

   Mirrors
     caskethttp/httpserver/replacer.go   replacer.Replace (scanning loops, escaped braces, the
                                         TrimPrefix quirk) and getSubstitution's dispatch
                                         (custom > request header > response header > cookie >
                                         query > environment > default vocabulary > {labelN} > empty)
     caskethttp/httpserver/recorder.go   ResponseRecorder.WriteHeader / Write
     caskethttp/log/setup.go             logParse + appendEntry (one rule per distinct scope string,
                                         one exception list per log directive)
     caskethttp/log/log.go               Logger.ServeHTTP (served when some rule matches, a panic of the
                                         inner handler turned into status 500, fallback error
                                         response written through the recorder, one line per entry
                                         of every matching rule)
     caskethttp/errors/errors.go         ErrorHandler.ServeHTTP / recovery (as a script transformer)
     caskethttp/httpserver/server.go     Server.ServeHTTP's fallback error response and recover
   The scanning primitives (find_unescaped, unescape_braces, trim_prefix_bsl) are those of
   C19_Model (checked indexing).  Definitions only; proofs are in C20_Proofs.v. *)
Require Import V.Lib V.GoPath V.C19_Model V.Gen_C20.
Open Scope N_scope.

(* ------------------------------------------------------------------------------------------ *)
(* A. replacer.Replace                                                                          *)
(* ------------------------------------------------------------------------------------------ *)
Inductive seg := Lit (b : bytes) | Ph (key : bytes).

(* one round of Replace's outer loop on the still unscanned text [s]:
   None = no further complete unescaped placeholder; Some (prefix, key, rest) *)
Definition scan_step (s : bytes) : res (option (bytes * bytes * bytes)) :=
  do st <- find_unescaped (S (length s)) LB s 0;
  match st with
  | None => Ok None
  | Some i0 =>
    do sp <- slice_from s i0;
    do en <- find_unescaped (S (length sp)) RB sp 0;
    match en with
    | None => Ok None
    | Some e =>
      let i1 := (i0 + e)%nat in
      do ph <- slice s i0 (i1 + 1);
      do pre <- slice s 0 i0;
      do rest <- slice_from s (i1 + 1);
      Ok (Some (trim_prefix_bsl (unescape_braces pre), unescape_braces ph, rest))
    end
  end.

(* Replace with an arbitrary substitution function (getSubstitution of some request) *)
Fixpoint expand_loop (fuel : nat) (gs : bytes -> bytes) (s result : bytes) : res bytes :=
  match fuel with
  | O => Panic
  | S f =>
    do st <- scan_step s;
    match st with
    | None => Ok (result ++ unescape_braces s)
    | Some (pre, key, rest) => expand_loop f gs rest (result ++ pre ++ gs key)
    end
  end.
Definition expand (gs : bytes -> bytes) (s : bytes) : res bytes :=
  if negb (has_brace s) then Ok s else expand_loop (S (length s)) gs s [].

(* the template of a format string: computed WITHOUT any substitution function *)
Fixpoint template_loop (fuel : nat) (s : bytes) : res (list seg) :=
  match fuel with
  | O => Panic
  | S f =>
    do st <- scan_step s;
    match st with
    | None => Ok [Lit (unescape_braces s)]
    | Some (pre, key, rest) => do t <- template_loop f rest; Ok (Lit pre :: Ph key :: t)
    end
  end.
Definition template (s : bytes) : res (list seg) :=
  if negb (has_brace s) then Ok [Lit s] else template_loop (S (length s)) s.

Definition seg_out (gs : bytes -> bytes) (sg : seg) : bytes :=
  match sg with Lit b => b | Ph k => gs k end.
Definition render (gs : bytes -> bytes) (t : list seg) : bytes := concat (map (seg_out gs) t).
Definition keys_of (t : list seg) : list bytes :=
  flat_map (fun sg => match sg with Ph k => [k] | Lit _ => [] end) t.

(* ------------------------------------------------------------------------------------------ *)
(* getSubstitution                                                                              *)
(* ------------------------------------------------------------------------------------------ *)
Fixpoint assoc {A} (k : bytes) (l : list (bytes * A)) : option A :=
  match l with
  | [] => None
  | (k', v) :: r => if beq k k' then Some v else assoc k r
  end.
Definition mem (k : bytes) (l : list bytes) : bool := existsb (beq k) l.

(* strings.EqualFold on ASCII names *)
Definition fold_eq (a b : bytes) : bool := beq (to_lower a) (to_lower b).
Fixpoint hdr_lookup (want : bytes) (h : list (bytes * list bytes)) : option bytes :=
  match h with
  | [] => None
  | (k, vs) :: r => if fold_eq k want then Some (join [44] vs) else hdr_lookup want r
  end.

Record renv := {
  e_custom : list (bytes * bytes);              (* Set(): "{key}" -> value *)
  e_reqh : list (bytes * list bytes);           (* request header: name -> values *)
  e_resph : option (list (bytes * list bytes)); (* response header; None = no recorder *)
  e_cookies : list (bytes * bytes);
  e_query : list (bytes * bytes);               (* decoded query arguments, in order *)
  e_osenv : list (bytes * bytes);
  e_defaults : list (bytes * bytes);            (* values of the default vocabulary for this request *)
  e_host : bytes;
  e_empty : bytes;
  (* the components of the request the functionally modelled placeholders are computed from *)
  e_method : bytes;
  e_path : bytes;                               (* path of the original URL (OriginalURLCtxKey) *)
  e_curpath : bytes;                            (* r.URL.Path as inner middleware left it *)
  e_rawquery : bytes;
  e_proto : bytes;
  e_rec : option (Z * N) }.                     (* the recorder's status and size; None = no recorder *)

(* strconv.Atoi *)
Definition is_digit (c : N) : bool := (48 <=? c) && (c <=? 57).
Fixpoint digits_val (s : bytes) (acc : Z) : Z :=
  match s with [] => acc | c :: r => digits_val r (10 * acc + Z.of_N (c - 48))%Z end.
Definition atoi (s : bytes) : option Z :=
  let '(neg, d) := match s with
                   | 43 :: r => (false, r)
                   | 45 :: r => (true, r)
                   | _ => (false, s)
                   end in
  match d with
  | [] => None
  | _ => if forallb is_digit d then
           let v := digits_val d 0 in
           if neg then (if (v <=? 9223372036854775808)%Z then Some (- v)%Z else None)
           else (if (v <=? 9223372036854775807)%Z then Some v else None)
         else None
  end.

Definition label (e : renv) (nstr : bytes) : bytes :=
  match atoi nstr with
  | None => e_empty e
  | Some n =>
    if (n <? 1)%Z then e_empty e
    else let labels := GoPath.split 46 (e_host e) in
         if (Z.of_nat (length labels) <? n)%Z then e_empty e
         else nth (Z.to_nat (n - 1)) labels []
  end.

Definition key_mid (key : bytes) : res bytes := slice key 2 (length key - 1).

Definition EQS : N := 61.
Definition osenv_get (e : renv) (name : bytes) : bytes :=
  match assoc name (e_osenv e) with Some v => v | None => [] end.

Local Open Scope string_scope.
Definition lit_HEAD : bytes := Eval vm_compute in bs "HEAD".
(* strconv.Itoa *)
Fixpoint digits_of (fuel : nat) (n : N) (acc : bytes) : bytes :=
  match fuel with
  | O => acc
  | S f => let acc' := (48 + n mod 10) :: acc in if n <? 10 then acc' else digits_of f (n / 10) acc'
  end.
Definition itoa_N (n : N) : bytes := digits_of (S (N.to_nat (N.log2 n))) n [].
Definition itoa_Z (z : Z) : bytes :=
  if (z <? 0)%Z then 45 :: itoa_N (Z.to_N (- z)) else itoa_N (Z.to_N z).

(* path.Split: the file is what follows the last slash *)
Fixpoint take_until_slash (s : bytes) : bytes :=
  match s with [] => [] | c :: r => if c =? 47 then [] else c :: take_until_slash r end.
Definition path_file (p : bytes) : bytes := rev (take_until_slash (rev p)).
Definition path_dir (p : bytes) : bytes := firstn (length p - length (path_file p)) p.

(* the default vocabulary: the model's dispatch table.  [Fn f]: the value is COMPUTED by the model
   from the request components in [renv]; [Oracle]: the model only knows that the label exists,
   its value for the request is handed in (e_defaults) — computed by the harness with the Go
   standard library (os.Hostname, net.SplitHostPort, url.QueryEscape, URL.RequestURI) or, for the
   time- and dump-valued ones, not judged at all.  The model has no TLS and no requestid / MITM
   detection in front of it. *)
Inductive how := Fn (f : renv -> bytes) | Oracle.
Definition f_status (e : renv) : bytes :=
  match e_rec e with None => e_empty e | Some (st, _) => itoa_Z st end.
Definition f_size (e : renv) : bytes :=
  match e_rec e with
  | None => e_empty e
  | Some (_, sz) => if beq (e_method e) lit_HEAD then [48] else itoa_N sz
  end.
Definition dispatch : list (bytes * how) := Eval vm_compute in
  [ (bs "{method}", Fn e_method);
    (bs "{scheme}", Fn (fun _ => bs "http"));
    (bs "{hostname}", Oracle);
    (bs "{host}", Fn e_host);
    (bs "{hostonly}", Oracle);
    (bs "{path}", Fn e_path);
    (bs "{path_escaped}", Oracle);
    (bs "{request_id}", Fn (fun _ => []));
    (bs "{rewrite_path}", Fn e_curpath);
    (bs "{rewrite_path_escaped}", Oracle);
    (bs "{query}", Fn e_rawquery);
    (bs "{query_escaped}", Oracle);
    (bs "{fragment}", Fn (fun _ => []));
    (bs "{proto}", Fn e_proto);
    (bs "{remote}", Oracle);
    (bs "{port}", Oracle);
    (bs "{uri}", Oracle);
    (bs "{uri_escaped}", Oracle);
    (bs "{rewrite_uri}", Oracle);
    (bs "{rewrite_uri_escaped}", Oracle);
    (bs "{when}", Oracle);
    (bs "{when_iso_local}", Oracle);
    (bs "{when_iso}", Oracle);
    (bs "{when_unix}", Oracle);
    (bs "{when_unix_ms}", Oracle);
    (bs "{file}", Fn (fun e => path_file (e_curpath e)));
    (bs "{dir}", Fn (fun e => path_dir (e_curpath e)));
    (bs "{request}", Oracle);
    (bs "{request_body}", Oracle);
    (bs "{mitm}", Fn (fun _ => bs "unknown"));
    (bs "{status}", Fn f_status);
    (bs "{size}", Fn f_size);
    (bs "{latency}", Oracle);
    (bs "{latency_ms}", Oracle);
    (bs "{tls_protocol}", Fn e_empty);
    (bs "{tls_cipher}", Fn e_empty);
    (bs "{tls_client_escaped_cert}", Fn e_empty);
    (bs "{tls_client_fingerprint}", Fn e_empty);
    (bs "{tls_client_i_dn}", Fn e_empty);
    (bs "{tls_client_raw_cert}", Fn e_empty);
    (bs "{tls_client_s_dn}", Fn e_empty);
    (bs "{tls_client_serial}", Fn e_empty);
    (bs "{tls_client_v_end}", Fn e_empty);
    (bs "{tls_client_v_remain}", Fn e_empty);
    (bs "{tls_client_v_start}", Fn e_empty);
    (bs "{server_port}", Oracle) ].
Definition is_fn (h : how) : bool := match h with Fn _ => true | Oracle => false end.

(* the regenerated case labels of getSubstitution's switch (Gen_C20.gen_c20_vocab) and the keys of
   the dispatch table are the same set: a placeholder added to (or removed from) the code without
   a model entry makes this false, and C20_vocabulary_is_dispatch_table no longer checks *)
Definition vocab_matches_dispatch : bool :=
  forallb (fun l => match assoc l dispatch with Some _ => true | None => false end) gen_c20_vocab &&
  forallb (fun p => mem (fst p) gen_c20_vocab) dispatch.

(* [tbl] = the dispatch table of the default vocabulary *)
Definition get_subst_chk (tbl : list (bytes * how)) (e : renv) (key : bytes) : res bytes :=
  match assoc key (e_custom e) with
  | Some v => Ok v
  | None =>
    do k1 <- idx key 1;
    let dflt : res bytes :=
      match assoc key tbl with
      | Some (Fn f) => Ok (f e)
      | Some Oracle => Ok (match assoc key (e_defaults e) with Some v => v | None => [] end)
      | None =>
        if prefixb lit_label_13 key then
          do ns <- slice key 6 (length key - 1); Ok (label e ns)
        else Ok (e_empty e)
      end in
    if k1 =? 62 then                                  (* {>Header} *)
      do w <- key_mid key;
      match hdr_lookup w (e_reqh e) with Some v => Ok v | None => dflt end
    else if k1 =? 60 then                             (* {<Header} *)
      match e_resph e with
      | None => dflt
      | Some h => do w <- key_mid key;
                  match hdr_lookup w h with Some v => Ok v | None => dflt end
      end
    else if k1 =? 126 then                            (* {~cookie} *)
      do w <- key_mid key;
      match assoc w (e_cookies e) with Some v => Ok v | None => dflt end
    else if k1 =? 63 then                             (* {?arg} *)
      do w <- key_mid key;
      Ok (match assoc w (e_query e) with Some v => v | None => [] end)
    else if k1 =? 36 then                             (* {$ENV} / {$ENV=default} *)
      do w <- key_mid key;
      match index_of [EQS] w with
      | Some i => let v := osenv_get e (firstn i w) in
                  Ok (match v with [] => skipn (S i) w | _ => v end)
      | None => Ok (osenv_get e w)
      end
    else dflt
  end.

Definition get_subst (tbl : list (bytes * how)) (e : renv) (key : bytes) : bytes :=
  match get_subst_chk tbl e key with Ok v => v | Panic => [] end.

Definition expand_env (e : renv) (s : bytes) : res bytes := expand (get_subst dispatch e) s.

(* keys that Replace can hand to getSubstitution: "{" … x "}" with x not a backslash *)
Definition key_shape (key : bytes) : Prop := exists t x, key = t ++ [x; RB] /\ x <> BSL.

(* writing a text with every brace escaped *)
Fixpoint esc (w : bytes) : bytes :=
  match w with
  | [] => []
  | c :: r => if (c =? LB) || (c =? RB) then BSL :: c :: esc r else c :: esc r
  end.

(* ---- independent executable spec of the expansion (documented behaviour) ------------------ *)
(* structural tokenizer: \{ and \} are literal braces, an unescaped { opens a placeholder that
   runs to the next unescaped }, an unpaired { leaves the rest literal *)
Definition is_brace (c : N) : bool := (c =? LB) || (c =? RB).
Fixpoint stok (s : bytes) (lit : bytes) (ink : option bytes) : list seg :=
  match s with
  | [] => match ink with
          | None => [Lit (rev lit)]
          | Some k => [Lit (rev lit ++ rev k)]
          end
  | c :: r =>
    match ink with
    | None =>
      if c =? BSL then
        match r with
        | d :: r' => if is_brace d then stok r' (d :: lit) None else stok r (c :: lit) None
        | [] => stok r (c :: lit) None
        end
      else if c =? LB then stok r lit (Some [LB])
      else stok r (c :: lit) None
    | Some k =>
      if c =? BSL then
        match r with
        | d :: r' => if is_brace d then stok r' lit (Some (d :: k)) else stok r lit (Some (c :: k))
        | [] => stok r lit (Some (c :: k))
        end
      else if c =? RB then Lit (rev lit) :: Ph (rev (RB :: k)) :: stok r [] None
      else stok r lit (Some (c :: k))
    end
  end.
Definition spec_tokens (s : bytes) : list seg := stok s [] None.

(* formats in which a backslash only ever escapes a brace: there the documented reading is
   unambiguous (elsewhere Replace has quirks — a lone leading backslash is dropped — that the
   model reproduces and the spec does not judge) *)
Fixpoint simple_fmt (s : bytes) : bool :=
  match s with
  | [] => true
  | c :: r => if c =? BSL then match r with
                               | d :: r' => is_brace d && simple_fmt r'
                               | [] => false
                               end
              else simple_fmt r
  end.

(* documented value of a placeholder: the harness's own table of the documented vocabulary
   (e_defaults) is used directly, not the switch labels found in the code *)
Definition spec_subst (e : renv) (key : bytes) : bytes :=
  match assoc key (e_custom e) with
  | Some v => v
  | None =>
    let k1 := nth 1 key 0 in
    let w := firstn (length key - 3) (skipn 2 key) in
    let other := match assoc key (e_defaults e) with
                 | Some v => v
                 | None => if prefixb lit_label_13 key
                           then label e (firstn (length key - 7) (skipn 6 key))
                           else e_empty e
                 end in
    if k1 =? 62 then match hdr_lookup w (e_reqh e) with Some v => v | None => e_empty e end
    else if k1 =? 60 then
      match e_resph e with
      | Some h => match hdr_lookup w h with Some v => v | None => e_empty e end
      | None => e_empty e
      end
    else if k1 =? 126 then match assoc w (e_cookies e) with Some v => v | None => e_empty e end
    else if k1 =? 63 then match assoc w (e_query e) with Some v => v | None => [] end
    else if k1 =? 36 then
      match index_of [EQS] w with
      | Some i => match osenv_get e (firstn i w) with [] => skipn (S i) w | v => v end
      | None => osenv_get e w
      end
    else other
  end.

Definition spec_expand_ok (e : renv) (fmt obs : bytes) : bool :=
  if simple_fmt fmt then beq obs (render (spec_subst e) (spec_tokens fmt)) else true.

(* ------------------------------------------------------------------------------------------ *)
(* B. response writer, recorder, errors layer, log middleware, server                           *)
(* ------------------------------------------------------------------------------------------ *)
(* how a body-producing call of the handler reaches the writer it was given *)
Inductive bkind :=
| BWrite   (* w.Write / io.WriteString: ONE Write call with all the bytes, also when there are none *)
| BCopy.   (* io.Copy / io.CopyN / ReadFrom-if-offered from a reader: the recorder offers no
              ReadFrom (and no WriteString), so the bytes arrive as Write calls of at most
              [copy_chunk] bytes, one per Read of the source — and no call at all when the
              source has no bytes *)
Inductive wop :=
| OWH (code : Z)                      (* w.WriteHeader(code) *)
| OB (k : bkind) (len : N) (srcerr : bool) (cut : option N)
                                      (* a body-producing call that offers [len] bytes to the writer:
                                         the buffer of a Write, or what the source of a copy yields
                                         before it ends (srcerr = false) or FAILS (srcerr = true:
                                         upstream reset, read error, short source of CopyN);
                                         cut = Some j (j < len): the writer below accepts only the
                                         first j of them and reports an error (connection closed
                                         by the client: the call that hits it returns n > 0
                                         TOGETHER with the error) *)
| OPanic.
Notation OW len fail := (OB BWrite len false fail).
(* io.Copy's buffer size *)
Definition copy_chunk : N := 32768.

(* the writer below the recorder.  u_size: body bytes it ACCEPTED for the client (what it reported
   as written, whether or not the call also reported an error);
   u_dead (net/http only): the connection is gone — after the first failed write to the
   connection every later Write fails with 0 bytes (bufio's sticky error) *)
Record uw := { u_status : option Z; u_size : N; u_dead : bool }.
Definition uw0 : uw := {| u_status := None; u_size := 0; u_dead := false |}.
(* w_nethttp: net/http's response (no body for 1xx/204/304, HEAD bodies accepted and dropped);
   otherwise the harness's scripted writer.  w_head: the request's method is HEAD *)
Record wcfg := { w_nethttp : bool; w_head : bool }.
(* a HEAD request is answered through a writer that sends no body (HTTP requires it, net/http
   does it) *)
Definition head_ok (c : wcfg) : bool := implb (w_head c) (w_nethttp c).

Definition body_forbidden (code : Z) : bool :=
  ((code =? 204) || (code =? 304) || ((100 <=? code) && (code <? 200)))%Z.
Definition uw_wh (u : uw) (code : Z) : uw :=
  match u_status u with
  | Some _ => u
  | None => {| u_status := Some code; u_size := u_size u; u_dead := u_dead u |}
  end.
Definition client_status (u : uw) : Z := match u_status u with Some s => s | None => 200%Z end.
(* the writer takes [n] more bytes; [fails]: the call that brought the last of them reports an error *)
Definition uw_take (c : wcfg) (u : uw) (n : N) (fails : bool) : uw :=
  {| u_status := u_status u; u_size := u_size u + n;
     u_dead := u_dead u || (fails && w_nethttp c) |}.
(* which of the special cases of the writer applies to a body call (after the implicit 200):
   1 = the status forbids a body (Write fails, nothing accepted), 2 = HEAD (accepted and dropped),
   3 = connection gone (Write fails, nothing accepted), 0 = none *)
Definition uw_mode (c : wcfg) (u1 : uw) : N :=
  if w_nethttp c && body_forbidden (client_status u1) then 1
  else if w_nethttp c && w_head c then 2
  else if u_dead u1 then 3 else 0.
(* ONE Write call of [len] bytes: (writer after, n reported, error reported) *)
Definition uw_write (c : wcfg) (u : uw) (len : N) (cut : option N) : uw * N * bool :=
  let u1 := uw_wh u 200 in
  let m := uw_mode c u1 in
  if m =? 1 then (u1, 0, true)
  else if m =? 2 then (u1, len, false)
  else if m =? 3 then (u1, 0, true)
  else match cut with
       | Some k => (uw_take c u1 k true, k, true)
       | None => (uw_take c u1 len false, len, false)
       end.
(* a copy of [len] > 0 bytes as the sequence of Write calls io.Copy makes (full chunks, then the
   rest), in closed form: (writer after, sum of the counts those calls REPORTED).  With
   cut = Some j the calls before the one containing byte j succeed (j - j mod chunk bytes), that
   one accepts j mod chunk bytes, reports them with an error, and the copy stops: j in all *)
Definition uw_copy (c : wcfg) (u : uw) (len : N) (cut : option N) : uw * N :=
  let u1 := uw_wh u 200 in
  let m := uw_mode c u1 in
  if m =? 1 then (u1, 0)
  else if m =? 2 then (u1, len)
  else if m =? 3 then (u1, 0)
  else match cut with
       | Some j => (uw_take c u1 j true, (j - j mod copy_chunk) + j mod copy_chunk)
       | None => (uw_take c u1 len false, len)
       end.

(* ResponseRecorder: like net/http it records the status that commits the response — the first
   WriteHeader with a final (non-informational) code, or the implicit 200 of the first Write;
   later WriteHeader calls do not change it.  Write adds the count the underlying writer
   reported for the call to the size, whether or not the call also reported an error
   (`if n > 0 { r.size += n }`: counts are naturals here) *)
Record rec := { r_status : Z; r_size : N; r_wrote : bool }.
Definition rec0 : rec := {| r_status := 200; r_size := 0; r_wrote := false |}.
(* 1xx other than 101: an informational header, which does not commit the response *)
Definition informational (code : Z) : bool :=
  ((100 <=? code) && (code <=? 199) && negb (code =? 101))%Z.
Definition rec_add (r : rec) (n : N) : rec :=
  {| r_status := r_status r; r_size := r_size r + n; r_wrote := true |}.
(* a body call makes no Write call at all: a copy from a source without bytes *)
Definition no_call (k : bkind) (len : N) : bool :=
  match k with BWrite => false | BCopy => len =? 0 end.

Definition step (c : wcfg) (s : uw * rec) (o : wop) : uw * rec :=
  let '(u, r) := s in
  match o with
  | OWH code => (uw_wh u code,
                 if negb (r_wrote r) && negb (informational code)
                 then {| r_status := code; r_size := r_size r; r_wrote := true |} else r)
  | OB BWrite len _ cut =>
      let '(u', n, _) := uw_write c u len cut in (u', rec_add r n)
  | OB BCopy len _ cut =>
      if len =? 0 then s
      else let '(u', counted) := uw_copy c u len cut in (u', rec_add r counted)
  | OPanic => s
  end.
(* run a handler script; true = it panicked *)
Fixpoint run (c : wcfg) (s : uw * rec) (ops : list wop) : (uw * rec) * bool :=
  match ops with
  | [] => (s, false)
  | OPanic :: _ => (s, true)
  | o :: r => run c (step c s o) r
  end.

(* configuration *)
Record directive := { d_scope : bytes; d_except : list bytes }.
Record entry := { n_id : nat; n_except : list bytes }.
Record rule := { ru_scope : bytes; ru_entries : list entry }.

Fixpoint append_entry (rules : list rule) (scope : bytes) (e : entry) : list rule :=
  match rules with
  | [] => [{| ru_scope := scope; ru_entries := [e] |}]
  | r :: rs => if beq (ru_scope r) scope
               then {| ru_scope := ru_scope r; ru_entries := ru_entries r ++ [e] |} :: rs
               else r :: append_entry rs scope e
  end.
(* logParse: `logExceptions` is declared inside the per-directive loop, so every directive's
   logger carries exactly the `except` paths written in its own block *)
Fixpoint parse_logs (ds : list directive) (i : nat) (rules : list rule) : list rule :=
  match ds with
  | [] => rules
  | d :: r => parse_logs r (S i) (append_entry rules (d_scope d) {| n_id := i; n_except := d_except d |})
  end.

Definition should_log (cs : bool) (exc : list bytes) (path : bytes) : bool :=
  negb (existsb (path_matches cs path) exc).

Fixpoint tlook (tbl : list (Z * N)) (code : Z) : N :=
  match tbl with [] => 0 | (k, v) :: r => if (k =? code)%Z then v else tlook r code end.
(* the error response: ek 1 = httpserver.DefaultErrorFunc ("%d %s\n"), 0 = the log middleware's
   own fallback ("%d %s"); tbl = length of the DefaultErrorFunc body per status *)
Definition err_ops (tbl : list (Z * N)) (ek : N) (code : Z) : list wop :=
  [OWH code; OW (if ek =? 0 then tlook tbl code - 1 else tlook tbl code) None].
(* the same script with every source ending regularly *)
Definition clear_srcerr (o : wop) : wop :=
  match o with OB k len _ cut => OB k len false cut | _ => o end.

Definition line := (nat * Z * N)%type.    (* (log directive / entry id, {status}, {size}) *)
(* getSubstitution's {size}: the recorder's byte count, 0 when the request's method is HEAD *)
Definition logged_size (c : wcfg) (r : rec) : N := if w_head c then 0 else r_size r.

(* Logger.entries: the entries of every rule whose scope contains the path, in rule order *)
Definition matching_entries (cs : bool) (rules : list rule) (path : bytes) : list entry :=
  flat_map ru_entries (filter (fun r => path_matches cs path (ru_scope r)) rules).

(* log.Logger.ServeHTTP: result = writer state, returned status, panicked, lines written.
   [path] is the path the CLIENT requested: the middleware copies the URL before calling the
   next handler (preURL) and judges scopes and exceptions on that copy; inner middleware
   (rewrite, ext, ...) and handlers change r.URL.Path in place, which must not (and in the
   model cannot) influence which logs get a line — the harness drives such rewrites *)
Definition log_serve (c : wcfg) (cs : bool) (tbl : list (Z * N)) (ek : N) (rules : list rule)
           (path : bytes) (ops : list wop) (ret : Z) (u : uw) : uw * Z * bool * list line :=
  match find (fun r => path_matches cs path (ru_scope r)) rules with
  | None => let '((u', _), p) := run c (u, rec0) ops in (u', ret, p, [])
  | Some _ =>
    let '((u1, r1), p) := run c (u, rec0) ops in
    (* serveNext: a panic of the handler is recovered and becomes the status 500 *)
    let ret1 := if p then 500%Z else ret in
      let '((u2, r2), ret') :=
        if (400 <=? ret1)%Z then (fst (run c (u1, r1) (err_ops tbl ek ret1)), 0%Z)
        else ((u1, r1), ret1) in
      (u2, ret', false,
       map (fun e => (n_id e, r_status r2, logged_size c r2))
           (filter (fun e => should_log cs (n_except e) path) (matching_entries cs rules path)))
  end.

(* errors.ErrorHandler sits inside log and writes to the same writer: as a script transformer *)
Fixpoint upto_panic (ops : list wop) : list wop * bool :=
  match ops with
  | [] => ([], false)
  | OPanic :: _ => ([], true)
  | o :: r => let '(a, p) := upto_panic r in (o :: a, p)
  end.
Definition errors_flat (tbl : list (Z * N)) (ops : list wop) (ret : Z) : list wop * Z :=
  let '(a, p) := upto_panic ops in
  if p then (a ++ err_ops tbl 1 500, 0%Z)
  else if (400 <=? ret)%Z then (a ++ err_ops tbl 1 ret, 0%Z)
  else (a, ret).

(* a whole request through Server.ServeHTTP of a site with the given log directives:
   (status the client sees, body bytes the client gets, log lines) *)
(* header.Headers sits between log and errors: its writer wrapper drops every WriteHeader after
   the first WriteHeader / Write *)
Fixpoint header_filter (wrote : bool) (ops : list wop) : list wop :=
  match ops with
  | [] => []
  | OWH code :: r => if wrote then header_filter true r else OWH code :: header_filter true r
  | OB k len se cut :: r => OB k len se cut :: header_filter (wrote || negb (no_call k len)) r
  | OPanic :: r => OPanic :: header_filter wrote r
  end.
(* the handler script as the log middleware's recorder sees it *)
Definition inner_flat (tbl : list (Z * N)) (haserr hdrw : bool) (ops : list wop) (ret : Z) : list wop * Z :=
  let '(ops1, ret1) := if haserr then errors_flat tbl ops ret else (ops, ret) in
  (if hdrw then header_filter false ops1 else ops1, ret1).

Definition site_run (c : wcfg) (cs : bool) (tbl : list (Z * N)) (haserr hdrw : bool)
           (ds : list directive) (path : bytes) (ops : list wop) (ret : Z) : uw * list line :=
  let '(ops1, ret1) := inner_flat tbl haserr hdrw ops ret in
  let '(u, ret2, p, lines) := log_serve c cs tbl 1 (parse_logs ds 0 []) path ops1 ret1 uw0 in
  let u' := if p then fst (fst (run c (u, rec0) (err_ops tbl 1 500)))
            else if (400 <=? ret2)%Z then fst (fst (run c (u, rec0) (err_ops tbl 1 ret2)))
            else u in
  (u', lines).
(* (status the client sees, body bytes the writer accepted for it, log lines) *)
Definition site_serve (c : wcfg) (cs : bool) (tbl : list (Z * N)) (haserr hdrw : bool)
           (ds : list directive) (path : bytes) (ops : list wop) (ret : Z) : Z * N * list line :=
  let '(u', lines) := site_run c cs tbl haserr hdrw ds path ops ret in
  (client_status u', u_size u', lines).

(* ---- shapes of handler scripts and configurations used by the theorems --------------------- *)
Definition no_panic (ops : list wop) : bool :=
  forallb (fun o => match o with OPanic => false | _ => true end) ops.
(* every WriteHeader code is a final one (the writer model commits on every WriteHeader: 1xx
   informational headers are outside it, see the assumptions) *)
Definition final_codes (ops : list wop) : bool :=
  forallb (fun o => match o with OWH code => negb (informational code) | _ => true end) ops.
(* what the log middleware adds itself when the handler returned [ret] *)
Definition fallback (tbl : list (Z * N)) (ek : N) (ret : Z) : list wop :=
  if (400 <=? ret)%Z then err_ops tbl ek ret else [].
Definition ids_of (ls : list line) : list nat := map (fun l => fst (fst l)) ls.

(* ---- executable statement of the property on observations --------------------------------- *)
Definition count_id (i : nat) (ls : list line) : nat :=
  length (filter (fun l => Nat.eqb (fst (fst l)) i) ls).
(* a configured log owes the request one line iff the request — the path the client asked
   for, whatever inner directives rewrite it to — is inside its scope and not excepted by ITS
   OWN except list *)
Definition owes (cs : bool) (d : directive) (path : bytes) : bool :=
  path_matches cs path (d_scope d) && should_log cs (d_except d) path.
Fixpoint counts_ok (cs : bool) (ds : list directive) (i : nat) (path : bytes) (ls : list line) : bool :=
  match ds with
  | [] => true
  | d :: r => Nat.eqb (count_id i ls) (if owes cs d path then 1 else 0) && counts_ok cs r (S i) path ls
  end.
Definition lines_exact (st : Z) (sz : N) (ls : list line) : bool :=
  forallb (fun l => (snd (fst l) =? st)%Z && (snd l =? sz)) ls.

Definition line_beq (a b : line) : bool :=
  Nat.eqb (fst (fst a)) (fst (fst b)) && (snd (fst a) =? snd (fst b))%Z && (snd a =? snd b).

(* the lines of a site are read back file by file (directive by directive): the order in which
   the middleware wrote to different files is not observable, so both sides are put in
   directive order before they are compared (rules group directives by scope: with scopes
   A, B, A the middleware writes 0, 2, 1) *)
Fixpoint insert_line (l : line) (ls : list line) : list line :=
  match ls with
  | [] => [l]
  | x :: r => if Nat.leb (fst (fst l)) (fst (fst x)) then l :: ls else x :: insert_line l r
  end.
Definition sort_lines (ls : list line) : list line := fold_right insert_line [] ls.

(* rule-level spec (the middleware driven directly): every entry of every rule *)
Fixpoint rule_counts_ok (cs : bool) (rs : list rule) (path : bytes) (ls : list line) : bool :=
  match rs with
  | [] => true
  | r :: rest =>
    forallb (fun e => Nat.eqb (count_id (n_id e) ls)
                        (if path_matches cs path (ru_scope r) && should_log cs (n_except e) path
                         then 1 else 0)) (ru_entries r)
    && rule_counts_ok cs rest path ls
  end.

(* ------------------------------------------------------------------------------------------ *)
(* C. concurrently served requests                                                               *)
(* ------------------------------------------------------------------------------------------ *)
(* What a request owns while it is being served: the customReplacements map of ITS replacer
   (Server.ServeHTTP creates one per request — NewReplacer(r, nil, "") makes a fresh map — and
   stores it in the request's context under ReplacerCtxKey; every later NewReplacer(r, ...) of
   that request, the log middleware's included, takes the map from r.Context()), and the
   connection's writer with the recorder the log middleware wrapped around it. *)
Record preq := { q_cfg : wcfg; q_custom : list (bytes * bytes); q_w : uw * rec }.
Definition preq0 (c : wcfg) : preq := {| q_cfg := c; q_custom := []; q_w := (uw0, rec0) |}.

(* the server: a heap of such objects, and for every request being served the address its context
   holds.  Nothing else is shared between requests (the rule table is fixed at setup). *)
Record world := { wd_next : nat; wd_heap : list (nat * preq); wd_ctx : list (nat * nat) }.
Definition world0 : world := {| wd_next := 0; wd_heap := []; wd_ctx := [] |}.

Inductive rstep :=
| RStart (c : wcfg)           (* the request arrives: Server.ServeHTTP allocates its replacer *)
| RSet (key value : bytes)    (* some middleware of the chain: Replacer.Set(key, value), the replacer
                                 reached through the request's context (or rr.Replacer, which the log
                                 middleware made from that very context) *)
| ROp (o : wop).              (* the handler acts on the writer it was given *)

Fixpoint nlook {A} (k : nat) (l : list (nat * A)) : option A :=
  match l with
  | [] => None
  | (k', v) :: r => if Nat.eqb k k' then Some v else nlook k r
  end.
Fixpoint nupd {A} (k : nat) (f : A -> A) (l : list (nat * A)) : list (nat * A) :=
  match l with
  | [] => []
  | (k', v) :: r => if Nat.eqb k k' then (k', f v) :: r else (k', v) :: nupd k f r
  end.

(* what one step does to the state the request owns *)
Definition preq_step (a : rstep) (p : preq) : preq :=
  match a with
  | RStart _ => p
  | RSet k v => {| q_cfg := q_cfg p; q_custom := (LB :: k ++ [RB], v) :: q_custom p; q_w := q_w p |}
  | ROp o => {| q_cfg := q_cfg p; q_custom := q_custom p; q_w := step (q_cfg p) (q_w p) o |}
  end.

(* one step of request [i] in the server *)
Definition world_step (w : world) (ia : nat * rstep) : world :=
  let '(i, a) := ia in
  match nlook i (wd_ctx w), a with
  | None, RStart c =>
      {| wd_next := S (wd_next w); wd_heap := (wd_next w, preq0 c) :: wd_heap w;
         wd_ctx := (i, wd_next w) :: wd_ctx w |}
  | None, _ => w                                   (* no such request *)
  | Some ad, _ =>
      {| wd_next := wd_next w; wd_heap := nupd ad (preq_step a) (wd_heap w); wd_ctx := wd_ctx w |}
  end.
Definition world_run (sched : list (nat * rstep)) (w : world) : world := fold_left world_step sched w.

(* the state of request i as the server holds it *)
Definition view (w : world) (i : nat) : option preq :=
  match nlook i (wd_ctx w) with Some ad => nlook ad (wd_heap w) | None => None end.

(* the same request served ALONE: only its own steps, in their order *)
Definition solo_step (s : option preq) (a : rstep) : option preq :=
  match s, a with
  | None, RStart c => Some (preq0 c)
  | None, _ => None
  | Some p, _ => Some (preq_step a p)
  end.
Definition solo (steps : list rstep) (s : option preq) : option preq := fold_left solo_step steps s.
Definition proj (i : nat) (sched : list (nat * rstep)) : list rstep :=
  map snd (filter (fun ia => Nat.eqb (fst ia) i) sched).

(* the access-log line of a request: the format expanded with the request's own custom
   placeholders in front of everything else, {status}/{size} from its own recorder *)
Definition req_env (base : renv) (p : preq) : renv :=
  {| e_custom := q_custom p; e_reqh := e_reqh base; e_resph := e_resph base; e_cookies := e_cookies base;
     e_query := e_query base; e_osenv := e_osenv base; e_defaults := e_defaults base; e_host := e_host base;
     e_empty := e_empty base; e_method := e_method base; e_path := e_path base; e_curpath := e_curpath base;
     e_rawquery := e_rawquery base; e_proto := e_proto base;
     e_rec := Some (r_status (snd (q_w p)), r_size (snd (q_w p))) |}.
Definition req_line (fmt : bytes) (base : renv) (s : option preq) : option (res bytes) :=
  match s with Some p => Some (expand_env (req_env base p) fmt) | None => None end.

(* ------------------------------------------------------------------------------------------ *)
(* D. the entry list of a request: Go slices over backing arrays                                  *)
(* ------------------------------------------------------------------------------------------ *)
(* log.Logger.entries(path): the entries of every rule whose scope matches, collected by
   `entries = append(entries, rule.Entries...)` starting from nil.  A rule's Entries slice is a
   (array, length) pair whose array - built by append in setup - may have spare capacity (three logs on
   one scope: length 3, capacity 4) and is shared by every request.  Entries are named by their number. *)
Definition aheap := list (nat * list nat).                 (* array address -> its cells (length = capacity) *)
Record gslice := { sl_arr : nat; sl_len : nat }.
Definition sl_read (h : aheap) (s : gslice) : list nat :=
  match nlook (sl_arr s) h with Some cells => firstn (sl_len s) cells | None => [] end.
Definition fresh_addr (h : aheap) : nat := S (list_max (map fst h)).
Definition overwrite (cells : list nat) (k : nat) (xs : list nat) : list nat :=
  firstn k cells ++ xs ++ skipn (k + length xs) cells.
(* append(s, xs...): in place when the capacity suffices (the cells behind the length are overwritten in the
   array every other slice over it sees), else into a new array *)
Definition go_append (h : aheap) (s : gslice) (xs : list nat) : aheap * gslice :=
  match nlook (sl_arr s) h with
  | Some cells =>
      if Nat.leb (sl_len s + length xs) (length cells)
      then (nupd (sl_arr s) (fun c => overwrite c (sl_len s) xs) h,
            {| sl_arr := sl_arr s; sl_len := sl_len s + length xs |})
      else ((fresh_addr h, firstn (sl_len s) cells ++ xs) :: h,
            {| sl_arr := fresh_addr h; sl_len := sl_len s + length xs |})
  | None => (h, s)
  end.
(* the code as it is: the list starts from nil, so the first append allocates an array no rule knows;
   [ms] = the Entries slices of the rules that match the request, in rule order *)
Definition entries_fresh (h : aheap) (ms : list gslice) : aheap * gslice :=
  let all := concat (map (sl_read h) ms) in
  ((fresh_addr h, all) :: h, {| sl_arr := fresh_addr h; sl_len := length all |}).
(* the seeded variant: the first matching rule's own slice is used and appended to *)
Definition entries_on_rule_slice (h : aheap) (ms : list gslice) : aheap * gslice :=
  match ms with
  | [] => (h, {| sl_arr := fresh_addr h; sl_len := 0 |})
  | first :: rest => fold_left (fun hs m => go_append (fst hs) (snd hs) (sl_read (fst hs) m)) rest (h, first)
  end.
(* requests in flight: [EACompute i ms] request i computes its entry list; [EALog i] it writes its next line
   (to the log of the entry it finds at its next index NOW) *)
Inductive eact := EACompute (i : nat) (ms : list gslice) | EALog (i : nat).
Record eworld := { ew_heap : aheap; ew_slice : list (nat * gslice); ew_logged : list (nat * list nat) }.
Definition logged_of (w : eworld) (i : nat) : list nat :=
  match nlook i (ew_logged w) with Some l => l | None => [] end.
Definition eworld_step (entries : aheap -> list gslice -> aheap * gslice) (w : eworld) (a : eact) : eworld :=
  match a with
  | EACompute i ms =>
      let '(h', s) := entries (ew_heap w) ms in
      {| ew_heap := h'; ew_slice := (i, s) :: ew_slice w; ew_logged := (i, []) :: ew_logged w |}
  | EALog i =>
      match nlook i (ew_slice w) with
      | Some s =>
          let done := logged_of w i in
          match nth_error (sl_read (ew_heap w) s) (length done) with
          | Some e => {| ew_heap := ew_heap w; ew_slice := ew_slice w; ew_logged := (i, done ++ [e]) :: ew_logged w |}
          | None => w
          end
      | None => w
      end
  end.
Definition eworld_run entries (sched : list eact) (w : eworld) : eworld := fold_left (eworld_step entries) sched w.

(* ------------------------------------------------------------------------------------------ *)
(* E. logParse over the log directives of a site, as written in the file                          *)
(* ------------------------------------------------------------------------------------------ *)
(* one `log` directive as the dispenser hands it over: its arguments and the lines of its block
   (sub-directive name, its arguments) *)
Record rawdir := { rd_args : list bytes; rd_block : list (bytes * list bytes) }.
(* what logParse makes of ONE directive *)
Record pentry := { pe_scope : bytes; pe_output : bytes; pe_format : bytes; pe_except : list bytes }.
Local Open Scope string_scope.
Definition lit_except : bytes := Eval vm_compute in bs "except".
Definition lit_ipmask : bytes := Eval vm_compute in bs "ipmask".
Definition roller_subs : list bytes := Eval vm_compute in
  [bs "rotate_size"; bs "rotate_age"; bs "rotate_keep"; bs "rotate_compress"; bs "rotate_disable"].
Definition lit_default_output : bytes := Eval vm_compute in bs "access.log".
Definition lit_default_format : bytes := Eval vm_compute in
  bs "{remote} - {user} [{when}] ""{method} {uri} {proto}"" {status} {size}".
Local Close Scope string_scope.
(* the variables of logParse that live across the lines of a block; [carry] = false is the code as
   it is (`var logExceptions []string` is declared INSIDE the `for c.Next()` loop, path / format /
   output are assigned afresh after the block); carry = true is the variant in which they are
   declared before the loop, so that what one directive leaves behind is the next one's start *)
Record pstate := { ps_except : list bytes; ps_scope : bytes; ps_output : bytes; ps_format : bytes }.
Definition pstate0 : pstate :=
  {| ps_except := []; ps_scope := [47]; ps_output := lit_default_output; ps_format := lit_default_format |}.
(* the block: `except` appends its arguments, ipmask needs one, roller sub-directives are not
   modelled (accepted), anything else is an error *)
Fixpoint parse_block (b : list (bytes * list bytes)) (exc : list bytes) : option (list bytes) :=
  match b with
  | [] => Some exc
  | (what, where_) :: r =>
    if beq what lit_except then parse_block r (exc ++ where_)
    else if beq what lit_ipmask then match where_ with [] => None | _ => parse_block r exc end
    else if mem what roller_subs then parse_block r exc
    else None
  end.
(* one round of the `for c.Next()` loop from the state [st0] the round starts in *)
Definition parse_dir_from (st0 : pstate) (d : rawdir) : option pstate :=
  match parse_block (rd_block d) (ps_except st0) with
  | None => None
  | Some exc =>
    match rd_args d with
    | [] => Some {| ps_except := exc; ps_scope := ps_scope st0; ps_output := ps_output st0; ps_format := ps_format st0 |}
    | [o] => Some {| ps_except := exc; ps_scope := ps_scope st0; ps_output := o; ps_format := ps_format st0 |}
    | [p; o] => Some {| ps_except := exc; ps_scope := p; ps_output := o; ps_format := ps_format st0 |}
    | [p; o; f] => Some {| ps_except := exc; ps_scope := p; ps_output := o; ps_format := f |}
    | _ => None
    end
  end.
Definition entry_of (st : pstate) : pentry :=
  {| pe_scope := ps_scope st; pe_output := ps_output st; pe_format := ps_format st; pe_except := ps_except st |}.
(* what ONE directive means, read alone *)
Definition parse_dir (d : rawdir) : option pentry := option_map entry_of (parse_dir_from pstate0 d).
(* the loop over the directives of the site, in file order: the parsed entries, numbered *)
Fixpoint log_parse_loop (carry : bool) (st : pstate) (ds : list rawdir) : option (list pentry) :=
  match ds with
  | [] => Some []
  | d :: r =>
    match parse_dir_from st d with
    | None => None
    | Some st' =>
      match log_parse_loop carry (if carry then st' else pstate0) r with
      | None => None
      | Some es => Some (entry_of st' :: es)
      end
    end
  end.
Definition log_parse (ds : list rawdir) : option (list pentry) := log_parse_loop false pstate0 ds.
Definition log_parse_carried (ds : list rawdir) : option (list pentry) := log_parse_loop true pstate0 ds.
(* the rule table the middleware gets (appendEntry, one entry per directive, in order) *)
Definition dir_of (e : pentry) : directive := {| d_scope := pe_scope e; d_except := pe_except e |}.
Definition rules_of (es : list pentry) : list rule := parse_logs (map dir_of es) 0 [].

(* ------------------------------------------------------------------------------------------ *)
(* correspondence cases and judge                                                              *)
(* ------------------------------------------------------------------------------------------ *)
Inductive case :=
(* NewReplacer(request, recorder, empty).Replace(fmt) *)
| CRepl (fmt : bytes) (e : renv) (obs_panic : bool) (obs : bytes)
(* log.Logger{Rules, ErrorFunc}.ServeHTTP over the harness's scripted writer and handler
   (which may set r.URL.Path to another path before answering; [path] is the requested one):
   obs = lines (entry id, status, size), committed status of the writer (0 = none), bytes
   delivered, returned status, panicked *)
| CLog (cs : bool) (rules : list rule) (ek : N) (path : bytes) (ops : list wop) (ret : Z)
       (tbl : list (Z * N)) (obs_lines : list line) (obs_ustatus : Z) (obs_usize : N)
       (obs_ret : Z) (obs_panic : bool)
(* one HTTP/1.1 request for [path] to a running site with the given log directives (+ errors;
   a rewrite / ext directive or the handler may rewrite r.URL.Path: that shows in [e] only):
   obs = status and body length seen by the client, the lines found in the log files
   (directive index, {status}, {size}), and the request-derived tail of each line;
   modelled = false: a gzip directive sits between log and the handler (sizes are those of the
   compressed stream, which the model does not predict: only the spec is judged) *)
| CSite (modelled haserr hdrw head : bool) (ds : list directive) (path : bytes) (ops : list wop) (ret : Z)
        (tbl : list (Z * N))
        (* aborted = false: the client read the response to its end; aborted = true: it closed the
           connection (RST) after reading obs_size body bytes (obs_status = 0: not even the status
           line) while the handler was still writing — then the [cut]s of [ops] are the counts
           and errors the handler's Write calls REPORTED (only the kernel knows how much of the
           socket buffer the client will never read), and acc is their sum *)
        (aborted : bool) (acc : N)
        (obs_status : Z) (obs_size : N) (obs_lines : list line)
        (tailfmt : bytes) (e : renv) (obs_tails : list bytes)
(* lines of ONE request found in the files of log directives that have formats of their own:
   (the directive's format after the common prefix, what its file shows there) *)
| CTails (e : renv) (items : list (bytes * bytes))
(* requests issued concurrently *)
| CBurst (cs : list case).

Definition uw_obs_status (u : uw) : Z := match u_status u with Some s => s | None => 0%Z end.

Fixpoint judge1 (c : case) : bool * bool :=
  match c with
  | CRepl fmt e op obs =>
      let agree := match expand_env e fmt with
                   | Ok o => negb op && beq o obs
                   | Panic => op
                   end in
      (agree, negb op && spec_expand_ok e fmt obs)
  | CLog cs rules ek path ops ret tbl ol ous ousz oret op =>
      let wc := {| w_nethttp := false; w_head := false |} in
      let '(u, r, p, ls) := log_serve wc cs tbl ek rules path ops ret uw0 in
      let agree := Bool.eqb p op && list_beq line_beq ls ol &&
                   (uw_obs_status u =? ous)%Z && (u_size u =? ousz) &&
                   (op || (r =? oret)%Z) in
      (* a panic of the handler may get past the middleware only when no line is owed *)
      let spec := rule_counts_ok cs rules path ol &&
                  (op || lines_exact (if (ous =? 0)%Z then 200%Z else ous) ousz ol) in
      (agree, spec)
  | CSite modelled haserr hdrw head ds path ops ret tbl aborted acc ost osz ol tf e otails =>
      let wc := {| w_nethttp := true; w_head := head |} in
      let '(st, sz, ls) := site_serve wc false tbl haserr hdrw ds path ops ret in
      let view_ok := if aborted then ((ost =? 0) || (st =? ost))%Z && (osz <=? sz) && (acc <=? sz) && ((400 <=? ret)%Z || (sz =? acc))
                     else (st =? ost)%Z && (sz =? osz) in
      let agree := (negb modelled || (view_ok && list_beq line_beq (sort_lines ls) (sort_lines ol))) &&
                   forallb (fun t => match expand_env e tf with Ok o => beq o t | Panic => false end) otails in
      (* complete response: every line carries the status and the body length the client saw.
         Aborted by the client: what the client received is a lower bound (it cannot have received
         what the writer did not accept), the bytes the writer reported as accepted to the
         handler are one too, and when the handler's calls are all there was (no error response
         added by the server) {size} is exactly their sum *)
      let exact := if aborted
                   then forallb (fun l => ((ost =? 0) || (snd (fst l) =? ost))%Z && (osz <=? snd l) && (acc <=? snd l) &&
                                          ((400 <=? ret)%Z || (snd l =? acc))) ol
                   else lines_exact ost osz ol in
      let spec := counts_ok false ds 0 path ol && exact &&
                  forallb (spec_expand_ok e tf) otails &&
                  Nat.eqb (length otails) (length ol) in
      (agree, spec)
  | CTails e items =>
      (forallb (fun it => match expand_env e (fst it) with Ok o => beq o (snd it) | Panic => false end) items,
       forallb (fun it => spec_expand_ok e (fst it) (snd it)) items)
  | CBurst cs =>
      (fix go (l : list case) : bool * bool :=
         match l with
         | [] => (true, true)
         | x :: r => let '(a, s) := judge1 x in let '(a', s') := go r in (a && a', s && s')
         end) cs
  end.

Definition judge (c : case) : N := let '(a, s) := judge1 c in verdict a s.
