Require Import V.Lib V.GoPath V.C06_Model V.C06_Proofs.
