(* C06 — property theorems only.  Each is closed by [exact] of a lemma proved in
   C06_Proofs.v and followed by Print Assumptions. *)
Require Import V.Lib V.GoPath V.C06_Model V.C06_Proofs.
Require Import Permutation.
Open Scope N_scope.
Delimit Scope string_scope with string.

(* ---- the handshake is governed by the most specific site ----
   For EVERY group of sites, default server name, local address and SNI value: the config
   getConfig returns is an entry of the group and, unless the documented local-IP step for an
   empty name applies, its key is a candidate for the (normalised) name — the name itself, the
   name with its k leftmost labels starred (k = 1..n), or the catch-all "" — and no other key of
   the group is a more specific candidate ([level] = position in that list: exact, then wildcard
   by number of starred labels, then catch-all). *)
Theorem C06_sni_most_specific :
  forall (V : Type) (m : amap V) dflt conn sni k v,
  get_config m dflt conn sni = Found k v ->
  mget k m = Some v /\
  let name := effective_name dflt sni in
  ((name = [] /\ exists a, conn = Some a /\ k = host_only a) \/
   (exists r, level name k = Some r /\
      forall k' v' r', mget k' m = Some v' -> level name k' = Some r' -> (r <= r')%nat)).
Proof. exact get_config_most_specific. Qed.
Print Assumptions C06_sni_most_specific.

Example C06_sni_most_specific_nonvacuous :
  get_config [(bs "*.a.com"%string, 1%nat); ([], 2%nat); (bs "*.*.com"%string, 3%nat)] [] None
             (bs " X.A.com"%string) = Found (bs "*.a.com"%string) 1%nat
  /\ level (bs "x.a.com"%string) (bs "*.a.com"%string) = Some 1%nat
  /\ level (bs "x.a.com"%string) (bs "*.*.com"%string) = Some 2%nat
  /\ level (bs "x.a.com"%string) [] = Some 4%nat.
Proof. vm_compute. repeat split. Qed.

(* the candidate list is exactly: the name, the name with 1..n leftmost labels replaced by "*",
   the catch-all — what the cumulative loop of getConfig/matchHost produces *)
Theorem C06_candidates_closed_form :
  forall name, name :: wild_cands name ++ [[]] = spec_cands name.
Proof. exact cands_closed. Qed.
Print Assumptions C06_candidates_closed_form.

(* the arbitrary failover config is used only when NO site matches the name; nil only for an
   empty group *)
Theorem C06_failover_only_when_nothing_matches :
  forall (V : Type) (m : amap V) dflt conn sni,
  get_config m dflt conn sni = Fallback ->
  m <> [] /\ forall k v, mget k m = Some v -> level (effective_name dflt sni) k = None.
Proof. exact get_config_fallback_only_unmatched. Qed.
Print Assumptions C06_failover_only_when_nothing_matches.

Theorem C06_no_config_only_for_empty_group :
  forall (V : Type) (m : amap V) dflt conn sni, get_config m dflt conn sni = NoConfig -> m = [].
Proof. exact get_config_noconfig. Qed.
Print Assumptions C06_no_config_only_for_empty_group.

Theorem C06_exact_name_wins :
  forall (V : Type) (m : amap V) dflt conn sni v,
  let name := effective_name dflt sni in
  name <> [] -> mget name m = Some v -> get_config m dflt conn sni = Found name v.
Proof. exact get_config_exact. Qed.
Print Assumptions C06_exact_name_wins.

Theorem C06_catch_all_is_last_resort :
  forall (V : Type) (m : amap V) dflt conn sni v,
  let name := effective_name dflt sni in
  name <> [] -> mget [] m = Some v ->
  (forall c, In c (name :: wild_cands name) -> mget c m = None) ->
  get_config m dflt conn sni = Found [] v.
Proof. exact get_config_catch_all. Qed.
Print Assumptions C06_catch_all_is_last_resort.

(* ---- the settings applied are the governing site's own ----
   Every entry of the group MakeTLSConfig builds is one of the given site configs, stored under
   that site's key, with the tls.Config built from that very config ... *)
Theorem C06_governing_entry_is_a_site :
  forall dc bad cs g k i c ob,
  make_tls_config dc bad cs = MkGroup g -> mget k g = Some (i, c, ob) ->
  nth_error cs i = Some (Some c) /\ key_of (host c) = k /\ build dc bad c = Some ob.
Proof. intros dc bad cs g k i c ob H. exact (group_entries dc bad cs g H k i c ob). Qed.
Print Assumptions C06_governing_entry_is_a_site.

(* ... whose protocol range, client-certificate policy and cipher list are the configured ones
   (TLS_FALLBACK_SCSV first, then only configured suites, or the default list when none is) *)
Theorem C06_built_settings_are_the_configured_ones :
  forall dc bad c ob,
  enabled c = true -> build dc bad c = Some ob ->
  exists b, ob = Some b /\ b_min b = pmin c /\ b_max b = pmax c /\ b_cauth b = cauth c /\
            (exists rest, b_ciphers b = SCSV :: rest) /\
            (forall x, In x (b_ciphers b) -> x = SCSV \/ In x (ciphers c) \/ (ciphers c = [] /\ In x dc)).
Proof. exact build_enabled_fields. Qed.
Print Assumptions C06_built_settings_are_the_configured_ones.

(* several sites may share a host name — or the catch-all key, which the spellings "", 0.0.0.0
   and :: all map to: every one of them then gets settings equal to its own (the compatibility
   assert is applied under the key the config is stored by). *)
Theorem C06_same_name_sites_get_their_own_settings :
  forall dc bad cs g c,
  make_tls_config dc bad cs = MkGroup g -> In (Some c) cs ->
  exists i c' ob, mget (key_of (host c)) g = Some (i, c', ob) /\ build dc bad c = Some ob.
Proof. exact group_own_settings. Qed.
Print Assumptions C06_same_name_sites_get_their_own_settings.

Example C06_same_name_sites_nonvacuous :
  (exists g, make_tls_config (default_ciphers true) []
              [Some (mkT (bs "a.com"%string) true TLS12 TLS13 [] [] [] true 2 [] false);
               Some (mkT (bs "a.com"%string) true TLS12 TLS13 [] [] [] true 2 [] true)] = MkGroup g) /\
  (exists g, make_tls_config (default_ciphers true) []
              [Some (mkT (bs "0.0.0.0"%string) true TLS12 TLS13 [] [] [] true 2 [] false);
               Some (mkT (bs "::"%string) true TLS12 TLS13 [] [] [] true 2 [] false);
               Some (mkT [] true TLS12 TLS13 [] [] [] true 2 [] false)] = MkGroup g) /\
  (* catch-all spellings with different client-certificate policies are a configuration error *)
  make_tls_config (default_ciphers true) []
    [Some (mkT (bs "0.0.0.0"%string) true TLS12 TLS13 [] [] [] true 2 [] false);
     Some (mkT (bs "::"%string) true TLS12 TLS13 [] [] [] true 0 [] false)] = MkErr 3.
Proof. split; [eexists; vm_compute; reflexivity|]. split; [eexists; vm_compute; reflexivity|]. vm_compute. reflexivity. Qed.

(* ---- TLS 1.2 is the minimum unless the site configures otherwise ---- *)
Theorem C06_min_version_default_tls12 :
  forall dc h hasargs os c,
  tls_setup dc h false hasargs os = Some c ->
  forallb (fun o => negb (is_protocols o)) os = true ->
  enabled c = true /\ pmin c = TLS12 /\ pmax c = TLS13.
Proof. exact min_version_default_tls12. Qed.
Print Assumptions C06_min_version_default_tls12.

Example C06_min_version_default_tls12_nonvacuous :
  exists c, tls_setup (default_ciphers true) [] false false [OClients [bs "require"%string]; OInsecure] = Some c
            /\ pmin c = TLS12.
Proof. eexists. vm_compute. split; reflexivity. Qed.

Theorem C06_defaults_fill_only_missing_versions :
  forall dc c,
  pmin (set_default dc c) = (if pmin c =? 0 then TLS12 else pmin c) /\
  pmax (set_default dc c) = (if pmax c =? 0 then TLS13 else pmax c) /\
  cauth (set_default dc c) = cauth c /\ enabled (set_default dc c) = enabled c /\
  exists rest, ciphers (set_default dc c) = SCSV :: rest.
Proof. exact set_default_versions. Qed.
Print Assumptions C06_defaults_fill_only_missing_versions.

Theorem C06_tls_off_disables :
  forall dc h hasargs os c, tls_setup dc h true hasargs os = Some c -> enabled c = false.
Proof. exact tls_off_disables. Qed.
Print Assumptions C06_tls_off_disables.

(* ---- TLS and plaintext sites on one listener are rejected ----
   For EVERY list of site configs — a nil entry standing for a site without TLS, wherever it
   stands in the list: if one entry has TLS enabled and another has not, MakeTLSConfig returns
   an error (the adjacent-pair comparison implies the global one). *)
Theorem C06_mixing_rejected :
  forall dc bad cs, mixed cs = true -> exists e, make_tls_config dc bad cs = MkErr e.
Proof. exact mixing_rejected. Qed.
Print Assumptions C06_mixing_rejected.

Example C06_mixing_rejected_nonvacuous :
  make_tls_config (default_ciphers true) []
    [Some (mkT (bs "a.com"%string) true TLS12 TLS13 [] [] [] true 0 [] false);
     Some (mkT (bs "c.com"%string) true TLS12 TLS13 [] [] [] true 0 [] false);
     Some (empty_cfg (bs "b.com"%string))] = MkErr 1 /\
  (* a nil entry after a TLS config, and before one *)
  make_tls_config (default_ciphers true) []
    [Some (mkT (bs "a.com"%string) true TLS12 TLS13 [] [] [] true 0 [] false); None] = MkErr 1 /\
  make_tls_config (default_ciphers true) []
    [None; Some (mkT (bs "a.com"%string) true TLS12 TLS13 [] [] [] true 0 [] false)] = MkErr 1.
Proof. vm_compute. repeat split; reflexivity. Qed.

(* the "cannot multiplex" error is raised only for a real TLS / not-TLS mix *)
Theorem C06_mix_error_only_for_mixed_sets :
  forall dc bad cs, make_tls_config dc bad cs = MkErr 1 -> mixed cs = true.
Proof. exact mix_error_sound. Qed.
Print Assumptions C06_mix_error_only_for_mixed_sets.

(* a returned group means every entry is a config with TLS enabled (no nil entry) *)
Theorem C06_group_means_all_tls :
  forall dc bad cs g,
  make_tls_config dc bad cs = MkGroup g ->
  (forall o, In o cs -> o <> None) /\ forall c, In (Some c) cs -> enabled c = true.
Proof. exact group_all_enabled. Qed.
Print Assumptions C06_group_means_all_tls.

(* ---- client-certificate sites: SNI and Host must agree ----
   For every site set, default server name, local address, SNI and Host header: a request that
   reaches a site demanding client certificates (policy set, strict matching not disabled) over
   TLS is served only if the SNI equals (case-insensitively) the host name of the Host header as
   the vhost router normalises it — the very name the site was selected by — and, when the
   handshake carried no SNI at all, only if no default server name is set and no site is named
   by the local address of the connection (otherwise such a handshake is governed by that site,
   not by the catch-all one).  It is refused (403) only for these reasons. *)
Theorem C06_clientauth_requires_matching_sni :
  forall sites dflt conn sni rhost i s,
  serve sites dflt conn (Some sni) rhost = Served i -> nth_error sites i = Some s -> demands (s_tls s) = true ->
  to_lower sni = route_host rhost.
Proof. exact strict_sni_host. Qed.
Print Assumptions C06_clientauth_requires_matching_sni.

Example C06_clientauth_requires_matching_sni_nonvacuous :
  let sites := [mkS (bs "a.com:443"%string) (mkT (bs "a.com"%string) true TLS12 TLS13 [] [] [] true 2 [] false);
                mkS (bs "b.com:443"%string) (mkT (bs "b.com"%string) true TLS12 TLS13 [] [] [] true 0 [] false)] in
  serve sites [] None (Some (bs "A.com"%string)) (bs "a.com:443"%string) = Served 0 /\
  serve sites [] None (Some (bs "b.com"%string)) (bs "a.com:443"%string) = Forbidden 0 /\
  (* a second port inside brackets is stripped by the router: the SNI must name what remains *)
  serve sites [] None (Some (bs "a.com:80"%string)) (bs "[a.com:80]:90"%string) = Forbidden 0.
Proof. vm_compute. repeat split; reflexivity. Qed.

Theorem C06_clientauth_without_sni_only_under_catch_all :
  forall sites dflt conn rhost i s,
  serve sites dflt conn (Some []) rhost = Served i -> nth_error sites i = Some s -> demands (s_tls s) = true ->
  trim_space dflt = [] /\
  forall a s', conn = Some a -> In s' sites -> host (s_tls s') <> host_only a.
Proof. exact sniless_served. Qed.
Print Assumptions C06_clientauth_without_sni_only_under_catch_all.

Example C06_clientauth_without_sni_nonvacuous :
  let sites := [open_site "127.0.0.1:443"%string "127.0.0.1"%string; mtls_site ":443"%string ""%string] in
  (* reached through another address, the catch-all governs the handshake and the site answers *)
  serve sites [] (Some (bs "10.0.0.1:443"%string)) (Some []) [] = Served 1 /\
  (* on 127.0.0.1 the handshake belongs to the open site: refused *)
  serve sites [] (Some (bs "127.0.0.1:443"%string)) (Some []) [] = Forbidden 1 /\
  (* with a default server name the handshake belongs to the site of that name: refused *)
  serve sites (bs "b.com"%string) (Some (bs "10.0.0.1:443"%string)) (Some []) [] = Forbidden 1.
Proof. vm_compute. repeat split; reflexivity. Qed.

Theorem C06_forbidden_only_on_mismatch :
  forall sites dflt conn tls rhost i,
  serve sites dflt conn tls rhost = Forbidden i ->
  exists sni s, tls = Some sni /\ nth_error sites i = Some s /\ demands (s_tls s) = true /\
                (to_lower sni <> route_host rhost \/
                 (sni = [] /\ sniless_elsewhere sites dflt conn = true)).
Proof. exact forbidden_only_on_mismatch. Qed.
Print Assumptions C06_forbidden_only_on_mismatch.


(* The stronger reading of the clause: the handshake of a request served by a site that demands
   client certificates was governed by settings equal to that site's own (hence the same
   client-certificate policy).  It holds for every site set (each site keyed in the router by the
   host name of its TLS config; 0.0.0.0 / :: / "" spellings included) in which no site is named
   by a wildcard candidate of the router's fallback hosts ("*", "*.*.*.*", ...), every SNI
   without surrounding white space — the empty one included —, every default server name and
   local address, and EVERY Host header (the strict test looks at the name the router selected
   the site by). *)
Theorem C06_clientauth_policy_governs_partial :
  forall dc bad sites g dflt conn sni rhost v s,
  make_tls_config dc bad (map (fun s => Some (s_tls s)) sites) = MkGroup g ->
  (forall s, In s sites -> vhost_key (s_addr s) = host (s_tls s)) ->
  (forall c, In c fallback_star_names -> mget c (vhosts sites) = None) ->
  serve sites dflt conn (Some sni) rhost = Served v -> nth_error sites v = Some s -> demands (s_tls s) = true ->
  trim_space sni = sni ->
  exists k i c ob, get_config g dflt conn sni = Found k (i, c, ob) /\ build dc bad (s_tls s) = Some ob.
Proof. exact clientauth_policy_governs. Qed.
Print Assumptions C06_clientauth_policy_governs_partial.

Example C06_clientauth_policy_governs_nonvacuous :
  let sites := [mtls_site "*.a.com:443"%string "*.a.com"%string; open_site "b.com:443"%string "b.com"%string;
                open_site ":443"%string ""%string] in
  (exists g, make_tls_config (default_ciphers true) [] (map (fun s => Some (s_tls s)) sites) = MkGroup g) /\
  (forall s, In s sites -> vhost_key (s_addr s) = host (s_tls s)) /\
  (forall c, In c fallback_star_names -> mget c (vhosts sites) = None) /\
  serve sites [] None (Some (bs "X.a.com"%string)) (bs "x.A.com:443"%string) = Served 0.
Proof.
  split; [eexists; vm_compute; reflexivity|].
  split; [intros s [<-|[<-|[<-|[]]]]; vm_compute; reflexivity|].
  split; [|vm_compute; reflexivity].
  intros c Hc. vm_compute in Hc. repeat (destruct Hc as [<-|Hc]; [vm_compute; reflexivity|]). destruct Hc.
Qed.

(* the unspecified-address spellings are covered: client-certificate sites 0.0.0.0 and :: answer
   for an unmatched name through the router's fallback hosts, and the catch-all config that
   governs the handshake demands the certificates *)
Example C06_clientauth_policy_governs_nonvacuous_unspecified :
  let sites := [mtls_site "0.0.0.0:443"%string "0.0.0.0"%string; mtls_site "[::]:443"%string "::"%string;
                open_site "b.com:443"%string "b.com"%string] in
  (forall s, In s sites -> vhost_key (s_addr s) = host (s_tls s)) /\
  (forall c, In c fallback_star_names -> mget c (vhosts sites) = None) /\
  serve sites [] None (Some (bs "z.org"%string)) (bs "z.org"%string) = Served 0 /\
  exists g i c b, make_tls_config (default_ciphers true) [] (map (fun s => Some (s_tls s)) sites) = MkGroup g /\
                  get_config g [] None (bs "z.org"%string) = Found [] (i, c, Some b) /\ b_cauth b = 2.
Proof.
  split; [intros s [<-|[<-|[<-|[]]]]; vm_compute; reflexivity|].
  split; [intros c Hc; vm_compute in Hc;
          repeat (destruct Hc as [<-|Hc]; [vm_compute; reflexivity|]); destruct Hc|].
  split; [vm_compute; reflexivity|].
  do 4 eexists. split; [vm_compute; reflexivity|]. split; vm_compute; reflexivity.
Qed.

(* Without the condition on wildcard names the stronger reading — the handshake of a request
   served by a client-certificate site was governed by that site's own policy — is false of the
   code.  Witness (replayed on the real server, corpus/C06): a site named "*". *)
Theorem C06_clientauth_policy_governs_refuted_all_wildcard_site :
  served_under_foreign_policy [mtls_site "*:443"%string "*"%string; open_site ":443"%string ""%string]
                              [] None (bs "z.org"%string) (bs "z.org"%string).
Proof.
  unfold served_under_foreign_policy. do 7 eexists.
  split; [vm_compute; reflexivity|]. split; [vm_compute; reflexivity|]. split; [vm_compute; reflexivity|].
  split; [vm_compute; reflexivity|]. split; [vm_compute; reflexivity|]. vm_compute. discriminate.
Qed.
Print Assumptions C06_clientauth_policy_governs_refuted_all_wildcard_site.

(* ---- mixing is rejected in EVERY order of the group ----
   [mixed] does not look at positions; stated with the order explicit: whatever permutation of a
   mixed group MakeTLSConfig is given (plaintext site first, TLS site first, a nil entry first or
   last ...), it returns an error — never "no TLS" (a plaintext listener that would serve the TLS
   sites in the clear) and never a TLS group. *)
Theorem C06_mixing_rejected_any_order :
  forall dc bad cs cs', Permutation cs cs' -> mixed cs = true ->
  exists e, make_tls_config dc bad cs' = MkErr e.
Proof. exact mixing_rejected_any_order. Qed.
Print Assumptions C06_mixing_rejected_any_order.

Theorem C06_mixing_never_a_listener :
  forall dc bad cs, mixed cs = true ->
  make_tls_config dc bad cs <> MkNil /\ forall g, make_tls_config dc bad cs <> MkGroup g.
Proof. exact mixing_never_a_listener. Qed.
Print Assumptions C06_mixing_never_a_listener.

Example C06_mixing_rejected_any_order_nonvacuous :
  let tls h := Some (mkT (bs h) true TLS12 TLS13 [] [] [] true 0 [] false) in
  let plain h := Some (empty_cfg (bs h)) in
  forallb (fun cs => match make_tls_config (default_ciphers true) [] cs with MkErr 1 => true | _ => false end)
    [ [plain "p.com"%string; tls "a.com"%string];
      [tls "a.com"%string; plain "p.com"%string];
      [None; tls "a.com"%string];
      [tls "a.com"%string; None];
      [plain "p.com"%string; plain "q.com"%string; tls "a.com"%string];
      [plain "p.com"%string; tls "a.com"%string; plain "q.com"%string];
      [tls "a.com"%string; tls "b.com"%string; plain "p.com"%string];
      [None; plain "p.com"%string; tls "a.com"%string] ] = true /\
  Permutation [plain "p.com"%string; tls "a.com"%string] [tls "a.com"%string; plain "p.com"%string].
Proof. split; [vm_compute; reflexivity | apply perm_swap]. Qed.

(* ---- which config governs a handshake WITHOUT SNI ----
   For every group, default server name (-default-sni), local address and every SNI value that is
   empty after normalisation:
   1. a default server name d is resolved exactly like an SNI name — d itself, d with its k
      leftmost labels starred (k = 1..n), the catch-all "" ([spec_cands d], the first that is a
      key governs), the arbitrary failover config when none is; the local address plays no part;
   2. without one, a config keyed by the local IP address of the connection governs;
   3. otherwise the catch-all config "" (which 0.0.0.0 / :: sites are stored under), else a
      config named "*" (the one wildcard candidate of the empty name), else the failover. *)
Theorem C06_default_sni_governs_no_sni_handshake :
  forall (V : Type) (m : amap V) dflt conn sni,
  normalized_name sni = [] ->
  let d := normalized_name dflt in
  (d <> [] ->
     get_config m dflt conn sni =
       match find_key m (spec_cands d) with
       | Some (k, v) => Found k v
       | None => match m with [] => NoConfig | _ => Fallback end
       end) /\
  (d = [] -> forall a v, conn = Some a -> mget (host_only a) m = Some v ->
     get_config m dflt conn sni = Found (host_only a) v) /\
  (d = [] -> (conn = None \/ exists a, conn = Some a /\ mget (host_only a) m = None) ->
     get_config m dflt conn sni =
       match mget [] m with
       | Some v => Found [] v
       | None => match mget [STAR] m with
                 | Some v => Found [STAR] v
                 | None => match m with [] => NoConfig | _ => Fallback end
                 end
       end).
Proof. exact no_sni_governing. Qed.
Print Assumptions C06_default_sni_governs_no_sni_handshake.

Example C06_default_sni_governs_nonvacuous :
  let m := [(bs "*.a.com"%string, 1%nat); ([], 2%nat); (bs "10.0.0.1"%string, 3%nat); (bs "b.com"%string, 4%nat)] in
  normalized_name (bs " "%string) = [] /\
  (* the default name through a wildcard site, exactly, and through the catch-all: the site named
     by the local address is not consulted *)
  get_config m (bs "X.a.com"%string) (Some (bs "10.0.0.1:443"%string)) [] = Found (bs "*.a.com"%string) 1%nat /\
  get_config m (bs "b.com"%string) (Some (bs "10.0.0.1:443"%string)) [] = Found (bs "b.com"%string) 4%nat /\
  get_config m (bs "z.org"%string) (Some (bs "10.0.0.1:443"%string)) [] = Found [] 2%nat /\
  (* no default name: local address, then catch-all, then "*", then failover *)
  get_config m [] (Some (bs "10.0.0.1:443"%string)) (bs " "%string) = Found (bs "10.0.0.1"%string) 3%nat /\
  get_config m [] (Some (bs "10.9.9.9:443"%string)) [] = Found [] 2%nat /\
  get_config [(bs "*"%string, 5%nat); (bs "b.com"%string, 4%nat)] [] None [] = Found (bs "*"%string) 5%nat /\
  get_config [(bs "b.com"%string, 4%nat)] [] None [] = Fallback.
Proof. vm_compute. repeat split; reflexivity. Qed.

(* ---- the strict no-SNI refusal, tied to it ----
   serveHTTP (handshakeWithoutSNIElsewhere) refuses a request without SNI at a client-certificate
   site whenever a default server name is set — whether that name belongs to a site exactly,
   through a WILDCARD, or to none (case 1 above: the handshake is resolved under that name) — and
   whenever a site is named by the local address (case 2). *)
Theorem C06_no_sni_refused_under_default_name :
  forall sites dflt conn rhost i s,
  trim_space dflt <> [] -> nth_error sites i = Some s -> demands (s_tls s) = true ->
  serve sites dflt conn (Some []) rhost <> Served i.
Proof. exact sniless_refused_under_default_name. Qed.
Print Assumptions C06_no_sni_refused_under_default_name.

Theorem C06_no_sni_refused_under_local_address_site :
  forall sites dflt a rhost i s s',
  In s' sites -> host (s_tls s') = host_only a -> nth_error sites i = Some s -> demands (s_tls s) = true ->
  serve sites dflt (Some a) (Some []) rhost <> Served i.
Proof. exact sniless_refused_under_local_address_site. Qed.
Print Assumptions C06_no_sni_refused_under_local_address_site.

Example C06_no_sni_refused_nonvacuous :
  (* the default name is covered by the wildcard site only: that site's open config governs the
     handshake, the catch-all site that demands certificates refuses the request *)
  let sites := [mtls_site ":443"%string ""%string; open_site "*.a.com:443"%string "*.a.com"%string] in
  trim_space (bs "x.a.com"%string) <> [] /\
  serve sites (bs "x.a.com"%string) (Some (bs "10.0.0.1:443"%string)) (Some []) [] = Forbidden 0 /\
  (exists g i c b, make_tls_config (default_ciphers true) [] (map (fun s => Some (s_tls s)) sites) = MkGroup g /\
     get_config g (bs "x.a.com"%string) (Some (bs "10.0.0.1:443"%string)) [] = Found (bs "*.a.com"%string) (i, c, Some b) /\
     b_cauth b = 0) /\
  (* without the default name the catch-all governs and the site answers *)
  serve sites [] (Some (bs "10.0.0.1:443"%string)) (Some []) [] = Served 0.
Proof.
  split; [vm_compute; discriminate|]. split; [vm_compute; reflexivity|].
  split; [do 4 eexists; split; [vm_compute; reflexivity|split; vm_compute; reflexivity]|]. vm_compute. reflexivity.
Qed.

(* A client-certificate site never answers a request whose handshake (without SNI) was governed by
   another site's config: when it serves, no default name is set, no site is named by the local
   address, the governing config is not the arbitrary failover one, and whatever entry governed
   carries settings equal to the site's own.  As for C06_clientauth_policy_governs_partial this
   needs a site set without a site named by a wildcard candidate of the router's fallback hosts
   (open finding F-C06-4). *)
Theorem C06_no_sni_clientauth_never_under_foreign_config_partial :
  forall dc bad sites g dflt conn rhost v s,
  make_tls_config dc bad (map (fun s => Some (s_tls s)) sites) = MkGroup g ->
  (forall s, In s sites -> vhost_key (s_addr s) = host (s_tls s)) ->
  (forall c, In c fallback_star_names -> mget c (vhosts sites) = None) ->
  serve sites dflt conn (Some []) rhost = Served v -> nth_error sites v = Some s -> demands (s_tls s) = true ->
  normalized_name dflt = [] /\
  (forall a s', conn = Some a -> In s' sites -> host (s_tls s') <> host_only a) /\
  get_config g dflt conn [] <> Fallback /\
  forall k i c ob, get_config g dflt conn [] = Found k (i, c, ob) -> build dc bad (s_tls s) = Some ob.
Proof. exact no_sni_clientauth_own_config. Qed.
Print Assumptions C06_no_sni_clientauth_never_under_foreign_config_partial.

Example C06_no_sni_clientauth_never_under_foreign_config_nonvacuous :
  let sites := [mtls_site ":443"%string ""%string; open_site "127.0.0.1:443"%string "127.0.0.1"%string;
                open_site "*.a.com:443"%string "*.a.com"%string] in
  (exists g, make_tls_config (default_ciphers true) [] (map (fun s => Some (s_tls s)) sites) = MkGroup g) /\
  (forall s, In s sites -> vhost_key (s_addr s) = host (s_tls s)) /\
  (forall c, In c fallback_star_names -> mget c (vhosts sites) = None) /\
  serve sites [] (Some (bs "10.0.0.1:443"%string)) (Some []) [] = Served 0.
Proof.
  split; [eexists; vm_compute; reflexivity|].
  split; [intros s [<-|[<-|[<-|[]]]]; vm_compute; reflexivity|].
  split; [|vm_compute; reflexivity].
  intros c Hc. vm_compute in Hc. repeat (destruct Hc as [<-|Hc]; [vm_compute; reflexivity|]). destruct Hc.
Qed.

(* Without that condition it is false of the code also for a handshake without SNI: the router
   finds the site named "*" for the empty host (its one wildcard candidate) while the catch-all
   config — here the open 0.0.0.0 site's — governs the handshake (replayed on the real server,
   corpus/C06/all_wildcard_site.json; finding F-C06-4). *)
Theorem C06_no_sni_clientauth_never_under_foreign_config_refuted :
  served_under_foreign_policy [open_site "0.0.0.0:443"%string "0.0.0.0"%string; mtls_site "*:443"%string "*"%string]
                              [] None [] [].
Proof.
  unfold served_under_foreign_policy. do 7 eexists.
  split; [vm_compute; reflexivity|]. split; [vm_compute; reflexivity|]. split; [vm_compute; reflexivity|].
  split; [vm_compute; reflexivity|]. split; [vm_compute; reflexivity|]. vm_compute. discriminate.
Qed.
Print Assumptions C06_no_sni_clientauth_never_under_foreign_config_refuted.
