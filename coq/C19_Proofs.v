(* C19 — proofs.  Stdlib + Lia only. *)
Require Import V.Lib V.C19_Model.
From Coq Require Import ZifyBool ZifyN ZifyNat.
Open Scope N_scope.

(* ------------------------------------------------------------------------------------------ *)
(* checked operations succeed inside their bounds                                              *)
(* ------------------------------------------------------------------------------------------ *)
Lemma idx_ok {A} (l : list A) (i : nat) : (i < length l)%nat -> exists v, idx l i = Ok v.
Proof.
  intro H. unfold idx. destruct (nth_error l i) eqn:E; [eauto|].
  apply nth_error_None in E. lia.
Qed.

Lemma idx_panic {A} (l : list A) (i : nat) : (length l <= i)%nat -> idx l i = Panic.
Proof. intro H. unfold idx. apply nth_error_None in H. now rewrite H. Qed.

Lemma slice_from_ok {A} (l : list A) (lo : nat) : (lo <= length l)%nat -> slice_from l lo = Ok (skipn lo l).
Proof. intro H. unfold slice_from. apply Nat.leb_le in H. now rewrite H. Qed.

Lemma slice_ok {A} (l : list A) (lo hi : nat) :
  (lo <= hi)%nat -> (hi <= length l)%nat -> slice l lo hi = Ok (firstn (hi - lo) (skipn lo l)).
Proof.
  intros H1 H2. unfold slice. apply Nat.leb_le in H1, H2. now rewrite H1, H2.
Qed.

Lemma slice_panic {A} (l : list A) (lo hi : nat) : (hi < lo)%nat -> slice l lo hi = Panic.
Proof. intro H. unfold slice. apply Nat.leb_gt in H. now rewrite H. Qed.

Lemma mapM_ok {A B} (f : A -> res B) (l : list A) :
  (forall x, In x l -> exists v, f x = Ok v) -> exists vs, mapM f l = Ok vs.
Proof.
  induction l as [|x l IH]; intro H; simpl; [eauto|].
  destruct (H x (or_introl eq_refl)) as [v ->]. simpl.
  destruct IH as [vs ->]; [intros y Hy; apply H; now right|]. simpl. eauto.
Qed.

Ltac ok_idx l i :=
  let v := fresh "v" in let E := fresh "E" in
  destruct (idx_ok l i) as [v E]; [ try lia | rewrite E; cbn [rbind] ].
Ltac ok_from l lo :=
  rewrite (slice_from_ok l lo); [ cbn [rbind] | try lia ].
Ltac ok_slice l lo hi :=
  rewrite (slice_ok l lo hi); [ cbn [rbind] | try lia | try lia ].

(* ------------------------------------------------------------------------------------------ *)
(* parseRawClientHello is total                                                                *)
(* ------------------------------------------------------------------------------------------ *)
Lemma curves_loop_ok n : forall d, (2 * n <= length d)%nat -> exists cs, curves_loop n d = Ok cs.
Proof.
  induction n as [|n IH]; intros d H; simpl; [eauto|].
  ok_idx d 0%nat. ok_idx d 1%nat. ok_from d 2%nat.
  destruct (IH (skipn 2 d)) as [cs ->]; [rewrite skipn_length; lia|]. cbn [rbind]. eauto.
Qed.

Lemma div2_double_le l : (2 * Nat.div2 l <= l)%nat.
Proof.
  destruct (Nat.Even_or_Odd l) as [[k ->]|[k ->]].
  - rewrite Nat.div2_double. lia.
  - replace (2 * k + 1)%nat with (S (2 * k)) by lia. rewrite Nat.div2_succ_double. lia.
Qed.

Lemma ext_switch_ok ext len data inf :
  (len <= length data)%nat -> exists s, ext_switch ext len data inf = Ok s.
Proof.
  intro H. unfold ext_switch.
  destruct (ext =? 10).
  - destruct (len <? 2)%nat eqn:H2; [eauto|]. apply Nat.ltb_ge in H2.
    ok_idx data 0%nat. ok_idx data 1%nat.
    destruct (Nat.odd _ || negb (len =? _ + 2)%nat) eqn:Hc; [eauto|].
    apply orb_false_iff in Hc as [_ Hc]. apply negb_false_iff, Nat.eqb_eq in Hc.
    ok_from data 2%nat.
    destruct (curves_loop_ok (Nat.div2 (N.to_nat (u16 v v0))) (skipn 2 data)) as [cs ->].
    { rewrite skipn_length. pose proof (div2_double_le (N.to_nat (u16 v v0))). lia. }
    cbn [rbind]. eauto.
  - destruct (ext =? 11); [|eauto].
    destruct (len <? 1)%nat eqn:H1; [eauto|]. apply Nat.ltb_ge in H1.
    ok_idx data 0%nat.
    destruct (negb (len =? _ + 1)%nat); [eauto|].
    ok_from data 1%nat. eauto.
Qed.

Lemma ext_loop_ok fuel : forall data inf, (length data < fuel)%nat -> exists i, ext_loop fuel data inf = Ok i.
Proof.
  induction fuel as [|fuel IH]; intros data inf H; [lia|]. simpl.
  destruct (length data =? 0)%nat eqn:H0; [eauto|].
  destruct (length data <? 4)%nat eqn:H4; [eauto|]. apply Nat.ltb_ge in H4.
  ok_idx data 0%nat. ok_idx data 1%nat. ok_idx data 2%nat. ok_idx data 3%nat.
  ok_from data 4%nat.
  destruct (length (skipn 4 data) <? _)%nat eqn:Hl; [eauto|]. apply Nat.ltb_ge in Hl.
  destruct (ext_switch_ok (u16 v v0) (N.to_nat (u16 v1 v2)) (skipn 4 data)
              (set_exts inf (i_exts inf ++ [u16 v v0])) Hl) as [s ->]. cbn [rbind].
  destruct s as [i|i]; [eauto|].
  ok_from (skipn 4 data) (N.to_nat (u16 v1 v2)).
  apply IH. rewrite !skipn_length. lia.
Qed.

Lemma parse_ok data : exists i, parse_raw_client_hello data = Ok i.
Proof.
  unfold parse_raw_client_hello.
  destruct (length data <? 42)%nat eqn:H42; [eauto|]. apply Nat.ltb_ge in H42.
  ok_idx data 4%nat. ok_idx data 5%nat. ok_idx data 38%nat.
  destruct ((32 <? _)%nat || (length data <? 39 + _)%nat) eqn:Hs; [eauto|].
  apply orb_false_iff in Hs as [_ Hs]. apply Nat.ltb_ge in Hs.
  ok_from data (39 + N.to_nat v1)%nat.
  set (data1 := skipn _ data).
  destruct (length data1 <? 2)%nat eqn:H2; [eauto|]. apply Nat.ltb_ge in H2.
  ok_idx data1 0%nat. ok_idx data1 1%nat.
  set (cslen := N.to_nat (u16 v2 v3)).
  destruct (Nat.odd cslen || (length data1 <? 2 + cslen)%nat) eqn:Hc; [eauto|].
  apply orb_false_iff in Hc as [_ Hc]. apply Nat.ltb_ge in Hc.
  destruct (mapM_ok (cipher_at data1) (seq 0 (Nat.div2 cslen))) as [cs ->].
  { intros i Hi. apply in_seq in Hi. unfold cipher_at.
    pose proof (div2_double_le cslen).
    ok_idx data1 (2 + 2 * i)%nat. ok_idx data1 (3 + 2 * i)%nat. eauto. }
  cbn [rbind].
  ok_from data1 (2 + cslen)%nat.
  set (data2 := skipn _ data1).
  destruct (length data2 <? 1)%nat eqn:H1; [eauto|]. apply Nat.ltb_ge in H1.
  ok_idx data2 0%nat.
  destruct (length data2 <? 1 + N.to_nat v4)%nat eqn:Hm; [eauto|]. apply Nat.ltb_ge in Hm.
  ok_slice data2 1%nat (1 + N.to_nat v4)%nat.
  ok_from data2 (1 + N.to_nat v4)%nat.
  set (data3 := skipn _ data2).
  destruct (length data3 <? 2)%nat eqn:H3; [eauto|]. apply Nat.ltb_ge in H3.
  ok_idx data3 0%nat. ok_idx data3 1%nat.
  ok_from data3 2%nat.
  destruct (negb (_ =? _)%nat); [eauto|].
  apply ext_loop_ok. lia.
Qed.

Lemma parse_no_panic data : parse_raw_client_hello data <> Panic.
Proof. destruct (parse_ok data) as [i ->]. discriminate. Qed.

(* ------------------------------------------------------------------------------------------ *)
(* heuristics                                                                                  *)
(* ------------------------------------------------------------------------------------------ *)
Lemma check_at_ok req : forall l i, (i + length req <= length l)%nat -> exists b, check_at req l i = Ok b.
Proof.
  induction req as [|r req IH]; intros l i H; simpl in *; [eauto|].
  ok_idx l i. destruct (v =? r); [|eauto]. apply IH. lia.
Qed.

Lemma looks_like_chrome_ok inf : exists b, looks_like_chrome inf = Ok b.
Proof.
  unfold looks_like_chrome.
  destruct (existsb _ _); [eauto|]. destruct (mem 25 _); [eauto|]. destruct (negb _); eauto.
Qed.

Lemma edge_loop_ok exts : forall all i, exists b, edge_loop exts all i = Ok b.
Proof.
  induction exts as [|e exts IH]; intros all i; simpl; [eauto|].
  destruct (e =? 5); [|apply IH].
  destruct (length all <=? i + 2)%nat eqn:H; [eauto|]. apply Nat.leb_gt in H.
  ok_idx all (i + 1)%nat. ok_idx all (i + 2)%nat.
  destruct (negb _ || negb _); [eauto|apply IH].
Qed.

Lemma looks_like_edge_ok inf : exists b, looks_like_edge inf = Ok b.
Proof.
  unfold looks_like_edge.
  destruct (edge_loop_ok (i_exts inf) (i_exts inf) 0%nat) as [b ->]. cbn [rbind].
  destruct (negb b); [eauto|]. destruct (existsb _ _); [eauto|]. destruct (has_grease _); eauto.
Qed.

Lemma looks_like_safari_ok inf : exists b, looks_like_safari inf = Ok b.
Proof.
  unfold looks_like_safari.
  assert (Hpre : exists pre,
    (if negb (assert_presence_and_ordering safari_exts (i_exts inf) true)
     then Ok (assert_presence_and_ordering safari_exts_ios11 (i_exts inf) true)
     else if (length (i_ciphers inf) <? 1)%nat then Ok false
          else do c0 <- idx (i_ciphers inf) 0; Ok (c0 =? 255)) = Ok pre).
  { destruct (negb _); [eauto|].
    destruct (length (i_ciphers inf) <? 1)%nat eqn:H; [eauto|]. apply Nat.ltb_ge in H.
    ok_idx (i_ciphers inf) 0%nat. eauto. }
  destruct Hpre as [pre ->]. cbn [rbind].
  destruct (negb pre); [eauto|]. destruct (has_grease _); eauto.
Qed.

Lemma looks_like_tor_ok inf : exists b, looks_like_tor inf = Ok b.
Proof.
  unfold looks_like_tor.
  destruct (negb _); [eauto|]. destruct (mem 35 _); [eauto|].
  destruct (length (i_curves inf) =? 4)%nat eqn:H4.
  - apply Nat.eqb_eq in H4. ok_idx (i_curves inf) 0%nat.
    destruct (negb (v =? 29)); cbn [rbind]; [eauto|].
    ok_from (i_curves inf) 1%nat.
    destruct (length (skipn 1 (i_curves inf)) <? 3)%nat eqn:H3; [eauto|]. apply Nat.ltb_ge in H3.
    destruct (check_at_ok [23; 24; 25] (skipn 1 (i_curves inf)) 0%nat) as [b ->]; [cbn [length Nat.add]; lia|]. cbn [rbind].
    destruct (negb b); [eauto|]. destruct (has_grease _); eauto.
  - cbn [rbind].
    destruct (length (i_curves inf) <? 3)%nat eqn:H3; [eauto|]. apply Nat.ltb_ge in H3.
    destruct (check_at_ok [23; 24; 25] (i_curves inf) 0%nat) as [b ->]; [cbn [length Nat.add]; lia|]. cbn [rbind].
    destruct (negb b); [eauto|]. destruct (has_grease _); eauto.
Qed.

Lemma check_at_len_ok req : forall l i, exists b, check_at_len req l i = Ok b.
Proof.
  induction req as [|r req IH]; intros l i; simpl; [eauto|].
  destruct (length l <=? i)%nat eqn:H; [eauto|]. apply Nat.leb_gt in H.
  ok_idx l i. destruct (v =? r); [|eauto]. apply IH.
Qed.

Lemma looks_like_firefox_ok inf : exists b, looks_like_firefox inf = Ok b.
Proof.
  unfold looks_like_firefox.
  destruct (negb _); [eauto|].
  destruct (length (i_curves inf) <? 4)%nat eqn:H4; [eauto|]. apply Nat.ltb_ge in H4.
  destruct (check_at_ok [29; 23; 24; 25] (i_curves inf) 0%nat) as [b ->]; [cbn [length Nat.add]; lia|]. cbn [rbind].
  destruct (negb b); [eauto|].
  assert (Hx : exists b2, (if (4 <? length (i_curves inf))%nat then check_at_len [256; 257] (i_curves inf) 4 else Ok true) = Ok b2).
  { destruct (4 <? length (i_curves inf))%nat; [apply check_at_len_ok|eauto]. }
  destruct Hx as [b2 ->]. cbn [rbind].
  destruct (negb b2); [eauto|]. destruct (has_grease _); eauto.
Qed.

Lemma looks_like_ok which inf : exists b, looks_like which inf = Ok b.
Proof.
  unfold looks_like.
  destruct which as [|[[[p|p|]|[p|p|]|]|[[p|p|]|[p|p|]|]|]]; lazy beta iota;
    first [ apply looks_like_chrome_ok | apply looks_like_edge_ok | apply looks_like_safari_ok
          | apply looks_like_tor_ok | apply looks_like_firefox_ok | (eexists; reflexivity) ].
Qed.

Lemma mitm_check_ok inf ua bc fc tv : exists r, mitm_check inf ua bc fc tv = Ok r.
Proof.
  unfold mitm_check.
  destruct (looks_like_edge_ok inf) as [be Ee]. destruct (looks_like_chrome_ok inf) as [bc' Ec].
  destruct (looks_like_safari_ok inf) as [bs' Es]. destruct (looks_like_tor_ok inf) as [bt Et].
  destruct (looks_like_firefox_ok inf) as [bf Ef].
  rewrite Ee, Ec, Es, Et, Ef. cbn [rbind].
  repeat match goal with |- context [if ?b then _ else _] => destruct b end; eauto.
Qed.

(* the hello that made the unrepaired looksLikeFirefox index Curves[5] of a 5-element list *)
Definition ff_witness : info := mkInfo 771 [49195] ff_exts [0] [29; 23; 24; 25; 256] [0].
Lemma ff_witness_false : looks_like_firefox ff_witness = Ok false.
Proof. vm_compute. reflexivity. Qed.

(* ------------------------------------------------------------------------------------------ *)
(* strings.Index bounds; getVersion is total                                                   *)
(* ------------------------------------------------------------------------------------------ *)
Lemma prefixb_length p : forall s, prefixb p s = true -> (length p <= length s)%nat.
Proof.
  induction p as [|y p IH]; intros [|x s] H; simpl in *; try lia; try discriminate.
  apply andb_true_iff in H as [_ H]. apply IH in H. lia.
Qed.

Lemma index_from_bound p : forall s i k, index_from p s i = Some k ->
  (i <= k /\ k + length p <= i + length s)%nat.
Proof.
  induction s as [|x s IH]; intros i k H; simpl in H.
  - destruct p; [|discriminate]. injection H as <-. simpl. lia.
  - destruct (prefixb p (x :: s)) eqn:E.
    + injection H as <-. apply prefixb_length in E. lia.
    + apply IH in H. simpl. lia.
Qed.

Lemma index_of_bound p s k : index_of p s = Some k -> (k + length p <= length s)%nat.
Proof. intro H. apply index_from_bound in H. lia. Qed.

Lemma get_version_ok ua name : exists r, get_version_str ua name = Ok r.
Proof.
  unfold get_version_str.
  destruct (index_of (name ++ [47]) ua) as [st|] eqn:E1; [|eauto].
  apply index_of_bound in E1.
  ok_from ua (st + length (name ++ [47%N]))%nat.
  set (start := (st + length (name ++ [47%N]))%nat) in *.
  set (e := match index_of [32] (skipn start ua) with Some k => (k + start)%nat | None => length ua end).
  assert (He : (start <= e)%nat /\ (e <= length ua)%nat).
  { unfold e. destruct (index_of [32] (skipn start ua)) as [k|] eqn:E2; [|lia].
    apply index_of_bound in E2. rewrite skipn_length in E2. simpl in E2. lia. }
  ok_slice ua start e.
  match goal with |- context [remove_byte 45 ?v] => set (sv := remove_byte 45 v) end.
  destruct (index_of [46] sv) as [fd|] eqn:E3; [|eauto].
  apply index_of_bound in E3. simpl in E3.
  ok_slice sv 0%nat (fd + 1)%nat. ok_from sv (fd + 1)%nat. eauto.
Qed.

(* ------------------------------------------------------------------------------------------ *)
(* clientHelloConn: total; what is recorded is a function of the delivered bytes only           *)
(* ------------------------------------------------------------------------------------------ *)
Lemma idx_nth (l : bytes) (i : nat) : (i < length l)%nat -> idx l i = Ok (nth i l 0).
Proof.
  intro H. unfold idx. rewrite (nth_error_nth' l 0 H). reflexivity.
Qed.

Lemma nth_firstn (l : bytes) (n i : nat) : (i < n)%nat -> nth i (firstn n l) 0 = nth i l 0.
Proof.
  revert l i. induction n as [|n IH]; intros l i H; [lia|].
  destruct l as [|x l]; [now destruct i|]. destruct i as [|i]; [reflexivity|].
  simpl. apply IH. lia.
Qed.

(* one Read, unfolded: the state only changes from "collecting" to "done" *)
Lemma conn_read_collect pre seg :
  let buf := pre ++ seg in
  let len := N.to_nat (u16 (nth 3 buf 0) (nth 4 buf 0)) in
  conn_read (mkConn false pre None) seg =
    if ((length buf <? 5)%nat || (length buf <? 5 + len)%nat)%bool then Ok (mkConn false buf None)
    else do inf <- parse_raw_client_hello (firstn len (skipn 5 buf));
         Ok (mkConn true (skipn len (skipn 5 buf)) (Some inf)).
Proof.
  intros buf len. unfold conn_read. cbn [c_read_hello c_buf c_recorded]. fold buf.
  destruct (length buf <? 5)%nat eqn:H5; [reflexivity|]. apply Nat.ltb_ge in H5. cbn [orb].
  rewrite slice_ok by lia. cbn [rbind]. rewrite Nat.sub_0_r, skipn_O.
  rewrite !idx_nth by (rewrite firstn_length; lia). cbn [rbind].
  rewrite !nth_firstn by lia. fold len.
  destruct (length buf <? 5 + len)%nat eqn:Hb; [reflexivity|]. apply Nat.ltb_ge in Hb.
  rewrite slice_from_ok by lia. cbn [rbind].
  assert (Hs : length (skipn 5 buf) = (length buf - 5)%nat) by apply skipn_length.
  rewrite slice_ok by lia. cbn [rbind]. rewrite Nat.sub_0_r, skipn_O.
  rewrite slice_from_ok by lia. reflexivity.
Qed.

Lemma conn_read_ok c seg : exists c', conn_read c seg = Ok c'.
Proof.
  destruct c as [rh pre rc]. destruct rh; [unfold conn_read; cbn [c_read_hello]; eauto|].
  unfold conn_read. cbn [c_read_hello c_buf c_recorded].
  set (buf := pre ++ seg).
  destruct (length buf <? 5)%nat eqn:H5; [eauto|]. apply Nat.ltb_ge in H5.
  ok_slice buf 0%nat 5%nat.
  assert (Hl : length (firstn (5 - 0) (skipn 0 buf)) = 5%nat) by (simpl skipn; rewrite firstn_length; lia).
  ok_idx (firstn (5 - 0) (skipn 0 buf)) 3%nat. ok_idx (firstn (5 - 0) (skipn 0 buf)) 4%nat.
  destruct (length buf <? _)%nat eqn:Hb; [eauto|]. apply Nat.ltb_ge in Hb.
  ok_from buf 5%nat.
  assert (Hs : length (skipn 5 buf) = (length buf - 5)%nat) by apply skipn_length.
  ok_slice (skipn 5 buf) 0%nat (N.to_nat (u16 v v0)). ok_from (skipn 5 buf) (N.to_nat (u16 v v0)).
  destruct (parse_ok (firstn (N.to_nat (u16 v v0) - 0) (skipn 0 (skipn 5 buf)))) as [i ->]. cbn [rbind]. eauto.
Qed.

Lemma conn_run_ok segs : forall c, exists c', conn_run c segs = Ok c'.
Proof.
  induction segs as [|s r IH]; intro c; simpl; [eauto|].
  destruct (conn_read_ok c s) as [c' ->]. cbn [rbind]. apply IH.
Qed.

Lemma conn_run_done segs : forall c, c_read_hello c = true -> conn_run c segs = Ok c.
Proof.
  induction segs as [|s r IH]; intros c H; simpl; [reflexivity|].
  unfold conn_read. rewrite H. cbn [rbind]. now apply IH.
Qed.

Lemma firstn_prefix {A} (p q : list A) : firstn (length p) (p ++ q) = p.
Proof. rewrite firstn_app, Nat.sub_diag, firstn_all. simpl. apply app_nil_r. Qed.

(* [recorded_of] looks at a complete record only: bytes after it do not matter *)
Lemma recorded_of_app (w x : bytes) :
  (5 <= length w)%nat -> (5 + N.to_nat (u16 (nth 3 w 0%N) (nth 4 w 0%N)) <= length w)%nat ->
  recorded_of (w ++ x) = recorded_of w.
Proof.
  intros H5 Hl. unfold recorded_of.
  rewrite !app_nth1 by lia. set (len := N.to_nat (u16 (nth 3 w 0) (nth 4 w 0))) in *.
  rewrite app_length.
  replace (length w + length x <? 5)%nat with false by (symmetry; apply Nat.ltb_ge; lia).
  replace (length w <? 5)%nat with false by (symmetry; apply Nat.ltb_ge; lia).
  replace (length w + length x <? 5 + len)%nat with false by (symmetry; apply Nat.ltb_ge; lia).
  replace (length w <? 5 + len)%nat with false by (symmetry; apply Nat.ltb_ge; lia).
  rewrite skipn_app. replace (5 - length w)%nat with 0%nat by lia. rewrite skipn_O.
  rewrite firstn_app. rewrite skipn_length. replace (len - (length w - 5))%nat with 0%nat by lia.
  cbn [firstn]. now rewrite app_nil_r.
Qed.

Opaque parse_raw_client_hello.
(* invariant of the collecting state: the buffer is everything delivered so far and does not
   yet hold a complete record *)
Lemma conn_run_collect : forall segs pre,
  recorded_of pre = None ->
  ((length pre <? 5)%nat || (length pre <? 5 + N.to_nat (u16 (nth 3 pre 0%N) (nth 4 pre 0%N)))%nat)%bool = true ->
  exists st, conn_run (mkConn false pre None) segs = Ok st /\ c_recorded st = recorded_of (pre ++ concat segs).
Proof.
  induction segs as [|seg r IH]; intros pre Hnone Hinc.
  - simpl. rewrite app_nil_r. eexists. split; [reflexivity|]. now rewrite Hnone.
  - cbn [conn_run concat]. rewrite conn_read_collect.
    set (buf := pre ++ seg). set (len := N.to_nat (u16 (nth 3 buf 0) (nth 4 buf 0))).
    destruct ((length buf <? 5)%nat || (length buf <? 5 + len)%nat)%bool eqn:Hc.
    + cbn [rbind]. rewrite app_assoc. fold buf. apply IH; [|exact Hc].
      unfold recorded_of. fold len. apply orb_true_iff in Hc as [Hc|Hc]; rewrite Hc; [reflexivity|].
      now destruct (length buf <? 5)%nat.
    + apply orb_false_iff in Hc as [H5 Hl]. apply Nat.ltb_ge in H5, Hl.
      rewrite app_assoc. fold buf. rewrite recorded_of_app by (fold len; lia).
      unfold recorded_of. fold len.
      replace (length buf <? 5)%nat with false by (symmetry; apply Nat.ltb_ge; lia).
      replace (length buf <? 5 + len)%nat with false by (symmetry; apply Nat.ltb_ge; lia).
      destruct (parse_ok (firstn len (skipn 5 buf))) as [inf ->]. cbn [rbind].
      rewrite conn_run_done by reflexivity. eexists. split; reflexivity.
Qed.
Transparent parse_raw_client_hello.

(* what is recorded is a function of the delivered bytes *)
Lemma conn_run_recorded segs :
  exists st, conn_run conn0 segs = Ok st /\ c_recorded st = recorded_of (concat segs).
Proof. apply (conn_run_collect segs []); reflexivity. Qed.

Lemma segmentation_independent segs1 segs2 :
  concat segs1 = concat segs2 ->
  exists st1 st2, conn_run conn0 segs1 = Ok st1 /\ conn_run conn0 segs2 = Ok st2 /\
                  c_recorded st1 = c_recorded st2.
Proof.
  intro H. destruct (conn_run_recorded segs1) as [st1 [A1 B1]]. destruct (conn_run_recorded segs2) as [st2 [A2 B2]].
  exists st1, st2. repeat split; auto. congruence.
Qed.

Lemma recorded_of_record hdr body rest :
  length hdr = 5%nat ->
  N.to_nat (u16 (nth 3 hdr 0) (nth 4 hdr 0)) = length body ->
  recorded_of (hdr ++ body ++ rest) = res_oinfo (parse_raw_client_hello body).
Proof.
  intros Hh Hlen.
  destruct hdr as [|a [|b [|c [|d [|e [|x hdr]]]]]]; try discriminate. simpl in Hlen.
  unfold recorded_of. cbn [app nth length]. rewrite Hlen. rewrite app_length.
  replace (S (S (S (S (S (length body + length rest))))) <? 5)%nat with false by (symmetry; apply Nat.ltb_ge; lia).
  replace (S (S (S (S (S (length body + length rest))))) <? 5 + length body)%nat with false by (symmetry; apply Nat.ltb_ge; lia).
  cbn [skipn]. rewrite firstn_prefix. reflexivity.
Qed.

Lemma segmentation_full hdr body rest segs :
  length hdr = 5%nat ->
  N.to_nat (u16 (nth 3 hdr 0) (nth 4 hdr 0)) = length body ->
  concat segs = hdr ++ body ++ rest ->
  exists st inf, conn_run conn0 segs = Ok st /\ parse_raw_client_hello body = Ok inf /\
                 c_recorded st = Some inf.
Proof.
  intros Hh Hlen Hw. destruct (conn_run_recorded segs) as [st [A B]].
  destruct (parse_ok body) as [inf Hp].
  exists st, inf. repeat split; auto.
  rewrite B, Hw, (recorded_of_record hdr body rest Hh Hlen), Hp. reflexivity.
Qed.

(* before the record is complete nothing is recorded *)
Lemma segmentation_incomplete hdr body segs k :
  length hdr = 5%nat ->
  N.to_nat (u16 (nth 3 hdr 0) (nth 4 hdr 0)) = length body ->
  (k < 5 + length body)%nat ->
  concat segs = firstn k (hdr ++ body) ->
  exists st, conn_run conn0 segs = Ok st /\ c_recorded st = None.
Proof.
  intros Hh Hlen Hk Hw. destruct (conn_run_recorded segs) as [st [A B]].
  exists st. split; [exact A|]. rewrite B, Hw. unfold recorded_of.
  assert (Hfl : length (firstn k (hdr ++ body)) = k) by (rewrite firstn_length, app_length; lia).
  rewrite Hfl.
  destruct (k <? 5)%nat eqn:H5; [reflexivity|]. apply Nat.ltb_ge in H5.
  rewrite !nth_firstn by lia. rewrite !app_nth1 by lia. rewrite Hlen.
  replace (k <? 5 + length body)%nat with true by (symmetry; apply Nat.ltb_lt; lia). reflexivity.
Qed.

Definition seg_hdr : bytes := [22; 3; 1; 0; 43].
Definition seg_body : bytes := [1; 0; 0; 39; 3; 3] ++ repeat 0 32 ++ [0; 0; 0; 1; 0].

(* ------------------------------------------------------------------------------------------ *)
(* Link header parser                                                                          *)
(* ------------------------------------------------------------------------------------------ *)
Lemma index_from_hit c : forall s i k, index_from [c] s i = Some k ->
  (i <= k)%nat /\ nth_error s (k - i) = Some c.
Proof.
  induction s as [|x s IH]; intros i k H; simpl in H; [discriminate|].
  destruct (x =? c) eqn:E; simpl in H.
  - injection H as <-. rewrite Nat.sub_diag. simpl. apply N.eqb_eq in E. now subst.
  - apply IH in H as [H1 H2]. split; [lia|].
    replace (k - i)%nat with (S (k - S i)) by lia. exact H2.
Qed.

Lemma index_of_hit c s k : index_of [c] s = Some k -> nth_error s k = Some c.
Proof. intro H. apply index_from_hit in H as [_ H]. now rewrite Nat.sub_0_r in H. Qed.

Lemma parse_link_ok link : exists r, parse_link link = Ok r.
Proof.
  unfold parse_link.
  destruct (index_of [LT] link) as [li|] eqn:E1; [|eauto].
  destruct (index_of [GT] link) as [ri|] eqn:E2; [|eauto].
  pose proof (index_of_hit _ _ _ E1) as N1. pose proof (index_of_hit _ _ _ E2) as N2.
  apply index_of_bound in E2. simpl in E2.
  destruct (ri <? li)%nat eqn:Hlt; [eauto|].
  apply Nat.ltb_ge in Hlt.
  assert (li <> ri) by (intros ->; rewrite N1 in N2; discriminate).
  ok_slice link (li + 1)%nat ri. ok_from link (ri + 1)%nat. eauto.
Qed.

Lemma parse_links_ok links : exists r, parse_links links = Ok r.
Proof.
  induction links as [|l r IH]; simpl; [eauto|].
  destruct (parse_link_ok l) as [x ->]. destruct IH as [xs ->]. cbn [rbind]. eauto.
Qed.

Lemma parse_link_header_ok h : exists r, parse_link_header h = Ok r.
Proof. unfold parse_link_header. destruct h; [eauto|apply parse_links_ok]. Qed.

Lemma serve_preload_links_ok values : forall n failat, exists l, serve_preload_links values n failat = Ok l.
Proof.
  induction values as [|v r IH]; intros n failat; simpl; [eauto|].
  destruct (parse_link_header_ok v) as [rs ->]. cbn [rbind].
  destruct (push_resources rs n failat) as [[p n'] st].
  destruct st; [eauto|].
  destruct (IH n' failat) as [q ->]. cbn [rbind]. eauto.
Qed.

(* a piece whose '>' precedes its first '<' (the former panic class) is skipped *)
Lemma parse_link_skips link : gt_before_lt link = true -> parse_link link = Ok None.
Proof.
  unfold parse_link, gt_before_lt.
  destruct (index_of [LT] link); [|discriminate]. destruct (index_of [GT] link); [|discriminate].
  intros ->. reflexivity.
Qed.

(* ------------------------------------------------------------------------------------------ *)
(* FastCGI: record.read / streamReader are total; the other fastcgi entry points               *)
(* ------------------------------------------------------------------------------------------ *)
Lemma record_read_ok s :
  exists r, record_read s = Ok r /\
            forall t c rest, r = RRec t c rest -> (length rest + 8 <= length s)%nat.
Proof.
  unfold record_read.
  destruct (length s =? 0)%nat eqn:H0; [eexists; split; [reflexivity|discriminate]|].
  destruct (length s <? 8)%nat eqn:H8; [eexists; split; [reflexivity|discriminate]|].
  apply Nat.ltb_ge in H8.
  ok_idx s 0%nat. ok_idx s 1%nat. ok_idx s 4%nat. ok_idx s 5%nat. ok_idx s 6%nat. ok_from s 8%nat.
  set (body := skipn 8 s).
  assert (Hbody : length body = (length s - 8)%nat) by apply skipn_length.
  clearbody body.
  destruct (negb (v =? 1)); [eexists; split; [reflexivity|discriminate]|].
  destruct (v0 =? 3); [eexists; split; [reflexivity|discriminate]|].
  set (cl := N.to_nat (u16 v1 v2)). set (n := (cl + N.to_nat v3)%nat).
  destruct (n =? 0)%nat eqn:Hn0.
  { eexists; split; [reflexivity|]. intros t c rest H. injection H as _ _ <-. lia. }
  destruct (length body =? 0)%nat; [eexists; split; [reflexivity|discriminate]|].
  destruct (length body <? n)%nat eqn:Hb; [eexists; split; [reflexivity|discriminate]|].
  apply Nat.ltb_ge in Hb.
  ok_slice body 0%nat n. ok_from body n.
  set (rest0 := skipn n body).
  assert (Hrest : length rest0 = (length body - n)%nat) by apply skipn_length.
  clearbody rest0.
  rewrite slice_ok; [|lia|simpl skipn; rewrite firstn_length; lia]. cbn [rbind].
  eexists; split; [reflexivity|]. intros t c rest H. injection H as _ _ <-. lia.
Qed.

Lemma stream_read_ok fuel : forall s, (length s < fuel)%nat -> exists r, stream_read fuel s = Ok r.
Proof.
  induction fuel as [|fuel IH]; intros s H; [lia|]. simpl.
  destruct (record_read_ok s) as [r [-> Hr]]. cbn [rbind].
  destruct r as [e|t c rest]; [eauto|].
  specialize (Hr t c rest eq_refl).
  destruct (IH rest) as [x ->]; [lia|]. cbn [rbind]. eauto.
Qed.

Lemma stream_read_all_ok s : exists r, stream_read_all s = Ok r.
Proof. apply stream_read_ok. lia. Qed.

Lemma enc_pair_len_bounds klen vlen :
  (2 + klen + vlen <= enc_pair_len klen vlen <= 8 + klen + vlen)%Z.
Proof. unfold enc_pair_len, size_len. destruct (127 <? klen)%Z, (127 <? vlen)%Z; lia. Qed.

Lemma write_pair_ok klen vlen : (0 <= klen)%Z -> (0 <= vlen)%Z -> exists l, write_pair_len klen vlen = Ok l.
Proof.
  intros Hk Hv. unfold write_pair_len. pose proof (enc_pair_len_bounds klen vlen) as B.
  destruct (65500 <? enc_pair_len klen vlen)%Z eqn:E1; [|eauto].
  destruct (65500 - 8 - klen <? 0)%Z eqn:E0.
  - replace ((0 <? 0)%Z || (vlen <? 0)%Z) with false by (symmetry; apply orb_false_iff; split; apply Z.ltb_ge; lia).
    eauto.
  - replace ((65500 - 8 - klen <? 0)%Z || (vlen <? 65500 - 8 - klen)%Z) with false
      by (symmetry; apply orb_false_iff; split; apply Z.ltb_ge; lia).
    eauto.
Qed.

Lemma write_pair_spec klen vlen l : (0 <= klen)%Z -> (0 <= vlen)%Z ->
  write_pair_len klen vlen = Ok l ->
  (0 <= l <= vlen)%Z /\
  ((enc_pair_len klen vlen <= 65500)%Z -> l = vlen) /\
  ((65500 < enc_pair_len klen vlen)%Z -> (8 + klen + l = 65500)%Z \/ ((65492 < klen)%Z /\ l = 0%Z)).
Proof.
  intros Hk Hv. unfold write_pair_len. pose proof (enc_pair_len_bounds klen vlen) as B.
  destruct (65500 <? enc_pair_len klen vlen)%Z eqn:E1.
  - destruct (65500 - 8 - klen <? 0)%Z eqn:E0.
    + destruct ((0 <? 0)%Z || (vlen <? 0)%Z); [discriminate|].
      intro H. assert (El : l = 0%Z) by congruence. lia.
    + destruct ((65500 - 8 - klen <? 0)%Z || (vlen <? 65500 - 8 - klen)%Z) eqn:E2; [discriminate|].
      apply orb_false_iff in E2 as [A B']. apply Z.ltb_ge in A, B'. apply Z.ltb_lt in E1.
      intro H. assert (El : l = (65500 - 8 - klen)%Z) by congruence. lia.
  - apply Z.ltb_ge in E1. intro H. assert (El : l = vlen) by congruence. lia.
Qed.

Lemma fcgi_status_code_range v c : fcgi_status_code v = Some c -> (100 <= c <= 999)%Z.
Proof.
  unfold fcgi_status_code. destruct v as [|x v]; [intro H; injection H as <-; lia|].
  destruct (atoi _) as [c'|]; [|discriminate].
  destruct ((c' <? 100)%Z || (999 <? c')%Z) eqn:E; [discriminate|].
  intro H. injection H as <-. lia.
Qed.

Lemma fcgi_status_ok v : exists r, fcgi_status v = Ok r.
Proof.
  unfold fcgi_status. destruct (fcgi_status_code v) as [c|] eqn:E; [|eauto].
  apply fcgi_status_code_range in E. unfold write_header.
  replace ((c <? 100)%Z || (999 <? c)%Z) with false by (symmetry; apply orb_false_iff; split; apply Z.ltb_ge; lia).
  cbn [rbind]. eauto.
Qed.

Lemma fcgi_status_written v c : fcgi_status v = Ok (Some c) -> (100 <= c <= 999)%Z.
Proof.
  unfold fcgi_status. destruct (fcgi_status_code v) as [c'|] eqn:E; [|discriminate].
  apply fcgi_status_code_range in E. unfold write_header.
  destruct ((c' <? 100)%Z || (999 <? c')%Z); cbn [rbind]; [discriminate|].
  intro H. injection H as <-. exact E.
Qed.

(* the former panic witness "Status: 99" is now answered with 502 *)
Lemma fcgi_status_99 : fcgi_status [57; 57] = Ok None.
Proof. vm_compute. reflexivity. Qed.

Lemma fcgi_path_gate_ok fpath ex sfx : exists b, fcgi_path_gate fpath ex sfx = Ok b.
Proof. unfold fcgi_path_gate. destruct (negb ex); eauto. Qed.

(* ------------------------------------------------------------------------------------------ *)
(* replacer: Replace's scanning loops and getSubstitution's indexing are total                 *)
(* ------------------------------------------------------------------------------------------ *)
Lemma nth_error_skipn {A} (l : list A) (n i : nat) : nth_error (skipn n l) i = nth_error l (n + i).
Proof.
  revert l. induction n as [|n IH]; intros l; simpl; [reflexivity|].
  destruct l; [now destruct i|]. apply IH.
Qed.

Lemma idx_Ok_nth {A} (l : list A) i v : idx l i = Ok v -> nth_error l i = Some v.
Proof. unfold idx. destruct (nth_error l i); [congruence|discriminate]. Qed.

Lemma find_unescaped_ok fuel : forall c s off,
  c <> BSL -> (off <= length s)%nat -> (length s - off < fuel)%nat ->
  exists r, find_unescaped fuel c s off = Ok r /\
    forall k, r = Some k ->
      (off <= k < length s)%nat /\ nth_error s k = Some c /\
      (k = off \/ exists y, nth_error s (k - 1) = Some y /\ y <> BSL).
Proof.
  induction fuel as [|fuel IH]; intros c s off Hc Hoff Hf; [lia|]. simpl.
  ok_from s off.
  destruct (index_of [c] (skipn off s)) as [i|] eqn:Ei.
  2:{ eexists; split; [reflexivity|]. discriminate. }
  pose proof (index_of_hit _ _ _ Ei) as Hhit. rewrite nth_error_skipn in Hhit.
  apply index_of_bound in Ei. rewrite skipn_length in Ei. simpl in Ei.
  destruct i as [|i'].
  - eexists; split; [reflexivity|]. intros k Hk. injection Hk as <-.
    rewrite Nat.add_0_r in Hhit. repeat split; auto; lia.
  - ok_idx (skipn off s) i'; [rewrite skipn_length; lia|].
    apply idx_Ok_nth in E. rewrite nth_error_skipn in E.
    destruct (negb (v =? BSL)) eqn:Eb.
    + eexists; split; [reflexivity|]. intros k Hk. injection Hk as <-.
      repeat split; auto; try lia. right. exists v. split.
      * replace (off + S i' - 1)%nat with (off + i')%nat by lia. exact E.
      * apply negb_true_iff, N.eqb_neq in Eb. exact Eb.
    + destruct (IH c s (off + S i' + 1)%nat) as [r [Hr Hpost]]; auto; try lia.
      exists r. split; [exact Hr|]. intros k Hk. destruct (Hpost k Hk) as [H1 [H2 H3]].
      repeat split; auto; try lia.
      destruct H3 as [H3|H3]; [|now right]. right. exists c. split; [|exact Hc].
      subst k. replace (off + S i' + 1 - 1)%nat with (off + S i')%nat by lia. exact Hhit.
Qed.

(* unescaping keeps a final "x}" with x not a backslash *)
Lemma unesc1_single c a : unesc1 c [a] = [a].
Proof. reflexivity. Qed.

Lemma unesc1_cons2 c a b r :
  unesc1 c (a :: b :: r) = if (a =? BSL) && (b =? c) then c :: unesc1 c r else a :: unesc1 c (b :: r).
Proof. reflexivity. Qed.

Lemma unesc1_end c : c <> BSL -> forall n t x, (length t <= n)%nat -> x <> BSL ->
  exists t' x', unesc1 c (t ++ [x; RB]) = t' ++ [x'; RB] /\ x' <> BSL.
Proof.
  intros Hc. induction n as [|n IH]; intros t x Hn Hx.
  - destruct t; [|simpl in Hn; lia]. exists [], x. split; [|exact Hx].
    simpl. apply N.eqb_neq in Hx. rewrite Hx. reflexivity.
  - destruct t as [|a t1].
    + exists [], x. split; [|exact Hx]. simpl. apply N.eqb_neq in Hx. rewrite Hx. reflexivity.
    + simpl in Hn. destruct t1 as [|b t2].
      * (* a :: [x; RB] *)
        simpl. destruct ((a =? BSL) && (x =? c)) eqn:E.
        -- apply andb_true_iff in E as [_ E]. apply N.eqb_eq in E. subst x.
           exists [], c. split; [reflexivity|exact Hc].
        -- exists [a], x. split; [|exact Hx]. apply N.eqb_neq in Hx. rewrite Hx. reflexivity.
      * change ((a :: b :: t2) ++ [x; RB]) with (a :: b :: (t2 ++ [x; RB])).
        rewrite unesc1_cons2. destruct ((a =? BSL) && (b =? c)).
        -- destruct (IH t2 x) as [t' [x' [H1 H2]]]; [simpl in Hn; lia|exact Hx|].
           exists (c :: t'), x'. rewrite H1. split; [reflexivity|exact H2].
        -- destruct (IH (b :: t2) x) as [t' [x' [H1 H2]]]; [simpl in *; lia|exact Hx|].
           exists (a :: t'), x'. change (b :: t2 ++ [x; RB]) with ((b :: t2) ++ [x; RB]).
           rewrite H1. split; [reflexivity|exact H2].
Qed.

Lemma unescape_braces_end t x : x <> BSL ->
  exists t' x', unescape_braces (t ++ [x; RB]) = t' ++ [x'; RB] /\ x' <> BSL.
Proof.
  intro Hx. unfold unescape_braces.
  destruct (unesc1_end LB ltac:(discriminate) (length t) t x (le_n _) Hx) as [t1 [x1 [H1 Hx1]]].
  rewrite H1.
  apply (unesc1_end RB ltac:(discriminate) (length t1) t1 x1 (le_n _) Hx1).
Qed.

Lemma firstn_two_last {A} (l : list A) : forall m x y,
  nth_error l m = Some x -> nth_error l (S m) = Some y -> firstn (S (S m)) l = firstn m l ++ [x; y].
Proof.
  induction l as [|a l IH]; intros m x y H1 H2; [destruct m; discriminate|].
  destruct m as [|m].
  - simpl in H1. injection H1 as ->. destruct l as [|b l]; [discriminate|].
    simpl in H2. injection H2 as ->. reflexivity.
  - simpl in H1, H2. change (firstn (S (S (S m))) (a :: l)) with (a :: firstn (S (S m)) l).
    rewrite (IH m x y H1 H2). reflexivity.
Qed.

Lemma prefixb_same_length p : forall s, prefixb p s = true -> length p = length s -> s = p.
Proof.
  induction p as [|y p IH]; intros [|x s] H L; simpl in *; try discriminate; [reflexivity|].
  apply andb_true_iff in H as [H1 H2]. apply N.eqb_eq in H1. subst. f_equal. apply IH; auto.
Qed.

Lemma subst_key_ok t x : x <> BSL -> exists r, subst_key (t ++ [x; RB]) = Ok r.
Proof.
  intro Hx. unfold subst_key. set (key := t ++ [x; RB]).
  assert (Hlen : length key = (length t + 2)%nat) by (unfold key; rewrite app_length; simpl; lia).
  ok_idx key 1%nat.
  destruct ((v =? 62) || (v =? 126) || (v =? 63) || (v =? 36)) eqn:Ek.
  - assert (Ht : t <> []).
    { intros ->. unfold key in E. simpl in E. vm_compute in E. injection E as <-. discriminate. }
    assert (length t >= 1)%nat by (destruct t; [congruence|simpl; lia]).
    ok_slice key 2%nat (length key - 1)%nat. eauto.
  - destruct (prefixb lit_label_13 key) eqn:Ep; [|eauto].
    pose proof (prefixb_length _ _ Ep) as Hl. change (length lit_label_13) with 6%nat in Hl.
    assert (length key <> 6)%nat.
    { intro H6. apply prefixb_same_length in Ep; [|now rewrite H6].
      unfold key in Ep. assert (Hlast : last (t ++ [x; RB]) 0 = RB).
      { change [x; RB] with ([x] ++ [RB]). rewrite app_assoc. apply last_last. }
      rewrite Ep in Hlast. vm_compute in Hlast. discriminate. }
    ok_slice key 6%nat (length key - 1)%nat. eauto.
Qed.

Lemma replace_loop_ok fuel : forall subst s result, (length s < fuel)%nat ->
  exists r, replace_loop fuel subst s result = Ok r.
Proof.
  induction fuel as [|fuel IH]; intros subst s result Hf; [lia|]. cbn [replace_loop].
  destruct (find_unescaped_ok (S (length s)) LB s 0%nat) as [st [Est Hst]]; [discriminate|lia|lia|].
  rewrite Est. cbn [rbind].
  destruct st as [i0|]; [|eauto].
  destruct (Hst i0 eq_refl) as [[_ Hi0] [Hn0 _]].
  ok_from s i0. set (sp := skipn i0 s).
  assert (Hsp : length sp = (length s - i0)%nat) by apply skipn_length.
  destruct (find_unescaped_ok (S (length sp)) RB sp 0%nat) as [en [Een Hen]]; [discriminate|lia|lia|].
  rewrite Een. cbn [rbind].
  destruct en as [e|]; [|eauto].
  destruct (Hen e eq_refl) as [[_ He] [Hne Hprev]].
  assert (H0 : nth_error sp 0 = Some LB) by (unfold sp; rewrite nth_error_skipn, Nat.add_0_r; exact Hn0).
  assert (He0 : e <> 0%nat) by (intros ->; rewrite H0 in Hne; discriminate).
  destruct Hprev as [Hprev|[y [Hy Hyb]]]; [congruence|].
  ok_slice s i0 (i0 + e + 1)%nat.
  replace (i0 + e + 1 - i0)%nat with (S (S (e - 1))) by lia. fold sp.
  rewrite (firstn_two_last sp (e - 1) y RB Hy); [|replace (S (e - 1)) with e by lia; exact Hne].
  destruct (unescape_braces_end (firstn (e - 1) sp) y Hyb) as [t' [x' [Eu Hx']]].
  rewrite Eu. destruct (subst_key_ok t' x' Hx') as [kn Ek]. rewrite Ek. cbn [rbind].
  ok_slice s 0%nat i0. ok_from s (i0 + e + 1)%nat.
  apply IH. rewrite skipn_length. lia.
Qed.

Lemma replace_ok subst s : exists r, replace subst s = Ok r.
Proof.
  unfold replace. destruct (negb (has_brace s)); [eauto|]. apply replace_loop_ok. lia.
Qed.

Lemma replace_no_panic subst s : replace subst s <> Panic.
Proof. destruct (replace_ok subst s) as [r ->]. discriminate. Qed.

(* getSubstitution's indexing is total on every key that Replace can hand to it, and in
   general exactly on keys of at least 2 bytes that do not collapse *)
Lemma subst_key_no_panic t x : x <> BSL -> subst_key (t ++ [x; RB]) <> Panic.
Proof. intro H. destruct (subst_key_ok t x H) as [r ->]. discriminate. Qed.


(* ------------------------------------------------------------------------------------------ *)
(* FastCGI: what the stream reader returns for well-formed records is their stdout contents    *)
(* ------------------------------------------------------------------------------------------ *)
Lemma u16_be16 n : u16 (n / 256) (n mod 256) = n.
Proof. unfold u16. rewrite N.mul_comm. symmetry. apply N.div_mod'. Qed.

Lemma record_read_enc r tail : frec_wf r = true ->
  record_read (enc_rec r ++ tail) = Ok (RRec (r_type r) (r_content r) tail).
Proof.
  intro Hwf. unfold frec_wf in Hwf.
  apply andb_true_iff in Hwf as [Hwf Hpad]. apply andb_true_iff in Hwf as [Hwf Hlen].
  apply andb_true_iff in Hwf as [_ Ht]. apply negb_true_iff in Ht.
  destruct r as [t c pad]. cbn [r_type r_content r_pad] in *.
  unfold enc_rec, be16. cbn [r_type r_content r_pad app].
  set (l := c ++ repeat 0 pad). 
  match goal with |- record_read ?x = _ => set (s := x) end.
  assert (E0 : (length s =? 0)%nat = false) by reflexivity.
  assert (E8 : (length s <? 8)%nat = false) by (apply Nat.ltb_ge; unfold s; simpl; lia).
  unfold record_read. rewrite E0, E8. unfold s.
  cbn [length Nat.leb idx nth_error rbind slice_from skipn].
  change (negb (1 =? 1)) with false. cbv iota. rewrite Ht.
  rewrite u16_be16. unfold nlen. rewrite !Nat2N.id.
  assert (Hl : length l = (length c + pad)%nat) by (unfold l; rewrite app_length, repeat_length; lia).
  destruct (length c + pad =? 0)%nat eqn:H0.
  - apply Nat.eqb_eq in H0. assert (c = []) by (destruct c; [reflexivity|simpl in H0; lia]).
    assert (pad = 0%nat) by lia. subst c pad. reflexivity.
  - apply Nat.eqb_neq in H0.
    assert (Hb : length (l ++ tail) = (length c + pad + length tail)%nat) by (rewrite app_length; lia).
    rewrite Hb.
    replace (length c + pad + length tail =? 0)%nat with false by (symmetry; apply Nat.eqb_neq; lia).
    replace (length c + pad + length tail <? length c + pad)%nat with false by (symmetry; apply Nat.ltb_ge; lia).
    rewrite slice_ok by lia. cbn [rbind].
    rewrite slice_from_ok by lia. cbn [rbind].
    rewrite Nat.sub_0_r. cbn [skipn].
    rewrite <- Hl at 1. rewrite firstn_prefix.
    rewrite slice_ok; [|lia|lia]. cbn [rbind skipn]. rewrite Nat.sub_0_r.
    unfold l at 1. rewrite firstn_prefix.
    rewrite <- Hl. rewrite skipn_app, skipn_all, Nat.sub_diag. reflexivity.
Qed.

Lemma stream_read_recs : forall rs fuel tail d e,
  forallb frec_wf rs = true -> (length rs < fuel)%nat ->
  stream_read (fuel - length rs) tail = Ok (d, e) ->
  stream_read fuel (flat_map enc_rec rs ++ tail) = Ok (stdout_of rs ++ d, e).
Proof.
  induction rs as [|r rs IH]; intros fuel tail d e Hwf Hf Ht.
  - simpl in *. now rewrite Nat.sub_0_r in Ht.
  - simpl in Hwf. apply andb_true_iff in Hwf as [Hr Hwf].
    destruct fuel as [|f]; [simpl in Hf; lia|].
    cbn [flat_map]. rewrite <- app_assoc. cbn [stream_read].
    rewrite (record_read_enc r _ Hr). cbn [rbind].
    rewrite (IH f tail d e Hwf); [|simpl in Hf; lia|simpl in Ht; exact Ht].
    cbn [rbind fst snd]. unfold stdout_of. cbn [flat_map].
    destruct (r_type r =? 7); [reflexivity|]. now rewrite app_assoc.
Qed.

Lemma stream_read_end k : stream_read (S k) end_request = Ok ([], 1).
Proof. reflexivity. Qed.
Lemma stream_read_nil k : stream_read (S k) [] = Ok ([], 1).
Proof. reflexivity. Qed.

Lemma enc_rec_length r : (8 <= length (enc_rec r))%nat.
Proof. unfold enc_rec, be16. rewrite !app_length. simpl. lia. Qed.

Lemma flat_enc_length rs : (length rs <= length (flat_map enc_rec rs))%nat.
Proof.
  induction rs as [|r rs IH]; simpl; [lia|]. rewrite app_length. pose proof (enc_rec_length r). lia.
Qed.

(* the backend's stdout, exactly, followed by io.EOF — whether the stream ends with an
   end-request record or with the connection being closed at a record boundary *)
Lemma stream_decodes rs (closed : bool) : forallb frec_wf rs = true ->
  stream_read_all (flat_map enc_rec rs ++ (if closed then [] else end_request)) = Ok (stdout_of rs, 1).
Proof.
  intro Hwf. unfold stream_read_all.
  set (tail := if closed then [] else end_request).
  set (fuel := S (length (flat_map enc_rec rs ++ tail))).
  assert (Hf : (length rs < fuel)%nat).
  { unfold fuel. rewrite app_length. pose proof (flat_enc_length rs). lia. }
  rewrite (stream_read_recs rs fuel tail [] 1 Hwf Hf).
  - now rewrite app_nil_r.
  - destruct (fuel - length rs)%nat as [|k] eqn:E; [lia|].
    unfold tail. destruct closed; reflexivity.
Qed.

(* ------------------------------------------------------------------------------------------ *)
(* statements in the form used by C19_Props.v                                                  *)
(* ------------------------------------------------------------------------------------------ *)
Lemma chrome_edge_safari_tor_no_panic inf :
  looks_like_chrome inf <> Panic /\ looks_like_edge inf <> Panic /\
  looks_like_safari inf <> Panic /\ looks_like_tor inf <> Panic.
Proof.
  destruct (looks_like_chrome_ok inf) as [a ->]. destruct (looks_like_edge_ok inf) as [b ->].
  destruct (looks_like_safari_ok inf) as [c ->]. destruct (looks_like_tor_ok inf) as [d ->].
  repeat split; discriminate.
Qed.

Lemma looks_like_firefox_no_panic inf : looks_like_firefox inf <> Panic.
Proof. destruct (looks_like_firefox_ok inf) as [b ->]. discriminate. Qed.

Lemma mitm_check_no_panic inf ua bc fc tv : mitm_check inf ua bc fc tv <> Panic.
Proof. destruct (mitm_check_ok inf ua bc fc tv) as [r ->]. discriminate. Qed.

Lemma get_version_no_panic ua name : get_version_str ua name <> Panic.
Proof. destruct (get_version_ok ua name) as [r ->]. discriminate. Qed.

Lemma conn_no_panic c segs : conn_run c segs <> Panic.
Proof. destruct (conn_run_ok segs c) as [c' ->]. discriminate. Qed.

Lemma parse_link_header_no_panic h : parse_link_header h <> Panic.
Proof. destruct (parse_link_header_ok h) as [r ->]. discriminate. Qed.

Lemma serve_preload_links_no_panic values n failat : serve_preload_links values n failat <> Panic.
Proof. destruct (serve_preload_links_ok values n failat) as [l ->]. discriminate. Qed.

Lemma record_read_no_panic s : record_read s <> Panic.
Proof. destruct (record_read_ok s) as [r [-> _]]. discriminate. Qed.

Lemma stream_read_no_panic s : stream_read_all s <> Panic.
Proof. destruct (stream_read_all_ok s) as [r ->]. discriminate. Qed.

Lemma write_pair_no_panic klen vlen : (0 <= klen)%Z -> (0 <= vlen)%Z -> write_pair_len klen vlen <> Panic.
Proof. intros Hk Hv. destruct (write_pair_ok klen vlen Hk Hv) as [l ->]. discriminate. Qed.

Lemma fcgi_status_no_panic v : fcgi_status v <> Panic.
Proof. destruct (fcgi_status_ok v) as [r ->]. discriminate. Qed.

Lemma fcgi_path_gate_no_panic fpath ex sfx : fcgi_path_gate fpath ex sfx <> Panic.
Proof. destruct (fcgi_path_gate_ok fpath ex sfx) as [b ->]. discriminate. Qed.
