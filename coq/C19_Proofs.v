Require Import V.Lib V.C19_Model.
