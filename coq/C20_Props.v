(* C20 — property theorems only.  Each is closed by [exact] of a lemma proved in C20_Proofs.v
   (refutation witnesses by computation) and followed by Print Assumptions. *)
Require Import V.Lib V.GoPath V.C19_Model V.Gen_C20 V.C20_Model V.C20_Proofs.
Open Scope N_scope.
Local Open Scope string_scope.

(* ============================ placeholder expansion ======================================== *)

(* Replace factorises through a template computed from the FORMAT ALONE: the output is the
   template rendered with the substitution function of the request.  Substituted text is never
   scanned: for every substitution function [gs] (every request, every header/cookie/query
   value, whatever placeholder syntax it contains). *)
Theorem C20_replace_factorises :
  forall (gs : bytes -> bytes) (fmt : bytes),
  expand gs fmt = match template fmt with Ok t => Ok (render gs t) | Panic => Panic end.
Proof. exact expand_factorises. Qed.
Print Assumptions C20_replace_factorises.

(* Totality: the scanning loops never index out of range and terminate, the template exists,
   and every key handed to getSubstitution has the shape "{" … x "}" (x not a backslash). *)
Theorem C20_replace_total :
  forall (gs : bytes -> bytes) (fmt : bytes), exists out, expand gs fmt = Ok out.
Proof. exact expand_total. Qed.
Print Assumptions C20_replace_total.

Theorem C20_template_total :
  forall fmt, exists t, template fmt = Ok t /\ Forall key_shape (keys_of t).
Proof. exact template_total. Qed.
Print Assumptions C20_template_total.

(* Single pass, explicit form: wherever a placeholder stands in the template, its value is
   inserted verbatim — braces, backslashes and complete placeholders inside it included. *)
Theorem C20_value_inserted_verbatim :
  forall (gs : bytes -> bytes) fmt l1 k l2,
  template fmt = Ok (l1 ++ Ph k :: l2) ->
  expand gs fmt = Ok (render gs l1 ++ gs k ++ render gs l2).
Proof. exact value_verbatim. Qed.
Print Assumptions C20_value_inserted_verbatim.

(* ... and the output depends on the request only through the placeholders written in the
   format: two requests that agree on those produce the same line, even if they differ on every
   key that merely occurs inside a value. *)
Theorem C20_single_pass :
  forall (gs1 gs2 : bytes -> bytes) fmt t,
  template fmt = Ok t -> (forall k, In k (keys_of t) -> gs1 k = gs2 k) ->
  expand gs1 fmt = expand gs2 fmt.
Proof. exact expand_depends_on_format_keys. Qed.
Print Assumptions C20_single_pass.

(* a header value spelling a placeholder is logged as it is *)
Example C20_single_pass_nonvacuous :
  let e := {| e_custom := []; e_reqh := [(bs "X-Evil", [bs "{status}\{x\}"])]; e_resph := Some [];
              e_cookies := []; e_query := []; e_osenv := [];
              e_defaults := [(bs "{status}", bs "404")]; e_host := []; e_empty := bs "-" |} in
  expand_env e (bs "{>X-Evil} {status} \{status\} {nope}") = Ok (bs "{status}\{x\} 404 {status} -").
Proof. vm_compute. reflexivity. Qed.

(* getSubstitution is total on every key Replace can produce, for every request environment
   and every vocabulary; so is the whole expansion. *)
Theorem C20_get_substitution_total :
  forall vocab e key, key_shape key -> exists v, get_subst_chk vocab e key = Ok v.
Proof. exact get_subst_total. Qed.
Print Assumptions C20_get_substitution_total.

Theorem C20_expansion_total :
  forall e fmt, exists out t,
  expand_env e fmt = Ok out /\ template fmt = Ok t /\
  Forall (fun k => exists v, get_subst_chk gen_c20_vocab e k = Ok v) (keys_of t).
Proof. exact expand_env_total. Qed.
Print Assumptions C20_expansion_total.

(* Unknown placeholders yield the configured empty-value marker: a key that is not a custom
   placeholder, not of a prefixed class (> < ~ ? $), not in the default vocabulary and not
   {labelN}. *)
Theorem C20_unknown_placeholder_empty :
  forall vocab e key k1,
  assoc key (e_custom e) = None -> idx key 1 = Ok k1 ->
  k1 <> 62 -> k1 <> 60 -> k1 <> 126 -> k1 <> 63 -> k1 <> 36 ->
  mem key vocab = false -> prefixb lit_label_13 key = false ->
  get_subst_chk vocab e key = Ok (e_empty e).
Proof. exact unknown_placeholder_empty. Qed.
Print Assumptions C20_unknown_placeholder_empty.

Example C20_unknown_placeholder_empty_nonvacuous :
  let e := {| e_custom := []; e_reqh := []; e_resph := None; e_cookies := []; e_query := []; e_osenv := [];
              e_defaults := []; e_host := []; e_empty := bs "-" |} in
  get_subst_chk gen_c20_vocab e (bs "{nope}") = Ok (bs "-") /\
  get_subst_chk gen_c20_vocab e (bs "{}") = Ok (bs "-").
Proof. vm_compute. split; reflexivity. Qed.

(* ... and so does a header placeholder naming a header the request does not carry. *)
Theorem C20_missing_header_empty :
  forall vocab e key w,
  key_shape key -> assoc key (e_custom e) = None -> idx key 1 = Ok 62 -> key_mid key = Ok w ->
  hdr_lookup w (e_reqh e) = None -> mem key vocab = false ->
  get_subst_chk vocab e key = Ok (e_empty e).
Proof. exact missing_header_empty. Qed.
Print Assumptions C20_missing_header_empty.

(* Escaped braces stay literal: if every opening brace of the format is preceded by a
   backslash, no placeholder is ever looked up and the output is the format with its brace
   escapes removed. *)
Theorem C20_escaped_braces_literal :
  forall (gs : bytes -> bytes) fmt,
  all_open_escaped fmt ->
  expand gs fmt = Ok (unescape_braces fmt) /\ template fmt = Ok [Lit (unescape_braces fmt)].
Proof. exact escaped_open_no_placeholder. Qed.
Print Assumptions C20_escaped_braces_literal.

(* in particular: ANY text written with each of its braces escaped comes out as that very text,
   for every request — nothing inside it is treated as a placeholder *)
Theorem C20_escaped_text_is_literal :
  forall (gs : bytes -> bytes) (w : bytes), expand gs (esc w) = Ok w.
Proof. exact escaped_text_literal. Qed.
Print Assumptions C20_escaped_text_is_literal.

Example C20_escaped_braces_literal_nonvacuous :
  expand (fun _ => bs "VALUE") (bs "a \{status\} b") = Ok (bs "a {status} b").
Proof. vm_compute. reflexivity. Qed.

(* ============================ access-log lines ============================================== *)

(* One line per entry of every matching rule: for every rule table, request path, handler script
   (whatever it wrote, whatever status it returned, panics included) and every writer
   behaviour, the middleware writes exactly one line for each entry of each rule whose scope
   contains the path and which does not except it, none for the others, and all lines carry the
   same status and size; a panic of the handler gets past the middleware only when the request
   is outside every scope. *)
Theorem C20_one_line_per_entry :
  forall c cs tbl ek rules path ops ret u,
  NoDup (map n_id (flat_map ru_entries rules)) ->
  let '(_, _, p, lines) := log_serve c cs tbl ek rules path ops ret u in
  (forall r e, In r rules -> In e (ru_entries r) ->
     count_id (n_id e) lines =
     if path_matches cs path (ru_scope r) && should_log cs (n_except e) path then 1%nat else 0%nat) /\
  (forall i, ~ In i (map n_id (flat_map ru_entries rules)) -> count_id i lines = 0%nat) /\
  (exists st sz, forall l, In l lines -> snd (fst l) = st /\ snd l = sz) /\
  (p = true -> forall r, In r rules -> path_matches cs path (ru_scope r) = false).
Proof. exact one_line_per_entry. Qed.
Print Assumptions C20_one_line_per_entry.

(* Per configured log (the statement of the property): [counts_ok] = every log directive gets
   exactly one line iff the request is inside its scope and not excepted by its own except
   list.  It holds for EVERY list of log directives — same or different scopes, nested or
   overlapping, any except lists — for every request and EVERY handler outcome, with or without
   an errors directive: a panicking handler included (the log middleware turns the panic into
   the 500 the client is answered with).  F-C20-1, F-C20-3 and F-C20-4 repaired. *)
Theorem C20_one_line_per_log :
  forall c cs tbl (haserr hdrw : bool) ds path ops ret,
  counts_ok cs ds 0 path (snd (site_serve c cs tbl haserr hdrw ds path ops ret)) = true.
Proof. exact site_one_line_per_log. Qed.
Print Assumptions C20_one_line_per_log.

(* the former refutation witnesses: `log /a a.log` + `log / b.log`, GET /a/x (F-C20-3) gets its
   line in both logs; `log / a.log { except /x }` + `log / b.log`, GET /x (F-C20-4) gets its line
   in b.log; a panic without an errors directive (F-C20-1) is answered with 500 and logged as
   such; with errors, the errors directive writes the 500 and it is logged likewise *)
Example C20_one_line_per_log_witnesses :
  snd (site_serve {| w_nethttp := true; w_head := false |} false [(404%Z, 14)] true false
         [ {| d_scope := bs "/a"; d_except := [] |}; {| d_scope := bs "/"; d_except := [] |} ]
         (bs "/a/x") [] 404%Z)
  = [(0%nat, 404%Z, 14); (1%nat, 404%Z, 14)] /\
  snd (site_serve {| w_nethttp := true; w_head := false |} false [(404%Z, 14)] true false
         [ {| d_scope := bs "/"; d_except := [bs "/x"] |}; {| d_scope := bs "/"; d_except := [] |} ]
         (bs "/x") [] 404%Z)
  = [(1%nat, 404%Z, 14)] /\
  site_serve {| w_nethttp := true; w_head := false |} false [(500%Z, 26)] false false
         [ {| d_scope := bs "/"; d_except := [] |} ] (bs "/x") [OPanic] 0%Z
  = (500%Z, 26, [(0%nat, 500%Z, 26)]) /\
  snd (site_serve {| w_nethttp := true; w_head := false |} false [(404%Z, 14); (500%Z, 26)] true false
         [ {| d_scope := bs "/a"; d_except := [bs "/a/x"] |}; {| d_scope := bs "/a"; d_except := [bs "/a/b"] |} ]
         (bs "/a/x") [OPanic] 0%Z)
  = [(1%nat, 500%Z, 26)].
Proof. vm_compute. repeat split; reflexivity. Qed.

(* Status and size are exact, for EVERY request method and EVERY handler script —
   contract-breaking ones included: a second WriteHeader, a WriteHeader after the first Write, a
   written response followed by an error status (the middleware's own fallback WriteHeader then
   comes too late), a panic after a partial response.  Every line carries the status the
   underlying writer committed and the number of body bytes it delivered: failed writes are not
   counted, the fallback error body is, and for a HEAD request — whose body net/http accepts
   and drops — the size is 0.  ([head_ok]: a HEAD request is answered through a writer that
   sends no body, which holds for every net/http writer; [final_codes]: no 1xx informational
   WriteHeader, which the writer model does not cover.) *)
Theorem C20_logged_status_size_exact :
  forall c cs tbl ek rules path ops ret,
  head_ok c = true -> final_codes ops = true ->
  let '(u', _, _, lines) := log_serve c cs tbl ek rules path ops ret uw0 return Prop in
  forall l, In l lines -> snd (fst l) = client_status u' /\ snd l = u_size u'.
Proof. exact logged_exact. Qed.
Print Assumptions C20_logged_status_size_exact.

(* the same for a whole request through the site, whatever sits between log and the handler
   (errors directive, header directive) and the server's own fallback included: the lines
   equal what the client sees *)
Theorem C20_site_logged_exact :
  forall c cs tbl (haserr hdrw : bool) ds path ops ret,
  head_ok c = true -> final_codes ops = true ->
  let '(st, sz, lines) := site_serve c cs tbl haserr hdrw ds path ops ret return Prop in
  forall l, In l lines -> snd (fst l) = st /\ snd l = sz.
Proof. exact site_logged_exact. Qed.
Print Assumptions C20_site_logged_exact.

(* the former refutation witnesses now log what the client got (F-C20-5: the recorder kept the
   LAST WriteHeader argument; F-C20-2: for HEAD the error body was counted but never sent) *)
Example C20_site_logged_exact_nonvacuous :
  site_serve {| w_nethttp := true; w_head := false |} false [(404%Z, 14)] false false
    [ {| d_scope := bs "/"; d_except := [] |} ] (bs "/x") [] 404%Z = (404%Z, 14, [(0%nat, 404%Z, 14)]) /\
  site_serve {| w_nethttp := true; w_head := false |} false [] true false
    [ {| d_scope := bs "/"; d_except := [] |} ] (bs "/x") [OWH 204%Z; OW 5 None] 0%Z = (204%Z, 0, [(0%nat, 204%Z, 0)]) /\
  site_serve {| w_nethttp := true; w_head := false |} false [] false false
    [ {| d_scope := bs "/"; d_except := [] |} ] (bs "/x") [OWH 200%Z; OW 3 None; OWH 500%Z] 0%Z = (200%Z, 3, [(0%nat, 200%Z, 3)]) /\
  site_serve {| w_nethttp := true; w_head := false |} false [(500%Z, 26)] false false
    [ {| d_scope := bs "/"; d_except := [] |} ] (bs "/x") [OW 3 None] 500%Z = (200%Z, 29, [(0%nat, 200%Z, 29)]) /\
  site_serve {| w_nethttp := true; w_head := true |} false [(404%Z, 14)] false false
    [ {| d_scope := bs "/"; d_except := [] |} ] (bs "/x") [] 404%Z = (404%Z, 0, [(0%nat, 404%Z, 0)]).
Proof. vm_compute. repeat split; reflexivity. Qed.
