(* C20 — property theorems only. *)
Require Import V.Lib V.GoPath V.C19_Model V.Gen_C20 V.C20_Model V.C20_Proofs.
Open Scope N_scope.
