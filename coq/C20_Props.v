(* C20 — property theorems only.  Each is closed by [exact] of a lemma proved in C20_Proofs.v
   (refutation witnesses by computation) and followed by Print Assumptions. *)
Require Import V.Lib V.GoPath V.C19_Model V.Gen_C20 V.C20_Model V.C20_Proofs.
Open Scope N_scope.
Local Open Scope string_scope.

(* ============================ placeholder expansion ======================================== *)

(* Replace factorises through a template computed from the FORMAT ALONE: the output is the
   template rendered with the substitution function of the request.  Substituted text is never
   scanned: for every substitution function [gs] (every request, every header/cookie/query
   value, whatever placeholder syntax it contains). *)
Theorem C20_replace_factorises :
  forall (gs : bytes -> bytes) (fmt : bytes),
  expand gs fmt = match template fmt with Ok t => Ok (render gs t) | Panic => Panic end.
Proof. exact expand_factorises. Qed.
Print Assumptions C20_replace_factorises.

(* Totality: the scanning loops never index out of range and terminate, the template exists,
   and every key handed to getSubstitution has the shape "{" … x "}" (x not a backslash). *)
Theorem C20_replace_total :
  forall (gs : bytes -> bytes) (fmt : bytes), exists out, expand gs fmt = Ok out.
Proof. exact expand_total. Qed.
Print Assumptions C20_replace_total.

Theorem C20_template_total :
  forall fmt, exists t, template fmt = Ok t /\ Forall key_shape (keys_of t).
Proof. exact template_total. Qed.
Print Assumptions C20_template_total.

(* Single pass, explicit form: wherever a placeholder stands in the template, its value is
   inserted verbatim — braces, backslashes and complete placeholders inside it included. *)
Theorem C20_value_inserted_verbatim :
  forall (gs : bytes -> bytes) fmt l1 k l2,
  template fmt = Ok (l1 ++ Ph k :: l2) ->
  expand gs fmt = Ok (render gs l1 ++ gs k ++ render gs l2).
Proof. exact value_verbatim. Qed.
Print Assumptions C20_value_inserted_verbatim.

(* ... and the output depends on the request only through the placeholders written in the
   format: two requests that agree on those produce the same line, even if they differ on every
   key that merely occurs inside a value. *)
Theorem C20_single_pass :
  forall (gs1 gs2 : bytes -> bytes) fmt t,
  template fmt = Ok t -> (forall k, In k (keys_of t) -> gs1 k = gs2 k) ->
  expand gs1 fmt = expand gs2 fmt.
Proof. exact expand_depends_on_format_keys. Qed.
Print Assumptions C20_single_pass.

(* a header value spelling a placeholder is logged as it is *)
Example C20_single_pass_nonvacuous :
  let e := {| e_custom := []; e_reqh := [(bs "X-Evil", [bs "{status}\{x\}"])]; e_resph := Some [];
              e_cookies := []; e_query := []; e_osenv := [];
              e_defaults := []; e_host := []; e_empty := bs "-";
              e_method := bs "GET"; e_path := bs "/"; e_curpath := bs "/"; e_rawquery := []; e_proto := bs "HTTP/1.1";
              e_rec := Some (404%Z, 14) |} in
  expand_env e (bs "{>X-Evil} {status} \{status\} {nope}") = Ok (bs "{status}\{x\} 404 {status} -").
Proof. vm_compute. reflexivity. Qed.

(* getSubstitution is total on every key Replace can produce, for every request environment
   and every dispatch table of the default vocabulary; so is the whole expansion. *)
Theorem C20_get_substitution_total :
  forall tbl e key, key_shape key -> exists v, get_subst_chk tbl e key = Ok v.
Proof. exact get_subst_total. Qed.
Print Assumptions C20_get_substitution_total.

Theorem C20_expansion_total :
  forall e fmt, exists out t,
  expand_env e fmt = Ok out /\ template fmt = Ok t /\
  Forall (fun k => exists v, get_subst_chk dispatch e k = Ok v) (keys_of t).
Proof. exact expand_env_total. Qed.
Print Assumptions C20_expansion_total.

(* Unknown placeholders yield the configured empty-value marker: a key that is not a custom
   placeholder, not of a prefixed class (> < ~ ? $), not in the dispatch table of the default vocabulary and not
   {labelN}. *)
Theorem C20_unknown_placeholder_empty :
  forall tbl e key k1,
  assoc key (e_custom e) = None -> idx key 1 = Ok k1 ->
  k1 <> 62 -> k1 <> 60 -> k1 <> 126 -> k1 <> 63 -> k1 <> 36 ->
  assoc key tbl = None -> prefixb lit_label_13 key = false ->
  get_subst_chk tbl e key = Ok (e_empty e).
Proof. exact unknown_placeholder_empty. Qed.
Print Assumptions C20_unknown_placeholder_empty.

Example C20_unknown_placeholder_empty_nonvacuous :
  let e := {| e_custom := []; e_reqh := []; e_resph := None; e_cookies := []; e_query := []; e_osenv := [];
              e_defaults := []; e_host := []; e_empty := bs "-";
              e_method := bs "GET"; e_path := bs "/"; e_curpath := bs "/"; e_rawquery := []; e_proto := bs "HTTP/1.1"; e_rec := None |} in
  get_subst_chk dispatch e (bs "{nope}") = Ok (bs "-") /\
  get_subst_chk dispatch e (bs "{}") = Ok (bs "-").
Proof. vm_compute. split; reflexivity. Qed.

(* ... and so does a header placeholder naming a header the request does not carry. *)
Theorem C20_missing_header_empty :
  forall tbl e key w,
  key_shape key -> assoc key (e_custom e) = None -> idx key 1 = Ok 62 -> key_mid key = Ok w ->
  hdr_lookup w (e_reqh e) = None -> assoc key tbl = None ->
  get_subst_chk tbl e key = Ok (e_empty e).
Proof. exact missing_header_empty. Qed.
Print Assumptions C20_missing_header_empty.

(* Escaped braces stay literal: if every opening brace of the format is preceded by a
   backslash, no placeholder is ever looked up and the output is the format with its brace
   escapes removed. *)
Theorem C20_escaped_braces_literal :
  forall (gs : bytes -> bytes) fmt,
  all_open_escaped fmt ->
  expand gs fmt = Ok (unescape_braces fmt) /\ template fmt = Ok [Lit (unescape_braces fmt)].
Proof. exact escaped_open_no_placeholder. Qed.
Print Assumptions C20_escaped_braces_literal.

(* in particular: ANY text written with each of its braces escaped comes out as that very text,
   for every request — nothing inside it is treated as a placeholder *)
Theorem C20_escaped_text_is_literal :
  forall (gs : bytes -> bytes) (w : bytes), expand gs (esc w) = Ok w.
Proof. exact escaped_text_literal. Qed.
Print Assumptions C20_escaped_text_is_literal.

Example C20_escaped_braces_literal_nonvacuous :
  expand (fun _ => bs "VALUE") (bs "a \{status\} b") = Ok (bs "a {status} b").
Proof. vm_compute. reflexivity. Qed.

(* ============================ access-log lines ============================================== *)

(* One line per entry of every matching rule: for every rule table, request path, handler script
   (whatever it wrote, whatever status it returned, panics included) and every writer
   behaviour, the middleware writes exactly one line for each entry of each rule whose scope
   contains the path and which does not except it, none for the others, and all lines carry the
   same status and size; a panic of the handler gets past the middleware only when the request
   is outside every scope. *)
Theorem C20_one_line_per_entry :
  forall c cs tbl ek rules path ops ret u,
  NoDup (map n_id (flat_map ru_entries rules)) ->
  let '(_, _, p, lines) := log_serve c cs tbl ek rules path ops ret u in
  (forall r e, In r rules -> In e (ru_entries r) ->
     count_id (n_id e) lines =
     if path_matches cs path (ru_scope r) && should_log cs (n_except e) path then 1%nat else 0%nat) /\
  (forall i, ~ In i (map n_id (flat_map ru_entries rules)) -> count_id i lines = 0%nat) /\
  (exists st sz, forall l, In l lines -> snd (fst l) = st /\ snd l = sz) /\
  (p = true -> forall r, In r rules -> path_matches cs path (ru_scope r) = false).
Proof. exact one_line_per_entry. Qed.
Print Assumptions C20_one_line_per_entry.

(* Per configured log (the statement of the property): [counts_ok] = every log directive gets
   exactly one line iff the request is inside its scope and not excepted by its own except
   list.  It holds for EVERY list of log directives — same or different scopes, nested or
   overlapping, any except lists — for every request and EVERY handler outcome, with or without
   an errors directive: a panicking handler included (the log middleware turns the panic into
   the 500 the client is answered with).  F-C20-1, F-C20-3 and F-C20-4 repaired. *)
Theorem C20_one_line_per_log :
  forall c cs tbl (haserr hdrw : bool) ds path ops ret,
  counts_ok cs ds 0 path (snd (site_serve c cs tbl haserr hdrw ds path ops ret)) = true.
Proof. exact site_one_line_per_log. Qed.
Print Assumptions C20_one_line_per_log.

(* the former refutation witnesses: `log /a a.log` + `log / b.log`, GET /a/x (F-C20-3) gets its
   line in both logs; `log / a.log { except /x }` + `log / b.log`, GET /x (F-C20-4) gets its line
   in b.log; a panic without an errors directive (F-C20-1) is answered with 500 and logged as
   such; with errors, the errors directive writes the 500 and it is logged likewise *)
Example C20_one_line_per_log_witnesses :
  snd (site_serve {| w_nethttp := true; w_head := false |} false [(404%Z, 14)] true false
         [ {| d_scope := bs "/a"; d_except := [] |}; {| d_scope := bs "/"; d_except := [] |} ]
         (bs "/a/x") [] 404%Z)
  = [(0%nat, 404%Z, 14); (1%nat, 404%Z, 14)] /\
  snd (site_serve {| w_nethttp := true; w_head := false |} false [(404%Z, 14)] true false
         [ {| d_scope := bs "/"; d_except := [bs "/x"] |}; {| d_scope := bs "/"; d_except := [] |} ]
         (bs "/x") [] 404%Z)
  = [(1%nat, 404%Z, 14)] /\
  site_serve {| w_nethttp := true; w_head := false |} false [(500%Z, 26)] false false
         [ {| d_scope := bs "/"; d_except := [] |} ] (bs "/x") [OPanic] 0%Z
  = (500%Z, 26, [(0%nat, 500%Z, 26)]) /\
  snd (site_serve {| w_nethttp := true; w_head := false |} false [(404%Z, 14); (500%Z, 26)] true false
         [ {| d_scope := bs "/a"; d_except := [bs "/a/x"] |}; {| d_scope := bs "/a"; d_except := [bs "/a/b"] |} ]
         (bs "/a/x") [OPanic] 0%Z)
  = [(1%nat, 500%Z, 26)].
Proof. vm_compute. repeat split; reflexivity. Qed.

(* Status and size, for EVERY request method and EVERY handler script — contract-breaking ones
   included: a second WriteHeader, a WriteHeader after the first Write, a written response followed
   by an error status (the middleware's own fallback WriteHeader then comes too late), a panic
   after a partial response — and every way of producing the body: Write, WriteString, io.Copy /
   io.CopyN / ReadFrom-if-offered from sources that end or fail after any number of bytes, calls
   that the writer cuts short at any byte (the client closes the connection in mid-response: the
   call returns n > 0 together with an error).  Every line carries the status the underlying
   writer committed, and its size is the number of body bytes the writer accepted — the bytes
   accepted by a call that also reported an error included (F-C20-6 repaired): the fallback
   error body is counted, for a HEAD request — whose body net/http accepts and drops — the size
   is 0.  ([head_ok]: a HEAD request is answered through a writer that sends no body, which
   holds for every net/http writer; [final_codes]: no 1xx informational WriteHeader, which the
   writer model does not cover.) *)
Theorem C20_logged_status_size_exact :
  forall c cs tbl ek rules path ops ret,
  head_ok c = true -> final_codes ops = true ->
  let '(u', _, _, lines) := log_serve c cs tbl ek rules path ops ret uw0 return Prop in
  forall l, In l lines -> snd (fst l) = client_status u' /\ snd l = u_size u'.
Proof. exact logged_exact. Qed.
Print Assumptions C20_logged_status_size_exact.

(* the same for a whole request through the site, whatever sits between log and the handler
   (errors directive, header directive) and the server's own fallback included: every line
   carries the status the client is answered with and the body bytes the connection accepted *)
Theorem C20_site_logged_exact :
  forall c cs tbl (haserr hdrw : bool) ds path ops ret,
  head_ok c = true -> final_codes ops = true ->
  let '(st, sz, lines) := site_serve c cs tbl haserr hdrw ds path ops ret return Prop in
  forall l, In l lines -> snd (fst l) = st /\ snd l = sz.
Proof. exact site_logged_exact. Qed.
Print Assumptions C20_site_logged_exact.

(* the former refutation witnesses now log what the client got (F-C20-5: the recorder kept the
   LAST WriteHeader argument; F-C20-2: for HEAD the error body was counted but never sent) *)
Example C20_site_logged_exact_nonvacuous :
  site_serve {| w_nethttp := true; w_head := false |} false [(404%Z, 14)] false false
    [ {| d_scope := bs "/"; d_except := [] |} ] (bs "/x") [] 404%Z = (404%Z, 14, [(0%nat, 404%Z, 14)]) /\
  site_serve {| w_nethttp := true; w_head := false |} false [] true false
    [ {| d_scope := bs "/"; d_except := [] |} ] (bs "/x") [OWH 204%Z; OW 5 None] 0%Z = (204%Z, 0, [(0%nat, 204%Z, 0)]) /\
  site_serve {| w_nethttp := true; w_head := false |} false [] false false
    [ {| d_scope := bs "/"; d_except := [] |} ] (bs "/x") [OWH 200%Z; OW 3 None; OWH 500%Z] 0%Z = (200%Z, 3, [(0%nat, 200%Z, 3)]) /\
  site_serve {| w_nethttp := true; w_head := false |} false [(500%Z, 26)] false false
    [ {| d_scope := bs "/"; d_except := [] |} ] (bs "/x") [OW 3 None] 500%Z = (200%Z, 29, [(0%nat, 200%Z, 29)]) /\
  site_serve {| w_nethttp := true; w_head := true |} false [(404%Z, 14)] false false
    [ {| d_scope := bs "/"; d_except := [] |} ] (bs "/x") [] 404%Z = (404%Z, 0, [(0%nat, 404%Z, 0)]).
Proof. vm_compute. repeat split; reflexivity. Qed.

(* a copy whose source fails after 70000 bytes, then a Write: all 70005 bytes are logged; a copy
   that the writer cuts at byte 40000 (the Write after it fails on the dead connection): the
   40000 accepted bytes are logged — the first full chunk and the 7232 bytes of the call that
   was cut short *)
Example C20_logged_status_size_exact_nonvacuous :
  site_serve {| w_nethttp := true; w_head := false |} false [] false false
    [ {| d_scope := bs "/"; d_except := [] |} ] (bs "/x") [OB BCopy 70000 true None; OW 5 None] 0%Z
  = (200%Z, 70005, [(0%nat, 200%Z, 70005)]) /\
  site_run {| w_nethttp := true; w_head := false |} false [] false false
    [ {| d_scope := bs "/"; d_except := [] |} ] (bs "/x") [OB BCopy 70000 false (Some 40000); OW 5 None] 0%Z
  = ({| u_status := Some 200%Z; u_size := 40000; u_dead := true |}, [(0%nat, 200%Z, 40000)]).
Proof. vm_compute. split; reflexivity. Qed.

(* ============================ {size} and the bytes the writer accepted ======================== *)

(* {size} = the number of body bytes the underlying writer accepted, over ALL op sequences
   (Write, WriteString, io.Copy / io.CopyN / ReadFrom-if-offered, every source ending or failing
   after any number of bytes, every call cut short by the writer at any byte, repeated and late
   WriteHeader calls, panics); and the recorded status is the committed one.  F-C20-6 repaired:
   ResponseRecorder.Write adds the count the underlying writer reported for a call whether or
   not the call also reported an error, so the bytes the connection accepted from a Write that
   the client's disconnect cuts short are counted. *)
Theorem C20_size_counts_accepted_bytes :
  forall c ops, head_ok c = true -> final_codes ops = true ->
  let '((u, r), _) := run c (uw0, rec0) ops return Prop in
  client_status u = r_status r /\ u_size u = logged_size c r.
Proof. exact size_accepted. Qed.
Print Assumptions C20_size_counts_accepted_bytes.

(* the former refutation witness — the client aborts while one 8 MiB Write is in flight, 847721
   bytes accepted: {size} = 847721 (was 0) — followed by a Write on the dead connection; and a
   script with sources that fail, an empty Write, an empty copy *)
Example C20_size_counts_accepted_bytes_nonvacuous :
  let c := {| w_nethttp := true; w_head := false |} in
  let ops := [OB BWrite 8388608 false (Some 847721); OB BWrite 100 false (Some 0)] in
  let ops2 := [OWH 200%Z; OB BCopy 100000 true None; OB BWrite 0 false None; OB BCopy 0 true None; OB BCopy 5 false None] in
  head_ok c = true /\ final_codes ops = true /\ final_codes ops2 = true /\
  run c (uw0, rec0) ops =
  (({| u_status := Some 200%Z; u_size := 847721; u_dead := true |},
    {| r_status := 200%Z; r_size := 847721; r_wrote := true |}), false) /\
  run c (uw0, rec0) ops2 =
  (({| u_status := Some 200%Z; u_size := 100005; u_dead := false |},
    {| r_status := 200%Z; r_size := 100005; r_wrote := true |}), false).
Proof. vm_compute. repeat split; reflexivity. Qed.

(* A source that FAILS part-way (upstream reset, file read error, short source of CopyN) is, for
   the writer and the recorder, a source that ends there: the run is the same as with every
   source ending regularly — whatever the writer does to the calls — and {size} is the accepted
   byte count.  (What the seeded change C20-m3 breaks: its ReadFrom drops the count of a transfer
   whose source reports an error.) *)
Theorem C20_source_failures_lose_nothing :
  forall c ops, head_ok c = true -> final_codes ops = true ->
  run c (uw0, rec0) ops = run c (uw0, rec0) (map clear_srcerr ops) /\
  let '((u, r), _) := run c (uw0, rec0) ops return Prop in u_size u = logged_size c r.
Proof. exact source_failures_lose_nothing. Qed.
Print Assumptions C20_source_failures_lose_nothing.

(* ============================ concurrently issued requests ==================================== *)

(* The server as a heap of per-request objects (the customReplacements map of the replacer that
   Server.ServeHTTP allocates for the request and stores in ITS context, the recorder around ITS
   connection) and a context table.  For EVERY interleaving of the steps of any number of
   requests (arrival, Replacer.Set by any middleware, WriteHeader / body calls of the handler),
   the state of request i is what the request reaches when it is served alone with its own
   steps in their order: no step of another request can change a placeholder or the recorded
   status / size of request i. *)
Theorem C20_requests_do_not_share_placeholders :
  forall (sched : list (nat * rstep)) (i : nat),
  view (world_run sched world0) i = solo (proj i sched) None.
Proof. exact requests_do_not_share. Qed.
Print Assumptions C20_requests_do_not_share_placeholders.

(* ... hence the access-log line of request i (any format, any request data) is a function of
   the steps of request i only: two schedules that agree on them give the same line *)
Theorem C20_line_depends_on_own_steps :
  forall sched1 sched2 i fmt base,
  proj i sched1 = proj i sched2 ->
  req_line fmt base (view (world_run sched1 world0) i) = req_line fmt base (view (world_run sched2 world0) i).
Proof. exact line_depends_on_own_steps. Qed.
Print Assumptions C20_line_depends_on_own_steps.

(* two requests interleaved step by step, each setting {upstream} and writing its own body *)
Example C20_requests_do_not_share_placeholders_nonvacuous :
  let c := {| w_nethttp := true; w_head := false |} in
  let base := {| e_custom := []; e_reqh := []; e_resph := None; e_cookies := []; e_query := []; e_osenv := [];
                 e_defaults := []; e_host := []; e_empty := bs "-"; e_method := bs "GET"; e_path := bs "/";
                 e_curpath := bs "/"; e_rawquery := []; e_proto := bs "HTTP/1.1"; e_rec := None |} in
  let sched := [ (1%nat, RStart c); (2%nat, RStart c); (1%nat, RSet (bs "upstream") (bs "one"));
                 (2%nat, RSet (bs "upstream") (bs "two")); (2%nat, ROp (OWH 404%Z)); (1%nat, ROp (OW 7 None));
                 (2%nat, ROp (OW 3 None)); (1%nat, RSet (bs "user") (bs "u1")) ] in
  req_line (bs "{upstream} {user} {status} {size}") base (view (world_run sched world0) 1%nat) = Some (Ok (bs "one u1 200 7")) /\
  req_line (bs "{upstream} {user} {status} {size}") base (view (world_run sched world0) 2%nat) = Some (Ok (bs "two - 404 3")).
Proof. vm_compute. split; reflexivity. Qed.

(* ============================ the placeholder vocabulary ====================================== *)

(* The labels of getSubstitution's switch, regenerated from the Go source on every run
   (Gen_C20.gen_c20_vocab), are exactly the keys of the model's dispatch table: a placeholder
   added to the code without a model entry (or a modelled one removed from the code) makes the
   computed check false and this theorem no longer compiles. *)
Theorem C20_vocabulary_is_dispatch_table :
  forall key, mem key gen_c20_vocab = true <-> exists h, assoc key dispatch = Some h.
Proof. exact vocabulary_is_dispatch. Qed.
Print Assumptions C20_vocabulary_is_dispatch_table.

(* which labels the model computes itself (the others are oracle values handed in) *)
Example C20_vocabulary_functionally_modelled :
  length gen_c20_vocab = 46%nat /\ length (filter (fun p => is_fn (snd p)) dispatch) = 25%nat.
Proof. vm_compute. split; reflexivity. Qed.

(* ============================ aborted transfers ================================================ *)

(* When can {size} and what the client received differ?  Only when the client closes the
   connection before it has read the response: bytes the writer accepted may sit in socket
   buffers the client never reads ({size} may exceed what was received: inherent).  Nothing the
   connection accepted is missing from {size}: a copy cut inside its second chunk and the calls
   after it on the dead connection (net/http: the first failed write makes every later Write fail
   with 0 bytes) *)
Example C20_aborted_transfer_counts_accepted :
  let c := {| w_nethttp := true; w_head := false |} in
  let ops := [OW 100000 None; OB BCopy 70000 false (Some 40000); OW 8388608 (Some 0); OW 100 (Some 0)] in
  run c (uw0, rec0) ops =
  (({| u_status := Some 200%Z; u_size := 140000; u_dead := true |},
    {| r_status := 200%Z; r_size := 140000; r_wrote := true |}), false).
Proof. vm_compute. reflexivity. Qed.

Example C20_source_failures_lose_nothing_nonvacuous :
  let c := {| w_nethttp := false; w_head := false |} in
  let ops := [OB BCopy 2000 true None; OB BCopy 3 true None] in
  head_ok c = true /\ final_codes ops = true /\
  snd (fst (run c (uw0, rec0) ops)) = {| r_status := 200%Z; r_size := 2003; r_wrote := true |}.
Proof. vm_compute. repeat split; reflexivity. Qed.

(* two different interleavings with the same steps of request 1 *)
Example C20_line_depends_on_own_steps_nonvacuous :
  let c := {| w_nethttp := true; w_head := false |} in
  let s1 := [ (1%nat, RStart c); (2%nat, RStart c); (2%nat, RSet (bs "upstream") (bs "two")); (1%nat, RSet (bs "upstream") (bs "one")) ] in
  let s2 := [ (2%nat, RStart c); (1%nat, RStart c); (1%nat, RSet (bs "upstream") (bs "one")); (3%nat, RStart c); (2%nat, ROp OPanic) ] in
  proj 1 s1 = proj 1 s2 /\ s1 <> s2 /\
  option_map q_custom (view (world_run s1 world0) 1%nat) = Some [(bs "{upstream}", bs "one")].
Proof. vm_compute. repeat split; try reflexivity. discriminate. Qed.


(* ============================ requests in flight together: the entry list ====================== *)
(* "exactly one line per configured log whose scope contains the request, in THAT log's file", concurrently
   issued requests included.  Logger.entries builds the list of a request from nil: whatever the capacities of
   the rules' Entries slices and whatever else is in flight, computing it changes NO existing array (the rule
   table's, another request's), the list it returns lives in an array nobody else knows, and it reads as the
   entries of the matching rules in rule order (full: every heap, every set of matching rules). *)
Theorem C20_fresh_entry_list_shares_nothing :
  forall (h : aheap) (ms : list gslice),
  let '(h', s) := entries_fresh h ms in
  (forall a cells, nlook a h = Some cells -> nlook a h' = Some cells) /\
  (forall t, (exists cells, nlook (sl_arr t) h = Some cells) -> sl_read h' t = sl_read h t) /\
  sl_read h' s = concat (map (sl_read h) ms) /\
  nlook (sl_arr s) h = None.
Proof. exact fresh_entry_list_shares_nothing. Qed.
Print Assumptions C20_fresh_entry_list_shares_nothing.

(* ... whereas the variant that starts from the first matching rule's OWN slice (a seeded defect) appends
   into the rule's backing array when it has spare capacity (three logs on one scope: length 3, capacity 4):
   with request 1 (/a/x) holding its list while request 2 (/b/y) computes its own, request 1's line for the
   log of /a goes to the log of /b; the code as it is logs 0 1 2 3 and 0 1 2 4 under the same schedule. *)
Theorem C20_entry_list_on_the_rule_slice_refuted :
  logged_of (eworld_run entries_on_rule_slice ew_sched ew_demo) 1 = [0; 1; 2; 4]%nat /\
  logged_of (eworld_run entries_on_rule_slice ew_sched ew_demo) 2 = [0; 1; 2; 4]%nat /\
  logged_of (eworld_run entries_fresh ew_sched ew_demo) 1 = [0; 1; 2; 3]%nat /\
  logged_of (eworld_run entries_fresh ew_sched ew_demo) 2 = [0; 1; 2; 4]%nat.
Proof. exact entry_list_on_the_rule_slice_refuted. Qed.
Print Assumptions C20_entry_list_on_the_rule_slice_refuted.

(* ============================ the scan, as one theorem over all strings ===================== *)

(* For EVERY format string and every substitution function (every request): the format is, from
   left to right, literal_1 placeholder_1 ... literal_n placeholder_n tail (each placeholder a
   "{" ... "}" stretch of the format, the literals possibly empty: adjacent placeholders, a
   placeholder at position 0), and Replace returns exactly
     unescaped literal_1 ++ VALUE_1 ++ ... ++ unescaped literal_n ++ VALUE_n ++ unescaped tail
   where VALUE_i = gs (unescaped placeholder_i) stands in the output once, at its place, as it
   is: gs is arbitrary, so a value that begins or ends with a backslash, contains braces,
   escapes or whole placeholders is not trimmed, unescaped or scanned (only the literal text of
   the FORMAT loses its brace escapes and, a quirk of the code that the model reproduces, one
   leading backslash per literal); the tail holds no further complete unescaped placeholder.  The decomposition is the
   LEFTMOST one (leftmost_piece): every opening brace inside a literal is escaped (preceded by a
   backslash), and the closing brace that ends a placeholder is the first unescaped one after its
   opening brace - no placeholder occurrence is skipped, none is read twice; and the tail
   (unpaired_tail) has either no unescaped opening brace at all or a last one after which no
   unescaped closing brace follows. *)
Theorem C20_replace_scan_decomposition :
  forall (gs : bytes -> bytes) (fmt : bytes),
  exists ps tail,
    fmt = pieces_cat ps ++ tail /\ Forall leftmost_piece ps /\
    (has_brace fmt = true -> scan_step tail = Ok None) /\ unpaired_tail tail /\
    template fmt = Ok (pieces_template ps tail) /\
    expand gs fmt = Ok (pieces_out gs ps tail).
Proof. exact replace_scan_decomposition. Qed.
Print Assumptions C20_replace_scan_decomposition.

(* a placeholder at position 0 directly followed by another, values beginning / ending with a
   backslash and containing braces, escapes and placeholders: inserted as they are, once each *)
Example C20_replace_scan_decomposition_witness :
  let gs := fun k => if beq k (bs "{a}") then bs "\{b}\" else if beq k (bs "{b}") then bs "\\}{a}{" else bs "-" in
  expand gs (bs "{a}{b}{a}") = Ok (bs "\{b}\\\}{a}{\{b}\") /\
  expand gs (bs "{b}x\{{a}\}{c}") = Ok (bs "\\}{a}{x{\{b}\}-").
Proof. vm_compute. split; reflexivity. Qed.

(* ============================ several log directives per site =============================== *)

(* logParse over the list of `log` directives of a site (arguments + block lines, as the dispenser
   hands them over): parsing succeeds iff every directive parses when read ALONE, and then the
   i-th entry - scope, output file, format, except list - is exactly what the i-th directive means
   read alone: no except path, scope or format is carried from one directive's parse to the next. *)
Theorem C20_each_log_directive_is_its_own :
  forall ds es, log_parse ds = Some es <-> map parse_dir ds = map Some es.
Proof. exact log_parse_each_its_own. Qed.
Print Assumptions C20_each_log_directive_is_its_own.

Theorem C20_log_directive_entry :
  forall ds es i d, log_parse ds = Some es -> nth_error ds i = Some d ->
  exists e, nth_error es i = Some e /\ parse_dir d = Some e.
Proof. exact log_parse_nth. Qed.
Print Assumptions C20_log_directive_entry.

(* both orders of the file (and any concatenation) give the same entries *)
Theorem C20_log_directives_order :
  forall ds es, log_parse ds = Some es -> log_parse (rev ds) = Some (rev es).
Proof. exact log_parse_rev. Qed.
Print Assumptions C20_log_directives_order.

Theorem C20_log_directives_concat :
  forall ds1 ds2 es1 es2,
  log_parse ds1 = Some es1 -> log_parse ds2 = Some es2 -> log_parse (ds1 ++ ds2) = Some (es1 ++ es2).
Proof. exact log_parse_app. Qed.
Print Assumptions C20_log_directives_concat.

(* ... so that a request gets exactly one line per configured log iff it is inside the scope
   written in that directive and not excepted by the except list written in that directive's
   own block - for every file of raw directives, every request and handler outcome *)
Theorem C20_one_line_per_raw_directive :
  forall c cs tbl (haserr hdrw : bool) ds es path ops ret,
  log_parse ds = Some es ->
  counts_ok cs (map dir_of es) 0 path (snd (site_serve c cs tbl haserr hdrw (map dir_of es) path ops ret)) = true /\
  map (fun d => option_map dir_of (parse_dir d)) ds = map (fun e => Some (dir_of e)) es.
Proof. exact raw_one_line_per_log. Qed.
Print Assumptions C20_one_line_per_raw_directive.

(* hypotheses reachable; and the variant of the loop whose block variables are declared BEFORE
   the loop (a seeded-change class) is a different function: the second directive inherits the
   first one's except list and format *)
Example C20_each_log_directive_is_its_own_nonvacuous :
  exists ds es es', log_parse ds = Some es /\ log_parse (rev ds) = Some (rev es) /\
    log_parse_carried ds = Some es' /\
    map pe_except es = [[bs "/a/x"]; []] /\ map pe_except es' = [[bs "/a/x"]; [bs "/a/x"]] /\
    map pe_format es = [bs "{status}"; lit_default_format] /\ map pe_format es' = [bs "{status}"; bs "{status}"].
Proof. exact log_parse_carried_differs. Qed.
