(* C05 — round robin: exact visit counts for every value of the uint32 counter (the wrap included). *)
Require Import V.Lib V.C05_Model V.C05_Proofs.
From Coq Require Import Lia ZifyBool ZifyN ZifyNat.
Open Scope N_scope.

(* ---------- exact visit counts, wrap included ---------- *)
Definition cnt (j : nat) (l : list nat) : nat := length (filter (Nat.eqb j) l).

Lemma cnt_app j l1 l2 : cnt j (l1 ++ l2) = (cnt j l1 + cnt j l2)%nat.
Proof. unfold cnt. rewrite filter_app, app_length. reflexivity. Qed.

Lemma cnt_in j l : In j l -> (1 <= cnt j l)%nat.
Proof.
  unfold cnt. induction l as [|x l IH]; [contradiction|]. intros [->|H]; cbn [filter].
  - rewrite Nat.eqb_refl. cbn. lia.
  - specialize (IH H). destruct (Nat.eqb j x); cbn [length]; lia.
Qed.

Lemma cnt_nodup j l : NoDup l -> (cnt j l <= 1)%nat.
Proof.
  unfold cnt. induction 1 as [|x l Hnin Hnd IH]; [cbn; lia|]. cbn [filter].
  destruct (Nat.eqb_spec j x) as [->|Hne]; [|exact IH]. cbn [length].
  assert (filter (Nat.eqb x) l = []) as ->; [|cbn; lia].
  clear - Hnin. induction l as [|y l IH]; [reflexivity|]. cbn [filter].
  destruct (Nat.eqb_spec x y) as [->|_]; [exfalso; apply Hnin; left; reflexivity|].
  apply IH. intros H. apply Hnin. right. exact H.
Qed.

Lemma NoDup_map_inj_in {A B} (f : A -> B) l :
  (forall x y, In x l -> In y l -> f x = f y -> x = y) -> NoDup l -> NoDup (map f l).
Proof.
  intros Hinj Hnd. induction Hnd as [|x l Hnin Hnd IH]; [constructor|]. cbn [map]. constructor.
  - intros Hin. apply in_map_iff in Hin as (y & Hy & Hyl).
    assert (y = x) by (apply Hinj; [right; exact Hyl|left; reflexivity|exact Hy]). subst y. contradiction.
  - apply IH. intros a b Ha Hb. apply Hinj; right; assumption.
Qed.

Lemma seg_inj n s i1 i2 : 0 < n -> N.of_nat i1 < n -> N.of_nat i2 < n ->
  (s + N.of_nat i1) mod n = (s + N.of_nat i2) mod n -> i1 = i2.
Proof.
  intros Hn H1 H2 He.
  pose proof (N.div_mod' (s + N.of_nat i1) n) as D1. pose proof (N.div_mod' (s + N.of_nat i2) n) as D2.
  rewrite He in D1. set (r := (s + N.of_nat i2) mod n) in *.
  set (q1 := (s + N.of_nat i1) / n) in *. set (q2 := (s + N.of_nat i2) / n) in *.
  assert (q1 = q2) by nia. subst q1. lia.
Qed.

Lemma seg_nodup n s L : 0 < n -> N.of_nat L <= n -> NoDup (seg n s L).
Proof.
  intros Hn HL. unfold seg. apply NoDup_map_inj_in; [|apply seq_NoDup].
  intros x y Hx Hy He. apply in_seq in Hx. apply in_seq in Hy.
  apply N2Nat.inj in He. apply (seg_inj n s); try lia; try exact He.
Qed.

Lemma seg_split n s L1 L2 : seg n s (L1 + L2) = seg n s L1 ++ seg n (s + N.of_nat L1) L2.
Proof.
  unfold seg. rewrite seq_app, map_app. f_equal. cbn [plus].
  rewrite <- (map_id (seq L1 L2)) at 1.
  replace (seq L1 L2) with (map (fun i => (L1 + i)%nat) (seq 0 L2)).
  - rewrite map_id, map_map. apply map_ext. intros a. do 2 f_equal. lia.
  - clear. revert L1. induction L2 as [|k IH]; intros L1; [reflexivity|].
    cbn [seq map]. rewrite Nat.add_0_r. f_equal. rewrite <- seq_shift, map_map.
    rewrite <- (IH (S L1)). apply map_ext. intros a. lia.
Qed.

(* a run of L consecutive slots hits slot j between floor(L/n) and floor(L/n)+1 times, exactly L/n
   times when n divides L *)
Lemma seg_count n j : (0 < n)%nat -> (j < n)%nat -> forall q r s, (r < n)%nat ->
  (q + (if Nat.eqb r 0 then 0 else 0) <= cnt j (seg (N.of_nat n) s (q * n + r)))%nat /\
  (cnt j (seg (N.of_nat n) s (q * n + r)) <= q + (if Nat.eqb r 0 then 0 else 1))%nat.
Proof.
  intros Hn Hj. induction q as [|q IH]; intros r s Hr.
  - cbn [Nat.mul plus]. pose proof (cnt_nodup j (seg (N.of_nat n) s r) (seg_nodup (N.of_nat n) s r ltac:(lia) ltac:(lia))) as H.
    destruct (Nat.eqb_spec r 0) as [->|Hne]; [cbn; lia|lia].
  - replace (S q * n + r)%nat with (n + (q * n + r))%nat by lia.
    rewrite seg_split, cnt_app.
    assert (H1 : cnt j (seg (N.of_nat n) s n) = 1%nat).
    { pose proof (cnt_nodup j _ (seg_nodup (N.of_nat n) s n ltac:(lia) ltac:(lia))).
      pose proof (cnt_in j _ (lin_idxs_cover n s j Hj)). unfold seg in *. lia. }
    rewrite H1. specialize (IH r (s + N.of_nat n) Hr). lia.
Qed.

(* all hosts up, a window of k*n selections starting at ANY counter value: every host is chosen
   exactly k times *)
Theorem rr_counts_run av robin k j :
  (0 < length av)%nat -> N.of_nat (length av) < U32 -> forallb (fun b => b) av = true ->
  (j < length av)%nat ->
  rr_run av robin (k * length av) =
    map Some (seg (N.of_nat (length av)) (rr_start (N.of_nat (length av)) robin) (k * length av)) /\
  cnt j (seg (N.of_nat (length av)) (rr_start (N.of_nat (length av)) robin) (k * length av)) = k.
Proof.
  intros Hn Hu Hall Hj. split; [apply rr_run_all_up; assumption|].
  destruct (seg_count (length av) j Hn Hj k 0%nat (rr_start (N.of_nat (length av)) robin) Hn) as [L U].
  replace (k * length av + 0)%nat with (k * length av)%nat in L, U by (clear; lia).
  change (Nat.eqb 0 0) with true in L, U. cbv iota in L, U. clear - L U. lia.
Qed.

(* the counter values of the former defect (pool of 3, counter 2^32-2: the probes were 0, 0, 1) *)
Example rr_wrap_hit :
  rr_select [false; false; true] 4294967294 = (Some 2%nat, 2) /\
  rr_select [false; false; true] 4294967295 = (Some 2%nat, 2) /\
  rr_run [true; true; true] 4294967294 6 = [Some 0; Some 1; Some 2; Some 0; Some 1; Some 2]%nat.
Proof. repeat split; vm_compute; reflexivity. Qed.

Example rr_counts_wrap :
  seg 3 (rr_start 3 4294967293) 6 = [2; 0; 1; 2; 0; 1]%nat /\
  cnt 0 (seg 3 (rr_start 3 4294967293) 6) = 2%nat /\ cnt 1 (seg 3 (rr_start 3 4294967293) 6) = 2%nat.
Proof. repeat split; vm_compute; reflexivity. Qed.
