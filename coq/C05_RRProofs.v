(* C05 — round robin across the uint32 wrap. *)
Require Import V.Lib V.C05_Model V.C05_Proofs.
From Coq Require Import Lia ZifyBool ZifyN ZifyNat.
Open Scope N_scope.

(* the probe sequence of RoundRobin.Select, for ANY counter value (wrap included) *)
Definition rr_idxs (n : N) (robin : N) (steps : nat) : list nat :=
  map (fun i => N.to_nat (((robin + 1 + N.of_nat i) mod U32) mod n)) (seq 0 steps).

Lemma U32_pos : 0 < U32. Proof. reflexivity. Qed.

Lemma succ_mod_U32 robin k : ((robin + 1) mod U32 + 1 + k) mod U32 = (robin + 1 + 1 + k) mod U32.
Proof.
  replace ((robin + 1) mod U32 + 1 + k) with ((robin + 1) mod U32 + (1 + k)) by lia.
  rewrite N.add_mod_idemp_l by discriminate. f_equal. lia.
Qed.

Lemma rr_loop_exact av n : forall steps robin,
  fst (rr_loop av n robin steps) = probe_seq av (rr_idxs n robin steps) /\
  (fst (rr_loop av n robin steps) = None -> snd (rr_loop av n robin steps) = (robin + N.of_nat steps) mod U32 \/ steps = 0%nat).
Proof.
  induction steps as [|k IH]; intros robin.
  - cbn. split; [reflexivity|]. intros _. right. reflexivity.
  - cbn [rr_loop]. unfold rr_idxs. cbn [seq map probe_seq]. change (N.of_nat 0) with 0. rewrite N.add_0_r.
    destruct (nth (N.to_nat (((robin + 1) mod U32) mod n)) av false) eqn:E.
    + cbn. split; [reflexivity|discriminate].
    + destruct (IH ((robin + 1) mod U32)) as [H1 H2]. split.
      * rewrite H1. unfold rr_idxs. rewrite <- seq_shift, map_map. f_equal.
        apply map_ext. intros a. rewrite succ_mod_U32. do 3 f_equal. lia.
      * intros HN. left. destruct (H2 HN) as [->| ->].
        -- rewrite N.add_mod_idemp_l by discriminate. f_equal. lia.
        -- cbn. reflexivity.
Qed.

(* EXACT completeness, wrap included: a host is returned iff one of the n probed slots is available *)
Theorem rr_complete_exact av robin :
  fst (rr_select av robin) <> None <->
  exists k, (k < length av)%nat /\
    nth (N.to_nat (((robin + 1 + N.of_nat k) mod U32) mod N.of_nat (length av))) av false = true.
Proof.
  unfold rr_select. destruct (rr_loop_exact av (N.of_nat (length av)) (length av) robin) as [-> _].
  split.
  - intros H. destruct (probe_seq av _) as [i|] eqn:P; [|congruence].
    apply probe_seq_sound in P as [Hi Hin]. unfold rr_idxs in Hin.
    apply in_map_iff in Hin as (k & <- & Hk). apply in_seq in Hk. exists k. split; [lia|exact Hi].
  - intros (k & Hk & Hn). eapply probe_seq_complete; [|exact Hn].
    unfold rr_idxs. apply in_map_iff. exists k. split; [reflexivity|apply in_seq; lia].
Qed.

(* pool sizes that divide 2^32 (1, 2, 4, 8, ...): x mod 2^32 mod n = x mod n *)
Lemma mod_mod_divides x n : n <> 0 -> U32 mod n = 0 -> (x mod U32) mod n = x mod n.
Proof.
  intros Hn Hd. apply N.mod_divide in Hd; [|exact Hn]. destruct Hd as [q Hq].
  rewrite Hq. rewrite (N.mul_comm q n).
  assert (Hq0 : q <> 0) by (intros ->; rewrite N.mul_0_l in Hq; discriminate).
  rewrite N.mod_mul_r by assumption.
  rewrite (N.mul_comm n ((x / n) mod q)), N.mod_add by exact Hn. apply N.mod_mod. exact Hn.
Qed.

Theorem rr_complete_divides av robin :
  U32 mod N.of_nat (length av) = 0 ->
  existsb (fun b => b) av = true -> fst (rr_select av robin) <> None.
Proof.
  intros Hd H. apply rr_complete_exact.
  apply existsb_exists in H as (b & Hin & ->).
  apply In_nth with (d := false) in Hin as (j & Hj & Hn).
  assert (Hn0 : N.of_nat (length av) <> 0) by lia.
  destruct (lin_hit (N.of_nat (length av)) (robin + 1) (N.of_nat j)) as (i & Hi & Hm); [lia|lia|].
  exists (N.to_nat i). split; [lia|].
  rewrite mod_mod_divides by assumption. rewrite N2Nat.id, Hm, Nat2N.id. exact Hn.
Qed.

(* what the wrap costs any other pool: at most the one Select that straddles it; the next one,
   which starts right after the wrap, finds a host *)
Theorem rr_miss_then_hit av robin :
  robin < U32 -> N.of_nat (length av) + N.of_nat (length av) <= U32 ->
  existsb (fun b => b) av = true ->
  fst (rr_select av robin) = None ->
  U32 <= robin + N.of_nat (length av) /\
  snd (rr_select av robin) = robin + N.of_nat (length av) - U32 /\
  fst (rr_select av (snd (rr_select av robin))) <> None.
Proof.
  intros Hr Hn He Hmiss.
  assert (Hw : U32 <= robin + N.of_nat (length av)).
  { destruct (N.le_gt_cases U32 (robin + N.of_nat (length av))) as [|Hlt]; [assumption|].
    exfalso. exact (rr_complete_nowrap av robin Hlt He Hmiss). }
  assert (Hlen : (0 < length av)%nat).
  { destruct av; [cbn in He; discriminate|cbn; lia]. }
  unfold rr_select in *.
  destruct (rr_loop_exact av (N.of_nat (length av)) (length av) robin) as [_ H2].
  destruct (H2 Hmiss) as [Hs|Hs]; [|lia].
  assert (Hs' : snd (rr_loop av (N.of_nat (length av)) robin (length av)) = robin + N.of_nat (length av) - U32).
  { rewrite Hs. symmetry. apply N.mod_unique with (q := 1); lia. }
  split; [exact Hw|]. split; [exact Hs'|].
  rewrite Hs'. apply (rr_complete_nowrap av); [lia|exact He].
Qed.

(* ---------- evenness, wrap included ---------- *)
Theorem rr_all_up_any av robin :
  (0 < length av)%nat -> forallb (fun b => b) av = true ->
  rr_select av robin =
  (Some (N.to_nat (((robin + 1) mod U32) mod N.of_nat (length av))), (robin + 1) mod U32).
Proof.
  intros Hn Hall. unfold rr_select. destruct (length av) as [|k] eqn:E; [lia|].
  cbn [rr_loop].
  assert (Hlt : (N.to_nat (((robin + 1) mod U32) mod N.of_nat (S k)) < length av)%nat).
  { rewrite E. pose proof (N.mod_lt ((robin + 1) mod U32) (N.of_nat (S k)) ltac:(lia)). lia. }
  rewrite forallb_forall in Hall.
  rewrite (Hall _ (nth_In av false Hlt)). reflexivity.
Qed.

(* with all hosts up the k-th selection is slot ((robin + k) mod 2^32) mod n, for EVERY counter value *)
Theorem rr_run_all_up_any av : forall m robin,
  (0 < length av)%nat -> forallb (fun b => b) av = true ->
  rr_run av robin m = map Some (rr_idxs (N.of_nat (length av)) robin m).
Proof.
  induction m as [|k IH]; intros robin Hn Hall; [reflexivity|].
  cbn [rr_run]. rewrite rr_all_up_any by auto. rewrite IH by auto.
  unfold rr_idxs. cbn [seq map]. change (N.of_nat 0) with 0. rewrite N.add_0_r. f_equal.
  rewrite <- seq_shift, !map_map. apply map_ext. intros a.
  rewrite succ_mod_U32. do 4 f_equal. lia.
Qed.

(* pool size divides 2^32: every window of n selections visits every host, ALSO across the wrap *)
Theorem rr_even_divides av robin :
  (0 < length av)%nat -> U32 mod N.of_nat (length av) = 0 -> forallb (fun b => b) av = true ->
  forall j, (j < length av)%nat -> In (Some j) (rr_run av robin (length av)) /\
  length (rr_run av robin (length av)) = length av.
Proof.
  intros Hn Hd Hall j Hj. rewrite rr_run_all_up_any by auto. split.
  - pose proof (lin_idxs_cover (length av) (robin + 1) j Hj) as Hin.
    apply in_map_iff in Hin as (i & Hi & Hs).
    apply in_map. unfold rr_idxs. apply in_map_iff. exists i. split; [|exact Hs].
    rewrite mod_mod_divides by (try assumption; lia). exact Hi.
  - unfold rr_idxs. rewrite !map_length, seq_length. reflexivity.
Qed.

(* any other pool size: the window that straddles the wrap skips a host (3 hosts, counter 2^32-2:
   slots 0, 0, 1) *)
Theorem rr_even_wrap_refuted :
  exists av robin j, forallb (fun b => b) av = true /\ (j < length av)%nat /\
    ~ In (Some j) (rr_run av robin (length av)).
Proof.
  exists [true; true; true], 4294967294, 2%nat. split; [reflexivity|]. split; [cbn; lia|].
  vm_compute. intros [H|[H|[H|[]]]]; discriminate.
Qed.

(* ---------- exact visit counts, wrap included ---------- *)
Definition cnt (j : nat) (l : list nat) : nat := length (filter (Nat.eqb j) l).

Lemma cnt_app j l1 l2 : cnt j (l1 ++ l2) = (cnt j l1 + cnt j l2)%nat.
Proof. unfold cnt. rewrite filter_app, app_length. reflexivity. Qed.

Lemma cnt_in j l : In j l -> (1 <= cnt j l)%nat.
Proof.
  unfold cnt. induction l as [|x l IH]; [contradiction|]. intros [->|H]; cbn [filter].
  - rewrite Nat.eqb_refl. cbn. lia.
  - specialize (IH H). destruct (Nat.eqb j x); cbn [length]; lia.
Qed.

Lemma cnt_nodup j l : NoDup l -> (cnt j l <= 1)%nat.
Proof.
  unfold cnt. induction 1 as [|x l Hnin Hnd IH]; [cbn; lia|]. cbn [filter].
  destruct (Nat.eqb_spec j x) as [->|Hne]; [|exact IH]. cbn [length].
  assert (filter (Nat.eqb x) l = []) as ->; [|cbn; lia].
  clear - Hnin. induction l as [|y l IH]; [reflexivity|]. cbn [filter].
  destruct (Nat.eqb_spec x y) as [->|_]; [exfalso; apply Hnin; left; reflexivity|].
  apply IH. intros H. apply Hnin. right. exact H.
Qed.

Lemma NoDup_map_inj_in {A B} (f : A -> B) l :
  (forall x y, In x l -> In y l -> f x = f y -> x = y) -> NoDup l -> NoDup (map f l).
Proof.
  intros Hinj Hnd. induction Hnd as [|x l Hnin Hnd IH]; [constructor|]. cbn [map]. constructor.
  - intros Hin. apply in_map_iff in Hin as (y & Hy & Hyl).
    assert (y = x) by (apply Hinj; [right; exact Hyl|left; reflexivity|exact Hy]). subst y. contradiction.
  - apply IH. intros a b Ha Hb. apply Hinj; right; assumption.
Qed.

Definition seg (n s : N) (L : nat) : list nat :=
  map (fun i => N.to_nat ((s + N.of_nat i) mod n)) (seq 0 L).

Lemma seg_inj n s i1 i2 : 0 < n -> N.of_nat i1 < n -> N.of_nat i2 < n ->
  (s + N.of_nat i1) mod n = (s + N.of_nat i2) mod n -> i1 = i2.
Proof.
  intros Hn H1 H2 He.
  pose proof (N.div_mod' (s + N.of_nat i1) n) as D1. pose proof (N.div_mod' (s + N.of_nat i2) n) as D2.
  rewrite He in D1. set (r := (s + N.of_nat i2) mod n) in *.
  set (q1 := (s + N.of_nat i1) / n) in *. set (q2 := (s + N.of_nat i2) / n) in *.
  assert (q1 = q2) by nia. subst q1. lia.
Qed.

Lemma seg_nodup n s L : 0 < n -> N.of_nat L <= n -> NoDup (seg n s L).
Proof.
  intros Hn HL. unfold seg. apply NoDup_map_inj_in; [|apply seq_NoDup].
  intros x y Hx Hy He. apply in_seq in Hx. apply in_seq in Hy.
  apply N2Nat.inj in He. apply (seg_inj n s); try lia; try exact He.
Qed.

Lemma seg_split n s L1 L2 : seg n s (L1 + L2) = seg n s L1 ++ seg n (s + N.of_nat L1) L2.
Proof.
  unfold seg. rewrite seq_app, map_app. f_equal. cbn [plus].
  rewrite <- (map_id (seq L1 L2)) at 1.
  replace (seq L1 L2) with (map (fun i => (L1 + i)%nat) (seq 0 L2)).
  - rewrite map_id, map_map. apply map_ext. intros a. do 2 f_equal. lia.
  - clear. revert L1. induction L2 as [|k IH]; intros L1; [reflexivity|].
    cbn [seq map]. rewrite Nat.add_0_r. f_equal. rewrite <- seq_shift, map_map.
    rewrite <- (IH (S L1)). apply map_ext. intros a. lia.
Qed.

(* a run of L consecutive slots hits slot j between floor(L/n) and floor(L/n)+1 times, exactly L/n
   times when n divides L *)
Lemma seg_count n j : (0 < n)%nat -> (j < n)%nat -> forall q r s, (r < n)%nat ->
  (q + (if Nat.eqb r 0 then 0 else 0) <= cnt j (seg (N.of_nat n) s (q * n + r)))%nat /\
  (cnt j (seg (N.of_nat n) s (q * n + r)) <= q + (if Nat.eqb r 0 then 0 else 1))%nat.
Proof.
  intros Hn Hj. induction q as [|q IH]; intros r s Hr.
  - cbn [Nat.mul plus]. pose proof (cnt_nodup j (seg (N.of_nat n) s r) (seg_nodup (N.of_nat n) s r ltac:(lia) ltac:(lia))) as H.
    destruct (Nat.eqb_spec r 0) as [->|Hne]; [cbn; lia|lia].
  - replace (S q * n + r)%nat with (n + (q * n + r))%nat by lia.
    rewrite seg_split, cnt_app.
    assert (H1 : cnt j (seg (N.of_nat n) s n) = 1%nat).
    { pose proof (cnt_nodup j _ (seg_nodup (N.of_nat n) s n ltac:(lia) ltac:(lia))).
      pose proof (cnt_in j _ (lin_idxs_cover n s j Hj)). unfold seg in *. lia. }
    rewrite H1. specialize (IH r (s + N.of_nat n) Hr). lia.
Qed.

Lemma rr_idxs_split n robin m a :
  robin < U32 -> N.of_nat a = N.min (U32 - (robin + 1)) (N.of_nat m) -> N.of_nat m <= U32 ->
  rr_idxs n robin m = seg n (robin + 1) a ++ seg n 0 (m - a).
Proof.
  intros Hr Ha Hm. unfold rr_idxs.
  replace m with (a + (m - a))%nat at 1 by lia.
  rewrite seq_app, map_app. cbn [plus]. f_equal.
  - unfold seg. apply map_ext_in. intros i Hi. apply in_seq in Hi.
    rewrite (N.mod_small (robin + 1 + N.of_nat i) U32) by lia. reflexivity.
  - unfold seg.
    replace (seq a (m - a)) with (map (fun i => (a + i)%nat) (seq 0 (m - a))).
    + rewrite map_map. apply map_ext_in. intros i Hi. apply in_seq in Hi.
      do 2 f_equal. destruct (m - a)%nat eqn:E; [lia|].
      assert (Haeq : N.of_nat a = U32 - (robin + 1)) by lia.
      symmetry. apply N.mod_unique with (q := 1); lia.
    + clear. generalize (m - a)%nat as L. revert a. intros a L. revert a.
      induction L as [|k IH]; intros a; [reflexivity|].
      cbn [seq map]. rewrite Nat.add_0_r. f_equal. rewrite <- seq_shift, map_map.
      rewrite <- (IH (S a)). apply map_ext. intros x. lia.
Qed.

(* all hosts up, a window of k*n selections (at most one wrap inside): every host is chosen k times
   if the counter does not wrap inside the window, and k-1, k or k+1 times if it does *)
Theorem rr_counts av robin k j :
  (0 < length av)%nat -> forallb (fun b => b) av = true -> robin < U32 ->
  N.of_nat (k * length av) <= U32 -> (j < length av)%nat ->
  let c := cnt j (rr_idxs (N.of_nat (length av)) robin (k * length av)) in
  (k - 1 <= c <= k + 1)%nat /\ (robin + N.of_nat (k * length av) < U32 -> c = k).
Proof.
  intros Hn Hall Hr Hm Hj. set (n := length av) in *. cbv zeta.
  set (a := N.to_nat (N.min (U32 - (robin + 1)) (N.of_nat (k * n)))).
  assert (Ha : N.of_nat a = N.min (U32 - (robin + 1)) (N.of_nat (k * n))) by (unfold a; lia).
  rewrite (rr_idxs_split (N.of_nat n) robin (k * n) a Hr Ha Hm), cnt_app.
  assert (Hale : (a <= k * n)%nat) by lia.
  pose proof (Nat.div_mod a n ltac:(lia)) as D1.
  pose proof (Nat.mod_upper_bound a n ltac:(lia)) as B1.
  pose proof (Nat.div_mod (k * n - a) n ltac:(lia)) as D2.
  pose proof (Nat.mod_upper_bound (k * n - a) n ltac:(lia)) as B2.
  set (q1 := (a / n)%nat) in *. set (r1 := (a mod n)%nat) in *.
  set (q2 := ((k * n - a) / n)%nat) in *. set (r2 := ((k * n - a) mod n)%nat) in *.
  clearbody q1 r1 q2 r2.
  destruct (seg_count n j Hn Hj q1 r1 (robin + 1) B1) as [L1 U1].
  destruct (seg_count n j Hn Hj q2 r2 0 B2) as [L2 U2].
  replace (q1 * n + r1)%nat with a in * by lia.
  replace (q2 * n + r2)%nat with (k * n - a)%nat in * by lia.
  assert (Hsum : ((q1 + q2) * n + (r1 + r2) = k * n)%nat) by (clear - D1 D2 Hale; clearbody a n; lia).
  assert (Hcases : (r1 + r2 = 0 /\ q1 + q2 = k)%nat \/ (r1 + r2 = n /\ q1 + q2 + 1 = k)%nat).
  { clear - Hsum B1 B2. clearbody n.
    assert (Hlo : (q1 + q2 <= k)%nat) by nia.
    assert (Hhi : (k <= q1 + q2 + 1)%nat) by nia.
    assert (Hk : (k = q1 + q2 \/ k = q1 + q2 + 1)%nat) by lia.
    destruct Hk as [->| ->]; [left|right]; nia. }
  split.
  - destruct (Nat.eqb_spec r1 0); destruct (Nat.eqb_spec r2 0); lia.
  - intros Hnw. assert (Hak : a = (k * n)%nat) by lia.
    assert (Hz : (q2 = 0 /\ r2 = 0)%nat) by (clear - D2 Hak Hn; clearbody a n; nia).
    destruct Hz as [-> ->].
    assert (r1 = 0%nat) by (clear - Hcases B1; lia). subst r1.
    cbn [Nat.eqb] in *. lia.
Qed.

Theorem rr_counts_run av robin k j :
  (0 < length av)%nat -> forallb (fun b => b) av = true -> robin < U32 ->
  N.of_nat (k * length av) <= U32 -> (j < length av)%nat ->
  rr_run av robin (k * length av) = map Some (rr_idxs (N.of_nat (length av)) robin (k * length av)) /\
  let c := cnt j (rr_idxs (N.of_nat (length av)) robin (k * length av)) in
  (k - 1 <= c <= k + 1)%nat /\ (robin + N.of_nat (k * length av) < U32 -> c = k).
Proof.
  intros Hn Hall Hr Hm Hj. split; [apply rr_run_all_up_any; assumption|].
  apply rr_counts; assumption.
Qed.

Example rr_wrap_pow2 :
  U32 mod 4 = 0 /\ fst (rr_select [false; false; true; false] 4294967294) = Some 2%nat.
Proof. split; vm_compute; reflexivity. Qed.

Example rr_wrap_miss_hit :
  fst (rr_select [false; false; true] 4294967294) = None /\
  snd (rr_select [false; false; true] 4294967294) = 1 /\
  fst (rr_select [false; false; true] 1) = Some 2%nat.
Proof. repeat split; vm_compute; reflexivity. Qed.

Example rr_counts_wrap :
  rr_idxs 3 4294967293 6 = [2; 0; 0; 1; 2; 0]%nat /\
  cnt 0 (rr_idxs 3 4294967293 6) = 3%nat /\ cnt 1 (rr_idxs 3 4294967293 6) = 1%nat.
Proof. repeat split; vm_compute; reflexivity. Qed.
