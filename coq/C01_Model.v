(* C01 — virtual-host routing: executable model of vhostTrie (Insert/Match/matchHost/matchPath/
   splitHostPath) and of the lookup part of Server.serveHTTP.
   Two models: (a) the finite map the trie implements — a list of entries (host key, path key,
   site), newest first; (b) the REAL two-level trie of vhosttrie.go ([vtrie] below: one node type,
   root edges keyed by host string, host-node edges keyed by string(byte), insertPath/matchPath
   walking the key byte by byte). C01_Proofs proves (b) refines (a); [judge] runs (b). *)
Require Import V.Lib V.GoPath V.GoNet V.Gen_C01.
Open Scope N_scope.

Definition STAR : N := 42.

Record entry := { e_host : bytes; e_path : bytes; e_site : N }.

(* splitHostPath: SplitN(key,"/",2); host lower-cased and stripped of a port; path = "/" ++ rest *)
Fixpoint split_first_slash (s : bytes) (acc : bytes) : bytes * option bytes :=
  match s with
  | [] => (rev acc, None)
  | c :: r => if c =? SLASH then (rev acc, Some r) else split_first_slash r (c :: acc)
  end.
Definition unbracket (h : bytes) : bytes :=
  match h with
  | c :: r => if c =? LBR then
                match rev r with
                | d :: m => if d =? RBR then rev m else h
                | [] => h
                end
              else h
  | [] => h
  end.
Definition split_host_path (key : bytes) : bytes * bytes :=
  let '(h, rest) := split_first_slash key [] in
  let l := to_lower h in
  let host := match split_host_port l with Some (x, _) => x | None => unbracket l end in
  (host, SLASH :: match rest with Some r => r | None => [] end).

Definition same_key (h p : bytes) (e : entry) : bool := beq (e_host e) h && beq (e_path e) p.

Definition insert (t : list entry) (key : bytes) (site : N) : list entry :=
  let '(h, p) := split_host_path key in
  {| e_host := h; e_path := p; e_site := site |} :: filter (fun e => negb (same_key h p e)) t.

Definition build (sites : list (bytes * N)) : list entry :=
  fold_left (fun t s => insert t (fst s) (snd s)) sites [].

Definition lookup (t : list entry) (h p : bytes) : option N :=
  match find (same_key h p) t with Some e => Some (e_site e) | None => None end.
Definition host_present (t : list entry) (h : bytes) : bool :=
  existsb (fun e => beq (e_host e) h) t.

(* wildcard candidates of a host: labels replaced by "*" cumulatively from the left *)
Fixpoint star_labels (k : nat) (labels : list bytes) : list bytes :=
  match k, labels with
  | S k', _ :: r => [STAR] :: star_labels k' r
  | _, _ => labels
  end.
Definition wildcard_candidates (host : bytes) : list bytes :=
  let labels := split DOT host in
  map (fun k => join [DOT] (star_labels k labels)) (seq 1 (length labels)).
Definition host_candidates (host : bytes) : list bytes := host :: wildcard_candidates host.

Definition match_host (t : list entry) (host : bytes) : option bytes :=
  find (host_present t) (host_candidates host).

(* matchPath: the longest stored path that is a (non-empty) byte-wise prefix of the request path *)
Fixpoint match_path_from (t : list entry) (hkey path : bytes) (k : nat) : option (N * bytes) :=
  match k with
  | O => None
  | S k' => match lookup t hkey (firstn k path) with
            | Some s => Some (s, firstn k path)
            | None => match_path_from t hkey path k'
            end
  end.
Definition match_path (t : list entry) (hkey path : bytes) : option (N * bytes) :=
  match_path_from t hkey path (length path).

(* regenerated from newVHostTrie on every run *)
Definition default_fallbacks : list bytes := gen_fallback_hosts.

Fixpoint first_some {A B} (f : A -> option B) (l : list A) : option B :=
  match l with
  | [] => None
  | x :: r => match f x with Some y => Some y | None => first_some f r end
  end.

(* vhostTrie.Match *)
Definition trie_match (t : list entry) (fallbacks : list bytes) (key : bytes) : option (N * bytes) :=
  let '(host, path) := split_host_path key in
  match first_some (match_host t) (host :: fallbacks) with
  | None => None
  | Some hkey => match_path t hkey path
  end.

(* Server.serveHTTP up to the hand-over to the site's chain *)
Inductive routed := Site (id : N) (prefix : bytes) | NotFound (status : N).

Definition serve (t : list entry) (extra_fallbacks : list bytes) (host_header url_path : bytes)
           (proto_major : N) : routed :=
  let hostname := strip_port host_header in
  match trie_match t (default_fallbacks ++ extra_fallbacks) (hostname ++ url_path) with
  | Some (s, prefix) => Site s prefix
  | None => NotFound (if 2 <=? proto_major then 421 else 404)
  end.

(* trimPathPrefix for paths that need no escaping *)
Fixpoint trim_prefix (s p : bytes) : bytes :=
  if has_prefix s p then skipn (length p) s else s.
(* trimPathPrefix hands the trimmed text back to url.ParseRequestURI (since /repo bf4cff5, the repair
   of finding F-C02-5): what remains is a path even when it starts with "//". Before that repair
   url.Parse read "//authority/path" and the text up to the next "/" disappeared from the path. *)
Definition trimmed_path (url_path prefix : bytes) : bytes :=
  if beq prefix [SLASH] then url_path
  else let t := trim_prefix url_path prefix in
       match t with c :: _ => if c =? SLASH then t else SLASH :: t | [] => [SLASH] end.

(* ================= the real data structure: vhostTrie ================= *)
(* type vhostTrie struct { fallbackHosts; edges map[string]*vhostTrie; site *SiteConfig; path string }
   One node type for both levels, as in Go. A Go map is an association list in which every key
   occurs at most once (edge_upd never duplicates a key). The root's fallbackHosts is passed
   separately (only the root's list is ever read). *)
Inductive vtrie := VNode (site : option (N * bytes)) (edges : list (bytes * vtrie)).
Definition t_site (t : vtrie) := match t with VNode s _ => s end.
Definition t_edges (t : vtrie) := match t with VNode _ e => e end.
Definition empty_trie : vtrie := VNode None [].            (* newVHostTrie() *)

(* ch := string(remainingPath[0]) — a byte converted to string is the UTF-8 encoding of the code
   point of that value: one byte below 0x80, two bytes from 0x80 up. *)
Definition edge_key (c : N) : bytes := if c <? 128 then [c] else [192 + c / 64; 128 + c mod 64].

Fixpoint edge_get (k : bytes) (es : list (bytes * vtrie)) : option vtrie :=
  match es with
  | [] => None
  | (k', t) :: r => if beq k' k then Some t else edge_get k r
  end.
(* if _, ok := t.edges[k]; !ok { t.edges[k] = newVHostTrie() }; t.edges[k] = f(t.edges[k]) *)
Fixpoint edge_upd (k : bytes) (f : vtrie -> vtrie) (es : list (bytes * vtrie)) : list (bytes * vtrie) :=
  match es with
  | [] => [(k, f empty_trie)]
  | (k', t) :: r => if beq k' k then (k', f t) :: r else (k', t) :: edge_upd k f r
  end.

(* insertPath(remainingPath, originalPath, site): structural recursion on the remaining key *)
Fixpoint insert_path (rem orig : bytes) (site : N) (t : vtrie) {struct rem} : vtrie :=
  match rem with
  | [] => VNode (Some (site, orig)) (t_edges t)
  | c :: r => VNode (t_site t) (edge_upd (edge_key c) (insert_path r orig site) (t_edges t))
  end.

(* Insert(key, site) *)
Definition tinsert (root : vtrie) (key : bytes) (site : N) : vtrie :=
  let '(h, p) := split_host_path key in
  VNode (t_site root) (edge_upd h (insert_path p p site) (t_edges root)).

Definition tbuild (sites : list (bytes * N)) : vtrie :=
  fold_left (fun t s => tinsert t (fst s) (snd s)) sites empty_trie.

(* matchHost: exact edge, then the labels replaced by "*" one more each round *)
Definition tmatch_host (root : vtrie) (host : bytes) : option vtrie :=
  first_some (fun c => edge_get c (t_edges root)) (host_candidates host).

(* matchPath: walk the edges byte by byte, remember the last node that carries a site *)
Fixpoint tmatch_path (rem : bytes) (t : vtrie) (longest : option (N * bytes)) : option (N * bytes) :=
  match rem with
  | [] => longest
  | c :: r => match edge_get (edge_key c) (t_edges t) with
              | None => longest
              | Some next => tmatch_path r next (match t_site next with Some v => Some v | None => longest end)
              end
  end.

(* Match(key): (node.site, node.path) *)
Definition ttrie_match (root : vtrie) (fallbacks : list bytes) (key : bytes) : option (N * bytes) :=
  let '(host, path) := split_host_path key in
  match first_some (tmatch_host root) (host :: fallbacks) with
  | None => None
  | Some branch => tmatch_path path branch None
  end.

Definition tserve (root : vtrie) (extra_fallbacks : list bytes) (host_header url_path : bytes)
           (proto_major : N) : routed :=
  let hostname := strip_port host_header in
  match ttrie_match root (default_fallbacks ++ extra_fallbacks) (hostname ++ url_path) with
  | Some (s, prefix) => Site s prefix
  | None => NotFound (if 2 <=? proto_major then 421 else 404)
  end.

(* the site chains invoked by serveHTTP for a routing outcome: vhost.middlewareChain.ServeHTTP
   for the one site found; WriteSiteNotFound alone otherwise *)
Definition handlers_run (r : routed) : list N :=
  match r with Site s _ => [s] | NotFound _ => [] end.

(* exact lookup in a path trie (used to state the refinement; not part of the Go code) *)
Fixpoint get (k : bytes) (t : vtrie) : option (N * bytes) :=
  match k with
  | [] => t_site t
  | c :: r => match edge_get (edge_key c) (t_edges t) with Some n => get r n | None => None end
  end.
Definition tlookup (root : vtrie) (h p : bytes) : option (N * bytes) :=
  match edge_get h (t_edges root) with Some b => get p b | None => None end.
Definition thost_present (root : vtrie) (h : bytes) : bool :=
  match edge_get h (t_edges root) with Some _ => true | None => false end.

(* ---- declarative specification, used by [judge] on the implementation's own answer ---- *)
Definition stored_hosts (t : list entry) : list bytes := map e_host t.

(* [k] is an acceptable host key for [host]: present, a candidate, and no earlier candidate present *)
Definition host_key_ok (t : list entry) (host k : bytes) : bool :=
  host_present t k &&
  let fix go (cands : list bytes) : bool :=
      match cands with
      | [] => false
      | c :: r => if beq c k then true else negb (host_present t c) && go r
      end in go (host_candidates host).

Definition spec_route (t : list entry) (fallbacks : list bytes) (host path : bytes)
           (ans : option (N * bytes)) : bool :=
  (* the governing host key: from the request host if any candidate is present, else from the
     first fallback that has one *)
  let hk := first_some (match_host t) (host :: fallbacks) in
  match hk, ans with
  | None, None => true
  | None, Some _ => false
  | Some k, None =>
      (* no stored path of that host is a prefix of the request path *)
      forallb (fun e => negb (beq (e_host e) k && has_prefix path (e_path e))) t
  | Some k, Some (s, q) =>
      has_prefix path q &&
      existsb (fun e => beq (e_host e) k && beq (e_path e) q && (e_site e =? s)) t &&
      forallb (fun e => negb (beq (e_host e) k && has_prefix path (e_path e))
                        || Nat.leb (length (e_path e)) (length q)) t
  end.

(* independent normalisation used by the specification: "host matching ignores letter case and
   port" — lower-case, drop a port, and drop the brackets of an IPv6 literal written without port *)
Definition spec_norm_host (h : bytes) : bytes :=
  let l := to_lower h in
  match split_host_port l with Some (x, _) => x | None => unbracket l end.
Definition spec_entry (s : bytes * N) : entry :=
  let '(h, rest) := split_first_slash (fst s) [] in
  {| e_host := spec_norm_host h; e_path := SLASH :: match rest with Some r => r | None => [] end;
     e_site := snd s |}.

(* ================= the property, stated over the declared site list ================= *)
(* what a declared address "host[:port][/path]" means: host pattern (case, port and IPv6
   brackets dropped) and path prefix *)
Fixpoint upto_slash (s : bytes) : bytes :=
  match s with [] => [] | c :: r => if c =? SLASH then [] else c :: upto_slash r end.
Fixpoint after_slash (s : bytes) : bytes :=
  match s with [] => [] | c :: r => if c =? SLASH then r else after_slash r end.
Definition addr_host (a : bytes) : bytes := spec_norm_host (upto_slash a).
Definition addr_path (a : bytes) : bytes := SLASH :: after_slash a.
Definition at_addr (h p : bytes) (s : bytes * N) : bool :=
  beq (addr_host (fst s)) h && beq (addr_path (fst s)) p.
(* the site declared at (h, p); declaring the same address again replaces the earlier site *)
Definition owner (sites : list (bytes * N)) (h p : bytes) : option N :=
  option_map snd (find (at_addr h p) (rev sites)).
Definition host_declared (sites : list (bytes * N)) (h : bytes) : bool :=
  existsb (fun s => beq (addr_host (fst s)) h) sites.
(* the patterns that match a host name, most specific first: the name itself, then the name
   with its first 1, 2, ... labels replaced by "*" *)
Definition wild (j : nat) (labels : list bytes) : list bytes := repeat [STAR] j ++ skipn j labels.
Definition patterns (host : bytes) : list bytes :=
  host :: map (fun j => join [DOT] (wild j (split DOT host))) (seq 1 (length (split DOT host))).
Definition prefixes_longest_first (p : bytes) : list bytes :=
  map (fun k => firstn k p) (rev (seq 1 (length p))).

(* the most specific declared pattern of the request host, else of the first fallback host
   that has one *)
Definition governing_pattern (sites : list (bytes * N)) (fallbacks : list bytes) (host : bytes)
  : option bytes :=
  first_some (fun h => find (host_declared sites) (patterns h)) (host :: fallbacks).

Definition spec (sites : list (bytes * N)) (extra_fallbacks : list bytes)
           (host_header url_path : bytes) (proto_major : N) : routed :=
  let key := strip_port host_header ++ url_path in
  let not_found := NotFound (if 2 <=? proto_major then 421 else 404) in
  match governing_pattern sites (default_fallbacks ++ extra_fallbacks) (addr_host key) with
  | None => not_found
  | Some pat =>
      (* among that pattern's sites only: the longest declared path that is a byte-wise prefix *)
      match first_some (fun q => option_map (fun s => (s, q)) (owner sites pat q))
                       (prefixes_longest_first (addr_path key)) with
      | Some (s, q) => Site s q
      | None => not_found
      end
  end.

(* obs_trace: the ids of the sites whose marker middleware ran, in order (so both WHICH site ran
   and HOW MANY handlers ran are observed); obs_prefix: the "path_prefix" context value the
   chain saw; obs_path: the URL path the chain saw (after trimPathPrefix) *)
Definition keys_distinct (sites : list (bytes * N)) : bool :=
  let ks := map (fun s => split_host_path (fst s)) sites in
  let fix nd (l : list (bytes * bytes)) : bool :=
      match l with
      | [] => true
      | (h, p) :: r => negb (existsb (fun k => beq (fst k) h && beq (snd k) p) r) && nd r
      end in nd ks.

Definition routed_eqb (a b : routed) : bool :=
  match a, b with
  | Site s p, Site s' p' => (s =? s') && beq p p'
  | NotFound st, NotFound st' => st =? st'
  | _, _ => false
  end.

(* one observed request judged against the model's routing outcome [r] for the listener whose
   declared sites are [sites] and whose designated fallback hosts are [xf]: (agree, spec_ok).
   The executable spec looks at [sites]/[xf] of THAT listener only. *)
Definition judge_route (sites : list (bytes * N)) (xf : list bytes) (hh up : bytes) (proto : N)
           (simple : bool) (otrace : list N) (ost : N) (oprefix opath : bytes) (r : routed)
  : bool * bool :=
      (* the model that runs is the real trie: Insert each site, then serveHTTP's Match *)
      let agree :=
        list_beq N.eqb otrace (handlers_run r) &&
        match r with
        | Site s prefix => beq prefix oprefix && (ost =? 200) &&
                           (negb simple || beq (trimmed_path up prefix) opath)
        | NotFound st => st =? ost
        end in
      (* what was observed, as a routing outcome *)
      let obs := match otrace with
                 | [] => Some (NotFound ost)
                 | [s] => Some (Site s oprefix)
                 | _ => None                      (* more than one site's handlers ran *)
                 end in
      let os := match otrace with [s] => Some s | _ => None end in
      let ocalls := N.of_nat (length otrace) in
      (* spec, part 1: the end-to-end declarative statement (proved equal to the model for all
         inputs, C01_route_spec) evaluated on the implementation's answer *)
      let spec1 := match obs with Some o => routed_eqb o (spec sites xf hh up proto) | None => false end in
      (* spec, part 2: an independently written argmax-style reading over independently
         normalised keys *)
      let t := map spec_entry sites in
      let host := spec_norm_host (upto_slash (strip_port hh ++ up)) in
      let path := SLASH :: after_slash (strip_port hh ++ up) in
      let fallbacks := map spec_norm_host (default_fallbacks ++ xf) in
      let hk := first_some (match_host t) (host :: fallbacks) in
      let spec2 :=
        match os with
        | Some s =>
            (ocalls =? 1) &&
            match hk with
            | None => false
            | Some k =>
                host_key_ok t (match find (fun h => match match_host t h with Some _ => true | None => false end)
                                          (host :: fallbacks) with Some h => h | None => host end) k &&
                (* s owns the longest stored prefix of the path under host key k *)
                existsb (fun e => beq (e_host e) k && (e_site e =? s) && has_prefix path (e_path e) &&
                                  beq (e_path e) oprefix &&
                                  forallb (fun e' => negb (beq (e_host e') k && has_prefix path (e_path e'))
                                                     || Nat.leb (length (e_path e')) (length (e_path e))) t) t
            end
        | None =>
            (ocalls =? 0) && (ost =? (if 2 <=? proto then 421 else 404)) &&
            match hk with
            | None => true
            | Some k => forallb (fun e => negb (beq (e_host e) k && has_prefix path (e_path e))) t
            end
        end in
      (agree, spec1 && spec2).

(* ================= several listeners in one process ================= *)
(* NewServer: s.vhosts = newVHostTrie(); s.vhosts.fallbackHosts = append(s.vhosts.fallbackHosts,
   getFallbacks(group)...); then one Insert per site. The fallback list is a Go slice, so what a
   later append does to an earlier listener's list depends on who shares a backing array with
   whom. Slices are modelled as (array, len, cap) over a heap of arrays: a composite literal
   allocates a fresh array with len = cap; append writes in place while the capacity lasts and
   otherwise copies into a fresh array. The list is READ at request time, from the heap as it is
   after every listener has been created. *)
Record gslice := { sl_arr : nat; sl_len : nat; sl_cap : nat }.
Definition heap := list (list bytes).

Fixpoint upd_nth {A} (k : nat) (f : A -> A) (l : list A) : list A :=
  match l, k with
  | [], _ => []
  | x :: r, O => f x :: r
  | x :: r, S k' => x :: upd_nth k' f r
  end.

(* []string{...} *)
Definition lit_slice (hp : heap) (elems : list bytes) : heap * gslice :=
  (hp ++ [elems], {| sl_arr := length hp; sl_len := length elems; sl_cap := length elems |}).
(* append(s, xs...) *)
Definition go_append (hp : heap) (s : gslice) (xs : list bytes) : heap * gslice :=
  let n := (sl_len s + length xs)%nat in
  if Nat.leb n (sl_cap s) then
    (upd_nth (sl_arr s) (fun a => firstn (sl_len s) a ++ xs ++ skipn n a) hp,
     {| sl_arr := sl_arr s; sl_len := n; sl_cap := sl_cap s |})
  else
    let newcap := Nat.max (2 * sl_cap s) n in
    (hp ++ [firstn (sl_len s) (nth (sl_arr s) hp []) ++ xs ++ repeat [] (newcap - n)],
     {| sl_arr := length hp; sl_len := n; sl_cap := newcap |}).
Definition slice_read (hp : heap) (s : gslice) : list bytes :=
  firstn (sl_len s) (nth (sl_arr s) hp []).

(* a listener's site group: the declared sites and the hosts of its designated fallback sites
   (getFallbacks(group), declaration order) *)
Definition group := (list (bytes * N) * list bytes)%type.
Definition pstate := (heap * list (vtrie * gslice))%type.

Definition new_server (st : pstate) (g : group) : pstate :=
  let '(hp, srvs) := st in
  let '(hp1, s1) := lit_slice hp default_fallbacks in      (* newVHostTrie() *)
  let '(hp2, s2) := go_append hp1 s1 (snd g) in            (* append(fallbackHosts, getFallbacks(group)...) *)
  (hp2, srvs ++ [(tbuild (fst g), s2)]).
Definition process (groups : list group) : pstate := fold_left new_server groups ([], []).

(* NOT the code: a variant in which every trie takes one shared slice instead of its own literal
   (used only to show what the per-trie list rules out, C01_shared_fallback_list_would_leak) *)
Definition new_server_shared (shared : gslice) (st : pstate) (g : group) : pstate :=
  let '(hp, srvs) := st in
  let '(hp2, s2) := go_append hp shared (snd g) in
  (hp2, srvs ++ [(tbuild (fst g), s2)]).

(* serveHTTP with the complete fallback list *)
Definition tserve_full (root : vtrie) (fallbacks : list bytes) (host_header url_path : bytes)
           (proto_major : N) : routed :=
  let hostname := strip_port host_header in
  match ttrie_match root fallbacks (hostname ++ url_path) with
  | Some (s, prefix) => Site s prefix
  | None => NotFound (if 2 <=? proto_major then 421 else 404)
  end.

(* a request on listener [i] of a process in state [st] *)
Definition mserve_st (st : pstate) (i : nat) (hh up : bytes) (proto : N) : option routed :=
  match nth_error (snd st) i with
  | Some (root, s) => Some (tserve_full root (slice_read (fst st) s) hh up proto)
  | None => None
  end.
Definition mserve (groups : list group) (i : nat) (hh up : bytes) (proto : N) : option routed :=
  mserve_st (process groups) i hh up proto.

(* ---- a process serving a SEQUENCE of requests ----
   Server.serveHTTP reads the listener's trie and its fallback list and writes nothing a later
   lookup reads: the state of the process after a request is the state before it. *)
Record rq := { rq_srv : nat; rq_host : bytes; rq_path : bytes; rq_proto : N }.
Definition serve_step (st : pstate) (q : rq) : pstate * option routed :=
  (st, mserve_st st (rq_srv q) (rq_host q) (rq_path q) (rq_proto q)).
Fixpoint serve_seq (st : pstate) (qs : list rq) : list (option routed) :=
  match qs with
  | [] => []
  | q :: t => let '(st', r) := serve_step st q in r :: serve_seq st' t
  end.

(* NOT the code: a variant of serveHTTP that remembers the host names whose lookup found no site
   and answers "no such site" for them from then on without consulting the trie (used only to
   show what statelessness rules out, C01_unknown_host_cache_would_poison) *)
Definition serve_step_cached (root : vtrie) (fallbacks : list bytes) (cache : list bytes)
           (hh up : bytes) (proto : N) : list bytes * routed :=
  let hostname := strip_port hh in
  let nf := NotFound (if 2 <=? proto then 421 else 404) in
  if existsb (beq hostname) cache then (cache, nf)
  else match tserve_full root fallbacks hh up proto with
       | NotFound st => (hostname :: cache, NotFound st)
       | r => (cache, r)
       end.
Fixpoint serve_seq_cached (root : vtrie) (fallbacks : list bytes) (cache : list bytes)
         (qs : list (bytes * bytes * N)) : list routed :=
  match qs with
  | [] => []
  | (hh, up, proto) :: t =>
      let '(cache', r) := serve_step_cached root fallbacks cache hh up proto in
      r :: serve_seq_cached root fallbacks cache' t
  end.


(* ================= the request-target as net/http hands it to the server ================= *)
(* serveHTTP routes on r.URL.Path, the DECODED path. net/http builds r.URL with
   url.ParseRequestURI(target): for an origin-form target ("/..."): no control byte anywhere, the
   text up to the first "?" is the path, and every "%" must be followed by two hex digits (either
   letter case), which unescape(encodePath) replaces by the octet — "%2F" becomes "/" and
   "%C3%A9" two arbitrary bytes; nothing else is rewritten (no "+", no dot-segment cleaning, "#"
   is an ordinary byte). *)
Definition PCT : N := 37.
Definition QMARK : N := 63.
Definition hexval (c : N) : option N :=
  if (48 <=? c) && (c <=? 57) then Some (c - 48)
  else if (97 <=? c) && (c <=? 102) then Some (c - 87)
  else if (65 <=? c) && (c <=? 70) then Some (c - 55)
  else None.
Fixpoint unescape (s : bytes) : option bytes :=
  match s with
  | [] => Some []
  | c :: r =>
      if c =? PCT then
        match r with
        | h :: l :: r' =>
            match hexval h, hexval l with
            | Some a, Some b => option_map (cons (16 * a + b)) (unescape r')
            | _, _ => None
            end
        | _ => None
        end
      else option_map (cons c) (unescape r)
  end.
Definition is_ctl (c : N) : bool := (c <? 32) || (c =? 127).
Fixpoint upto_q (s : bytes) : bytes :=
  match s with [] => [] | c :: r => if c =? QMARK then [] else c :: upto_q r end.
Definition target_ok (raw : bytes) : bool :=
  match raw with c :: _ => (c =? SLASH) && negb (existsb is_ctl raw) | [] => false end.
(* url.ParseRequestURI(raw).Path for origin-form targets; None = rejected (400, the server's
   handler is never entered) or not origin-form *)
Definition target_path (raw : bytes) : option bytes :=
  if target_ok raw then unescape (upto_q raw) else None.
(* what the server answers to a request whose request line carries [raw] *)
Definition tserve_target (root : vtrie) (xf : list bytes) (hh raw : bytes) (proto : N) : option routed :=
  option_map (fun up => tserve root xf hh up proto) (target_path raw).

(* the relation "raw spells the path p": every octet of p is written either as itself (any byte
   but "%") or as "%" and two hex digits of either case *)
Inductive spells : bytes -> bytes -> Prop :=
| spells_nil : spells [] []
| spells_lit c r p : c <> PCT -> spells r p -> spells (c :: r) (c :: p)
| spells_esc h l a b r p : hexval h = Some a -> hexval l = Some b -> spells r p ->
                           spells (PCT :: h :: l :: r) ((16 * a + b) :: p).

(* executable, independently written reading of [spells] used by [judge] on Go's own decoding:
   a lock-step CHECK of (raw, decoded) with the digit value looked up in a table *)
Fixpoint pos_in (c : N) (l : list N) (k : N) : option N :=
  match l with [] => None | x :: r => if x =? c then Some k else pos_in c r (k + 1) end.
Definition spec_hex (c : N) : option N :=
  pos_in (lower_byte c) [48;49;50;51;52;53;54;55;56;57;97;98;99;100;101;102] 0.
Fixpoint spells_b (raw p : bytes) : bool :=
  match raw, p with
  | [], [] => true
  | c :: r, x :: p' =>
      if c =? PCT then
        match r with
        | h :: l :: r' =>
            match spec_hex h, spec_hex l with
            | Some a, Some b => (16 * a + b =? x) && spells_b r' p'
            | _, _ => false
            end
        | _ => false
        end
      else (c =? x) && spells_b r p'
  | _, _ => false
  end.
(* no spelling at all: some "%" is not followed by two hex digits *)
Fixpoint bad_escape (raw : bytes) : bool :=
  match raw with
  | [] => false
  | c :: r =>
      if c =? PCT then
        match r with
        | h :: l :: r' => match spec_hex h, spec_hex l with Some _, Some _ => bad_escape r' | _, _ => true end
        | _ => true
        end
      else bad_escape r
  end.


(* ================= host letter case as Go folds it ================= *)
(* strings.ToLower: byte-wise A-Z folding when every byte is ASCII; otherwise
   strings.Map(unicode.ToLower, s): the text is decoded as UTF-8, every byte that does not start
   a well-formed sequence becomes U+FFFD (EF BF BD — so DIFFERENT invalid bytes fold to the SAME
   text), every code point is mapped by unicode.ToLower and re-encoded (the length may change:
   U+0130 -> "i", U+212A KELVIN SIGN -> "k"). [lower_rune] carries the case pairs of the blocks
   the generator draws from (Basic Latin, Latin-1, Latin Extended-A up to U+012F, U+0130, Greek
   and Cyrillic capitals, the three letter-like signs); every other code point is left alone. *)
Definition lower_rune (r : N) : N :=
  if (65 <=? r) && (r <=? 90) then r + 32
  else if (192 <=? r) && (r <=? 222) && negb (r =? 215) then r + 32
  else if (256 <=? r) && (r <=? 303) then (if N.even r then r + 1 else r)
  else if r =? 304 then 105
  else if (913 <=? r) && (r <=? 937) && negb (r =? 930) then r + 32
  else if (1024 <=? r) && (r <=? 1039) then r + 80
  else if (1040 <=? r) && (r <=? 1071) then r + 32
  else if r =? 8490 then 107
  else if r =? 8491 then 229
  else if r =? 8486 then 969
  else r.
Definition encode_rune (r : N) : bytes :=
  if r <? 128 then [r]
  else if r <? 2048 then [192 + r / 64; 128 + r mod 64]
  else if r <? 65536 then [224 + r / 4096; 128 + (r / 64) mod 64; 128 + r mod 64]
  else [240 + r / 262144; 128 + (r / 4096) mod 64; 128 + (r / 64) mod 64; 128 + r mod 64].
Definition cont (lo hi c : N) : bool := (lo <=? c) && (c <=? hi).
(* utf8.DecodeRune: (code point, width) of a well-formed sequence at the head, else None *)
Definition decode_rune (s : bytes) : option (N * nat) :=
  match s with
  | [] => None
  | b0 :: r =>
      if b0 <? 128 then Some (b0, 1%nat)
      else if cont 194 223 b0 then
        match r with b1 :: _ => if cont 128 191 b1 then Some ((b0 - 192) * 64 + (b1 - 128), 2%nat) else None | _ => None end
      else if cont 224 239 b0 then
        match r with
        | b1 :: b2 :: _ =>
            let lo := if b0 =? 224 then 160 else 128 in
            let hi := if b0 =? 237 then 159 else 191 in
            if cont lo hi b1 && cont 128 191 b2
            then Some ((b0 - 224) * 4096 + (b1 - 128) * 64 + (b2 - 128), 3%nat) else None
        | _ => None
        end
      else if cont 240 244 b0 then
        match r with
        | b1 :: b2 :: b3 :: _ =>
            let lo := if b0 =? 240 then 144 else 128 in
            let hi := if b0 =? 244 then 143 else 191 in
            if cont lo hi b1 && cont 128 191 b2 && cont 128 191 b3
            then Some ((b0 - 240) * 262144 + (b1 - 128) * 4096 + (b2 - 128) * 64 + (b3 - 128), 4%nat) else None
        | _ => None
        end
      else None
  end.
Fixpoint map_runes (fuel : nat) (s : bytes) : bytes :=
  match fuel, s with
  | O, _ => []
  | _, [] => []
  | S f, _ :: r =>
      match decode_rune s with
      | Some (c, w) => encode_rune (lower_rune c) ++ map_runes f (skipn w s)
      | None => [239; 191; 189] ++ map_runes f r
      end
  end.
Definition go_lower (s : bytes) : bytes :=
  if forallb (fun c => c <? 128) s then to_lower s else map_runes (length s) s.
(* splitHostPath lower-cases the text before the first "/" *)
Definition lower_key (k : bytes) : bytes :=
  go_lower (upto_slash k) ++ skipn (length (upto_slash k)) k.
(* serveHTTP with Go's folding made explicit: the key handed to Match, host part folded as Go
   does; Insert likewise. On folded text the A-Z folding inside [split_host_path] is the identity. *)
Definition tserve_u (sites : list (bytes * N)) (xf : list bytes) (hh up : bytes) (proto : N) : routed :=
  let root := tbuild (map (fun s => (lower_key (fst s), snd s)) sites) in
  match ttrie_match root (default_fallbacks ++ xf) (lower_key (strip_port hh ++ up)) with
  | Some (s, prefix) => Site s prefix
  | None => NotFound (if 2 <=? proto then 421 else 404)
  end.

(* one observed request of a multi-listener case *)
Record mreq := { mq_srv : N; mq_host : bytes; mq_path : bytes; mq_proto : N; mq_simple : bool;
                 mq_trace : list N; mq_status : N; mq_prefix : bytes; mq_opath : bytes }.

(* ---- case ---- *)
Inductive case :=
| CRoute (sites : list (bytes * N)) (extra_fallbacks : list bytes) (host_header url_path : bytes)
         (proto : N) (simple : bool)
         (obs_trace : list N) (obs_status : N) (obs_prefix obs_path : bytes)
(* listeners created one after the other in one process (site ids unique over the whole
   process), then requests to any of them *)
| CMulti (groups : list group) (reqs : list mreq)
(* a request whose Host (or a declared host) has non-ASCII bytes: Go's Unicode-aware folding *)
| CRouteU (sites : list (bytes * N)) (extra_fallbacks : list bytes) (host_header url_path : bytes)
          (proto : N) (obs_trace : list N) (obs_status : N) (obs_prefix obs_path : bytes)
(* a raw origin-form request-target: [go_path] is URL.Path as url.ParseRequestURI produced it
   (None: rejected); the model decodes [raw] itself *)
| CTarget (sites : list (bytes * N)) (extra_fallbacks : list bytes) (host_header raw : bytes)
          (go_path : option bytes) (proto : N)
          (obs_trace : list N) (obs_status : N) (obs_prefix obs_path : bytes).

Definition judge_mreq (groups : list group) (st : pstate) (q : mreq) : bool * bool :=
  let i := N.to_nat (mq_srv q) in
  match nth_error groups i, mserve_st st i (mq_host q) (mq_path q) (mq_proto q) with
  | Some g, Some r =>
      (* "else a catch-all or designated fallback site OF THAT LISTENER answers": the spec is
         evaluated on listener i's own site group, nothing else of the process *)
      judge_route (fst g) (snd g) (mq_host q) (mq_path q) (mq_proto q) (mq_simple q)
                  (mq_trace q) (mq_status q) (mq_prefix q) (mq_opath q) r
  | _, _ => (false, false)
  end.

Definition judge (c : case) : N :=
  match c with
  | CRoute sites xf hh up proto simple otrace ost oprefix opath =>
      (* the model that runs is the real trie: Insert each site, then serveHTTP's Match *)
      let '(agree, spec_ok) := judge_route sites xf hh up proto simple otrace ost oprefix opath
                                           (tserve (tbuild sites) xf hh up proto) in
      verdict agree spec_ok
  | CMulti groups reqs =>
      let st := process groups in
      let rs := map (judge_mreq groups st) reqs in
      verdict (forallb fst rs) (forallb snd rs)
  | CRouteU sites xf hh up proto otrace ost oprefix opath =>
      (* the spec is evaluated on the folded names: declared hosts and request host folded as Go
         folds them, then "most specific pattern, longest prefix" as for ASCII names *)
      let sites' := map (fun s => (lower_key (fst s), snd s)) sites in
      let hh' := go_lower (strip_port hh) in
      if beq (strip_port hh') hh' && forallb (fun c => negb (c =? SLASH)) hh && beq (upto_slash up) [] then
        let '(agree, spec_ok) := judge_route sites' xf hh' up proto false otrace ost oprefix opath
                                             (tserve_u sites xf hh up proto) in
        verdict agree spec_ok
      else verdict false true
  | CTarget sites xf hh raw gp proto otrace ost oprefix opath =>
      match target_path raw, gp with
      | Some up, Some g =>
          (* model: decode, then the trie; spec: Go's decoded path must be spelled by the raw text
             (lock-step check) and the answer must be the spec's for THAT decoded path *)
          let '(agree, spec_ok) := judge_route sites xf hh g proto false otrace ost oprefix opath
                                               (tserve (tbuild sites) xf hh up proto) in
          verdict (agree && beq up g) (spec_ok && spells_b (upto_q raw) g)
      | None, None => verdict true (negb (target_ok raw) || bad_escape (upto_q raw))
      | Some _, None => verdict false (negb (target_ok raw) || bad_escape (upto_q raw))
      | None, Some g => verdict false (target_ok raw && spells_b (upto_q raw) g)
      end
  end.
