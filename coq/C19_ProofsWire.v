(* C19 — proofs, part 3: what is recorded END TO END (structured hello -> TLS record -> any read
   segmentation -> recorded info), isolation of connections sharing pooled tee buffers over all
   interleavings, FastCGI records over short reads, {labelN}, X-Forwarded-For folding,
   findIncompleteRuneLength.  Stdlib + Lia only. *)
Require Import V.Lib V.C19_Model V.C19_Proofs V.C19_ProofsHello.
From Coq Require Import ZifyBool ZifyN ZifyNat.
Open Scope N_scope.

(* ------------------------------------------------------------------------------------------ *)
(* end to end: every segmentation of record(hello) ++ anything records info_of hello           *)
(* ------------------------------------------------------------------------------------------ *)
Lemma recorded_is_peer_hello (h : hello) (hdr3 rest : bytes) (segs : list bytes) :
  hello_wf h = true -> length hdr3 = 3%nat -> nlen (encode_hello h) < 65536 ->
  concat segs = tls_record hdr3 (encode_hello h) ++ rest ->
  exists st, conn_run conn0 segs = Ok st /\ c_recorded st = Some (info_of h).
Proof.
  intros Hwf H3 Hlen Hw.
  destruct (segmentation_full (hdr3 ++ be16 (nlen (encode_hello h))) (encode_hello h) rest segs)
    as (st & inf & A & B & C).
  - rewrite app_length, H3. reflexivity.
  - destruct hdr3 as [|a [|b [|c [|? ?]]]]; try discriminate.
    cbn [app nth be16]. rewrite u16_be16. apply nlen_nat.
  - rewrite Hw. unfold tls_record. now rewrite <- !app_assoc.
  - exists st. split; [exact A|]. rewrite C. f_equal.
    rewrite (parse_encode_roundtrip h Hwf) in B. now injection B as <-.
Qed.

(* and nothing is recorded before the last byte of the record has arrived *)
Lemma recorded_nothing_before_complete (h : hello) (hdr3 : bytes) (segs : list bytes) (k : nat) :
  length hdr3 = 3%nat -> nlen (encode_hello h) < 65536 ->
  (k < 5 + length (encode_hello h))%nat ->
  concat segs = firstn k (tls_record hdr3 (encode_hello h)) ->
  exists st, conn_run conn0 segs = Ok st /\ c_recorded st = None.
Proof.
  intros H3 Hlen Hk Hw.
  apply (segmentation_incomplete (hdr3 ++ be16 (nlen (encode_hello h))) (encode_hello h) segs k).
  - rewrite app_length, H3. reflexivity.
  - destruct hdr3 as [|a [|b [|c [|? ?]]]]; try discriminate.
    cbn [app nth be16]. rewrite u16_be16. apply nlen_nat.
  - exact Hk.
  - rewrite Hw. unfold tls_record. now rewrite <- !app_assoc.
Qed.

(* ------------------------------------------------------------------------------------------ *)
(* pooled tee buffers: a connection records a function of ITS OWN bytes, for every schedule     *)
(* ------------------------------------------------------------------------------------------ *)
Lemma conn_run_snoc segs : forall c s,
  conn_run c (segs ++ [s]) = (do c' <- conn_run c segs; conn_read c' s).
Proof.
  induction segs as [|x segs IH]; intros c s; cbn [app conn_run rbind].
  - destruct (conn_read c s); reflexivity.
  - destruct (conn_read c x) as [c1|]; cbn [rbind]; [apply IH|reflexivity].
Qed.

(* invariant: every accepted connection is in the state conn_run reaches from the EMPTY buffer
   on its own reads; connections never accepted are absent *)
Definition l_inv (st : lstate) (accs : nat -> option (list bytes)) : Prop :=
  forall id, match accs id with
             | Some segs => exists c, l_conns st id = Some c /\ conn_run conn0 segs = Ok c
             | None => l_conns st id = None
             end.

Lemma accept_reset pool k : fst (accept true pool k) = conn0.
Proof. unfold accept. destruct (nth_error pool k); reflexivity. Qed.

Lemma l_step_inv st accs e : l_inv st accs ->
  exists st', l_step true st e = Ok st' /\ l_inv st' (own_step accs e).
Proof.
  intro Hinv. destruct e as [id k|id seg]; cbn [l_step own_step].
  - pose proof (accept_reset (l_pool st) k) as Ha.
    destruct (accept true (l_pool st) k) as [c p]. cbn [fst] in Ha. subst c.
    eexists. split; [reflexivity|]. intro j. unfold upd. cbn [l_conns].
    destruct (j =? id)%nat eqn:E.
    + exists conn0. split; reflexivity.
    + apply Hinv.
  - pose proof (Hinv id) as Hid. destruct (accs id) as [segs|] eqn:Ea.
    + destruct Hid as (c & Hc & Hrun). rewrite Hc.
      destruct (conn_read_ok c seg) as [c' Hc']. rewrite Hc'. cbn [rbind].
      eexists. split; [reflexivity|]. intro j. unfold upd. cbn [l_conns].
      destruct (j =? id)%nat eqn:E.
      * exists c'. split; [reflexivity|]. rewrite conn_run_snoc, Hrun. exact Hc'.
      * apply Hinv.
    + rewrite Hid. eexists. split; [reflexivity|]. exact Hinv.
Qed.

Lemma l_run_inv evs : forall st accs, l_inv st accs ->
  exists st', l_run true st evs = Ok st' /\ l_inv st' (fold_left own_step evs accs).
Proof.
  induction evs as [|e evs IH]; intros st accs Hinv; cbn [l_run fold_left].
  - exists st. split; [reflexivity|exact Hinv].
  - destruct (l_step_inv st accs e Hinv) as (st1 & H1 & Hinv1). rewrite H1. cbn [rbind].
    apply IH. exact Hinv1.
Qed.

(* for EVERY initial pool contents (whatever earlier connections left in the buffers), EVERY
   interleaving of accepts and reads, EVERY choice of pooled buffer: what is recorded for a
   connection is recorded_of of the bytes that connection itself delivered *)
Lemma accept_isolates (pool : list bytes) (evs : list ev) :
  exists st, l_run true (l_init pool) evs = Ok st /\
    forall id, recorded_for st id =
               match own_segs evs id with
               | Some segs => recorded_of (concat segs)
               | None => None
               end.
Proof.
  destruct (l_run_inv evs (l_init pool) (fun _ => None)) as (st & Hrun & Hinv).
  { intro id. reflexivity. }
  exists st. split; [exact Hrun|]. intro id. unfold recorded_for, own_segs.
  specialize (Hinv id). destruct (fold_left own_step evs (fun _ => None) id) as [segs|].
  - destruct Hinv as (c & Hc & Hr). rewrite Hc.
    destruct (conn_run_recorded segs) as (c2 & Hr2 & Hrec). rewrite Hr in Hr2.
    injection Hr2 as <-. exact Hrec.
  - now rewrite Hinv.
Qed.

(* a connection started on a NON-empty buffer (Accept without buf.Reset()) records a function of
   the stale bytes followed by its own: its own hello is not what is looked at *)
Lemma stale_buffer_recorded (stale : bytes) (seg : bytes) (segs : list bytes) :
  exists st, conn_run (mkConn false stale None) (seg :: segs) = Ok st /\
             c_recorded st = recorded_of (stale ++ concat (seg :: segs)).
Proof.
  destruct ((length stale <? 5)%nat || (length stale <? 5 + N.to_nat (u16 (nth 3 stale 0%N) (nth 4 stale 0%N)))%nat)%bool eqn:Hc.
  - apply conn_run_collect; [|exact Hc]. unfold recorded_of.
    apply orb_true_iff in Hc as [Hc|Hc]; rewrite Hc; [reflexivity|].
    now destruct (length stale <? 5)%nat.
  - (* the stale bytes already hold a complete record: the first read records THAT *)
    apply orb_false_iff in Hc as [H5 Hl]. apply Nat.ltb_ge in H5, Hl.
    cbn [conn_run concat]. rewrite conn_read_collect.
    set (buf := stale ++ seg). set (len := N.to_nat (u16 (nth 3 buf 0) (nth 4 buf 0))).
    assert (Hn3 : nth 3 buf 0 = nth 3 stale 0) by (unfold buf; apply app_nth1; lia).
    assert (Hn4 : nth 4 buf 0 = nth 4 stale 0) by (unfold buf; apply app_nth1; lia).
    assert (Hbl : length buf = (length stale + length seg)%nat) by (unfold buf; apply app_length).
    assert (Hlen : len = N.to_nat (u16 (nth 3 stale 0) (nth 4 stale 0))) by (unfold len; now rewrite Hn3, Hn4).
    replace ((length buf <? 5)%nat || (length buf <? 5 + len)%nat)%bool with false
      by (symmetry; apply orb_false_iff; split; apply Nat.ltb_ge; lia).
    destruct (parse_ok (firstn len (skipn 5 buf))) as [inf Hp]. rewrite Hp. cbn [rbind].
    rewrite conn_run_done by reflexivity. eexists. split; [reflexivity|]. cbn [c_recorded].
    rewrite app_assoc. fold buf. rewrite recorded_of_app by (fold len; lia).
    unfold recorded_of. fold len.
    replace (length buf <? 5)%nat with false by (symmetry; apply Nat.ltb_ge; lia).
    replace (length buf <? 5 + len)%nat with false by (symmetry; apply Nat.ltb_ge; lia).
    now rewrite Hp.
Qed.

(* witness for "without buf.Reset() the bytes of ANOTHER connection are recorded": connection 1
   sends its hello record followed, in the same read, by a second record; connection 2 draws
   that buffer and sends its own (different) hello *)
Definition pool_hello_a : hello := mkHello 771 (repeat 1 32) [] [49195] [0] [EOther 23 []].
Definition pool_hello_x : hello := mkHello 769 (repeat 2 32) [] [47] [0] [EOther 15 [1]].
Definition pool_hello_b : hello := mkHello 772 (repeat 3 32) [] [4865] [0] [ECurves [29]].
Definition pool_rec (h : hello) : bytes := tls_record [22; 3; 1] (encode_hello h).
Definition pool_witness : list ev :=
  [EvAccept 1 0; EvRead 1 (pool_rec pool_hello_a ++ pool_rec pool_hello_x);
   EvAccept 2 0; EvRead 2 (pool_rec pool_hello_b)].

Lemma no_reset_leaks :
  exists st, l_run false (l_init []) pool_witness = Ok st /\
             own_segs pool_witness 2%nat = Some [pool_rec pool_hello_b] /\
             recorded_of (pool_rec pool_hello_b) = Some (info_of pool_hello_b) /\
             recorded_for st 2%nat = Some (info_of pool_hello_x).
Proof. vm_compute. eexists. repeat split. Qed.

Lemma reset_witness :
  exists st, l_run true (l_init []) pool_witness = Ok st /\
             recorded_for st 2%nat = Some (info_of pool_hello_b) /\
             recorded_for st 1%nat = Some (info_of pool_hello_a).
Proof. vm_compute. eexists. repeat split. Qed.

(* ------------------------------------------------------------------------------------------ *)
(* FastCGI over short reads                                                                    *)
(* ------------------------------------------------------------------------------------------ *)
Lemma read_full_spec : forall segs n acc,
  let w := concat segs in
  if (n <=? length w)%nat
  then exists segs', read_full segs n acc = (acc ++ firstn n w, segs', 0) /\ concat segs' = skipn n w
  else read_full segs n acc = (acc ++ w, [], if (length (acc ++ w) =? 0)%nat then 1 else 2).
Proof.
  induction segs as [|s r IH]; intros n acc; cbn [concat].
  - destruct n as [|n]; cbn [read_full length Nat.leb].
    + exists []. rewrite app_nil_r. split; reflexivity.
    + rewrite app_nil_r. destruct acc; reflexivity.
  - destruct n as [|n].
    + cbn [Nat.leb read_full firstn skipn]. exists (s :: r). rewrite app_nil_r. split; reflexivity.
    + cbn [read_full]. rewrite app_length.
      destruct (S n <=? length s)%nat eqn:Es.
      * apply Nat.leb_le in Es.
        replace (S n <=? length s + length (concat r))%nat with true by (symmetry; apply Nat.leb_le; lia).
        eexists. split.
        -- rewrite firstn_app. replace (S n - length s)%nat with 0%nat by lia.
           cbn [firstn]. rewrite app_nil_r. reflexivity.
        -- rewrite skipn_app. replace (S n - length s)%nat with 0%nat by lia. rewrite skipn_O.
           destruct (S n <? length s)%nat eqn:El; [reflexivity|].
           apply Nat.ltb_ge in El. rewrite skipn_all2 by lia. reflexivity.
      * apply Nat.leb_gt in Es. specialize (IH (S n - length s)%nat (acc ++ s)).
        cbv zeta in IH.
        destruct (S n - length s <=? length (concat r))%nat eqn:Er.
        -- apply Nat.leb_le in Er.
           replace (S n <=? length s + length (concat r))%nat with true by (symmetry; apply Nat.leb_le; lia).
           destruct IH as (segs' & A & B). exists segs'. split.
           ++ rewrite A. rewrite (firstn_app (S n) s), (firstn_all2 s) by lia. now rewrite <- app_assoc.
           ++ rewrite B. rewrite (skipn_app (S n) s), (skipn_all2 s) by lia. reflexivity.
        -- apply Nat.leb_gt in Er.
           replace (S n <=? length s + length (concat r))%nat with false by (symmetry; apply Nat.leb_gt; lia).
           rewrite IH. now rewrite <- !app_assoc.
Qed.

Lemma nth_error_firstn_lt {A} (l : list A) : forall n i, (i < n)%nat -> nth_error (firstn n l) i = nth_error l i.
Proof.
  induction l as [|x l IH]; intros n i H; [now rewrite firstn_nil|].
  destruct n as [|n]; [lia|]. destruct i as [|i]; [reflexivity|]. cbn. apply IH. lia.
Qed.

Lemma slice_repeat n : slice (repeat 0 n) 0 n = Ok (repeat 0 n).
Proof.
  rewrite slice_ok by (rewrite ?repeat_length; lia).
  cbn [skipn]. rewrite Nat.sub_0_r. rewrite <- (repeat_length 0 n) at 1. now rewrite firstn_all.
Qed.

(* record.read over short reads = record.read on the concatenation, for EVERY segmentation of
   EVERY byte string *)
Lemma record_read_seg_flat segs :
  match record_read (concat segs) with
  | Ok (RErr e) => record_read_seg false segs = Ok (SErr e)
  | Ok (RRec t c rest) => exists segs', record_read_seg false segs = Ok (SRec t c segs') /\ concat segs' = rest
  | Panic => False
  end.
Proof.
  set (s := concat segs). unfold record_read, record_read_seg.
  pose proof (read_full_spec segs 8 []) as H8. cbv zeta in H8. fold s in H8.
  destruct (length s =? 0)%nat eqn:E0.
  { apply Nat.eqb_eq in E0. replace (8 <=? length s)%nat with false in H8 by (symmetry; apply Nat.leb_gt; lia).
    rewrite H8. cbn [app]. rewrite E0. reflexivity. }
  apply Nat.eqb_neq in E0.
  destruct (length s <? 8)%nat eqn:E8.
  { apply Nat.ltb_lt in E8. replace (8 <=? length s)%nat with false in H8 by (symmetry; apply Nat.leb_gt; lia).
    rewrite H8. cbn [app]. replace (length s =? 0)%nat with false by (symmetry; apply Nat.eqb_neq; lia). reflexivity. }
  apply Nat.ltb_ge in E8.
  replace (8 <=? length s)%nat with true in H8 by (symmetry; apply Nat.leb_le; lia).
  destruct H8 as (segs1 & Hr & Hc1). rewrite Hr. cbn [app N.eqb negb].
  assert (Hi : forall i, (i < 8)%nat -> idx (firstn 8 s) i = idx s i).
  { intros i Hi. unfold idx. now rewrite nth_error_firstn_lt by exact Hi. }
  rewrite !Hi by lia.
  ok_idx s 0%nat. ok_idx s 1%nat. ok_idx s 4%nat. ok_idx s 5%nat. ok_idx s 6%nat.
  ok_from s 8%nat.
  destruct (negb (v =? 1)); [reflexivity|].
  destruct (v0 =? 3); [reflexivity|].
  set (cl := N.to_nat (u16 v1 v2)). set (n := (cl + N.to_nat v3)%nat).
  rewrite slice_repeat. cbn [rbind]. rewrite repeat_length.
  pose proof (read_full_spec segs1 n []) as Hn. cbv zeta in Hn. rewrite Hc1 in Hn.
  set (body := skipn 8 s) in *.
  destruct (n =? 0)%nat eqn:En0.
  { apply Nat.eqb_eq in En0. rewrite En0 in *. cbn [Nat.leb] in Hn.
    destruct Hn as (segs2 & A & B). rewrite A. cbn [app firstn N.eqb negb].
    assert (cl = 0%nat) by lia. replace cl with 0%nat. cbn [slice Nat.leb length andb Nat.sub firstn skipn rbind].
    exists segs2. split; [reflexivity|]. now rewrite B. }
  apply Nat.eqb_neq in En0.
  destruct (length body =? 0)%nat eqn:Eb0.
  { apply Nat.eqb_eq in Eb0. replace (n <=? length body)%nat with false in Hn by (symmetry; apply Nat.leb_gt; lia).
    rewrite Hn. cbn [app]. rewrite Eb0. reflexivity. }
  apply Nat.eqb_neq in Eb0.
  destruct (length body <? n)%nat eqn:Ebn.
  { apply Nat.ltb_lt in Ebn. replace (n <=? length body)%nat with false in Hn by (symmetry; apply Nat.leb_gt; lia).
    rewrite Hn. cbn [app]. replace (length body =? 0)%nat with false by (symmetry; apply Nat.eqb_neq; lia). reflexivity. }
  apply Nat.ltb_ge in Ebn.
  replace (n <=? length body)%nat with true in Hn by (symmetry; apply Nat.leb_le; lia).
  destruct Hn as (segs2 & A & B). rewrite A. cbn [app N.eqb negb].
  ok_slice body 0%nat n. ok_from body n. cbn [skipn]. rewrite Nat.sub_0_r.
  assert (Hfl : length (firstn n body) = n) by (rewrite firstn_length; lia).
  rewrite slice_ok by lia. cbn [rbind]. exists segs2. split; [reflexivity|exact B].
Qed.

Lemma stream_read_seg_flat fuel : forall segs,
  (length (concat segs) < fuel)%nat ->
  stream_read_seg false fuel segs = stream_read fuel (concat segs).
Proof.
  induction fuel as [|fuel IH]; intros segs Hf; [lia|]. cbn [stream_read_seg stream_read].
  pose proof (record_read_seg_flat segs) as H.
  destruct (record_read_ok (concat segs)) as (r & Hr & Hrest). rewrite Hr in *. cbn [rbind].
  destruct r as [e|t c rest].
  - rewrite H. reflexivity.
  - destruct H as (segs' & A & B). rewrite A. cbn [rbind].
    specialize (Hrest t c rest eq_refl).
    rewrite IH by (rewrite B; lia). now rewrite B.
Qed.

(* the stream reader over ANY read segmentation of ANY byte string = the reader on the bytes *)
Lemma stream_segs_flat segs : stream_read_segs false segs = stream_read_all (concat segs).
Proof. unfold stream_read_segs, stream_read_all. apply stream_read_seg_flat. lia. Qed.

Lemma stream_segs_no_panic segs : stream_read_segs false segs <> Panic.
Proof. rewrite stream_segs_flat. apply stream_read_no_panic. Qed.

Lemma stream_segs_decodes rs (closed : bool) segs : forallb frec_wf rs = true ->
  concat segs = flat_map enc_rec rs ++ (if closed then [] else end_request) ->
  stream_read_segs false segs = Ok (stdout_of rs, 1).
Proof. intros Hwf Hc. rewrite stream_segs_flat, Hc. now apply stream_decodes. Qed.

(* record.read consumes exactly 8 + ContentLength + PaddingLength bytes (the sum taken in int:
   up to 65535 + 255) and returns exactly ContentLength of them *)
Lemma record_read_consumes s t c rest : record_read s = Ok (RRec t c rest) ->
  exists pre pad, s = pre ++ c ++ pad ++ rest /\ length pre = 8%nat /\
    length c = N.to_nat (u16 (nth 4 s 0) (nth 5 s 0)) /\ length pad = N.to_nat (nth 6 s 0).
Proof.
  unfold record_read.
  destruct (length s =? 0)%nat; [discriminate|].
  destruct (length s <? 8)%nat eqn:E8; [discriminate|]. apply Nat.ltb_ge in E8.
  rewrite !idx_nth by lia. cbn [rbind]. rewrite slice_from_ok by lia. cbn [rbind].
  destruct (negb (nth 0 s 0 =? 1)); [discriminate|].
  destruct (nth 1 s 0 =? 3); [discriminate|].
  set (cl := N.to_nat (u16 (nth 4 s 0) (nth 5 s 0))). set (pl := N.to_nat (nth 6 s 0)).
  set (body := skipn 8 s).
  assert (Hs : s = firstn 8 s ++ body) by (symmetry; apply firstn_skipn).
  assert (Hp : length (firstn 8 s) = 8%nat) by (rewrite firstn_length; lia).
  destruct (cl + pl =? 0)%nat eqn:En0.
  { apply Nat.eqb_eq in En0. intro H. injection H as <- <- <-.
    exists (firstn 8 s), []. cbn [app length]. repeat split; auto; lia. }
  destruct (length body =? 0)%nat; [discriminate|].
  destruct (length body <? cl + pl)%nat eqn:Eb; [discriminate|]. apply Nat.ltb_ge in Eb.
  rewrite slice_ok by lia. cbn [rbind]. rewrite slice_from_ok by lia. cbn [rbind skipn].
  rewrite Nat.sub_0_r.
  assert (Hfl : length (firstn (cl + pl) body) = (cl + pl)%nat) by (rewrite firstn_length; lia).
  rewrite slice_ok by lia. cbn [rbind skipn]. rewrite Nat.sub_0_r.
  intro H. injection H as <- <- <-.
  exists (firstn 8 s), (skipn cl (firstn (cl + pl) body)).
  rewrite firstn_firstn. replace (Nat.min cl (cl + pl)) with cl by lia.
  repeat split; auto.
  - rewrite Hs at 1. f_equal.
    rewrite <- (firstn_skipn (cl + pl) body) at 1. rewrite app_assoc. f_equal.
    rewrite <- (firstn_skipn cl (firstn (cl + pl) body)) at 1.
    rewrite firstn_firstn. replace (Nat.min cl (cl + pl)) with cl by lia. reflexivity.
  - rewrite firstn_length. lia.
  - rewrite skipn_length, Hfl. lia.
Qed.

(* the uint16-wrapped sum (seeded C19-m2 / C19-m4) panics on a record a backend can send:
   ContentLength 65535, PaddingLength 1 *)
Definition wrap_witness : bytes := [1; 6; 0; 1; 255; 255; 1; 0] ++ rep 97 65535 ++ [0].
Definition reads_whole (r : res srec_result) (typ : N) (content : bytes) : bool :=
  match r with
  | Ok (SRec t c rest) => (t =? typ) && beq c content && (length (concat rest) =? 0)%nat
  | _ => false
  end.
Lemma wrapped_sum_panics :
  is_panic (record_read_seg true [wrap_witness]) = true /\
  reads_whole (record_read_seg false [wrap_witness]) 6 (rep 97 65535) = true.
Proof. split; vm_compute; reflexivity. Qed.

(* ------------------------------------------------------------------------------------------ *)
(* {labelN} on a peer-supplied Host                                                            *)
(* ------------------------------------------------------------------------------------------ *)
Lemma label_subst_ok host nstr : exists r, label_subst host nstr = Ok r.
Proof.
  unfold label_subst. destruct (atoi nstr) as [n|]; [|eauto].
  destruct (n <? 1)%Z eqn:E1; [eauto|]. apply Z.ltb_ge in E1.
  destruct (Z.of_nat (length (split 46 host)) <? n)%Z eqn:E2; [eauto|]. apply Z.ltb_ge in E2.
  ok_idx (split 46 host) (Z.to_nat (n - 1)). eauto.
Qed.

Lemma label_subst_no_panic host nstr : label_subst host nstr <> Panic.
Proof. destruct (label_subst_ok host nstr) as [r ->]. discriminate. Qed.

(* ------------------------------------------------------------------------------------------ *)
(* X-Forwarded-For folding: whatever the peer put into the header, the LAST element of the      *)
(* forwarded value is the address of the connection                                            *)
(* ------------------------------------------------------------------------------------------ *)
Lemma split_on_nosep sep : forall s cur, ~ In sep s -> split_on sep s cur = [rev cur ++ s].
Proof.
  induction s as [|c s IH]; intros cur Hn; cbn [split_on].
  - now rewrite app_nil_r.
  - destruct (c =? sep) eqn:E; [apply N.eqb_eq in E; subst; exfalso; apply Hn; now left|].
    rewrite IH by (intro H; apply Hn; now right). cbn [rev]. now rewrite <- app_assoc.
Qed.

Lemma split_on_app_sep sep b : forall a cur,
  exists l, split_on sep (a ++ sep :: b) cur = l ++ split_on sep b [].
Proof.
  induction a as [|c a IH]; intro cur; cbn [app split_on].
  - rewrite N.eqb_refl. exists [rev cur]. reflexivity.
  - destruct (c =? sep).
    + destruct (IH []) as [l Hl]. exists (rev cur :: l). now rewrite Hl.
    + apply IH.
Qed.

Lemma last_app_nonempty {A} (l l' : list A) d : l' <> [] -> last (l ++ l') d = last l' d.
Proof.
  intro H. induction l as [|x l IH]; [reflexivity|].
  cbn [app]. destruct (l ++ l') eqn:E; [|rewrite <- E in *; cbn [last]; rewrite E; rewrite <- E; exact IH].
  destruct l; [cbn in E; congruence|discriminate].
Qed.

Lemma xff_last_is_ip prior ip :
  ~ In COMMA ip ->
  last (split COMMA (xff_fold prior ip)) [] = match prior with None => ip | Some _ => 32 :: ip end.
Proof.
  intro Hn. destruct prior as [p|]; unfold xff_fold, split.
  - unfold comma_sp. change ([44; 32] ++ ip) with (COMMA :: (32 :: ip)).
    destruct (split_on_app_sep COMMA (32 :: ip) (join [44; 32] p) []) as [l ->].
    rewrite split_on_nosep.
    + rewrite last_app_nonempty by discriminate. reflexivity.
    + intros [H|H]; [discriminate|contradiction].
  - rewrite split_on_nosep by exact Hn. reflexivity.
Qed.

(* ------------------------------------------------------------------------------------------ *)
(* findIncompleteRuneLength                                                                    *)
(* ------------------------------------------------------------------------------------------ *)
Lemma firl_loop_ok p len : forall steps start, (start < length p)%nat -> (start < len)%nat ->
  exists r, firl_loop p len start steps = Ok r /\ (r <= 3)%nat /\ (r <= len)%nat.
Proof.
  induction steps as [|k IH]; intros start Hs Hl; cbn [firl_loop].
  - exists 0%nat. repeat split; lia.
  - ok_idx p start.
    destruct (v / 32 =? 6).
    { destruct (2 <=? len - start)%nat eqn:E2; eexists; (split; [reflexivity|]); lia. }
    destruct (v / 16 =? 14).
    { destruct (3 <=? len - start)%nat eqn:E2; eexists; (split; [reflexivity|]);
        [lia|apply Nat.leb_gt in E2; lia]. }
    destruct (v / 8 =? 30).
    { destruct (4 <=? len - start)%nat eqn:E2; eexists; (split; [reflexivity|]);
        [lia|apply Nat.leb_gt in E2; lia]. }
    destruct start as [|s']; [exists 0%nat; repeat split; lia|].
    apply IH; lia.
Qed.

(* total whenever length <= len(p) (the caller passes the number of bytes it has in [out]); the
   result is at most 3 and at most length, so out[len-remainLen:len] and out[0:len-remainLen]
   are in range *)
Lemma firl_ok p len : (len <= length p)%nat ->
  exists r, find_incomplete_rune_length p len = Ok r /\ (r <= 3)%nat /\ (r <= len)%nat.
Proof.
  intro H. unfold find_incomplete_rune_length.
  destruct (len =? 0)%nat eqn:E0; [exists 0%nat; repeat split; lia|]. apply Nat.eqb_neq in E0.
  ok_idx p (len - 1)%nat.
  destruct (v <? 128); [exists 0%nat; repeat split; lia|].
  apply firl_loop_ok; lia.
Qed.
