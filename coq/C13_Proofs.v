(* C13 — proofs about the model in C13_Model.v *)
Require Import V.Lib V.GoPath V.C13_Model.
Require V.Gen_C20 V.C19_Model V.C20_Model V.C20_Proofs.
From Coq Require Import Permutation ZifyBool ZifyN ZifyNat.
Open Scope list_scope.
Open Scope N_scope.

Ltac Zify.zify_post_hook ::= Z.div_mod_to_equations.

(* ---------- small list / length facts ---------- *)
Lemma len_app a b : len (a ++ b) = len a + len b.
Proof. unfold len. rewrite app_length. lia. Qed.
Lemma len_nil : len [] = 0. Proof. reflexivity. Qed.
Lemma len_cons x a : len (x :: a) = 1 + len a.
Proof. unfold len. simpl length. lia. Qed.
Lemma to_nat_len a : N.to_nat (len a) = length a.
Proof. unfold len. lia. Qed.
Lemma len_repeat (x : N) n : len (repeat x n) = N.of_nat n.
Proof. unfold len. rewrite repeat_length. reflexivity. Qed.
Lemma len_firstn_le n (a : bytes) : len (firstn n a) <= len a.
Proof. unfold len. rewrite firstn_length. lia. Qed.

Lemma firstn_exact {A} (a b : list A) : firstn (length a) (a ++ b) = a.
Proof. rewrite firstn_app, Nat.sub_diag, firstn_all. simpl. apply app_nil_r. Qed.
Lemma skipn_exact {A} (a b : list A) : skipn (length a) (a ++ b) = b.
Proof. rewrite skipn_app, Nat.sub_diag, skipn_all. reflexivity. Qed.
Lemma firstn_exact' {A} n (a b : list A) : n = length a -> firstn n (a ++ b) = a.
Proof. intros ->. apply firstn_exact. Qed.
Lemma skipn_exact' {A} n (a b : list A) : n = length a -> skipn n (a ++ b) = b.
Proof. intros ->. apply skipn_exact. Qed.

(* ================= size encoding ================= *)
Lemma encode_size_len n : len (encode_size n) = if n <=? 127 then 1 else 4.
Proof. unfold encode_size. destruct (n <=? 127); reflexivity. Qed.

Lemma size_roundtrip n rest :
  n < 2147483648 -> decode_size (encode_size n ++ rest) = Some (n, rest).
Proof.
  intros Hn. unfold encode_size.
  destruct (n <=? 127) eqn:H127.
  - simpl. assert (n <? 128 = true) as -> by lia. reflexivity.
  - assert (n <? 2147483648 = true) as -> by lia.
    set (m := n + 2147483648).
    cbn [app decode_size].
    assert (Hb0 : (m / 16777216) mod 256 <? 128 = false) by (unfold m; lia).
    rewrite Hb0. f_equal. f_equal. unfold m. lia.
Qed.

(* a 4-byte size always has its top bit set, a 1-byte size never: the two forms cannot be confused *)
Lemma encode_size_bytes_lt n b : In b (encode_size n) -> b < 256.
Proof.
  unfold encode_size. destruct (n <=? 127) eqn:H.
  - intros [<-|[]]. lia.
  - simpl. intros [<-|[<-|[<-|[<-|[]]]]]; apply N.mod_lt; discriminate.
Qed.

(* ================= records ================= *)
Lemma pad_of_lt n : pad_of n < 8.
Proof. unfold pad_of. lia. Qed.
Lemma pad_of_mult n : (n + pad_of n) mod 8 = 0.
Proof. unfold pad_of. lia. Qed.

Lemma write_record_len ty id c : len (write_record ty id c) = 8 + len c + pad_of (len c).
Proof.
  unfold write_record, header. rewrite !len_app, len_repeat. unfold len at 1. simpl length. lia.
Qed.

Lemma write_record_aligned ty id c : len (write_record ty id c) mod 8 = 0.
Proof. rewrite write_record_len. pose proof (pad_of_mult (len c)). lia. Qed.

Lemma parse_write_record ty id c rest :
  ty < 256 -> id < 65536 -> len c <= 65535 ->
  parse_record (write_record ty id c ++ rest) = Some (ty, id, c, rest).
Proof.
  intros Hty Hid Hc. unfold write_record, header. cbn [app parse_record].
  rewrite N.eqb_refl.
  set (n := 256 * ((len c / 256) mod 256) + len c mod 256).
  assert (Hn : n = len c) by (unfold n; lia).
  rewrite Hn, <- app_assoc, !len_app, len_repeat, N2Nat.id.
  assert (len c + pad_of (len c) <=? len c + (pad_of (len c) + len rest) = true) as -> by lia.
  f_equal. f_equal; [f_equal; [f_equal; lia|]|].
  - apply firstn_exact'. apply to_nat_len.
  - rewrite app_assoc. apply skipn_exact'.
    rewrite app_length, repeat_length, <- to_nat_len. lia.
Qed.

Lemma maxw_pos : (0 < N.to_nat MAXW)%nat.
Proof. unfold MAXW. lia. Qed.

(* ================= chunking ================= *)
Lemma chunks_f_concat fuel n (l : bytes) :
  (0 < n)%nat -> (length l <= fuel)%nat -> concat (chunks_f fuel n l) = l.
Proof.
  intros Hn. revert l. induction fuel as [|f IH]; intros l Hl.
  - destruct l; [reflexivity | simpl in Hl; lia].
  - destruct l as [|x l']; [reflexivity|].
    cbn [chunks_f concat]. rewrite IH.
    + apply firstn_skipn.
    + rewrite skipn_length. simpl length in *. lia.
Qed.

Lemma chunks_f_bounds fuel n (l : bytes) :
  (0 < n)%nat -> forall c, In c (chunks_f fuel n l) -> c <> [] /\ (length c <= n)%nat.
Proof.
  intros Hn. revert l. induction fuel as [|f IH]; intros l c Hc; [contradiction|].
  destruct l as [|x l']; [contradiction|].
  cbn [chunks_f] in Hc. destruct Hc as [<- | Hc].
  - split.
    + destruct n; [lia|]. discriminate.
    + rewrite firstn_length. lia.
  - eapply IH; eauto.
Qed.

Lemma chunks_concat n l : (0 < n)%nat -> concat (chunks n l) = l.
Proof. intros; apply chunks_f_concat; auto. Qed.

(* ================= reading a stream of records back ================= *)
Lemma read_stream_f_records ty id :
  ty < 256 -> id < 65536 ->
  forall (cs : list bytes) fuel acc rest,
  (forall c, In c cs -> c <> [] /\ len c <= 65535) ->
  (length cs < fuel)%nat ->
  read_stream_f fuel ty id (concat (map (write_record ty id) cs) ++ write_record ty id [] ++ rest) acc
  = Some (concat (rev acc) ++ concat cs, rest).
Proof.
  intros Hty Hid cs. induction cs as [|c cs IH]; intros fuel acc rest Hcs Hfuel.
  - destruct fuel; [simpl in Hfuel; lia|].
    cbn [map concat app read_stream_f].
    rewrite parse_write_record by (auto; rewrite len_nil; lia).
    rewrite !N.eqb_refl. cbn. rewrite app_nil_r. reflexivity.
  - destruct fuel; [simpl in Hfuel; lia|].
    cbn [map concat read_stream_f]. rewrite <- app_assoc.
    destruct (Hcs c (or_introl eq_refl)) as [Hne Hle].
    rewrite parse_write_record by auto.
    rewrite !N.eqb_refl. cbn [andb].
    destruct c as [|x c']; [congruence|].
    rewrite IH.
    + cbn [rev]. rewrite concat_app. cbn [concat]. rewrite app_nil_r, <- app_assoc. reflexivity.
    + intros c0 Hc0. apply Hcs. right; exact Hc0.
    + simpl length in Hfuel. lia.
Qed.

Lemma records_total_len ty id (cs : list bytes) :
  (length cs <= length (concat (map (write_record ty id) cs)))%nat.
Proof.
  induction cs as [|c cs IH]; [simpl; lia|].
  cbn [map concat]. rewrite app_length. simpl length.
  pose proof (write_record_len ty id c) as H. unfold len in H. lia.
Qed.

Lemma read_stream_records ty id (cs : list bytes) rest :
  ty < 256 -> id < 65536 ->
  (forall c, In c cs -> c <> [] /\ len c <= 65535) ->
  read_stream ty id (concat (map (write_record ty id) cs) ++ write_record ty id [] ++ rest)
  = Some (concat cs, rest).
Proof.
  intros Hty Hid Hcs. unfold read_stream.
  rewrite (read_stream_f_records ty id Hty Hid cs _ [] rest Hcs).
  - reflexivity.
  - rewrite app_length. pose proof (records_total_len ty id cs). lia.
Qed.

Lemma stream_roundtrip ty id data rest :
  ty < 256 -> id < 65536 ->
  read_stream ty id (stream_wire ty id data ++ rest) = Some (data, rest).
Proof.
  intros Hty Hid. unfold stream_wire. rewrite <- app_assoc.
  rewrite read_stream_records; auto.
  - rewrite chunks_concat; [reflexivity|]. apply maxw_pos.
  - intros c Hc. unfold chunks in Hc.
    apply chunks_f_bounds in Hc; [|apply maxw_pos].
    destruct Hc as [Hne Hle]. split; [exact Hne|].
    unfold len, MAXW in *. lia.
Qed.

(* every record of a stream carries at most 65500 content bytes and only the last is empty *)
Lemma stream_chunks_bounds data c :
  In c (chunks (N.to_nat MAXW) data) -> c <> [] /\ len c <= MAXW.
Proof.
  intros Hc. unfold chunks in Hc. apply chunks_f_bounds in Hc; [|apply maxw_pos].
  destruct Hc as [Hne Hle]. split; [exact Hne|]. unfold len, MAXW in *. lia.
Qed.

(* ================= name-value pairs ================= *)
Lemma encode_pair_len kv :
  len (encode_pair kv) = len (encode_size (len (fst kv))) + len (encode_size (len (snd kv))) + len (fst kv) + len (snd kv).
Proof. unfold encode_pair. rewrite !len_app. lia. Qed.

Lemma encode_pair_bounds kv : 2 + len (fst kv) + len (snd kv) <= len (encode_pair kv) <= 8 + len (fst kv) + len (snd kv).
Proof.
  rewrite encode_pair_len, !encode_size_len.
  destruct (len (fst kv) <=? 127), (len (snd kv) <=? 127); lia.
Qed.

Lemma encode_pair_nonempty kv : encode_pair kv <> [].
Proof.
  intros H. pose proof (encode_pair_bounds kv) as B. rewrite H in B. rewrite len_nil in B. lia.
Qed.

Lemma decode_pairs_f_ok ps : forall fuel,
  (forall kv, In kv ps -> len (fst kv) < 2147483648 /\ len (snd kv) < 2147483648) ->
  (length ps <= fuel)%nat ->
  decode_pairs_f fuel (concat (map encode_pair ps)) = Some ps.
Proof.
  induction ps as [|[k v] ps IH]; intros fuel Hlt Hfuel.
  - destruct fuel; reflexivity.
  - destruct fuel; [simpl in Hfuel; lia|].
    destruct (Hlt (k, v) (or_introl eq_refl)) as [Hk Hv]. cbn [fst snd] in Hk, Hv.
    cbn [map concat]. unfold encode_pair at 1. cbn [fst snd].
    rewrite <- !app_assoc.
    cbn [decode_pairs_f].
    destruct (encode_size (len k) ++ encode_size (len v) ++ k ++ v ++ concat (map encode_pair ps)) eqn:Hw.
    { exfalso. destruct (encode_size (len k)) eqn:He; [|discriminate].
      pose proof (encode_size_len (len k)) as HL. rewrite He, len_nil in HL.
      destruct (len k <=? 127); lia. }
    rewrite <- Hw. clear Hw.
    rewrite size_roundtrip by exact Hk.
    rewrite size_roundtrip by exact Hv.
    rewrite !len_app.
    assert (len k + len v <=? len k + (len v + len (concat (map encode_pair ps))) = true) as -> by lia.
    rewrite !to_nat_len, firstn_exact, skipn_exact, firstn_exact, skipn_exact.
    rewrite IH.
    + reflexivity.
    + intros kv Hkv. apply Hlt. right; exact Hkv.
    + simpl length in Hfuel. lia.
Qed.

Lemma concat_pairs_len ps : (length ps <= length (concat (map encode_pair ps)))%nat.
Proof.
  induction ps as [|kv ps IH]; [simpl; lia|].
  cbn [map concat]. rewrite app_length. simpl length.
  pose proof (encode_pair_bounds kv) as B. unfold len in B. lia.
Qed.

Lemma pairs_roundtrip ps :
  (forall kv, In kv ps -> len (fst kv) < 2147483648 /\ len (snd kv) < 2147483648) ->
  decode_pairs (concat (map encode_pair ps)) = Some ps.
Proof.
  intros H. unfold decode_pairs. apply decode_pairs_f_ok; auto. apply concat_pairs_len.
Qed.

(* the grouping into records neither loses nor reorders bytes, never makes an empty record and
   never exceeds 65500 bytes of content *)
Lemma flush_concat cur : concat (flush cur) = concat (rev cur).
Proof. unfold flush. apply chunks_concat, maxw_pos. Qed.

Lemma flush_bounds cur g : In g (flush cur) -> g <> [] /\ len g <= MAXW.
Proof. unfold flush. apply stream_chunks_bounds. Qed.

Lemma group_concat es : forall nn cur, concat (group es nn cur) = concat (rev cur) ++ concat es.
Proof.
  induction es as [|e es IH]; intros nn cur; cbn [group].
  - rewrite flush_concat, app_nil_r. reflexivity.
  - destruct (MAXW <? nn + len e).
    + rewrite concat_app, flush_concat, IH. cbn [rev concat app]. rewrite app_nil_r. reflexivity.
    + rewrite IH. cbn [rev]. rewrite concat_app. cbn [concat]. rewrite app_nil_r, <- app_assoc. reflexivity.
Qed.

(* whatever the sizes of the pairs *)
Lemma group_bounds es : forall nn cur g, In g (group es nn cur) -> g <> [] /\ len g <= MAXW.
Proof.
  induction es as [|e es IH]; intros nn cur g Hg; cbn [group] in Hg.
  - apply flush_bounds in Hg. exact Hg.
  - destruct (MAXW <? nn + len e).
    + apply in_app_or in Hg as [Hg|Hg]; [apply flush_bounds in Hg; exact Hg | eapply IH; exact Hg].
    + eapply IH; exact Hg.
Qed.

(* pairs that fit a single record are not cut *)
Lemma trunc_all_id ps :
  (forall kv, In kv ps -> fits kv = true) -> trunc_all ps = Ok ps.
Proof.
  induction ps as [|[k v] ps IH]; intros H; [reflexivity|].
  cbn [trunc_all trunc_pair].
  pose proof (H (k, v) (or_introl eq_refl)) as Hkv. unfold fits in Hkv.
  assert (MAXW <? len (encode_pair (k, v)) = false) as -> by lia.
  cbn [rbind]. rewrite IH; [reflexivity|]. intros kv Hin. apply H. right; exact Hin.
Qed.

Lemma params_roundtrip ps rest w :
  (forall kv, In kv ps -> fits kv = true) ->
  params_wire 1 ps = Ok w ->
  exists pb, read_stream T_PARAMS 1 (w ++ rest) = Some (pb, rest) /\ decode_pairs pb = Some ps.
Proof.
  intros Hfit Hw. unfold params_wire, params_records in Hw.
  rewrite trunc_all_id in Hw by exact Hfit. cbn [rbind] in Hw. injection Hw as <-.
  exists (concat (map encode_pair ps)). split.
  - rewrite <- app_assoc. rewrite read_stream_records.
    + rewrite group_concat. reflexivity.
    + vm_compute; reflexivity.
    + vm_compute; reflexivity.
    + intros c Hc. apply group_bounds in Hc.
      destruct Hc as [Hne Hle]. split; [exact Hne|]. unfold MAXW in Hle. lia.
  - apply pairs_roundtrip. intros kv Hkv. specialize (Hfit kv Hkv). unfold fits in Hfit.
    pose proof (encode_pair_bounds kv). unfold MAXW in Hfit. lia.
Qed.

(* ---- the whole request ---- *)
Definition body_bytes (b : option bytes) : bytes := match b with Some x => x | None => [] end.

Lemma begin_parse rest :
  parse_record (begin_record 1 ++ rest) = Some (T_BEGIN, 1, [0; 1; 0; 0; 0; 0; 0; 0], rest).
Proof.
  unfold begin_record. apply parse_write_record; vm_compute; try reflexivity; discriminate.
Qed.

Lemma responder_receive_begin w1 :
  responder_receive (begin_record 1 ++ w1) =
  match read_stream T_PARAMS 1 w1 with
  | Some (pb, w2) =>
      match decode_pairs pb, read_stream T_STDIN 1 w2 with
      | Some ps, Some (body, []) => Some (1, 0, ps, body)
      | _, _ => None
      end
  | None => None
  end.
Proof.
  pose proof (begin_parse w1) as H. unfold responder_receive.
  destruct (parse_record (begin_record 1 ++ w1)) as [[[[t i] c] r]|]; [|discriminate].
  injection H as -> -> -> ->. reflexivity.
Qed.

Lemma request_roundtrip ps body w :
  (forall kv, In kv ps -> fits kv = true) ->
  request_wire ps body = Ok w ->
  responder_receive w = Some (1, 0, ps, body_bytes body).
Proof.
  intros Hfit Hw. unfold request_wire in Hw.
  destruct (params_wire 1 ps) as [pw|] eqn:Hpw; [|discriminate].
  assert (Hw' : w = begin_record 1 ++ pw ++ stream_wire T_STDIN 1 (body_bytes body)).
  { change (Ok (begin_record 1 ++ pw ++ stream_wire T_STDIN 1 (body_bytes body)) = Ok w) in Hw. congruence. }
  rewrite Hw'. clear Hw Hw'.
  rewrite responder_receive_begin.
  destruct (params_roundtrip ps (stream_wire T_STDIN 1 (body_bytes body)) pw Hfit Hpw) as (pb & Hrs & Hdp).
  rewrite Hrs, Hdp.
  rewrite <- (app_nil_r (stream_wire _ _ _)).
  rewrite stream_roundtrip by (vm_compute; reflexivity).
  reflexivity.
Qed.

(* the pair that refuted the statement for the unrepaired code (10-byte name, 65485-byte value:
   the encoding is exactly 65500 bytes, 8+len(k)+len(v) is 65503) *)
Definition wit_k : bytes := repeat 75 10.
Definition wit_v : bytes := repeat 118 (N.to_nat 65485).
Lemma wit_fits : fits (wit_k, wit_v) = true /\ MAXW < 8 + len wit_k + len wit_v.
Proof. split; vm_compute; reflexivity. Qed.

(* ================= response side ================= *)
Definition valid_rec (r : N * bytes * N) : Prop :=
  let '(ty, c, pad) := r in ty < 256 /\ ty <> T_END /\ len c <= 65535 /\ pad <= 255.

Lemma slice_0 {A} (l : list A) n : (n <= length l)%nat -> slice l 0 n = Ok (firstn n l).
Proof.
  intros H. unfold slice. cbn [Nat.leb andb skipn].
  apply Nat.leb_le in H. rewrite H. rewrite Nat.sub_0_r. reflexivity.
Qed.

Lemma record_read_enc ty c pad rest :
  valid_rec (ty, c, pad) -> record_read (enc_rec (ty, c, pad) ++ rest) = Ok (RRec ty c rest).
Proof.
  intros (Hty & Hne & Hc & Hpad). unfold enc_rec. cbn [app record_read].
  change (negb (1 =? 1)) with false. cbv iota.
  assert (ty =? T_END = false) as -> by (apply N.eqb_neq; exact Hne).
  set (cl := 256 * ((len c / 256) mod 256) + len c mod 256).
  assert (Hcl : cl = len c) by (unfold cl; lia). rewrite Hcl. clear cl Hcl.
  rewrite <- app_assoc.
  set (R := c ++ repeat 170 (N.to_nat pad) ++ rest).
  assert (HlenR : len R = len c + pad + len rest).
  { unfold R. rewrite !len_app, len_repeat. lia. }
  destruct R as [|x R'] eqn:HR.
  - assert (len c + pad =? 0 = true) as -> by (rewrite len_nil in HlenR; lia).
    destruct c; [|discriminate]. destruct (N.to_nat pad) eqn:Hp; [|discriminate].
    cbn in HR. subst rest. reflexivity.
  - rewrite <- HR in *. clear HR.
    assert (len R <? len c + pad = false) as -> by lia.
    rewrite slice_0 by (unfold len in *; lia). cbn [rbind].
    rewrite slice_0.
    2:{ rewrite firstn_length. unfold len in *. lia. }
    cbn [rbind]. f_equal. f_equal.
    + rewrite firstn_firstn. replace (Nat.min (N.to_nat (len c)) (N.to_nat (len c + pad))) with (length c) by (unfold len; lia).
      unfold R. apply firstn_exact.
    + unfold R. rewrite app_assoc. apply skipn_exact'.
      rewrite app_length, repeat_length. unfold len. lia.
Qed.

Lemma record_read_end rest :
  exists rest', record_read (enc_rec end_rec ++ rest) = Ok (RErr REOF rest').
Proof. eexists. unfold enc_rec, end_rec. cbn. reflexivity. Qed.

Lemma record_read_no_panic conn : exists r, record_read conn = Ok r.
Proof.
  unfold record_read.
  destruct conn as [|v [|ty [|i1 [|i2 [|ch [|cl [|pad [|rs rest]]]]]]]]; try (eexists; reflexivity).
  destruct (negb (v =? 1)); [eexists; reflexivity|].
  destruct (ty =? T_END); [eexists; reflexivity|].
  set (c := 256 * ch + cl). set (n := c + pad).
  destruct rest as [|x rest'] eqn:Hrest.
  - destruct (n =? 0); eexists; reflexivity.
  - rewrite <- Hrest. destruct (len rest <? n) eqn:Hlt; [eexists; reflexivity|].
    rewrite slice_0 by (unfold len in *; lia). cbn [rbind].
    rewrite slice_0.
    2:{ rewrite firstn_length. unfold len, n in *. lia. }
    cbn [rbind]. eexists; reflexivity.
Qed.

Definition wire_of (recs : list (N * bytes * N)) : bytes := concat (map enc_rec recs).
Definition rcontent (r : N * bytes * N) : bytes := snd (fst r).
Definition rtype (r : N * bytes * N) : N := fst (fst r).

Lemma enc_rec_len r : (8 <= length (enc_rec r))%nat.
Proof. destruct r as [[ty c] pad]. unfold enc_rec. rewrite app_length. simpl length. lia. Qed.

Lemma wire_of_len recs : (8 * length recs <= length (wire_of recs))%nat.
Proof.
  induction recs as [|r recs IH]; [simpl; lia|].
  unfold wire_of in *. cbn [map concat]. rewrite app_length. pose proof (enc_rec_len r). simpl length. lia.
Qed.

(* the filter loop over a run of stderr records followed by the end of the request *)
Lemma next_out_all_stderr recs : forall fuel tail se,
  Forall valid_rec recs -> forallb (fun r => rtype r =? T_STDERR) recs = true ->
  (length recs < fuel)%nat ->
  exists rest', next_out fuel (wire_of recs ++ enc_rec end_rec ++ tail) se
                = Ok (Some REOF, [], rest', rev (map rcontent recs) ++ se).
Proof.
  induction recs as [|[[ty c] pad] recs IH]; intros fuel tail se Hv Hall Hfuel.
  - destruct fuel; [simpl in Hfuel; lia|].
    destruct (record_read_end tail) as [rest' Hr].
    exists rest'. cbn [wire_of map concat app next_out]. rewrite Hr. reflexivity.
  - destruct fuel; [simpl in Hfuel; lia|].
    inversion Hv as [|? ? Hv1 Hv2]; subst.
    cbn [forallb rtype fst] in Hall. apply andb_true_iff in Hall as [Hty Hall].
    unfold wire_of in *. cbn [map concat next_out]. rewrite <- app_assoc.
    rewrite record_read_enc by exact Hv1. cbn [rbind]. rewrite Hty.
    destruct (IH fuel tail (c :: se) Hv2 Hall) as [rest' Hr]; [simpl length in Hfuel; lia|].
    exists rest'. rewrite Hr. cbn [map rev rcontent fst snd]. rewrite <- app_assoc. reflexivity.
Qed.

Lemma next_out_found errs : forall fuel r recs tail se,
  Forall valid_rec errs -> forallb (fun r => rtype r =? T_STDERR) errs = true ->
  valid_rec r -> rtype r =? T_STDERR = false ->
  (length errs < fuel)%nat ->
  next_out fuel (wire_of (errs ++ r :: recs) ++ tail) se
  = Ok (None, rcontent r, wire_of recs ++ tail, rev (map rcontent errs) ++ se).
Proof.
  induction errs as [|[[ty c] pad] errs IH]; intros fuel r recs tail se Hv Hall Hr Hrt Hfuel.
  - destruct fuel; [simpl in Hfuel; lia|].
    destruct r as [[ty c] pad]. unfold wire_of. cbn [app map concat next_out]. rewrite <- app_assoc.
    rewrite record_read_enc by exact Hr. cbn [rbind]. cbn [rtype fst] in Hrt. rewrite Hrt. reflexivity.
  - destruct fuel; [simpl in Hfuel; lia|].
    inversion Hv as [|? ? Hv1 Hv2]; subst.
    cbn [forallb rtype fst] in Hall. apply andb_true_iff in Hall as [Hty Hall].
    unfold wire_of in *. cbn [app map concat next_out]. rewrite <- app_assoc.
    rewrite record_read_enc by exact Hv1. cbn [rbind]. rewrite Hty.
    rewrite IH; auto; [|simpl length in Hfuel; lia].
    cbn [map rev rcontent fst snd]. rewrite <- app_assoc. reflexivity.
Qed.

(* split a record list at its first non-stderr record *)
Lemma split_first_out recs :
  forallb (fun r => rtype r =? T_STDERR) recs = true \/
  exists errs r rest, recs = errs ++ r :: rest /\
    forallb (fun r => rtype r =? T_STDERR) errs = true /\ rtype r =? T_STDERR = false.
Proof.
  induction recs as [|r recs IH]; [left; reflexivity|].
  destruct (rtype r =? T_STDERR) eqn:Hr.
  - destruct IH as [IH | (errs & r0 & rest & -> & He & Hr0)].
    + left. cbn [forallb]. rewrite Hr, IH. reflexivity.
    + right. exists (r :: errs), r0, rest. split; [reflexivity|]. cbn [forallb]. rewrite Hr, He. auto.
  - right. exists [], r, recs. auto.
Qed.

Lemma stdout_of_app a b : stdout_of (a ++ b) = stdout_of a ++ stdout_of b.
Proof. unfold stdout_of. rewrite filter_app, map_app, concat_app. reflexivity. Qed.
Lemma contents_of_app ty a b : contents_of ty (a ++ b) = contents_of ty a ++ contents_of ty b.
Proof. unfold contents_of. rewrite filter_app, map_app, concat_app. reflexivity. Qed.

Lemma stdout_of_stderr errs :
  forallb (fun r => rtype r =? T_STDERR) errs = true -> stdout_of errs = [].
Proof.
  induction errs as [|r errs IH]; intros H; [reflexivity|].
  cbn [forallb] in H. apply andb_true_iff in H as [Hr H].
  unfold stdout_of in *. cbn [filter]. unfold rtype in Hr. rewrite Hr. cbn [negb]. apply IH; exact H.
Qed.
Lemma contents_of_stderr errs :
  forallb (fun r => rtype r =? T_STDERR) errs = true ->
  contents_of T_STDERR errs = concat (map rcontent errs).
Proof.
  induction errs as [|r errs IH]; intros H; [reflexivity|].
  cbn [forallb] in H. apply andb_true_iff in H as [Hr H].
  unfold contents_of in *. cbn [filter]. unfold rtype in Hr. rewrite Hr. cbn [map concat].
  rewrite IH by exact H. reflexivity.
Qed.

Lemma concat_rev_rev_app (a : list bytes) se :
  concat (rev (rev a ++ se)) = concat (rev se) ++ concat a.
Proof. rewrite rev_app_distr, rev_involutive, concat_app. reflexivity. Qed.

Definition mk_sr conn b se : sreader := {| s_conn := conn; s_buf := b; s_stderr := se |}.

(* The demultiplexing invariant: whatever the caller's buffer sizes, the bytes handed out are the
   stdout bytes in order, the stderr bytes go to the side buffer in order, nothing else. *)
Lemma sr_read_all_inv sizes : forall recs tail b se acc d e s',
  Forall valid_rec recs ->
  sr_read_all (mk_sr (wire_of recs ++ enc_rec end_rec ++ tail) b se) sizes acc = Ok (d, e, s') ->
  (e = None \/ e = Some REOF) /\
  exists dnew orest enew erest,
    d = concat (rev acc) ++ dnew /\
    b ++ stdout_of recs = dnew ++ orest /\
    contents_of T_STDERR recs = enew ++ erest /\
    stderr_of s' = concat (rev se) ++ enew /\
    (e = Some REOF -> orest = [] /\ erest = []).
Proof.
  induction sizes as [|m sizes IH]; intros recs tail b se acc d e s' Hv H.
  - cbn [sr_read_all] in H. injection H as <- <- <-. split; [left; reflexivity|].
    exists [], (b ++ stdout_of recs), [], (contents_of T_STDERR recs).
    rewrite !app_nil_r. unfold stderr_of, mk_sr. cbn. repeat split; auto; congruence.
  - cbn [sr_read_all] in H. unfold sr_read in H.
    destruct m as [|m'].
    + (* Read with an empty buffer: nothing happens *)
      cbn [rbind] in H. apply IH in H; [|exact Hv].
      destruct H as (He & dnew & orest & enew & erest & Hd & Ho & Hen & Hs & Hend).
      split; [exact He|]. exists dnew, orest, enew, erest.
      cbn [rev] in Hd. rewrite concat_app in Hd. cbn [concat] in Hd. rewrite !app_nil_r in Hd. auto.
    + set (m := S m') in *. cbn [mk_sr s_buf s_conn s_stderr] in H.
      destruct b as [|x b'].
      * (* buffer empty: fetch the next output record *)
        destruct (split_first_out recs) as [Hall | (errs & r & rest & -> & Hall & Hr)].
        -- destruct (next_out_all_stderr recs (S (length (wire_of recs ++ enc_rec end_rec ++ tail))) tail se Hv Hall) as [rest' Hn].
           { rewrite app_length. pose proof (wire_of_len recs). lia. }
           rewrite Hn in H. cbn [rbind] in H. injection H as <- <- <-.
           split; [right; reflexivity|].
           exists [], [], (contents_of T_STDERR recs), [].
           rewrite stdout_of_stderr by exact Hall. rewrite !app_nil_r.
           cbn [rev]. rewrite concat_app. cbn [concat]. rewrite !app_nil_r.
           unfold stderr_of. cbn [s_stderr]. rewrite concat_rev_rev_app, contents_of_stderr by exact Hall.
           repeat split; auto.
        -- apply Forall_app in Hv as [Hve Hvr]. inversion Hvr as [|? ? Hvr1 Hvr2]; subst.
           rewrite (next_out_found errs _ r rest (enc_rec end_rec ++ tail) se Hve Hall Hvr1 Hr) in H.
           2:{ rewrite app_length. pose proof (wire_of_len (errs ++ r :: rest)). rewrite app_length in *. simpl length in *. lia. }
           cbn [rbind] in H.
           change ({| s_conn := wire_of rest ++ enc_rec end_rec ++ tail; s_buf := skipn m (rcontent r);
                      s_stderr := rev (map rcontent errs) ++ se |})
             with (mk_sr (wire_of rest ++ enc_rec end_rec ++ tail) (skipn m (rcontent r)) (rev (map rcontent errs) ++ se)) in H.
           apply IH in H; [|exact Hvr2].
           destruct H as (He & dnew & orest & enew & erest & Hd & Ho & Hen & Hs & Hend).
           split; [exact He|].
           exists (firstn m (rcontent r) ++ dnew), orest, (concat (map rcontent errs) ++ enew), erest.
           repeat split.
           ++ rewrite Hd. cbn [rev]. rewrite concat_app. cbn [concat]. rewrite app_nil_r, <- app_assoc. reflexivity.
           ++ cbn [app]. rewrite stdout_of_app, stdout_of_stderr by exact Hall. cbn [app].
              change (r :: rest) with ([r] ++ rest). rewrite stdout_of_app.
              assert (stdout_of [r] = rcontent r) as ->.
              { unfold stdout_of. cbn [filter]. unfold rtype in Hr. rewrite Hr. cbn. apply app_nil_r. }
              rewrite <- (firstn_skipn m (rcontent r)) at 1. rewrite <- !app_assoc. f_equal. exact Ho.
           ++ rewrite contents_of_app, contents_of_stderr by exact Hall.
              change (r :: rest) with ([r] ++ rest). rewrite contents_of_app.
              assert (contents_of T_STDERR [r] = []) as ->.
              { unfold contents_of. cbn [filter]. unfold rtype in Hr. rewrite Hr. reflexivity. }
              cbn [app]. rewrite Hen, app_assoc. reflexivity.
           ++ rewrite Hs, concat_rev_rev_app, app_assoc. reflexivity.
           ++ apply Hend; assumption.
           ++ apply Hend; assumption.
      * (* bytes left over from the previous record *)
        cbn [rbind] in H.
        change ({| s_conn := wire_of recs ++ enc_rec end_rec ++ tail; s_buf := skipn m (x :: b'); s_stderr := se |})
          with (mk_sr (wire_of recs ++ enc_rec end_rec ++ tail) (skipn m (x :: b')) se) in H.
        apply IH in H; [|exact Hv].
        destruct H as (He & dnew & orest & enew & erest & Hd & Ho & Hen & Hs & Hend).
        split; [exact He|].
        exists (firstn m (x :: b') ++ dnew), orest, enew, erest.
        repeat split; auto.
        -- rewrite Hd. cbn [rev]. rewrite concat_app. cbn [concat]. rewrite app_nil_r, <- app_assoc. reflexivity.
        -- rewrite <- (firstn_skipn m (x :: b')) at 1. rewrite <- !app_assoc. f_equal. exact Ho.
        -- apply Hend; assumption.
        -- apply Hend; assumption.
Qed.

Lemma demux_exact recs tail sizes d e s' :
  Forall valid_rec recs ->
  sr_read_all (sr_init (wire_of recs ++ enc_rec end_rec ++ tail)) sizes [] = Ok (d, e, s') ->
  (e = None \/ e = Some REOF) /\
  (exists orest, stdout_of recs = d ++ orest /\ (e = Some REOF -> orest = [])) /\
  (exists erest, contents_of T_STDERR recs = stderr_of s' ++ erest /\ (e = Some REOF -> erest = [])).
Proof.
  intros Hv H. change (sr_init ?c) with (mk_sr c [] []) in H.
  apply sr_read_all_inv in H; [|exact Hv].
  destruct H as (He & dnew & orest & enew & erest & Hd & Ho & Hen & Hs & Hend).
  cbn in Hd, Ho, Hs. subst d. split; [exact He|]. split.
  - exists orest. split; [exact Ho | apply Hend].
  - exists erest. rewrite Hs. split; [exact Hen | apply Hend].
Qed.

(* ================= dispatch ================= *)
Lemma has_prefix_app s p : has_prefix s p = true <-> exists t, s = p ++ t.
Proof.
  revert s. induction p as [|y p IH]; intros s.
  - split; [intros _; exists s; reflexivity | destruct s; reflexivity].
  - destruct s as [|x s]; cbn [has_prefix].
    + split; [discriminate | intros [t Ht]; discriminate].
    + rewrite andb_true_iff, IH, N.eqb_eq. split.
      * intros [-> [t ->]]. exists t. reflexivity.
      * intros [t Ht]. injection Ht as -> ->. split; [reflexivity | exists t; reflexivity].
Qed.

Lemma has_suffix_app s p : has_suffix s p = true <-> exists t, s = t ++ p.
Proof.
  unfold has_suffix. rewrite has_prefix_app. split.
  - intros [t Ht]. exists (rev t). apply (f_equal (@rev N)) in Ht.
    rewrite rev_involutive, rev_app_distr, rev_involutive in Ht. exact Ht.
  - intros [t ->]. exists (rev t). apply rev_app_distr.
Qed.

Lemma has_prefix_refl x : has_prefix x x = true.
Proof. apply has_prefix_app. exists []. symmetry; apply app_nil_r. Qed.

Lemma index_from_spec needle : forall hay i j,
  index_from hay needle i = Some j ->
  exists k, j = (i + k)%nat /\ (k <= length hay)%nat /\ has_prefix (skipn k hay) needle = true /\
            forall k', (k' < k)%nat -> has_prefix (skipn k' hay) needle = false.
Proof.
  induction hay as [|x hay IH]; intros i j H.
  - cbn [index_from] in H. destruct (has_prefix [] needle) eqn:Hp; [|discriminate].
    injection H as <-. exists 0%nat. repeat split; try assumption; try (simpl; lia); intros; lia.
  - cbn [index_from] in H. destruct (has_prefix (x :: hay) needle) eqn:Hp.
    + injection H as <-. exists 0%nat. repeat split; try assumption; try (simpl; lia); intros; lia.
    + apply IH in H as (k & -> & Hk & Hpk & Hmin).
      exists (S k). repeat split; [lia | simpl; lia | exact Hpk |].
      intros [|k'] Hlt; [exact Hp | apply Hmin; lia].
Qed.

Lemma index_from_complete needle : forall a i, exists j, index_from (a ++ needle) needle i = Some j.
Proof.
  induction a as [|x a IH]; intros i.
  - cbn [app]. destruct needle; cbn [index_from]; [eexists; reflexivity|].
    rewrite has_prefix_refl. eexists; reflexivity.
  - cbn [app index_from]. destruct (has_prefix (x :: a ++ needle) needle); [eexists; reflexivity | apply IH].
Qed.

Lemma last_byte_app s c : last_byte (s ++ [c]) = Some c.
Proof. unfold last_byte. rewrite rev_app_distr. reflexivity. Qed.

Lemma last_byte_snoc (s : bytes) : s <> [] -> exists s' c, s = s' ++ [c].
Proof. intros H. destruct (exists_last H) as (s' & c & ->). eauto. Qed.

Lemma ends_with_slash_last s : ends_with_slash s = match last_byte s with Some c => c =? SLASH | None => false end.
Proof. unfold ends_with_slash, last_byte. destruct (rev s); reflexivity. Qed.

Lemma lower_byte_slash c : lower_byte c = SLASH -> c = SLASH.
Proof.
  unfold lower_byte, SLASH. destruct ((65 <=? c) && (c <=? 90)) eqn:H; intros E; [lia | exact E].
Qed.

(* an f whose lower-cased form ends with a non-empty ext not ending in '/' does not end in '/' *)
Lemma suffix_last f ext :
  ext <> [] -> last_byte ext <> Some SLASH ->
  has_suffix (to_lower f) (to_lower ext) = true ->
  exists c, last_byte f = Some c /\ c <> SLASH.
Proof.
  intros Hne Hl Hs. apply has_suffix_app in Hs as [t Ht].
  destruct (last_byte_snoc ext Hne) as (e' & ce & ->).
  rewrite last_byte_app in Hl.
  unfold to_lower in Ht. rewrite map_app in Ht. cbn [map] in Ht.
  destruct f as [|x f0] using rev_ind.
  - destruct t; cbn in Ht; try discriminate. destruct (map lower_byte e'); discriminate.
  - clear IHf0. rewrite map_app in Ht. cbn [map] in Ht. rewrite app_assoc in Ht.
    apply app_inj_tail in Ht as [_ Hc].
    exists x. rewrite last_byte_app. split; [reflexivity|].
    intros ->. apply Hl. f_equal. apply lower_byte_slash. rewrite <- Hc. reflexivity.
Qed.

Section DispatchProofs.
Variables (cs : bool) (stat_ok open_ok : bytes -> bool).

Lemma index_file_none f idx c :
  last_byte f = Some c -> c <> SLASH -> index_file open_ok f idx = None.
Proof.
  intros Hl Hc. unfold index_file.
  assert (f <> []) by (intros ->; discriminate).
  destruct f as [|x f']; [congruence|].
  rewrite ends_with_slash_last, Hl.
  assert (c =? SLASH = false) as -> by (apply N.eqb_neq; exact Hc). reflexivity.
Qed.

Lemma serve_ext_dispatched rules : forall i p r,
  In r rules -> rule_matches cs r p = true -> allowed cs r p = true ->
  r_ext r <> [] -> last_byte (r_ext r) <> Some SLASH ->
  has_suffix (to_lower (trim_right p)) (to_lower (r_ext r)) = true ->
  can_split cs r (trim_right p) = true ->
  exists j, serve cs stat_ok open_ok rules i p = ODispatch j (trim_right p).
Proof.
  induction rules as [|r0 rules IH]; intros i p r Hin Hm Ha Hext Hlast Hsuf Hsplit; [contradiction|].
  destruct (suffix_last _ _ Hext Hlast Hsuf) as (c & Hc & Hcs).
  cbn [serve]. rewrite (index_file_none _ _ c Hc Hcs).
  destruct (stat_ok (trim_right p)) eqn:Hst; cbn [negb].
  - (* the file exists: the extension test decides *)
    destruct Hin as [-> | Hin].
    + rewrite Hm, Ha, Hsplit, Hsuf, orb_true_r. cbn [negb]. eexists; reflexivity.
    + destruct (negb (rule_matches cs r0 p)); [eapply IH; eauto|].
      destruct (negb (allowed cs r0 p)); [eapply IH; eauto|].
      destruct (can_split cs r0 (trim_right p)); [|eapply IH; eauto].
      destruct (ends_with_slash (trim_right p) || has_suffix (to_lower (trim_right p)) (to_lower (r_ext r0)));
        [eexists; reflexivity | eapply IH; eauto].
  - (* no such file: any rule that can split takes it *)
    destruct Hin as [-> | Hin].
    + rewrite Hm, Ha, Hsplit. cbn [negb]. eexists; reflexivity.
    + destruct (negb (rule_matches cs r0 p)); [eapply IH; eauto|].
      destruct (negb (allowed cs r0 p)); [eapply IH; eauto|].
      destruct (can_split cs r0 (trim_right p)); [eexists; reflexivity | eapply IH; eauto].
Qed.

(* the dispatch decision has no index expression left: it never panics *)
Lemma serve_no_panic rules : forall i p, serve cs stat_ok open_ok rules i p <> OPanic.
Proof.
  induction rules as [|r rules IH]; intros i p; cbn [serve]; [discriminate|].
  repeat match goal with
  | |- context [if ?b then _ else _] => destruct b
  | |- context [match ?x with Some _ => _ | None => _ end] => destruct x
  end; try discriminate; apply IH.
Qed.

End DispatchProofs.

(* when paths are case-insensitive (the default) and the split string is the extension up to
   letter case — the php preset — the split always succeeds on such a path *)
Lemma can_split_of_suffix r f :
  to_lower (r_split r) = to_lower (r_ext r) ->
  has_suffix (to_lower f) (to_lower (r_ext r)) = true ->
  can_split false r f = true.
Proof.
  intros Heq Hs. unfold can_split, split_pos, fold. rewrite Heq.
  apply has_suffix_app in Hs as [t ->]. unfold index_of.
  destruct (index_from_complete (to_lower (r_ext r)) t 0%nat) as [j ->]. reflexivity.
Qed.

Definition php_rule : rule :=
  {| r_path := [SLASH]; r_ext := bs ".php"; r_split := bs ".php"; r_index := [bs "index.php"];
     r_except := []; r_env := []; r_root := bs "/srv" |}.

Lemma ext_dispatch_case_sensitive_refuted :
  exists stat_ok open_ok rules p r,
    In r rules /\ rule_matches true r p = true /\ allowed true r p = true /\
    stat_ok (trim_right p) = true /\ r_ext r <> [] /\ last_byte (r_ext r) <> Some SLASH /\
    has_suffix (to_lower (trim_right p)) (to_lower (r_ext r)) = true /\
    serve true stat_ok open_ok rules 0 p = ONext.
Proof.
  exists (fun _ => true), (fun _ => false), [php_rule], (bs "/B.PHP"), php_rule.
  repeat split; try (vm_compute; reflexivity); try (vm_compute; discriminate).
  left; reflexivity.
Qed.

(* ---- the split of buildEnv ---- *)
Lemma fold_length cs s : length (fold cs s) = length s.
Proof. unfold fold, to_lower. destruct cs; [reflexivity | apply map_length]. Qed.
Lemma fold_firstn cs n s : fold cs (firstn n s) = firstn n (fold cs s).
Proof. unfold fold, to_lower. destruct cs; [reflexivity | symmetry; apply firstn_map]. Qed.

Lemma split_at_spec cs r f d pi :
  split_at cs r f = Ok (d, pi) ->
  d ++ pi = f /\
  has_suffix (fold cs d) (fold cs (r_split r)) = true /\
  exists pos, length d = (pos + length (r_split r))%nat /\
    forall k, (k < pos)%nat -> has_prefix (skipn k (fold cs f)) (fold cs (r_split r)) = false.
Proof.
  unfold split_at, split_pos, index_of.
  destruct (index_from (fold cs f) (fold cs (r_split r)) 0) as [pos|] eqn:Hi; [|discriminate].
  apply index_from_spec in Hi as (k & -> & Hk & Hp & Hmin). cbn [Nat.add].
  set (cut := (k + length (r_split r))%nat).
  apply has_prefix_app in Hp as [t Ht].
  assert (Hcut : (cut <= length f)%nat).
  { apply (f_equal (@length N)) in Ht. rewrite skipn_length, app_length, !fold_length in Ht.
    rewrite fold_length in Hk. unfold cut. lia. }
  rewrite slice_0 by exact Hcut. cbn [rbind].
  unfold slice_from. assert (Nat.leb cut (length f) = true) as -> by (apply Nat.leb_le; exact Hcut).
  cbn [rbind]. intros H. injection H as <- <-.
  split; [apply firstn_skipn|]. split.
  - rewrite fold_firstn. apply has_suffix_app. exists (firstn k (fold cs f)).
    rewrite <- (firstn_skipn k (fold cs f)) at 1. rewrite Ht.
    unfold cut. rewrite firstn_app, firstn_length, fold_length.
    replace (Nat.min k (length f)) with k by (rewrite fold_length in Hk; lia).
    rewrite firstn_firstn. replace (Nat.min (k + length (r_split r)) k) with k by lia.
    f_equal. replace (k + length (r_split r) - k)%nat with (length (fold cs (r_split r))) by (rewrite fold_length; lia).
    apply firstn_exact.
  - exists k. split; [rewrite firstn_length; unfold cut; lia | exact Hmin].
Qed.

Lemma split_at_total cs r f :
  can_split cs r f = true -> exists d pi, split_at cs r f = Ok (d, pi).
Proof.
  unfold can_split, split_at, split_pos, index_of.
  destruct (index_from (fold cs f) (fold cs (r_split r)) 0) as [pos|] eqn:Hi; [|discriminate]. intros _.
  apply index_from_spec in Hi as (k & -> & Hk & Hp & Hmin). cbn [Nat.add].
  apply has_prefix_app in Hp as [t Ht].
  assert (Hcut : (k + length (r_split r) <= length f)%nat).
  { apply (f_equal (@length N)) in Ht. rewrite skipn_length, app_length, !fold_length in Ht.
    rewrite fold_length in Hk. lia. }
  rewrite slice_0 by exact Hcut. cbn [rbind]. unfold slice_from.
  assert (Nat.leb (k + length (r_split r)) (length f) = true) as -> by (apply Nat.leb_le; exact Hcut).
  cbn [rbind]. eauto.
Qed.

(* ---- no panic on the request side, whatever the sizes of names and values ---- *)
Lemma trunc_pair_total kv : exists kv', trunc_pair kv = Ok kv'.
Proof.
  destruct kv as [k v]. unfold trunc_pair.
  destruct (MAXW <? len (encode_pair (k, v))) eqn:Hc; [|eauto].
  pose proof (encode_pair_bounds (k, v)) as B. cbn [fst snd] in B.
  set (vl := if MAXW <? 8 + len k then 0 else MAXW - 8 - len k).
  assert (Hvl : (N.to_nat vl <= length v)%nat).
  { unfold vl. destruct (MAXW <? 8 + len k) eqn:Hk; unfold len, MAXW in *; lia. }
  rewrite slice_0 by exact Hvl. cbn [rbind]. eauto.
Qed.

Lemma trunc_all_total ps : exists tps, trunc_all ps = Ok tps.
Proof.
  induction ps as [|kv ps IH]; [eexists; reflexivity|].
  cbn [trunc_all]. destruct (trunc_pair_total kv) as [kv' ->]. destruct IH as [tps ->].
  cbn [rbind]. eexists; reflexivity.
Qed.

Lemma request_wire_total ps body : exists w, request_wire ps body = Ok w.
Proof.
  destruct (trunc_all_total ps) as [tps Ht].
  unfold request_wire, params_wire, params_records. rewrite Ht. cbn [rbind]. eexists; reflexivity.
Qed.

Lemma request_roundtrip_any_order ps order body w :
  (forall kv, In kv ps -> fits kv = true) ->
  Permutation ps order ->
  request_wire order body = Ok w ->
  exists got, responder_receive w = Some (1, 0, got, body_bytes body) /\ Permutation ps got.
Proof.
  intros Hfit Hperm Hw. exists order. split; [|exact Hperm].
  apply request_roundtrip; [|exact Hw].
  intros kv Hin. apply Hfit. eapply Permutation_in; [apply Permutation_sym; exact Hperm | exact Hin].
Qed.

(* ---- the stream reader never panics, whatever the peer sends ---- *)
Lemma next_out_no_panic fuel : forall conn se, exists x, next_out fuel conn se = Ok x.
Proof.
  induction fuel as [|f IH]; intros conn se; [eexists; reflexivity|].
  cbn [next_out]. destruct (record_read_no_panic conn) as [r ->]. cbn [rbind].
  destruct r as [ty c rest | e rest]; [|eexists; reflexivity].
  destruct (ty =? T_STDERR); [apply IH | eexists; reflexivity].
Qed.

Lemma sr_read_no_panic s m : exists x, sr_read s m = Ok x.
Proof.
  unfold sr_read. destruct m; [eexists; reflexivity|].
  destruct (s_buf s); [|eexists; reflexivity].
  destruct (next_out_no_panic (S (length (s_conn s))) (s_conn s) (s_stderr s)) as [[[[e buf] conn'] se'] ->].
  cbn [rbind]. destruct e; eexists; reflexivity.
Qed.

Lemma sr_read_all_no_panic sizes : forall s acc, exists x, sr_read_all s sizes acc = Ok x.
Proof.
  induction sizes as [|m sizes IH]; intros s acc; [eexists; reflexivity|].
  cbn [sr_read_all]. destruct (sr_read_no_panic s m) as [[[d e] s'] ->]. cbn [rbind].
  destruct e; [eexists; reflexivity | apply IH].
Qed.

(* ---- completeness of the demultiplexer: a caller that keeps reading reaches EOF ---- *)
Lemma stdout_of_cons_out r rest :
  rtype r =? T_STDERR = false -> stdout_of (r :: rest) = rcontent r ++ stdout_of rest.
Proof. intros Hr. unfold stdout_of. cbn [filter]. unfold rtype in Hr. rewrite Hr. reflexivity. Qed.

Lemma sr_read_all_complete sizes : forall recs tail b se acc d e s',
  Forall valid_rec recs ->
  (forall m, In m sizes -> (1 <= m)%nat) ->
  (length b + length (stdout_of recs) + length recs < length sizes)%nat ->
  sr_read_all (mk_sr (wire_of recs ++ enc_rec end_rec ++ tail) b se) sizes acc = Ok (d, e, s') ->
  e = Some REOF.
Proof.
  induction sizes as [|m sizes IH]; intros recs tail b se acc d e s' Hv Hm Hpot H.
  - simpl in Hpot. lia.
  - assert (Hm1 : (1 <= m)%nat) by (apply Hm; left; reflexivity).
    assert (Hm' : forall m0, In m0 sizes -> (1 <= m0)%nat) by (intros; apply Hm; right; assumption).
    cbn [sr_read_all] in H. unfold sr_read in H.
    destruct m as [|m0]; [lia|]. set (m := S m0) in *.
    cbn [mk_sr s_buf s_conn s_stderr] in H.
    destruct b as [|x b'].
    + destruct (split_first_out recs) as [Hall | (errs & r & rest & -> & Hall & Hr)].
      * destruct (next_out_all_stderr recs (S (length (wire_of recs ++ enc_rec end_rec ++ tail))) tail se Hv Hall) as [rest' Hn].
        { rewrite app_length. pose proof (wire_of_len recs). lia. }
        rewrite Hn in H. cbn [rbind] in H. injection H as <- <- <-. reflexivity.
      * apply Forall_app in Hv as [Hve Hvr]. inversion Hvr as [|? ? Hvr1 Hvr2]; subst.
        rewrite (next_out_found errs _ r rest (enc_rec end_rec ++ tail) se Hve Hall Hvr1 Hr) in H.
        2:{ rewrite app_length. pose proof (wire_of_len (errs ++ r :: rest)). rewrite app_length in *. simpl length in *. lia. }
        cbn [rbind] in H.
        change ({| s_conn := wire_of rest ++ enc_rec end_rec ++ tail; s_buf := skipn m (rcontent r);
                   s_stderr := rev (map rcontent errs) ++ se |})
          with (mk_sr (wire_of rest ++ enc_rec end_rec ++ tail) (skipn m (rcontent r)) (rev (map rcontent errs) ++ se)) in H.
        eapply IH in H; eauto.
        rewrite stdout_of_app, (stdout_of_stderr errs Hall), stdout_of_cons_out in Hpot by exact Hr.
        cbn [app length] in Hpot. rewrite !app_length in Hpot. cbn [length] in Hpot.
        rewrite skipn_length. lia.
    + cbn [rbind] in H.
      change ({| s_conn := wire_of recs ++ enc_rec end_rec ++ tail; s_buf := skipn m (x :: b'); s_stderr := se |})
        with (mk_sr (wire_of recs ++ enc_rec end_rec ++ tail) (skipn m (x :: b')) se) in H.
      eapply IH in H; eauto.
      rewrite skipn_length. cbn [length] in *. lia.
Qed.

Lemma demux_complete recs tail sizes d e s' :
  Forall valid_rec recs ->
  (forall m, In m sizes -> (1 <= m)%nat) ->
  (length (stdout_of recs) + length recs < length sizes)%nat ->
  sr_read_all (sr_init (wire_of recs ++ enc_rec end_rec ++ tail)) sizes [] = Ok (d, e, s') ->
  e = Some REOF /\ d = stdout_of recs /\ stderr_of s' = contents_of T_STDERR recs.
Proof.
  intros Hv Hm Hpot H.
  assert (He : e = Some REOF).
  { change (sr_init ?c) with (mk_sr c [] []) in H. eapply sr_read_all_complete in H; eauto. }
  apply demux_exact in H; [|exact Hv].
  destruct H as (_ & (orest & Ho & Hoe) & (erest & Hr & Hre)).
  rewrite (Hoe He), app_nil_r in Ho. rewrite (Hre He), app_nil_r in Hr. auto.
Qed.

(* ---- progress of the reader: Read returns (0, nil) only on an empty output record ---- *)
Lemma filter_empty_out_stderr errs :
  forallb (fun r => rtype r =? T_STDERR) errs = true -> filter empty_out errs = [].
Proof.
  induction errs as [|r errs IH]; intros H; [reflexivity|].
  cbn [forallb] in H. apply andb_true_iff in H as [Hr H].
  cbn [filter]. unfold empty_out at 1. unfold rtype in Hr. rewrite Hr. cbn [negb andb]. apply IH; exact H.
Qed.

Lemma firstn_nil_inv {A} m (l : list A) : (1 <= m)%nat -> firstn m l = [] -> l = [].
Proof. destruct m; [lia|]. destruct l; [reflexivity|discriminate]. Qed.

Lemma sr_reads_stalls sizes : forall recs tail b se t,
  Forall valid_rec recs ->
  sr_reads (mk_sr (wire_of recs ++ enc_rec end_rec ++ tail) b se) sizes = Ok t ->
  (stalls t <= length (filter empty_out recs))%nat.
Proof.
  induction sizes as [|m sizes IH]; intros recs tail b se t Hv H.
  - cbn [sr_reads] in H. injection H as <-. cbn. lia.
  - cbn [sr_reads] in H. unfold sr_read in H.
    destruct m as [|m'].
    + cbn [rbind] in H.
      destruct (sr_reads (mk_sr (wire_of recs ++ enc_rec end_rec ++ tail) b se) sizes) as [t'|] eqn:Et; [|discriminate].
      cbn [rbind] in H. injection H as <-.
      apply IH in Et; [|exact Hv]. unfold stalls in *. cbn [filter empty_read Nat.eqb negb andb]. exact Et.
    + set (m := S m') in *. cbn [mk_sr s_buf s_conn s_stderr] in H.
      destruct b as [|x b'].
      * destruct (split_first_out recs) as [Hall | (errs & r & rest & -> & Hall & Hr)].
        -- destruct (next_out_all_stderr recs (S (length (wire_of recs ++ enc_rec end_rec ++ tail))) tail se Hv Hall) as [rest' Hn].
           { rewrite app_length. pose proof (wire_of_len recs). lia. }
           rewrite Hn in H. cbn [rbind] in H. injection H as <-.
           unfold stalls, m. cbn [filter empty_read length Nat.eqb negb andb]. lia.
        -- apply Forall_app in Hv as [Hve Hvr]. inversion Hvr as [|? ? Hvr1 Hvr2]; subst.
           rewrite (next_out_found errs _ r rest (enc_rec end_rec ++ tail) se Hve Hall Hvr1 Hr) in H.
           2:{ rewrite app_length. pose proof (wire_of_len (errs ++ r :: rest)). rewrite app_length in *. simpl length in *. lia. }
           cbn [rbind] in H.
           change ({| s_conn := wire_of rest ++ enc_rec end_rec ++ tail; s_buf := skipn m (rcontent r);
                      s_stderr := rev (map rcontent errs) ++ se |})
             with (mk_sr (wire_of rest ++ enc_rec end_rec ++ tail) (skipn m (rcontent r)) (rev (map rcontent errs) ++ se)) in H.
           destruct (sr_reads _ sizes) as [t'|] eqn:Et; [|discriminate].
           cbn [rbind] in H. injection H as <-.
           apply IH in Et; [|exact Hvr2].
           rewrite filter_app, (filter_empty_out_stderr errs Hall). cbn [app filter].
           match goal with |- (stalls (?x0 :: _) <= _)%nat => set (x := x0) end.
           assert (Hx : stalls (x :: t') = ((if empty_read x then 1 else 0) + stalls t')%nat).
           { unfold stalls. cbn [filter]. destruct (empty_read x); reflexivity. }
           rewrite Hx. clear Hx.
           assert (Hy : length (if empty_out r then r :: filter empty_out rest else filter empty_out rest)
                        = ((if empty_out r then 1 else 0) + length (filter empty_out rest))%nat).
           { destruct (empty_out r); reflexivity. }
           rewrite Hy. clear Hy. unfold stalls in *.
           destruct (empty_read x) eqn:Ee.
           ++ assert (Hc : rcontent r = []).
              { unfold x, empty_read, m in Ee. destruct (rcontent r); [reflexivity|].
                cbn in Ee. discriminate Ee. }
              assert (empty_out r = true) as ->.
              { unfold empty_out. unfold rtype in Hr. rewrite Hr. unfold rcontent in Hc. rewrite Hc. reflexivity. }
              lia.
           ++ destruct (empty_out r); lia.
      * cbn [rbind] in H.
        change ({| s_conn := wire_of recs ++ enc_rec end_rec ++ tail; s_buf := skipn m (x :: b'); s_stderr := se |})
          with (mk_sr (wire_of recs ++ enc_rec end_rec ++ tail) (skipn m (x :: b')) se) in H.
        destruct (sr_reads _ sizes) as [t'|] eqn:Et; [|discriminate].
        cbn [rbind] in H. injection H as <-.
        apply IH in Et; [|exact Hv].
        match goal with |- (stalls (?x0 :: _) <= _)%nat => set (y := x0) end.
        assert (Hy : empty_read y = false) by (unfold y, m; reflexivity).
        unfold stalls in *. cbn [filter]. rewrite Hy. exact Et.
Qed.

Lemma stall_run_le t : forall cur best, (stall_run t cur best <= Nat.max (cur + stalls t) best)%nat.
Proof.
  induction t as [|x t IH]; intros cur best.
  - cbn [stall_run]. unfold stalls. cbn. lia.
  - cbn [stall_run]. unfold stalls in *. cbn [filter].
    destruct (empty_read x).
    + specialize (IH (S cur) best). cbn [length]. lia.
    + destruct (Nat.eqb (fst (fst x)) 0).
      * apply IH.
      * specialize (IH 0%nat (Nat.max cur best)). lia.
Qed.

(* For EVERY framing (valid records, any interleaving and run lengths of stderr records, empty
   stderr records included), EVERY sequence of caller buffers: the number of reads that return
   (0, nil) is bounded by the number of empty OUTPUT records the responder sent; a responder that
   sends fewer than 100 of them (a conforming one sends one) never exhausts bufio's budget. *)
Lemma reader_progress recs tail sizes t :
  Forall valid_rec recs ->
  sr_reads (sr_init (wire_of recs ++ enc_rec end_rec ++ tail)) sizes = Ok t ->
  (stalls t <= length (filter empty_out recs))%nat /\
  (max_stall_run t <= length (filter empty_out recs))%nat /\
  ((length (filter empty_out recs) < BUFIO_EMPTY_READS)%nat -> bufio_ok t = true).
Proof.
  intros Hv H. change (sr_init ?c) with (mk_sr c [] []) in H.
  apply sr_reads_stalls in H; [|exact Hv].
  assert (Hm : (max_stall_run t <= length (filter empty_out recs))%nat).
  { unfold max_stall_run. pose proof (stall_run_le t 0 0). lia. }
  split; [exact H|]. split; [exact Hm|].
  intros Hlt. unfold bufio_ok. apply Nat.ltb_lt. lia.
Qed.

Lemma concat_rev_cons_len (d : bytes) acc :
  length (concat (rev (d :: acc))) = (length (concat (rev acc)) + length d)%nat.
Proof. cbn [rev]. rewrite concat_app, app_length. cbn [concat]. rewrite app_nil_r. reflexivity. Qed.

(* the bound is tight: Read does return (0, nil) on every empty output record, so a (non-conforming)
   responder that sends 100 of them in a row before its header block exhausts bufio's budget *)
Lemma reader_progress_tight :
  exists recs sizes t,
    Forall valid_rec recs /\ length (filter empty_out recs) = BUFIO_EMPTY_READS /\
    sr_reads (sr_init (wire_of recs ++ enc_rec end_rec)) sizes = Ok t /\ bufio_ok t = false.
Proof.
  exists (repeat (6, [], 0) 100 ++ [(6, bs "Status: 200", 0)]), (repeat 4096%nat 102).
  eexists. split; [|split; [|split]].
  - apply Forall_app. split; [apply Forall_forall; intros x Hx; apply repeat_spec in Hx; subst x|repeat constructor];
      vm_compute; repeat split; congruence.
  - vm_compute. reflexivity.
  - vm_compute. reflexivity.
  - vm_compute. reflexivity.
Qed.

(* the per-call view and the accumulated view are the same reads *)
Lemma sr_reads_all sizes : forall s acc,
  exists t, sr_reads s sizes = Ok t /\
  match sr_read_all s sizes acc with
  | Ok (d, e, _) => (length d = length (concat (rev acc)) + fold_right (fun x a => snd (fst x) + a) 0 t)%nat /\
                    (match e with None => True | Some _ => exists m n, last t (0, 0, None)%nat = (m, n, e) end)
  | Panic => False
  end.
Proof.
  induction sizes as [|m sizes IH]; intros s acc.
  - exists []. split; [reflexivity|]. cbn. split; [lia|exact I].
  - cbn [sr_reads sr_read_all]. destruct (sr_read_no_panic s m) as [[[d e] s'] ->]. cbn [rbind].
    destruct e as [err|].
    + eexists. split; [reflexivity|]. rewrite concat_rev_cons_len. cbn [fold_right fst snd last]. split; [lia|eauto].
    + destruct (IH s' (d :: acc)) as (t & Ht & Hall). rewrite Ht. cbn [rbind].
      eexists. split; [reflexivity|].
      destruct (sr_read_all s' sizes (d :: acc)) as [[[d' e'] s'']|]; [|contradiction].
      destruct Hall as [Hl He]. rewrite concat_rev_cons_len in Hl. cbn [fold_right fst snd]. split; [lia|].
      destruct e'; [|exact I]. destruct He as (m' & n' & He). exists m', n'.
      destruct t; [cbn in He; discriminate He|]. exact He.
Qed.

(* ---- buildEnv: every header arrives as HTTP_*, configured entries arrive ---- *)
Lemma find_app {A} (f : A -> bool) a b :
  find f (a ++ b) = match find f a with Some x => Some x | None => find f b end.
Proof. induction a as [|x a IH]; [reflexivity|]. cbn [app find]. destruct (f x); auto. Qed.

Lemma find_none_iff {A} (f : A -> bool) l : find f l = None <-> forall x, In x l -> f x = false.
Proof.
  split; [apply find_none|]. induction l as [|x l IH]; intros H; [reflexivity|].
  cbn [find]. rewrite (H x (or_introl eq_refl)). apply IH. intros y Hy. apply H. right; exact Hy.
Qed.

Lemma env_lookup_app k a b :
  env_lookup k (a ++ b) = match env_lookup k b with Some v => Some v | None => env_lookup k a end.
Proof.
  unfold env_lookup. rewrite rev_app_distr, find_app.
  destruct (find (fun kv => beq (fst kv) k) (rev b)); reflexivity.
Qed.

Lemma env_lookup_none k l : (forall kv, In kv l -> beq (fst kv) k = false) -> env_lookup k l = None.
Proof.
  intros H. unfold env_lookup.
  assert (find (fun kv => beq (fst kv) k) (rev l) = None) as ->; [|reflexivity].
  apply find_none_iff. intros x Hx. apply H. apply in_rev. exact Hx.
Qed.

Lemma env_lookup_unique k v l :
  In (k, v) l -> (forall kv, In kv l -> fst kv = k -> kv = (k, v)) -> env_lookup k l = Some v.
Proof.
  intros Hin Hu. unfold env_lookup.
  destruct (find (fun kv => beq (fst kv) k) (rev l)) as [kv|] eqn:Hf.
  - apply find_some in Hf as [Hi Hb]. apply beq_eq in Hb. apply in_rev in Hi.
    rewrite (Hu kv Hi Hb). reflexivity.
  - exfalso. rewrite find_none_iff in Hf. specialize (Hf (k, v)). cbn [fst] in Hf.
    rewrite beq_refl in Hf. assert (In (k, v) (rev l)) by (apply -> in_rev; exact Hin). specialize (Hf H). discriminate.
Qed.

Definition is_http (k : bytes) : bool := has_prefix k (bs "HTTP_").

Lemma env_name_http n : is_http (env_name n) = true.
Proof. unfold is_http, env_name. apply has_prefix_app. eexists; reflexivity. Qed.

Lemma beq_false_of_http a k : is_http k = true -> is_http a = false -> beq a k = false.
Proof.
  intros Hk Ha. destruct (beq a k) eqn:E; [|reflexivity]. apply beq_eq in E. subst. congruence.
Qed.

Lemma meth_of_keys q kv : In kv (meth_of q) -> mem (fst kv) METHOD_VARS = true.
Proof.
  unfold meth_of.
  destruct (beq (q_method q) (bs "HEAD")); [|destruct (beq (q_method q) (bs "GET")); [|destruct (beq (q_method q) (bs "OPTIONS"))]];
    cbn [In]; intros H; repeat (destruct H as [<-|H]; [vm_compute; reflexivity|]); contradiction.
Qed.

(* ---- the configured entries: Replace with "" as the empty value ---- *)
Definition cfg_gs (q : request) : bytes -> bytes :=
  C20_Model.get_subst cfg_dispatch (cfg_renv CFG_EMPTY q).
(* total form of cfg_expand (Replace never fails, C20) *)
Definition cfg_val (q : request) (v : bytes) : bytes :=
  match cfg_expand q v with Ok o => o | Panic => [] end.

Lemma cfg_expand_total q v : exists o, cfg_expand q v = Ok o.
Proof. unfold cfg_expand. apply C20_Proofs.expand_total. Qed.

Lemma cfg_expand_val q v : cfg_expand q v = Ok (cfg_val q v).
Proof. unfold cfg_val. destruct (cfg_expand_total q v) as [o ->]. reflexivity. Qed.

Lemma cfg_expand_render q v :
  exists t, C20_Model.template v = Ok t /\ cfg_expand q v = Ok (C20_Model.render (cfg_gs q) t).
Proof. unfold cfg_expand, cfg_gs. apply C20_Proofs.expand_render. Qed.

Lemma cfg_expand_literal q v : C19_Model.has_brace v = false -> cfg_expand q v = Ok v.
Proof. intros H. unfold cfg_expand, C20_Model.expand. rewrite H. reflexivity. Qed.

Lemma cfg_entries_map q l :
  cfg_entries q l = Ok (map (fun kv => (fst kv, cfg_val q (snd kv))) l).
Proof.
  induction l as [|kv l IH]; [reflexivity|].
  cbn [cfg_entries map]. rewrite cfg_expand_val. cbn [rbind]. rewrite IH. reflexivity.
Qed.

Lemma find_map_key {A B} (g : A -> B) (p : B -> bool) l :
  find p (map g l) = option_map g (find (fun x => p (g x)) l).
Proof. induction l as [|x l IH]; [reflexivity|]. cbn [map find]. destruct (p (g x)); [reflexivity|exact IH]. Qed.

Lemma env_lookup_map_vals (F : bytes -> bytes) k l :
  env_lookup k (map (fun kv => (fst kv, F (snd kv))) l) = option_map F (env_lookup k l).
Proof.
  unfold env_lookup. rewrite <- map_rev, find_map_key. cbn [fst].
  destruct (find (fun x => beq (fst x) k) (rev l)); reflexivity.
Qed.

Lemma env_list_shape cs sv r q f el :
  env_list cs sv r q f = Ok el ->
  exists pre, el = pre ++ map (fun kv => (fst kv, cfg_val q (snd kv))) (r_env r) ++ hdr_pairs q ++ meth_of q.
Proof.
  unfold env_list. destruct (split_at cs r f) as [dp|]; [|discriminate].
  cbn [rbind]. rewrite cfg_entries_map. cbn [rbind].
  intros H. exists (env_base sv r q (fst dp) (snd dp)). congruence.
Qed.

(* building the variable list never fails once canSplit has accepted the path *)
Lemma env_list_total cs sv r q f :
  can_split cs r f = true -> exists el, env_list cs sv r q f = Ok el.
Proof.
  intros Hc. destruct (split_at_total cs r f Hc) as (d & pi & Hs).
  unfold env_list. rewrite Hs. cbn [rbind]. rewrite cfg_entries_map. cbn [rbind]. eauto.
Qed.

Lemma env_headers_arrive cs sv r q f el n vals :
  env_list cs sv r q f = Ok el ->
  NoDup (map (fun kv => env_name (fst kv)) (q_headers q)) ->
  In (n, vals) (q_headers q) ->
  env_lookup (env_name n) el = Some (join (bs ", ") vals).
Proof.
  intros Hel Hnd Hin. apply env_list_shape in Hel as [pre ->].
  rewrite !env_lookup_app.
  rewrite (env_lookup_none _ (meth_of q)).
  2:{ intros kv Hkv. apply meth_of_keys in Hkv. apply beq_false_of_http; [apply env_name_http|].
      unfold METHOD_VARS, mem in Hkv. cbn [existsb] in Hkv.
      repeat (apply orb_true_iff in Hkv as [Hkv|Hkv]; [apply beq_eq in Hkv; rewrite Hkv; vm_compute; reflexivity|]).
      discriminate. }
  rewrite (env_lookup_unique (env_name n) (join (bs ", ") vals) (hdr_pairs q)); [reflexivity | |].
  - unfold hdr_pairs. apply in_map_iff. exists (n, vals). auto.
  - intros kv Hkv Hk. unfold hdr_pairs in Hkv. apply in_map_iff in Hkv as ([n' vals'] & <- & Hin').
    cbn [fst snd] in *.
    assert ((n', vals') = (n, vals)) as E; [|injection E as -> ->; reflexivity].
    clear - Hnd Hin Hin' Hk. induction (q_headers q) as [|h l IH]; [contradiction|].
    cbn [map] in Hnd. inversion Hnd as [|? ? Hni Hnd']; subst.
    destruct Hin as [->|Hin], Hin' as [->|Hin']; auto.
    + exfalso. apply Hni. apply in_map_iff. exists (n', vals'). cbn [fst]. auto.
    + exfalso. apply Hni. apply in_map_iff. exists (n, vals). cbn [fst]. auto.
Qed.

(* a configured env entry arrives EXPANDED (last one of a name wins) unless a header or a
   per-method variable has the same name *)
Lemma env_entry_value cs sv r q f el k v :
  env_list cs sv r q f = Ok el ->
  mem k (map (fun kv => env_name (fst kv)) (q_headers q)) = false ->
  mem k METHOD_VARS = false ->
  env_lookup k (r_env r) = Some v -> env_lookup k el = Some (cfg_val q v).
Proof.
  intros Hel Hh Hm Hv. apply env_list_shape in Hel as [pre ->].
  rewrite !env_lookup_app.
  rewrite (env_lookup_none k (meth_of q)).
  2:{ intros kv Hkv. apply meth_of_keys in Hkv. destruct (beq (fst kv) k) eqn:E; [|reflexivity].
      apply beq_eq in E. rewrite E in Hkv. congruence. }
  rewrite (env_lookup_none k (hdr_pairs q)).
  2:{ intros kv Hkv. unfold hdr_pairs in Hkv. apply in_map_iff in Hkv as (h & <- & Hin). cbn [fst].
      destruct (beq (env_name (fst h)) k) eqn:E; [|reflexivity]. apply beq_eq in E.
      exfalso. unfold mem in Hh. rewrite <- not_true_iff_false in Hh. apply Hh.
      apply existsb_exists. exists (env_name (fst h)). split; [apply in_map_iff; exists h; auto|].
      rewrite E. apply beq_refl. }
  rewrite env_lookup_map_vals, Hv. reflexivity.
Qed.

Lemma env_entries_arrive cs sv r q f el k :
  env_list cs sv r q f = Ok el ->
  mem k (map (fun kv => env_name (fst kv)) (q_headers q)) = false ->
  mem k METHOD_VARS = false ->
  forall v, env_lookup k (r_env r) = Some v ->
  exists out, cfg_expand q v = Ok out /\ env_lookup k el = Some out /\
              (C19_Model.has_brace v = false -> out = v).
Proof.
  intros Hel Hh Hm v Hv. exists (cfg_val q v). split; [apply cfg_expand_val|]. split.
  - eapply env_entry_value; eauto.
  - intros Hb. pose proof (cfg_expand_val q v) as E. rewrite (cfg_expand_literal q v Hb) in E. congruence.
Qed.

(* exactly the expansion: the template of the configured value (a function of the value alone)
   rendered with the request's substitution function, whose empty value is "" *)
Lemma env_configured_entries_exact cs sv r q f el k v :
  env_list cs sv r q f = Ok el ->
  mem k (map (fun kv => env_name (fst kv)) (q_headers q)) = false ->
  mem k METHOD_VARS = false ->
  env_lookup k (r_env r) = Some v ->
  exists t, C20_Model.template v = Ok t /\
            env_lookup k el = Some (C20_Model.render (cfg_gs q) t) /\
            C20_Model.e_empty (cfg_renv CFG_EMPTY q) = [].
Proof.
  intros Hel Hh Hm Hv. destruct (cfg_expand_render q v) as (t & Ht & He).
  exists t. split; [exact Ht|]. split; [|reflexivity].
  rewrite (env_entry_value cs sv r q f el k v Hel Hh Hm Hv).
  pose proof (cfg_expand_val q v) as E. rewrite He in E. congruence.
Qed.

(* ---- the scheme variables: HTTPS=on exactly on TLS connections ---- *)
Lemma env_lookup_nonconfigured cs sv r q f el k :
  env_list cs sv r q f = Ok el ->
  mem k (map (fun kv => env_name (fst kv)) (q_headers q)) = false ->
  mem k METHOD_VARS = false ->
  env_lookup k (r_env r) = None ->
  exists d pi, split_at cs r f = Ok (d, pi) /\ env_lookup k el = env_lookup k (env_base sv r q d pi).
Proof.
  intros Hel Hh Hm Hv. unfold env_list in Hel.
  destruct (split_at cs r f) as [[d pi]|] eqn:Hs; [|discriminate].
  cbn [rbind fst snd] in Hel. rewrite cfg_entries_map in Hel. cbn [rbind] in Hel. injection Hel as <-.
  exists d, pi. split; [reflexivity|].
  rewrite !env_lookup_app.
  rewrite (env_lookup_none k (meth_of q)).
  2:{ intros kv Hkv. apply meth_of_keys in Hkv. destruct (beq (fst kv) k) eqn:E; [|reflexivity].
      apply beq_eq in E. rewrite E in Hkv. congruence. }
  rewrite (env_lookup_none k (hdr_pairs q)).
  2:{ intros kv Hkv. unfold hdr_pairs in Hkv. apply in_map_iff in Hkv as (h & <- & Hin). cbn [fst].
      destruct (beq (env_name (fst h)) k) eqn:E; [|reflexivity]. apply beq_eq in E.
      exfalso. unfold mem in Hh. rewrite <- not_true_iff_false in Hh. apply Hh.
      apply existsb_exists. exists (env_name (fst h)). split; [apply in_map_iff; exists h; auto|].
      rewrite E. apply beq_refl. }
  rewrite env_lookup_map_vals, Hv. reflexivity.
Qed.

Lemma env_base_https sv r q d pi :
  env_lookup (bs "HTTPS") (env_base sv r q d pi) = match q_tls q with Some _ => Some (bs "on") | None => None end /\
  env_lookup (bs "REQUEST_SCHEME") (env_base sv r q d pi)
    = Some (match q_tls q with Some _ => bs "https" | None => bs "http" end).
Proof.
  unfold env_base, env_tls.
  destruct (last_index (q_remote q) 58); destruct pi; destruct (q_tls q) as [[ver cs]|];
    try destruct (tbl_get ver SSL_PROTOCOLS); try destruct (tbl_get cs TLS_CIPHER_NAMES);
    split; vm_compute; reflexivity.
Qed.

Lemma env_scheme_vars cs sv r q f el :
  env_list cs sv r q f = Ok el ->
  (forall k, In k [bs "HTTPS"; bs "REQUEST_SCHEME"] ->
     mem k (map (fun kv => env_name (fst kv)) (q_headers q)) = false /\ env_lookup k (r_env r) = None) ->
  env_lookup (bs "HTTPS") el = match q_tls q with Some _ => Some (bs "on") | None => None end /\
  env_lookup (bs "REQUEST_SCHEME") el = Some (match q_tls q with Some _ => bs "https" | None => bs "http" end).
Proof.
  intros Hel H.
  destruct (H (bs "HTTPS")) as [Hh1 Hc1]; [left; reflexivity|].
  destruct (H (bs "REQUEST_SCHEME")) as [Hh2 Hc2]; [right; left; reflexivity|].
  destruct (env_lookup_nonconfigured cs sv r q f el _ Hel Hh1 eq_refl Hc1) as (d & pi & Hs & E1).
  destruct (env_lookup_nonconfigured cs sv r q f el _ Hel Hh2 eq_refl Hc2) as (d' & pi' & Hs' & E2).
  rewrite Hs in Hs'. injection Hs' as <- <-.
  rewrite E1, E2. apply env_base_https.
Qed.

(* ---- which placeholders come out empty ---- *)
Definition class_char (c : N) : bool := (c =? 62) || (c =? 60) || (c =? 126) || (c =? 63) || (c =? 36).
(* the table: same labels as C20's (hence as the code's switch, C20_vocabulary_is_dispatch_table) *)
Lemma assoc_override {A} (K : list bytes) (o : A) key : forall l,
  C20_Model.assoc key (map (fun p => if C20_Model.mem (fst p) K then (fst p, o) else p) l)
  = match C20_Model.assoc key l with
    | Some h => Some (if C20_Model.mem key K then o else h)
    | None => None
    end.
Proof.
  induction l as [|[k' h'] l IH]; [reflexivity|].
  cbn [map fst]. destruct (C20_Model.mem k' K) eqn:Ek; cbn [C20_Model.assoc];
    destruct (beq key k') eqn:E; try exact IH; apply beq_eq in E; subst k'; rewrite Ek; reflexivity.
Qed.

Lemma cfg_dispatch_assoc key :
  C20_Model.assoc key cfg_dispatch
  = match C20_Model.assoc key C20_Model.dispatch with
    | Some h => Some (if C20_Model.mem key TLS_DEP_KEYS then C20_Model.Oracle else h)
    | None => None
    end.
Proof. unfold cfg_dispatch. apply assoc_override. Qed.

Lemma cfg_dispatch_none key :
  C20_Model.mem key V.Gen_C20.gen_c20_vocab = false -> C20_Model.assoc key cfg_dispatch = None.
Proof.
  intros Hm. rewrite cfg_dispatch_assoc.
  destruct (C20_Model.assoc key C20_Model.dispatch) as [h|] eqn:E; [|reflexivity].
  assert (C20_Model.mem key V.Gen_C20.gen_c20_vocab = true) by (apply C20_Proofs.vocabulary_is_dispatch; eauto).
  congruence.
Qed.

Lemma vocab_no_class_char :
  forallb (fun k => match k with _ :: c :: _ => negb (class_char c) | _ => false end) V.Gen_C20.gen_c20_vocab = true.
Proof. vm_compute. reflexivity. Qed.

Lemma class_key_not_vocab key c :
  idx key 1 = Ok c -> class_char c = true -> C20_Model.mem key V.Gen_C20.gen_c20_vocab = false.
Proof.
  intros Hi Hc. destruct (C20_Model.mem key V.Gen_C20.gen_c20_vocab) eqn:E; [|reflexivity]. exfalso.
  unfold C20_Model.mem in E. apply existsb_exists in E as (k & Hin & Hb). apply beq_eq in Hb. subst k.
  pose proof vocab_no_class_char as Hv. rewrite forallb_forall in Hv. specialize (Hv key Hin).
  destruct key as [|a [|b rk]]; try discriminate.
  unfold idx in Hi. cbn in Hi. injection Hi as ->. rewrite Hc in Hv. discriminate.
Qed.

Lemma class_key_not_dispatch key c :
  idx key 1 = Ok c -> class_char c = true -> C20_Model.assoc key cfg_dispatch = None.
Proof. intros Hi Hc. apply cfg_dispatch_none. eapply class_key_not_vocab; eauto. Qed.

Lemma class_key_not_label key c :
  idx key 1 = Ok c -> class_char c = true -> C19_Model.prefixb C19_Model.lit_label_13 key = false.
Proof.
  intros Hi Hc. destruct key as [|a [|b rk]]; [reflexivity|discriminate Hi|].
  unfold idx in Hi. cbn in Hi. injection Hi as ->.
  destruct (C19_Model.prefixb C19_Model.lit_label_13 (a :: c :: rk)) eqn:P; [|reflexivity]. exfalso.
  cbn in P. apply andb_true_iff in P as [_ P]. apply andb_true_iff in P as [P _].
  apply N.eqb_eq in P. subst c. vm_compute in Hc. discriminate.
Qed.

(* C13's documented table and C20's computed values coincide: for every label that the table
   the model runs on COMPUTES from the request components (Fn), the function's value in buildEnv's
   request environment is the value C13's table lists — for every request and empty value *)
Lemma cfg_fn_agrees empty q key f :
  In (key, C20_Model.Fn f) cfg_dispatch ->
  C20_Model.assoc key (cfg_defaults empty q) = Some (f (cfg_renv empty q)).
Proof.
  intros H. vm_compute in H.
  repeat (destruct H as [H|H];
          [first [discriminate H | injection H as <- <-; vm_compute; reflexivity]|]).
  contradiction.
Qed.

(* every label is either computed (and then agrees with C13's table) or read from C13's table, or
   is one C13 does not model ({when…}, {hostname}, {request}, {request_body}, *_escaped) *)
Lemma cfg_oracle_labels :
  map fst (filter (fun p => negb (C20_Model.is_fn (snd p))) cfg_dispatch)
  = map bs ["{scheme}"; "{hostname}"; "{hostonly}"; "{path_escaped}"; "{rewrite_path_escaped}"; "{query_escaped}";
            "{remote}"; "{port}"; "{uri}"; "{uri_escaped}"; "{rewrite_uri}"; "{rewrite_uri_escaped}";
            "{when}"; "{when_iso_local}"; "{when_iso}"; "{when_unix}"; "{when_unix_ms}";
            "{request}"; "{request_body}"; "{latency}"; "{latency_ms}"; "{tls_protocol}"; "{tls_cipher}";
            "{server_port}"]%string.
Proof. vm_compute. reflexivity. Qed.

(* on plain HTTP the substitution function is C20's own (its table fixes the TLS-dependent labels to
   the values they have without TLS), hence the expansion is C20_Model.expand_env itself *)
Lemma cfg_gs_plain_http q key :
  q_tls q = None ->
  C20_Model.get_subst cfg_dispatch (cfg_renv CFG_EMPTY q) key
  = C20_Model.get_subst C20_Model.dispatch (cfg_renv CFG_EMPTY q) key.
Proof.
  intros Ht. destruct (C20_Model.mem key TLS_DEP_KEYS) eqn:Em.
  - unfold C20_Model.mem, TLS_DEP_KEYS in Em. cbn [map existsb] in Em.
    repeat (apply orb_true_iff in Em as [Em|Em];
            [apply beq_eq in Em; subst key; unfold C20_Model.get_subst, C20_Model.get_subst_chk; cbn; rewrite Ht; reflexivity|]).
    discriminate Em.
  - unfold C20_Model.get_subst, C20_Model.get_subst_chk.
    rewrite cfg_dispatch_assoc, Em.
    destruct (C20_Model.assoc key C20_Model.dispatch); reflexivity.
Qed.

Lemma cfg_expand_plain_http q v :
  q_tls q = None -> cfg_expand q v = C20_Model.expand_env (cfg_renv CFG_EMPTY q) v.
Proof.
  intros Ht. unfold cfg_expand, C20_Model.expand_env.
  destruct (C20_Proofs.template_total v) as (t & Et & _).
  apply (C20_Proofs.expand_depends_on_format_keys _ _ v t Et).
  intros k _. apply cfg_gs_plain_http. exact Ht.
Qed.

Definition absent_for (q : request) (key : bytes) : Prop :=
  (exists w, idx key 1 = Ok 62 /\ C20_Model.key_mid key = Ok w /\ C20_Model.hdr_lookup w (q_headers q) = None) \/
  (exists w, idx key 1 = Ok 126 /\ C20_Model.key_mid key = Ok w /\ C20_Model.assoc w (q_cookies q) = None) \/
  (exists w, idx key 1 = Ok 63 /\ C20_Model.key_mid key = Ok w /\ C20_Model.assoc w (q_qargs q) = None) \/
  idx key 1 = Ok 60 \/
  In key (REC_KEYS ++ TLS_KEYS) \/
  (q_tls q = None /\ In key TLS_CONN_KEYS) \/
  (exists c, idx key 1 = Ok c /\ class_char c = false /\
             C20_Model.mem key V.Gen_C20.gen_c20_vocab = false /\
             C19_Model.prefixb C19_Model.lit_label_13 key = false).

Lemma cfg_absent_empty q key : absent_for q key -> cfg_gs q key = [].
Proof.
  unfold cfg_gs, C20_Model.get_subst.
  intros [(w & Hi & Hm & Hh) | [(w & Hi & Hm & Hh) | [(w & Hi & Hm & Hh) | [Hi | [Hin | [[Ht Hin] | (c & Hi & Hc & Hv & Hl)]]]]]].
  - unfold C20_Model.get_subst_chk. cbn [cfg_renv C20_Model.e_custom C20_Model.assoc C20_Model.e_reqh].
    rewrite Hi. cbn [rbind N.eqb Pos.eqb]. rewrite Hm. cbn [rbind]. rewrite Hh.
    rewrite (class_key_not_dispatch key 62 Hi eq_refl), (class_key_not_label key 62 Hi eq_refl). reflexivity.
  - unfold C20_Model.get_subst_chk. cbn [cfg_renv C20_Model.e_custom C20_Model.assoc C20_Model.e_resph C20_Model.e_cookies].
    rewrite Hi. cbn [rbind N.eqb Pos.eqb]. rewrite Hm. cbn [rbind]. rewrite Hh.
    rewrite (class_key_not_dispatch key 126 Hi eq_refl), (class_key_not_label key 126 Hi eq_refl). reflexivity.
  - unfold C20_Model.get_subst_chk. cbn [cfg_renv C20_Model.e_custom C20_Model.assoc C20_Model.e_resph C20_Model.e_query].
    rewrite Hi. cbn [rbind N.eqb Pos.eqb]. rewrite Hm. cbn [rbind]. rewrite Hh. reflexivity.
  - unfold C20_Model.get_subst_chk. cbn [cfg_renv C20_Model.e_custom C20_Model.assoc C20_Model.e_resph].
    rewrite Hi. cbn [rbind N.eqb Pos.eqb].
    rewrite (class_key_not_dispatch key 60 Hi eq_refl), (class_key_not_label key 60 Hi eq_refl). reflexivity.
  - cbn [REC_KEYS TLS_KEYS map app In] in Hin.
    repeat (destruct Hin as [<-|Hin]; [vm_compute; reflexivity|]). contradiction.
  - cbn [TLS_CONN_KEYS map In] in Hin.
    destruct Hin as [<-|[<-|[]]]; unfold C20_Model.get_subst_chk; cbn; rewrite Ht; reflexivity.
  - rewrite (C20_Proofs.unknown_placeholder_empty _ _ key c); try assumption; try reflexivity;
      try (apply cfg_dispatch_none; assumption); intros ->; discriminate Hc.
Qed.

(* ---- the response head ---- *)
Definition conf_field (f : bytes * bytes) : Prop :=
  ~ In 13 (fst f) /\ ~ In 58 (fst f) /\ ~ In 13 (snd f) /\ (forall r, snd f <> 32 :: r).

Lemma split_line_app line : forall rest cur,
  ~ In 13 line -> split_line (line ++ 13 :: 10 :: rest) cur = Some (rev cur ++ line, rest).
Proof.
  induction line as [|c line IH]; intros rest cur Hn.
  - cbn. rewrite app_nil_r. reflexivity.
  - cbn [app split_line].
    assert (c =? 13 = false) as -> by (apply N.eqb_neq; intros ->; apply Hn; left; reflexivity).
    cbn [andb]. rewrite IH by (intros H; apply Hn; right; exact H).
    cbn [rev]. rewrite <- app_assoc. reflexivity.
Qed.

Lemma take_until_app c a rest : ~ In c a -> take_until c (a ++ c :: rest) = a.
Proof.
  induction a as [|x a IH]; intros Hn; cbn [app take_until].
  - rewrite N.eqb_refl. reflexivity.
  - assert (x =? c = false) as -> by (apply N.eqb_neq; intros ->; apply Hn; left; reflexivity).
    f_equal. apply IH. intros H; apply Hn; right; exact H.
Qed.

Lemma drop_sp_value v : (forall r, v <> 32 :: r) -> drop_sp (32 :: v) = v.
Proof.
  intros H. cbn [drop_sp]. rewrite N.eqb_refl. destruct v as [|c v']; [reflexivity|].
  cbn [drop_sp]. destruct (c =? 32) eqn:E; [|reflexivity].
  apply N.eqb_eq in E. subst. exfalso. eapply H. reflexivity.
Qed.

Lemma parse_head_f_render fields : forall fuel acc body,
  Forall conf_field fields -> (length fields < fuel)%nat ->
  parse_head_f fuel (render_head fields ++ body) acc = Some (rev acc ++ fields, body).
Proof.
  induction fields as [|[n v] fields IH]; intros fuel acc body Hc Hfuel.
  - destruct fuel; [simpl in Hfuel; lia|]. cbn. rewrite app_nil_r. reflexivity.
  - destruct fuel; [simpl in Hfuel; lia|].
    inversion Hc as [|? ? (Hn13 & Hn58 & Hv13 & Hvsp) Hc']; subst. cbn [fst snd] in *.
    unfold render_head. cbn [map concat fst snd parse_head_f]. unfold CRLF.
    match goal with |- context [split_line ?X []] =>
      replace X with ((n ++ 58 :: 32 :: v) ++ 13 :: 10 :: (render_head fields ++ body)) end.
    2:{ unfold render_head, CRLF. repeat rewrite <- app_assoc. reflexivity. }
    rewrite split_line_app.
    2:{ intros H. apply in_app_or in H as [H|[H|[H|H]]]; try discriminate; auto. }
    cbn [rev app].
    destruct (n ++ 58 :: 32 :: v) as [|x l] eqn:Hline.
    { destruct n; discriminate. }
    rewrite <- Hline. clear x l Hline.
    rewrite take_until_app by exact Hn58.
    replace (skipn (S (length n)) (n ++ 58 :: 32 :: v)) with (32 :: v).
    2:{ change (n ++ 58 :: 32 :: v) with (n ++ [58] ++ 32 :: v). rewrite app_assoc.
        symmetry. apply skipn_exact'. rewrite app_length. simpl. lia. }
    rewrite drop_sp_value by exact Hvsp.
    rewrite IH; [|exact Hc' | simpl length in Hfuel; lia].
    cbn [rev]. rewrite <- app_assoc. reflexivity.
Qed.

Lemma render_head_len fields : (length fields <= length (render_head fields))%nat.
Proof.
  unfold render_head. rewrite app_length. induction fields as [|f fields IH]; [simpl; lia|].
  cbn [map concat]. rewrite !app_length in *. simpl length in *. lia.
Qed.

Lemma parse_head_render fields body :
  Forall conf_field fields -> parse_head (render_head fields ++ body) = Some (fields, body).
Proof.
  intros Hc. unfold parse_head. rewrite parse_head_f_render; auto.
  rewrite app_length. pose proof (render_head_len fields). lia.
Qed.

(* the whole response path at model level: whatever the framing, the parsed head and the body
   are the responder's, and stderr is complete on the side *)
Lemma response_exact fields body recs tail sizes d e s' :
  Forall conf_field fields -> Forall valid_rec recs ->
  stdout_of recs = render_head fields ++ body ->
  (forall m, In m sizes -> (1 <= m)%nat) ->
  (length (stdout_of recs) + length recs < length sizes)%nat ->
  sr_read_all (sr_init (wire_of recs ++ enc_rec end_rec ++ tail)) sizes [] = Ok (d, e, s') ->
  parse_head d = Some (fields, body) /\ stderr_of s' = contents_of T_STDERR recs /\ e = Some REOF.
Proof.
  intros Hc Hv Hout Hm Hlen H.
  apply demux_complete in H; auto. destruct H as (-> & -> & ->).
  rewrite Hout. split; [apply parse_head_render; exact Hc | auto].
Qed.

(* ---- statements as they appear in C13_Props.v ---- *)
Lemma records_wellformed ty id c rest :
  ty < 256 -> id < 65536 -> len c <= 65535 ->
  len (write_record ty id c) mod 8 = 0 /\
  parse_record (write_record ty id c ++ rest) = Some (ty, id, c, rest).
Proof. intros; split; [apply write_record_aligned | apply parse_write_record; assumption]. Qed.

Lemma stream_concat ty id data rest :
  ty < 256 -> id < 65536 ->
  (forall c, In c (chunks (N.to_nat MAXW) data) -> c <> [] /\ len c <= MAXW) /\
  concat (chunks (N.to_nat MAXW) data) = data /\
  read_stream ty id (stream_wire ty id data ++ rest) = Some (data, rest).
Proof.
  intros Hty Hid. split; [intros c; apply stream_chunks_bounds|].
  split; [apply chunks_concat, maxw_pos | apply stream_roundtrip; assumption].
Qed.

Lemma stream_reader_no_panic conn sizes : exists x, sr_read_all (sr_init conn) sizes [] = Ok x.
Proof. apply sr_read_all_no_panic. Qed.

Lemma serve_ext_dispatched_default stat_ok open_ok rules i p r :
  In r rules -> rule_matches false r p = true -> allowed false r p = true ->
  r_ext r <> [] -> last_byte (r_ext r) <> Some SLASH ->
  to_lower (r_split r) = to_lower (r_ext r) ->
  has_suffix (to_lower (trim_right p)) (to_lower (r_ext r)) = true ->
  exists j, serve false stat_ok open_ok rules i p = ODispatch j (trim_right p).
Proof.
  intros. eapply serve_ext_dispatched; eauto. apply can_split_of_suffix; assumption.
Qed.

(* Go's [size |= 1<<31] on a uint32 is the addition used in the model *)
Lemma lor_top_bit n : n < 2147483648 -> N.lor n 2147483648 = n + 2147483648.
Proof.
  intros Hn. change 2147483648 with (2 ^ 31) in *.
  assert (Hland : N.land n (2 ^ 31) = 0).
  { apply N.bits_inj_iff. intros m. rewrite N.land_spec, N.bits_0, N.pow2_bits_eqb.
    destruct (N.eqb_spec 31 m) as [<-|Hne]; [|apply andb_false_r].
    rewrite andb_true_r. destruct (N.eq_dec n 0) as [->|Hn0]; [apply N.bits_0|].
    apply N.bits_above_log2. apply N.log2_lt_pow2; [lia | exact Hn]. }
  rewrite <- N.lxor_lor by exact Hland. symmetry. apply N.add_nocarry_lxor. exact Hland.
Qed.

Lemma encode_size_is_go n :
  127 < n -> n < 2147483648 ->
  encode_size n = let m := N.lor n 2147483648 in
                  [(m / 16777216) mod 256; (m / 65536) mod 256; (m / 256) mod 256; m mod 256].
Proof.
  intros H1 H2. unfold encode_size.
  assert (n <=? 127 = false) as -> by lia. assert (n <? 2147483648 = true) as -> by lia.
  rewrite lor_top_bit by exact H2. reflexivity.
Qed.

(* ---------- several rules: a rule that cannot split the path is passed over ---------- *)
(* the "no index file present" branch of Handler.ServeHTTP: `if !rule.canSplit(fpath) { continue }` *)
Theorem unsplittable_rule_is_skipped cs stat_ok open_ok r rest i p :
  index_file open_ok (trim_right p) (r_index r) = None ->
  can_split cs r (trim_right p) = false ->
  serve cs stat_ok open_ok (r :: rest) i p = serve cs stat_ok open_ok rest (S i) p.
Proof.
  intros IX CS. simpl. destruct (rule_matches cs r p); [|reflexivity]. simpl.
  destruct (allowed cs r p); [|reflexivity]. simpl. rewrite IX, CS. reflexivity.
Qed.

(* ... so a script of a LATER rule reaches that rule's responder whatever rules that cannot split it (and
   have no index file for it) stand in front *)
Theorem later_rule_claims_its_script cs stat_ok open_ok pre rest i p r :
  Forall (fun r0 => index_file open_ok (trim_right p) (r_index r0) = None /\ can_split cs r0 (trim_right p) = false) pre ->
  rule_matches cs r p = true -> allowed cs r p = true ->
  r_ext r <> [] -> last_byte (r_ext r) <> Some SLASH ->
  has_suffix (to_lower (trim_right p)) (to_lower (r_ext r)) = true ->
  can_split cs r (trim_right p) = true ->
  exists j, serve cs stat_ok open_ok (pre ++ r :: rest) i p = ODispatch j (trim_right p).
Proof.
  intros F. revert i. induction F as [|r0 pre [IX CS] F IH]; intros i M A E L S C.
  - simpl app. eapply serve_ext_dispatched; eauto. left. reflexivity.
  - simpl app. rewrite (unsplittable_rule_is_skipped _ _ _ _ _ _ _ IX CS). apply IH; assumption.
Qed.

Definition pl_rule : rule :=
  {| r_path := bs "/cgi"; r_ext := bs ".pl"; r_split := bs ".pl"; r_index := []; r_except := []; r_env := []; r_root := [] |}.
Lemma later_rule_witness :
  can_split false php_rule (bs "/cgi/tool.pl") = false /\
  serve false (fun _ => true) (fun _ => true) [php_rule; pl_rule] 0 (bs "/cgi/tool.pl") = ODispatch 1 (bs "/cgi/tool.pl") /\
  serve false (fun _ => false) (fun _ => false) [php_rule; pl_rule] 0 (bs "/cgi/tool.pl/extra/info") = ODispatch 1 (bs "/cgi/tool.pl/extra/info") /\
  serve false (fun _ => true) (fun _ => true) [php_rule] 0 (bs "/cgi/tool.pl") = ONext.
Proof. vm_compute. repeat split; reflexivity. Qed.


(* ================= the directive's setup ================= *)
Lemma fold_apply_item its : forall r,
  fold_left apply_item its r =
  {| r_path := r_path r;
     r_ext := last_of (fun it => match it with IExt v => Some v | _ => None end) its (r_ext r);
     r_split := last_of (fun it => match it with ISplit v => Some v | _ => None end) its (r_split r);
     r_index := last_of (fun it => match it with IIndex l => Some l | _ => None end) its (r_index r);
     r_except := last_of (fun it => match it with IExcept l => Some l | _ => None end) its (r_except r);
     r_env := r_env r ++ flat_map (fun it => match it with IEnv k v => [(k, v)] | _ => [] end) its;
     r_root := last_of (fun it => match it with IRoot v => Some v | _ => None end) its (r_root r) |}.
Proof.
  induction its as [|it its IH]; intros r.
  - cbn. rewrite app_nil_r. destruct r; reflexivity.
  - cbn [fold_left]. rewrite IH. destruct it; cbn; try rewrite <- app_assoc; reflexivity.
Qed.

Lemma parse_rule_is_declared absroot c r :
  parse_rule absroot c = Some r -> r = eff_rule absroot c.
Proof.
  unfold parse_rule, eff_rule, is_php, preset. destruct (c_preset c) as [name|].
  - destruct (beq name (bs "php")); [|discriminate].
    intros H. injection H as <-. rewrite fold_apply_item. reflexivity.
  - intros H. injection H as <-. rewrite fold_apply_item. reflexivity.
Qed.

Lemma parse_rule_refuses_iff absroot c :
  parse_rule absroot c = None <-> preset_known c = false.
Proof.
  unfold parse_rule, preset_known, preset. destruct (c_preset c) as [name|].
  - destruct (beq name (bs "php")); split; intros H; try discriminate; reflexivity.
  - split; discriminate.
Qed.

Lemma parse_rules_are_declared absroot : forall cs rs,
  parse_rules absroot cs = Some rs -> rs = map (eff_rule absroot) cs.
Proof.
  induction cs as [|c cs IH]; intros rs H; cbn in H.
  - injection H as <-. reflexivity.
  - destruct (parse_rule absroot c) as [r|] eqn:E; [|discriminate].
    destruct (parse_rules absroot cs) as [rs'|]; [|discriminate].
    injection H as <-. cbn. rewrite (parse_rule_is_declared _ _ _ E), (IH _ eq_refl). reflexivity.
Qed.

Lemma parse_rules_accepts absroot : forall cs,
  forallb preset_known cs = true -> exists rs, parse_rules absroot cs = Some rs.
Proof.
  induction cs as [|c cs IH]; intros H; cbn in *; [eexists; reflexivity|].
  apply andb_prop in H as [Hc Hcs].
  destruct (parse_rule absroot c) as [r|] eqn:E.
  - destruct (IH Hcs) as [rs ->]. eexists; reflexivity.
  - apply parse_rule_refuses_iff in E. congruence.
Qed.

(* the last setting of a kind given in the block is the one in effect, whatever the preset says *)
Lemma last_of_app_one {A} (f : item -> option A) its it v d :
  f it = Some v -> last_of f (its ++ [it]) d = v.
Proof.
  revert d. induction its as [|x its IH]; intros d H; cbn.
  - rewrite H. reflexivity.
  - apply IH, H.
Qed.
Lemma last_of_skip {A} (f : item -> option A) its : forall post d,
  forallb (fun it => match f it with None => true | Some _ => false end) post = true ->
  last_of f (its ++ post) d = last_of f its d.
Proof.
  assert (P : forall post d, forallb (fun it => match f it with None => true | Some _ => false end) post = true ->
                             last_of f post d = d).
  { induction post as [|x post IH]; intros d H; cbn in *; [reflexivity|].
    apply andb_prop in H as [Hx Hp]. destruct (f x); [discriminate|]. apply IH, Hp. }
  induction its as [|x its IH]; intros post d H; cbn.
  - apply P, H.
  - apply IH, H.
Qed.

Lemma forallb_eq {A} (f g : A -> bool) l : (forall x, f x = g x) -> forallb f l = forallb g l.
Proof. intros E. induction l as [|x l IH]; cbn; [reflexivity|]. rewrite E, IH. reflexivity. Qed.

Lemma block_ext_overrides_preset absroot path pre its v post r :
  forallb (fun it => match it with IExt _ => false | _ => true end) post = true ->
  parse_rule absroot {| c_path := path; c_preset := pre; c_items := its ++ IExt v :: post |} = Some r ->
  r_ext r = v.
Proof.
  intros Hpost H. apply parse_rule_is_declared in H. subst r. cbn [eff_rule r_ext c_items].
  replace (its ++ IExt v :: post) with ((its ++ [IExt v]) ++ post) by (rewrite <- app_assoc; reflexivity).
  rewrite last_of_skip.
  - apply last_of_app_one. reflexivity.
  - rewrite (forallb_eq _ (fun it => match it with IExt _ => false | _ => true end)); [exact Hpost|]. intros [ | | | | | | ]; reflexivity.
Qed.
Lemma block_split_overrides_preset absroot path pre its v post r :
  forallb (fun it => match it with ISplit _ => false | _ => true end) post = true ->
  parse_rule absroot {| c_path := path; c_preset := pre; c_items := its ++ ISplit v :: post |} = Some r ->
  r_split r = v.
Proof.
  intros Hpost H. apply parse_rule_is_declared in H. subst r. cbn [eff_rule r_split c_items].
  replace (its ++ ISplit v :: post) with ((its ++ [ISplit v]) ++ post) by (rewrite <- app_assoc; reflexivity).
  rewrite last_of_skip.
  - apply last_of_app_one. reflexivity.
  - rewrite (forallb_eq _ (fun it => match it with ISplit _ => false | _ => true end)); [exact Hpost|]. intros [ | | | | | | ]; reflexivity.
Qed.
Lemma block_index_overrides_preset absroot path pre its v post r :
  forallb (fun it => match it with IIndex _ => false | _ => true end) post = true ->
  parse_rule absroot {| c_path := path; c_preset := pre; c_items := its ++ IIndex v :: post |} = Some r ->
  r_index r = v.
Proof.
  intros Hpost H. apply parse_rule_is_declared in H. subst r. cbn [eff_rule r_index c_items].
  replace (its ++ IIndex v :: post) with ((its ++ [IIndex v]) ++ post) by (rewrite <- app_assoc; reflexivity).
  rewrite last_of_skip.
  - apply last_of_app_one. reflexivity.
  - rewrite (forallb_eq _ (fun it => match it with IIndex _ => false | _ => true end)); [exact Hpost|]. intros [ | | | | | | ]; reflexivity.
Qed.

(* end to end at model level: a preset plus a block that names its own extension (and splits there) —
   an existing script with THAT extension, in any letter case, under the rule reaches the responder *)
Lemma preset_with_own_ext_dispatched absroot c r stat_ok open_ok p :
  parse_rule absroot c = Some r ->
  let d := eff_rule absroot c in
  rule_matches false d p = true -> allowed false d p = true ->
  r_ext d <> [] -> last_byte (r_ext d) <> Some SLASH ->
  to_lower (r_split d) = to_lower (r_ext d) ->
  has_suffix (to_lower (trim_right p)) (to_lower (r_ext d)) = true ->
  exists j, serve false stat_ok open_ok [r] 0 p = ODispatch j (trim_right p).
Proof.
  intros H d. apply parse_rule_is_declared in H. subst r. intros.
  eapply serve_ext_dispatched_default with (r := d); eauto. left; reflexivity.
Qed.

(* ================= several readers at once ================= *)
Lemma rd_step_no_panic r m : exists r', rd_step r m = Ok r'.
Proof.
  unfold rd_step. destruct (rd_err r); [eexists; reflexivity|].
  destruct (sr_read_no_panic (rd_s r) m) as [[[d e] s'] ->]. cbn. eexists; reflexivity.
Qed.

Lemma upd_nth_spec f : forall l i l',
  upd_nth i f l = Ok l' ->
  length l' = length l /\
  forall j d, nth j l' d = if Nat.eqb j i then match nth_error l i with
                                                | Some r => match f r with Ok r' => r' | Panic => d end
                                                | None => d end
                           else nth j l d.
Proof.
  induction l as [|r l IH]; intros i l' H.
  - destruct i; cbn in H; injection H as <-; split; [reflexivity| |reflexivity|];
      intros j d; destruct j; cbn; try reflexivity; destruct (Nat.eqb _ _); reflexivity.
  - destruct i as [|i]; cbn [upd_nth] in H.
    + destruct (f r) as [r'|] eqn:E; cbn in H; [|discriminate]. injection H as <-.
      split; [reflexivity|]. intros j d. destruct j; cbn; [rewrite E|]; reflexivity.
    + destruct (upd_nth i f l) as [t'|] eqn:E; cbn in H; [|discriminate]. injection H as <-.
      destruct (IH _ _ E) as [Hlen Hnth]. split; [cbn; congruence|].
      intros j d. destruct j; cbn; [reflexivity|]. apply Hnth.
Qed.

(* under ANY schedule, what reader i ends up with is what it gets reading ITS stream alone with its
   own buffer sizes: the readers of different responses do not influence each other *)
Lemma run_sched_independent : forall sched rs rs' i d,
  run_sched rs sched = Ok rs' -> (i < length rs)%nat ->
  rd_run (nth i rs d) (sizes_of i sched) = Ok (nth i rs' d) /\ length rs' = length rs.
Proof.
  induction sched as [|[k m] sched IH]; intros rs rs' i d H Hi.
  - cbn in H. injection H as <-. split; reflexivity.
  - cbn [run_sched] in H.
    destruct (upd_nth k (fun r => rd_step r m) rs) as [rs1|] eqn:E; cbn in H; [|discriminate].
    destruct (upd_nth_spec _ _ _ _ E) as [Hlen Hnth].
    destruct (IH rs1 rs' i d H) as [Hrun Hlen']; [rewrite Hlen; exact Hi|].
    split; [|congruence].
    unfold sizes_of. cbn [filter fst]. rewrite Nat.eqb_sym.
    rewrite (Hnth i d) in Hrun. destruct (Nat.eqb i k) eqn:Eik.
    + apply Nat.eqb_eq in Eik. subst k. cbn [map snd rd_run].
      destruct (nth_error rs i) as [r|] eqn:En.
      * rewrite (nth_error_nth _ _ d En).
        destruct (rd_step_no_panic r m) as [r' Er]. rewrite Er in *. cbn. exact Hrun.
      * apply nth_error_None in En. lia.
    + exact Hrun.
Qed.

Lemma rd_run_err r sizes e : rd_err r = Some e -> rd_run r sizes = Ok r.
Proof.
  intros He. induction sizes as [|m sizes IH]; [reflexivity|].
  cbn [rd_run]. unfold rd_step. rewrite He. cbn. exact IH.
Qed.

Lemma rd_run_is_read_all : forall sizes r r',
  rd_err r = None -> rd_run r sizes = Ok r' ->
  sr_read_all (rd_s r) sizes (rd_acc r) = Ok (concat (rev (rd_acc r')), rd_err r', rd_s r').
Proof.
  induction sizes as [|m sizes IH]; intros r r' Hn H.
  - cbn in H. injection H as <-. cbn. rewrite Hn. reflexivity.
  - cbn [rd_run] in H. unfold rd_step in H. rewrite Hn in H.
    cbn [sr_read_all].
    destruct (sr_read (rd_s r) m) as [[[d e] s']|] eqn:E; cbn in H |- *; [|discriminate].
    destruct e as [err|].
    + rewrite rd_run_err with (e := err) in H by reflexivity. injection H as <-. reflexivity.
    + apply IH in H; [exact H | reflexivity].
Qed.

Lemma responses_do_not_share_buffers conns sched rs i :
  (i < length conns)%nat ->
  run_sched (map rd_init conns) sched = Ok rs ->
  sr_read_all (sr_init (nth i conns [])) (sizes_of i sched) [] =
    Ok (rd_data (nth i rs (rd_init [])), rd_err (nth i rs (rd_init [])), rd_s (nth i rs (rd_init []))).
Proof.
  intros Hi H.
  destruct (run_sched_independent sched _ _ i (rd_init []) H) as [Hrun _]; [rewrite map_length; exact Hi|].
  change (rd_init []) with (rd_init (@nil N)) in *.
  rewrite (map_nth rd_init conns [] i) in Hrun.
  apply rd_run_is_read_all in Hrun; [|reflexivity]. exact Hrun.
Qed.

Lemma run_sched_no_panic : forall sched rs, exists rs', run_sched rs sched = Ok rs'.
Proof.
  assert (U : forall m l i, exists l', upd_nth i (fun r => rd_step r m) l = Ok l').
  { intros m. induction l as [|r l IH]; intros i; [destruct i; eexists; reflexivity|].
    destruct i as [|i]; cbn [upd_nth].
    - destruct (rd_step_no_panic r m) as [r' ->]. eexists; reflexivity.
    - destruct (IH i) as [l' ->]. eexists; reflexivity. }
  induction sched as [|[k m] sched IH]; intros rs; [eexists; reflexivity|].
  cbn [run_sched]. destruct (U m rs k) as [rs1 ->]. cbn. apply IH.
Qed.

(* witnesses *)
Definition php5_cfg : rcfg :=
  {| c_path := bs "/"; c_preset := Some (bs "php");
     c_items := [IExt (bs ".php5"); ISplit (bs ".php5"); IIndex [bs "index.php5"]; IEnv (bs "APP_ENV") (bs "prod"); IOther] |}.
Lemma php5_cfg_witness :
  parse_rule (bs "/srv") php5_cfg =
    Some {| r_path := bs "/"; r_ext := bs ".php5"; r_split := bs ".php5"; r_index := [bs "index.php5"];
            r_except := []; r_env := [(bs "APP_ENV", bs "prod")]; r_root := bs "/srv" |} /\
  parse_rule (bs "/srv") {| c_path := bs "/"; c_preset := Some (bs "php"); c_items := [] |} =
    Some {| r_path := bs "/"; r_ext := bs ".php"; r_split := bs ".php"; r_index := [bs "index.php"];
            r_except := []; r_env := []; r_root := bs "/srv" |} /\
  parse_rule (bs "/srv") {| c_path := bs "/"; c_preset := Some (bs "python"); c_items := [IExt (bs ".py")] |} = None /\
  (exists r, parse_rule (bs "/srv") php5_cfg = Some r /\
     serve false (fun _ => true) (fun _ => true) [r] 0 (bs "/info.php5") = ODispatch 0 (bs "/info.php5") /\
     serve false (fun _ => true) (fun _ => true) [r] 0 (bs "/INFO.PHP5") = ODispatch 0 (bs "/INFO.PHP5")).
Proof.
  split; [vm_compute; reflexivity|]. split; [vm_compute; reflexivity|]. split; [vm_compute; reflexivity|].
  eexists. split; [vm_compute; reflexivity|]. split; vm_compute; reflexivity.
Qed.

Definition two_conns : list bytes :=
  [ enc_rec (T_STDOUT, bs "AAAAAAAA", 0) ++ enc_rec end_rec;
    enc_rec (T_STDOUT, bs "BBBB", 3) ++ enc_rec (T_STDERR, bs "e", 0) ++ enc_rec (T_STDOUT, bs "bb", 0) ++ enc_rec end_rec ].
Lemma two_conns_witness :
  exists rs, run_sched (map rd_init two_conns) [(0, 3); (1, 8); (1, 8); (0, 8); (1, 8); (0, 8)]%nat = Ok rs /\
             map rd_data rs = [bs "AAAAAAAA"; bs "BBBBbb"] /\ map rd_err rs = [Some REOF; Some REOF].
Proof. eexists. split; [vm_compute; reflexivity|]. split; vm_compute; reflexivity. Qed.

Lemma block_settings_win absroot path pre its post r :
  parse_rule absroot {| c_path := path; c_preset := pre; c_items := its ++ post |} = Some r ->
  (forall v tl, post = IExt v :: tl -> forallb (fun it => match it with IExt _ => false | _ => true end) tl = true -> r_ext r = v) /\
  (forall v tl, post = ISplit v :: tl -> forallb (fun it => match it with ISplit _ => false | _ => true end) tl = true -> r_split r = v) /\
  (forall v tl, post = IIndex v :: tl -> forallb (fun it => match it with IIndex _ => false | _ => true end) tl = true -> r_index r = v).
Proof.
  intros H. repeat split; intros v tl E Hp; subst post.
  - eapply block_ext_overrides_preset; eauto.
  - eapply block_split_overrides_preset; eauto.
  - eapply block_index_overrides_preset; eauto.
Qed.

Lemma setup_rules_are_declared absroot cs :
  (forall rs, parse_rules absroot cs = Some rs -> rs = map (eff_rule absroot) cs) /\
  (forallb preset_known cs = true -> exists rs, parse_rules absroot cs = Some rs).
Proof. split; [apply parse_rules_are_declared | apply parse_rules_accepts]. Qed.

(* ---------- sequences of requests (round 5, seeded change m9: pooled record writers handed out without Reset) ---------- *)

Lemma request_roundtrip_in_any_sequence :
  forall reqs i ps order body w,
  nth_error reqs i = Some (order, body) ->
  (forall kv, In kv ps -> fits kv = true) ->
  Permutation ps order ->
  nth_error (sequence_wires reqs) i = Some (Ok w) ->
  exists got, responder_receive w = Some (1, 0, got, body_bytes body) /\ Permutation ps got.
Proof.
  intros reqs i ps order body w Hi Hfit Hperm Hw.
  unfold sequence_wires in Hw. rewrite (map_nth_error _ _ _ Hi) in Hw. cbn [fst snd] in Hw.
  injection Hw as Hw. exact (request_roundtrip_any_order ps order body w Hfit Hperm Hw).
Qed.

Lemma sequence_wires_pointwise : forall before q after,
  nth_error (sequence_wires (before ++ q :: after)) (length before) = Some (request_wire (fst q) (snd q)).
Proof.
  intros before q after. unfold sequence_wires. rewrite map_app. cbn [map].
  rewrite nth_error_app2; rewrite map_length; [|apply le_n]. rewrite PeanoNat.Nat.sub_diag. reflexivity.
Qed.
