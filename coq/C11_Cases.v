(* C11 — case type and judge for the correspondence check (kept apart from the model proper). *)
Require Import V.Lib V.C11_Model V.C11_Exec.
Open Scope Z_scope.

Definition obs1 := ((N * N) * (list (list N) * Z))%type.

Definition run_op (op : N) (d : disp) : res (obs1 * disp) :=
  let pack (code : N) (payload : list (list N)) (d' : disp) := Ok ((op, code, (payload, d_nesting d')), d') in
  let bop (r : res (bool * disp)) :=
    do x <- r; let '(b, d') := x in pack (if b then 1%N else 0%N) [] d' in
  match op with
  | 0%N => bop (d_next d)
  | 1%N => bop (d_next_arg d)
  | 2%N => bop (d_next_line d)
  | 3%N => bop (d_next_block d 0)
  | 4%N => do x <- d_remaining_args (S (length (d_tokens d))) d [];
           let '(args, d') := x in pack (N.of_nat (length args)) args d'
  | _ => do v <- d_val d; pack 0%N [v] d
  end.

Fixpoint run_ops (ops : list N) (d : disp) : res (list obs1) :=
  match ops with
  | [] => Ok []
  | o :: r => do x <- run_op o d; let '(ob, d') := x in
              do rest <- run_ops r d'; Ok (ob :: rest)
  end.

Definition obs1_eqb (a b : obs1) : bool :=
  (fst (fst a) =? fst (fst b))%N && (snd (fst a) =? snd (fst b))%N &&
  list_beq leqb (fst (snd a)) (fst (snd b)) && (snd (snd a) =? snd (snd b)).

Inductive case :=
| CDisp (toks : list token) (ops : list N) (obs : list obs1) (panicked : bool)
(* classes: 0 ok, 1 error, 2 panic, 3 timeout — of validate mode and of execute mode *)
| CConf (validate execute : N)
(* a server block with several keys and one directive: class of the directive set up for each key
   alone (validate mode), and of the whole block in validate and in execute mode *)
| CConfKeys (perkey : list N) (validate execute : N)
(* a configuration whose setup does an amount of work that depends on its arguments (upstream port
   ranges): classes as above, wall time in ms and allocated memory in KiB of the slower mode, and the
   bounds they are held against *)
| CConfCost (validate execute : N) (ms kib : N) (max_ms max_kib : N)
(* configurations loaded one after the other in ONE process: for every step the class of that configuration
   loaded alone in a fresh process, and its class in the sequence (0 accepted, 1 rejected, 2 panic, 3 hang,
   4 not run because the process was wedged) *)
| CSeq (steps : list (N * N))
(* a whole file of several server blocks (the same directive line possibly in effect in several of them, written
   out or through a snippet imported more than once): class of every block loaded as a file of its own (validate
   mode), and of the whole file in validate and in execute mode *)
| CConfSites (persite : list N) (validate execute : N).

Definition judge (c : case) : N :=
  match c with
  | CDisp toks ops obs panicked =>
      let m := run_ops ops {| d_tokens := toks; d_cursor := -1; d_nesting := 0 |} in
      let agree := match m with
                   | Ok mo => negb panicked && list_beq obs1_eqb mo obs
                   | Panic => panicked
                   end in
      verdict agree (negb panicked)
  | CConf v x =>
      verdict true ((v <? 2)%N && (x <? 2)%N && (v =? x)%N)
  | CConfKeys perkey v x =>
      (* model: executeDirectives sets the directive up for the keys in order, in BOTH modes; the first
         rejected key ends the load (C09_Model.execute instantiated with the observed per-key outcomes) *)
      let known := forallb (fun c => (c <? 2)%N) perkey in
      let agree := negb known ||
                   ((v =? predict_block false perkey)%N && (x =? predict_block true perkey)%N) in
      (* spec, on the implementation's own answers and without the model function: no panic, no hang, the modes
         agree - and, when every key alone answered (accepted / rejected), the block is accepted in a mode exactly
         when EVERY key alone is (C11_validation_accepts_iff_every_key_accepts read as a statement about the code:
         the setup runs for every key of the block, for that key) *)
      let every := forallb (fun c => (c =? 0)%N) perkey in
      verdict agree ((v <? 2)%N && (x <? 2)%N && (v =? x)%N &&
                     (negb known || (Bool.eqb (v =? 0)%N every && Bool.eqb (x =? 0)%N every)))
  | CConfSites persite v x =>
      (* model: the blocks are set up in order, each does what it does alone, the first rejected one ends the load,
         in BOTH modes (C11_predict_sites_first_rejected); spec: no panic, no hang, the modes agree - however often
         a line is in effect within the load *)
      let known := forallb (fun c => (c <? 2)%N) persite in
      let agree := negb known ||
                   ((v =? predict_sites false persite)%N && (x =? predict_sites true persite)%N) in
      verdict agree ((v <? 2)%N && (x <? 2)%N && (v =? x)%N)
  | CSeq steps =>
      (* model: what a configuration does depends on the process-global state only up to what setups cannot tell
         apart, and setups leave that state as they found it - so every step answers as it does alone
         (C11_outcome_after_any_loads); spec: no step panics or hangs, whatever was loaded - or rejected - before *)
      verdict (forallb (fun p => (fst p =? snd p)%N) steps)
              (forallb (fun p => (snd p <? 2)%N && (fst p <? 2)%N && (fst p =? snd p)%N) steps)
  | CConfCost v x ms kib max_ms max_kib =>
      verdict true ((v <? 2)%N && (x <? 2)%N && (v =? x)%N && (ms <=? max_ms)%N && (kib <=? max_kib)%N)
  end.
