(* Lib.v — shared base: byte strings as [list N], hex literals for case files,
   Go-style checked results, small list utilities.  Stdlib only. *)
From Coq Require Export List NArith ZArith Bool Lia Ascii.
From Coq Require String.
Export String.StringSyntax.
Delimit Scope string_scope with string.
Notation string := String.string.
Notation String := String.String.
Notation EmptyString := String.EmptyString.
Export ListNotations.
Open Scope N_scope.

Definition bytes := list N.

(* ---- hex literals (used only by generated case files) ---- *)
Definition hexval (a : ascii) : N :=
  let c := N_of_ascii a in
  if (48 <=? c) && (c <=? 57) then c - 48
  else if (97 <=? c) && (c <=? 102) then c - 87
  else if (65 <=? c) && (c <=? 70) then c - 55 else 0.

Fixpoint hex (s : string) : bytes :=
  match s with
  | String a (String b r) => (16 * hexval a + hexval b) :: hex r
  | _ => []
  end.

(* plain ASCII literal -> bytes (for readable constants in models) *)
Fixpoint bs (s : string) : bytes :=
  match s with
  | EmptyString => []
  | String a r => N_of_ascii a :: bs r
  end.

(* ---- equality ---- *)
Fixpoint beq (a b : bytes) : bool :=
  match a, b with
  | [], [] => true
  | x :: a', y :: b' => (x =? y) && beq a' b'
  | _, _ => false
  end.

Lemma beq_eq a b : beq a b = true <-> a = b.
Proof.
  revert b; induction a as [|x a IH]; intros [|y b]; simpl; split; intro H;
    try discriminate; try reflexivity.
  - apply andb_true_iff in H as [H1 H2]. apply N.eqb_eq in H1. apply IH in H2. congruence.
  - inversion H; subst. rewrite N.eqb_refl. simpl. apply IH. reflexivity.
Qed.

Lemma beq_refl a : beq a a = true.
Proof. apply beq_eq. reflexivity. Qed.

Fixpoint list_beq {A} (eqb : A -> A -> bool) (a b : list A) : bool :=
  match a, b with
  | [], [] => true
  | x :: a', y :: b' => eqb x y && list_beq eqb a' b'
  | _, _ => false
  end.

(* ---- Go-style result: a checked operation either yields a value or panics ---- *)
Inductive res (A : Type) : Type :=
| Ok (v : A)
| Panic.
Arguments Ok {A} v.
Arguments Panic {A}.

Definition rbind {A B} (r : res A) (f : A -> res B) : res B :=
  match r with Ok v => f v | Panic => Panic end.
Notation "'do' x <- r ; k" := (rbind r (fun x => k)) (at level 200, x pattern, r at level 100, k at level 200).

Definition is_panic {A} (r : res A) : bool := match r with Panic => true | _ => false end.

(* checked index / slices with Go semantics *)
Definition idx {A} (l : list A) (i : nat) : res A :=
  match nth_error l i with Some v => Ok v | None => Panic end.

Definition slice {A} (l : list A) (lo hi : nat) : res (list A) :=
  if (Nat.leb lo hi) && (Nat.leb hi (length l)) then Ok (firstn (hi - lo) (skipn lo l)) else Panic.

Definition slice_from {A} (l : list A) (lo : nat) : res (list A) :=
  if Nat.leb lo (length l) then Ok (skipn lo l) else Panic.

(* ---- verdicts used by every generated case file ---- *)
(* code 0 = model and implementation agree and the spec oracle accepts;
   1 = model/implementation disagree (correspondence broken);
   2 = the executable spec rejects what the implementation did (property violated);
   3 = both. *)
Definition verdict (agree spec_ok : bool) : N :=
  (if agree then 0 else 1) + (if spec_ok then 0 else 2).

Fixpoint bad_from {C} (judge : C -> N) (i : N) (cs : list C) : list (N * N) :=
  match cs with
  | [] => []
  | c :: r => let v := judge c in
              if v =? 0 then bad_from judge (i + 1) r else (i, v) :: bad_from judge (i + 1) r
  end.
Definition bad {C} (judge : C -> N) (cs : list C) : list (N * N) := bad_from judge 0 cs.
