(* C01 — property theorems only. *)
Require Import V.Lib V.GoPath V.GoNet V.C01_Model V.C01_Proofs.
From Coq Require Import Permutation.
Open Scope N_scope.

(* Among the matched host's sites the one with the LONGEST byte-wise path prefix is chosen. *)
Theorem C01_match_path_longest : forall t h path s q,
  match_path t h path = Some (s, q) ->
  has_prefix path q = true /\ q <> [] /\ lookup t h q = Some s /\
  forall q', q' <> [] -> has_prefix path q' = true -> lookup t h q' <> None ->
             (length q' <= length q)%nat.
Proof. exact match_path_longest. Qed.
Print Assumptions C01_match_path_longest.

(* Host matched but no path prefix stored => no site (no fall-through to other hosts). *)
Theorem C01_match_path_none : forall t h path,
  match_path t h path = None ->
  forall q', q' <> [] -> has_prefix path q' = true -> lookup t h q' = None.
Proof. exact match_path_none. Qed.
Print Assumptions C01_match_path_none.

(* Most specific host: exact name, else the wildcard pattern with the fewest leading "*" labels. *)
Theorem C01_match_host_most_specific : forall t host k,
  match_host t host = Some k ->
  host_present t k = true /\
  (k = host \/
   host_present t host = false /\
   exists j, (1 <= j <= length (split DOT host))%nat /\
     k = join [DOT] (star_labels j (split DOT host)) /\
     forall j', (1 <= j' < j)%nat ->
       host_present t (join [DOT] (star_labels j' (split DOT host))) = false).
Proof. exact match_host_most_specific. Qed.
Print Assumptions C01_match_host_most_specific.

Theorem C01_exact_host_wins : forall t host,
  host_present t host = true -> match_host t host = Some host.
Proof. exact exact_host_wins. Qed.
Print Assumptions C01_exact_host_wins.

(* A request that matches no site is answered 404 (421 on HTTP/2) — and [serve] then names no
   site, so no site's chain is invoked (the harness checks the marker count is 0). *)
Theorem C01_not_found_status : forall t xf hh up proto st,
  serve t xf hh up proto = NotFound st -> st = (if 2 <=? proto then 421 else 404).
Proof. exact not_found_status. Qed.
Print Assumptions C01_not_found_status.

(* The site that handles the request is a declared one, reached through its own address key,
   whose path part is a prefix of the request path. *)
Theorem C01_serve_site_declared : forall sites xf hh up proto s prefix,
  NoDup (map key_of sites) ->
  serve (build sites) xf hh up proto = Site s prefix ->
  exists key, In (key, s) sites /\ snd (split_host_path key) = prefix /\
              has_prefix (snd (split_host_path (strip_port hh ++ up))) prefix = true.
Proof. exact serve_site_declared. Qed.
Print Assumptions C01_serve_site_declared.

(* The outcome never depends on the order in which the sites were declared: for every site set
   with pairwise distinct (normalised host, path) keys, every permutation, every request. *)
Theorem C01_route_order_independent : forall sites sites' xf hh up proto,
  NoDup (map key_of sites) -> Permutation sites sites' ->
  serve (build sites) xf hh up proto = serve (build sites') xf hh up proto.
Proof. exact route_order_independent. Qed.
Print Assumptions C01_route_order_independent.

Example C01_route_nonvacuous :
  let sites := [(bs "a.com/x"%string, 1); (bs "*.com"%string, 2); (bs "a.com"%string, 3); (bs ":80"%string, 4)] in
  NoDup (map key_of sites) /\
  serve (build sites) [] (bs "A.com:8080"%string) (bs "/xy"%string) 1 = Site 1 (bs "/x"%string) /\
  serve (build sites) [] (bs "b.com"%string) (bs "/xy"%string) 1 = Site 2 (bs "/"%string) /\
  serve (build sites) [] (bs "b.org"%string) (bs "/"%string) 2 = Site 4 (bs "/"%string).
Proof.
  cbv zeta. split; [|vm_compute; auto].
  repeat constructor; vm_compute; intuition discriminate.
Qed.
