(* C01 — property theorems only. *)
Require Import V.Lib V.GoPath V.GoNet V.C01_Model V.C01_Proofs.
From Coq Require Import Permutation.
Open Scope N_scope.

(* Among the matched host's sites the one with the LONGEST byte-wise path prefix is chosen. *)
Theorem C01_match_path_longest : forall t h path s q,
  match_path t h path = Some (s, q) ->
  has_prefix path q = true /\ q <> [] /\ lookup t h q = Some s /\
  forall q', q' <> [] -> has_prefix path q' = true -> lookup t h q' <> None ->
             (length q' <= length q)%nat.
Proof. exact match_path_longest. Qed.
Print Assumptions C01_match_path_longest.

(* Host matched but no path prefix stored => no site (no fall-through to other hosts). *)
Theorem C01_match_path_none : forall t h path,
  match_path t h path = None ->
  forall q', q' <> [] -> has_prefix path q' = true -> lookup t h q' = None.
Proof. exact match_path_none. Qed.
Print Assumptions C01_match_path_none.

(* Most specific host: exact name, else the wildcard pattern with the fewest leading "*" labels. *)
Theorem C01_match_host_most_specific : forall t host k,
  match_host t host = Some k ->
  host_present t k = true /\
  (k = host \/
   host_present t host = false /\
   exists j, (1 <= j <= length (split DOT host))%nat /\
     k = join [DOT] (star_labels j (split DOT host)) /\
     forall j', (1 <= j' < j)%nat ->
       host_present t (join [DOT] (star_labels j' (split DOT host))) = false).
Proof. exact match_host_most_specific. Qed.
Print Assumptions C01_match_host_most_specific.

Theorem C01_exact_host_wins : forall t host,
  host_present t host = true -> match_host t host = Some host.
Proof. exact exact_host_wins. Qed.
Print Assumptions C01_exact_host_wins.

(* A request that matches no site is answered 404 (421 on HTTP/2) — and [serve] then names no
   site, so no site's chain is invoked (the harness checks the marker count is 0). *)
Theorem C01_not_found_status : forall t xf hh up proto st,
  serve t xf hh up proto = NotFound st -> st = (if 2 <=? proto then 421 else 404).
Proof. exact not_found_status. Qed.
Print Assumptions C01_not_found_status.

(* The site that handles the request is a declared one, reached through its own address key,
   whose path part is a prefix of the request path. *)
Theorem C01_serve_site_declared : forall sites xf hh up proto s prefix,
  NoDup (map key_of sites) ->
  serve (build sites) xf hh up proto = Site s prefix ->
  exists key, In (key, s) sites /\ snd (split_host_path key) = prefix /\
              has_prefix (snd (split_host_path (strip_port hh ++ up))) prefix = true.
Proof. exact serve_site_declared. Qed.
Print Assumptions C01_serve_site_declared.

(* The outcome never depends on the order in which the sites were declared: for every site set
   with pairwise distinct (normalised host, path) keys, every permutation, every request. *)
Theorem C01_route_order_independent : forall sites sites' xf hh up proto,
  NoDup (map key_of sites) -> Permutation sites sites' ->
  serve (build sites) xf hh up proto = serve (build sites') xf hh up proto.
Proof. exact route_order_independent. Qed.
Print Assumptions C01_route_order_independent.

Example C01_route_nonvacuous :
  let sites := [(bs "a.com/x"%string, 1); (bs "*.com"%string, 2); (bs "a.com"%string, 3); (bs ":80"%string, 4)] in
  NoDup (map key_of sites) /\
  serve (build sites) [] (bs "A.com:8080"%string) (bs "/xy"%string) 1 = Site 1 (bs "/x"%string) /\
  serve (build sites) [] (bs "b.com"%string) (bs "/xy"%string) 1 = Site 2 (bs "/"%string) /\
  serve (build sites) [] (bs "b.org"%string) (bs "/"%string) 2 = Site 4 (bs "/"%string).
Proof.
  cbv zeta. split; [|vm_compute; auto].
  repeat constructor; vm_compute; intuition discriminate.
Qed.

(* ===================== the real two-level trie (vhosttrie.go) ===================== *)

(* get after insert: insertPath stores (site, originalPath) exactly at the key and nowhere else *)
Theorem C01_trie_get_insert : forall k o s t,
  get k (insert_path k o s t) = Some (s, o) /\
  forall k', k <> k' -> get k' (insert_path k o s t) = get k' t.
Proof. intros k o s t. split; [apply get_insert_same|intros k'; apply get_insert_other]. Qed.
Print Assumptions C01_trie_get_insert.

(* a Go map holds each key once; the edge update keeps it so *)
Theorem C01_trie_edge_update_keeps_keys_unique : forall k f es,
  NoDup (map fst es) -> NoDup (map fst (edge_upd k f es)).
Proof. exact edge_upd_keys_nodup. Qed.
Print Assumptions C01_trie_edge_update_keeps_keys_unique.
Example C01_trie_edge_update_nonvacuous :
  NoDup (map fst (t_edges (tbuild [(bs "a.com/x"%string, 1); (bs "b.com"%string, 2)]))).
Proof. vm_compute. repeat constructor; cbn; intuition discriminate. Qed.

(* matchPath on ANY trie node (built or not): the value stored at the longest non-empty prefix
   of the path that carries a site *)
Theorem C01_trie_match_path_longest : forall b path v,
  tmatch_path path b None = Some v ->
  exists q, q <> [] /\ has_prefix path q = true /\ get q b = Some v /\
    forall q', q' <> [] -> has_prefix path q' = true -> get q' b <> None ->
               (length q' <= length q)%nat.
Proof. exact trie_match_path_longest. Qed.
Print Assumptions C01_trie_match_path_longest.

Theorem C01_trie_match_path_none : forall b path,
  tmatch_path path b None = None ->
  forall q', q' <> [] -> has_prefix path q' = true -> get q' b = None.
Proof. exact trie_match_path_none. Qed.
Print Assumptions C01_trie_match_path_none.

(* REFINEMENT: the trie built by inserting ANY list of sites is extensionally the finite map:
   same set of host keys, and exact lookup returns the map's site together with the key's own
   path (so node.path is always the path spelled by the edges). *)
Theorem C01_trie_refines_map : forall sites,
  (forall h, thost_present (tbuild sites) h = host_present (build sites) h) /\
  (forall h p, tlookup (tbuild sites) h p = option_map (fun s => (s, p)) (lookup (build sites) h p)).
Proof. exact trie_refines_map. Qed.
Print Assumptions C01_trie_refines_map.

(* ... and Match/serveHTTP over the trie compute exactly what the finite-map model computes, so
   every theorem above about [serve (build sites)] holds of the real data structure. *)
Theorem C01_trie_serve_refines : forall sites xf hh up proto,
  tserve (tbuild sites) xf hh up proto = serve (build sites) xf hh up proto.
Proof. exact tserve_build. Qed.
Print Assumptions C01_trie_serve_refines.

(* ===================== end-to-end specification ===================== *)

(* For ALL site lists (any bytes, duplicates, any order) and ALL requests (any Host bytes —
   case, port, brackets —, any path bytes, any protocol version) the server routes exactly as
   the declarative statement [spec] of C01_Model says. *)
Theorem C01_route_spec : forall sites xf hh up proto,
  tserve (tbuild sites) xf hh up proto = spec sites xf hh up proto.
Proof. exact route_spec. Qed.
Print Assumptions C01_route_spec.

(* the governing host pattern: most specific declared pattern (exact name first, then fewer
   leading "*" labels) of the first of request host, fallback hosts that has one *)
Theorem C01_governing_pattern_most_specific : forall sites fbs host pat,
  governing_pattern sites fbs host = Some pat ->
  host_declared sites pat = true /\
  exists before h after pre post,
    host :: fbs = before ++ h :: after /\ patterns h = pre ++ pat :: post /\
    (forall p, In p pre -> host_declared sites p = false) /\
    (forall h', In h' before -> forall p, In p (patterns h') -> host_declared sites p = false).
Proof. exact governing_pattern_most_specific. Qed.
Print Assumptions C01_governing_pattern_most_specific.
Example C01_governing_pattern_nonvacuous :
  governing_pattern [(bs "*.*.com/x"%string, 1); (bs "*.a.com"%string, 2); (bs ":80"%string, 3)] []
                    (bs "b.a.com"%string) = Some (bs "*.a.com"%string).
Proof. vm_compute. reflexivity. Qed.

(* a hit, read relationally over the declared list: the site is declared at (governing pattern,
   q), q is the LONGEST declared byte-wise prefix of the request path among that pattern's sites
   (no other host's sites are considered), and exactly that one site's handlers run *)
Theorem C01_route_site_characterised : forall sites xf hh up proto s q,
  tserve (tbuild sites) xf hh up proto = Site s q ->
  let key := strip_port hh ++ up in
  exists pat,
    governing_pattern sites (default_fallbacks ++ xf) (addr_host key) = Some pat /\
    owner sites pat q = Some s /\ q <> [] /\ has_prefix (addr_path key) q = true /\
    (exists a, In (a, s) sites /\ addr_host a = pat /\ addr_path a = q) /\
    (forall a' s', In (a', s') sites -> addr_host a' = pat ->
                   has_prefix (addr_path key) (addr_path a') = true ->
                   (length (addr_path a') <= length q)%nat) /\
    handlers_run (tserve (tbuild sites) xf hh up proto) = [s].
Proof. exact route_site_characterised. Qed.
Print Assumptions C01_route_site_characterised.
Example C01_route_site_nonvacuous :
  tserve (tbuild [(bs "a.com/caf"%string, 1); (bs "a.com/"%string, 2); (bs "*.com/caf"%string ++ [195;169], 3)])
         [] (bs "A.com:8080"%string) (bs "/caf"%string ++ [195;169;47]) 2 = Site 1 (bs "/caf"%string).
Proof. vm_compute. reflexivity. Qed.

(* a request matches no site (no declared pattern for its host or any fallback host, or the
   governing pattern has no site whose path is a prefix — other hosts are NOT tried)
   <=> the answer is 404 (421 on HTTP/2), and then no site's handlers run *)
Theorem C01_no_match_runs_no_handler : forall sites xf hh up proto,
  no_site_matches sites xf hh up <->
  (tserve (tbuild sites) xf hh up proto = NotFound (if 2 <=? proto then 421 else 404) /\
   handlers_run (tserve (tbuild sites) xf hh up proto) = []).
Proof. exact no_match_runs_no_handler. Qed.
Print Assumptions C01_no_match_runs_no_handler.
Example C01_no_match_nonvacuous :
  no_site_matches [(bs "a.com/x"%string, 1); (bs ":80/y"%string, 2)] [] (bs "a.com"%string) (bs "/y"%string) /\
  tserve (tbuild [(bs "a.com/x"%string, 1); (bs ":80/y"%string, 2)]) [] (bs "a.com"%string) (bs "/y"%string) 2
    = NotFound 421.
Proof.
  split; [|vm_compute; reflexivity].
  apply (proj2 (no_match_runs_no_handler _ _ _ _ 1)). vm_compute. auto.
Qed.

Theorem C01_handlers_run_at_most_one : forall sites xf hh up proto,
  (length (handlers_run (tserve (tbuild sites) xf hh up proto)) <= 1)%nat.
Proof. exact handlers_run_at_most_one. Qed.
Print Assumptions C01_handlers_run_at_most_one.

(* order independence restated on the specification and on the real trie: unique normalised
   addresses, any permutation, any request *)
Theorem C01_route_order_independent_spec : forall sites sites' xf hh up proto,
  NoDup (map addr_key sites) -> Permutation sites sites' ->
  spec sites xf hh up proto = spec sites' xf hh up proto /\
  tserve (tbuild sites) xf hh up proto = tserve (tbuild sites') xf hh up proto.
Proof. exact spec_order_independent. Qed.
Print Assumptions C01_route_order_independent_spec.
Example C01_route_order_independent_spec_nonvacuous :
  NoDup (map addr_key [(bs "a.com/x"%string, 1); (bs "*.com"%string, 2); (bs "A.com:80"%string, 3); (bs "[::1]:80"%string, 4)]).
Proof. repeat constructor; vm_compute; intuition discriminate. Qed.

(* without the uniqueness hypothesis the claim is false: the later of two sites declared at the
   same normalised address wins *)
Theorem C01_route_order_independent_dup_refuted :
  exists sites sites' xf hh up proto,
    Permutation sites sites' /\
    tserve (tbuild sites) xf hh up proto <> tserve (tbuild sites') xf hh up proto.
Proof. exact order_dependent_with_duplicates. Qed.
Print Assumptions C01_route_order_independent_dup_refuted.

(* host matching ignores letter case and port: for every name without ':' '[' ']' '/', every
   re-casing of it, with or without any port text, the outcome is the same *)
Theorem C01_host_case_port_irrelevant : forall sites xf h h' port port' up proto,
  plain h = true -> plain h' = true ->
  match port with Some p => plain p = true | None => True end ->
  match port' with Some p => plain p = true | None => True end ->
  to_lower h = to_lower h' ->
  tserve (tbuild sites) xf (with_port h port) up proto =
  tserve (tbuild sites) xf (with_port h' port') up proto.
Proof. exact host_case_port_irrelevant. Qed.
Print Assumptions C01_host_case_port_irrelevant.
Example C01_host_case_port_nonvacuous :
  plain (bs "B.a.Com"%string) = true /\ plain (bs "8080"%string) = true /\
  to_lower (bs "B.a.Com"%string) = to_lower (bs "b.A.com"%string) /\
  tserve (tbuild [(bs "*.a.com"%string, 7)]) [] (with_port (bs "B.a.Com"%string) (Some (bs "8080"%string))) (bs "/"%string) 1
    = Site 7 (bs "/"%string).
Proof. vm_compute. auto. Qed.

(* the refinement is an invariant of Insert from ANY refining state, and any refining pair
   routes identically (not only tries built from the empty one) *)
Theorem C01_trie_insert_preserves_refinement : forall root m key s,
  refines root m -> refines (tinsert root key s) (insert m key s).
Proof. exact refines_insert. Qed.
Print Assumptions C01_trie_insert_preserves_refinement.
Theorem C01_trie_serve_refines_any : forall root m xf hh up proto,
  refines root m -> tserve root xf hh up proto = serve m xf hh up proto.
Proof. exact tserve_refines. Qed.
Print Assumptions C01_trie_serve_refines_any.
Example C01_trie_refines_nonvacuous :
  refines (tbuild [(bs "a.com/x"%string, 1); (bs "*.com"%string, 2)]) (build [(bs "a.com/x"%string, 1); (bs "*.com"%string, 2)]).
Proof. apply trie_refines_map. Qed.

(* bracketed (IPv6) literals: brackets, letter case and port are ignored as well — for every text
   between the brackets that is not itself of the form host:port (an IPv6 address has at least
   two colons), and every ordinary request path (empty or starting with "/") *)
Theorem C01_host_bracket_port_irrelevant_partial : forall sites xf a a' port port' up proto,
  no_byte LBR a = true -> no_byte RBR a = true -> no_byte SLASH a = true ->
  no_byte LBR a' = true -> no_byte RBR a' = true -> no_byte SLASH a' = true ->
  split_host_port (to_lower a) = None ->
  match port with Some p => plain p = true | None => True end ->
  match port' with Some p => plain p = true | None => True end ->
  to_lower a = to_lower a' -> upto_slash up = [] ->
  tserve (tbuild sites) xf (bracketed a port) up proto =
  tserve (tbuild sites) xf (bracketed a' port') up proto.
Proof. exact host_bracket_port_irrelevant. Qed.
Print Assumptions C01_host_bracket_port_irrelevant_partial.
Example C01_host_bracket_port_nonvacuous :
  let a := bs "2001:DB8::1"%string in
  no_byte LBR a = true /\ no_byte RBR a = true /\ no_byte SLASH a = true /\
  split_host_port (to_lower a) = None /\ upto_slash (bs "/x"%string) = [] /\
  tserve (tbuild [(bs "[2001:db8::1]:2015/x"%string, 5)]) [] (bracketed a (Some (bs "80"%string))) (bs "/x"%string) 1
    = Site 5 (bs "/x"%string) /\
  tserve (tbuild [(bs "[2001:db8::1]:2015/x"%string, 5)]) [] (bracketed a None) (bs "/x"%string) 1
    = Site 5 (bs "/x"%string).
Proof. vm_compute. repeat split; reflexivity. Qed.

(* without that hypothesis the claim is false: "[a.com:1]:2" loses its brackets with the port and
   is then read as host:port a second time *)
Theorem C01_host_bracket_port_irrelevant_refuted :
  exists sites xf a port up proto,
    no_byte LBR a = true /\ no_byte RBR a = true /\ no_byte SLASH a = true /\ plain port = true /\
    tserve (tbuild sites) xf (bracketed a (Some port)) up proto <>
    tserve (tbuild sites) xf (bracketed a None) up proto.
Proof. exact host_bracket_one_colon_differs. Qed.
Print Assumptions C01_host_bracket_port_irrelevant_refuted.

(* ===================== several listeners in one process ===================== *)
(* NewServer is modelled with Go's slice semantics (arrays on a heap, append writes in place while
   the capacity lasts): every trie gets its own fallback-host array, so appending a listener's
   designated fallback hosts never writes into memory another listener reads. For EVERY sequence
   of listener groups created in one process (several listeners, or the same groups created
   again as a reload does) and every listener i, a request on listener i — sent after all of
   them exist — is routed exactly as by a server created alone from listener i's own group:
   "else a catch-all or designated fallback site" means one OF THAT LISTENER. *)
Theorem C01_fallback_list_is_per_listener : forall groups i g hh up proto,
  nth_error groups i = Some g ->
  mserve groups i hh up proto = Some (tserve (tbuild (fst g)) (snd g) hh up proto).
Proof. exact fallback_list_is_per_listener. Qed.
Print Assumptions C01_fallback_list_is_per_listener.

(* ... hence it depends on nothing but that group: any two processes in which a listener has the
   same group route its requests identically, whatever else was created before or after *)
Theorem C01_listener_routing_independent_of_other_listeners : forall groups groups' i i' hh up proto,
  nth_error groups i = nth_error groups' i' -> nth_error groups i <> None ->
  mserve groups i hh up proto = mserve groups' i' hh up proto.
Proof. exact listener_independent. Qed.
Print Assumptions C01_listener_routing_independent_of_other_listeners.

(* ... and it is the declarative statement [spec] evaluated on that listener's own sites *)
Theorem C01_listener_routes_as_spec : forall groups i g hh up proto,
  nth_error groups i = Some g ->
  mserve groups i hh up proto = Some (spec (fst g) (snd g) hh up proto).
Proof. exact listener_routes_as_spec. Qed.
Print Assumptions C01_listener_routes_as_spec.
Example C01_fallback_list_is_per_listener_nonvacuous :
  let ga : group := ([(bs "a.example"%string, 1)], [bs "a.example"%string]) in
  let gb : group := ([(bs "b.example"%string, 2); (bs "a.example/x"%string, 3)], [bs "b.example"%string]) in
  nth_error [ga; gb; ga] 0 = Some ga /\
  mserve [ga; gb; ga] 0 (bs "zzz"%string) (bs "/x"%string) 1 = Some (Site 1 (bs "/"%string)) /\
  mserve [ga; gb; ga] 1 (bs "zzz"%string) (bs "/x"%string) 1 = Some (Site 2 (bs "/"%string)) /\
  mserve [ga; gb; ga] 2 (bs "zzz:80"%string) (bs "/x"%string) 2 = Some (Site 1 (bs "/"%string)).
Proof. vm_compute. repeat split; reflexivity. Qed.

(* the same heap model with ONE shared list of len 3 / cap 4 instead of a list per trie: the
   second listener's append lands in the first listener's fourth slot, and the first listener
   answers 404 for a host its own designated fallback site must serve *)
Theorem C01_shared_fallback_list_would_leak :
  let hp0 := [default_fallbacks ++ [[]]] in
  let shared := {| sl_arr := 0; sl_len := 3; sl_cap := 4 |} in
  let ga : group := ([(bs "a.example"%string, 1)], [bs "a.example"%string]) in
  let gb : group := ([(bs "b.example"%string, 2)], [bs "b.example"%string]) in
  mserve_st (fold_left (new_server_shared shared) [ga; gb] (hp0, [])) 0 (bs "zzz"%string) (bs "/"%string) 1
    = Some (NotFound 404) /\
  mserve [ga; gb] 0 (bs "zzz"%string) (bs "/"%string) 1 = Some (Site 1 (bs "/"%string)).
Proof. exact shared_list_leaks. Qed.
Print Assumptions C01_shared_fallback_list_would_leak.

(* ---- request SEQUENCES against a running process ------------------------------------------ *)
(* serveHTTP keeps nothing between requests: for EVERY sequence of listener groups and EVERY
   sequence of requests to them, the k-th answer is the declarative statement [spec] evaluated
   on the k-th request's Host and path and its own listener's sites — whatever was asked before
   (a miss on the same host, hits, other hosts, other listeners). *)
Theorem C01_routing_is_stateless : forall groups qs k q g,
  nth_error qs k = Some q -> nth_error groups (rq_srv q) = Some g ->
  nth_error (serve_seq (process groups) qs) k
    = Some (Some (spec (fst g) (snd g) (rq_host q) (rq_path q) (rq_proto q))).
Proof. exact routing_is_stateless. Qed.
Print Assumptions C01_routing_is_stateless.

(* ... so a request gets the answer it would get as the first request of the process *)
Theorem C01_request_history_irrelevant : forall groups pre q,
  serve_seq (process groups) (pre ++ [q])
    = serve_seq (process groups) pre ++ [mserve groups (rq_srv q) (rq_host q) (rq_path q) (rq_proto q)].
Proof. exact request_history_irrelevant. Qed.
Print Assumptions C01_request_history_irrelevant.

Example C01_routing_is_stateless_nonvacuous :
  let g : group := ([(bs "example.com/app"%string, 1); (bs "example.com/api"%string, 2); (bs "other.org"%string, 3)], []) in
  let r h p := {| rq_srv := 0; rq_host := bs h; rq_path := bs p; rq_proto := 1 |} in
  serve_seq (process [g]) [r "example.com" "/favicon.ico"; r "example.com" "/app/index"; r "nosuch" "/";
                           r "EXAMPLE.com:80" "/api/v1"; r "other.org" "/app"; r "example.com" "/favicon.ico"]%string
  = [Some (NotFound 404); Some (Site 1 (bs "/app"%string)); Some (NotFound 404);
     Some (Site 2 (bs "/api"%string)); Some (Site 3 (bs "/"%string)); Some (NotFound 404)].
Proof. vm_compute. reflexivity. Qed.

(* what statelessness rules out: a serveHTTP that remembers the host names whose lookup found no
   site (Match also finds none when the HOST matched and no path prefix covers the path) answers
   404 for /app/index after one request for /favicon.ico, where the code answers with site 1 *)
Theorem C01_unknown_host_cache_would_poison :
  let sites := [(bs "example.com/app"%string, 1); (bs "example.com/api"%string, 2)] in
  let q1 := (bs "example.com"%string, bs "/favicon.ico"%string, 1) in
  let q2 := (bs "example.com"%string, bs "/app/index"%string, 1) in
  let r q := {| rq_srv := 0; rq_host := fst (fst q); rq_path := snd (fst q); rq_proto := snd q |} in
  serve_seq_cached (tbuild sites) default_fallbacks [] [q1; q2] = [NotFound 404; NotFound 404] /\
  serve_seq_cached (tbuild sites) default_fallbacks [] [q2; q1; q2] = [Site 1 (bs "/app"%string); NotFound 404; NotFound 404] /\
  serve_seq (process [(sites, [])]) [r q1; r q2] = [Some (NotFound 404); Some (Site 1 (bs "/app"%string))].
Proof. exact unknown_host_cache_poisons. Qed.
Print Assumptions C01_unknown_host_cache_would_poison.

(* ===================== the outcome is a function of the declared map / set ===================== *)
(* The routing outcome of EVERY request depends on the declared site list only through the map
   (normalised host pattern, path prefix) -> site it denotes ([owner]: the last declaration at an
   address): any two site lists denoting the same map — any order, any repetitions, any spelling
   of the addresses (letter case, port, brackets), host patterns with any number of leading "*"
   labels, catch-alls, any path bytes — route every request identically. No uniqueness
   hypothesis. *)
Theorem C01_route_function_of_declared_map : forall sites sites',
  (forall h p, owner sites h p = owner sites' h p) ->
  forall xf hh up proto,
    tserve (tbuild sites) xf hh up proto = tserve (tbuild sites') xf hh up proto.
Proof. exact route_function_of_owner. Qed.
Print Assumptions C01_route_function_of_declared_map.
Example C01_route_function_of_declared_map_nonvacuous :
  let sites  := [(bs "a.com/x"%string, 9); (bs "*.*.com"%string, 2); (bs "A.com:80/x"%string, 1); (bs "*.a.com"%string, 3)] in
  let sites' := [(bs "*.a.com:2015"%string, 3); (bs "a.COM/x"%string, 1); (bs "*.*.com"%string, 2)] in
  (forall h p, owner sites h p = owner sites' h p) /\
  tserve (tbuild sites) [] (bs "b.a.com"%string) (bs "/"%string) 1 = Site 3 (bs "/"%string) /\
  tserve (tbuild sites') [] (bs "c.b.com"%string) (bs "/"%string) 1 = Site 2 (bs "/"%string).
Proof.
  cbv zeta. split; [|vm_compute; auto].
  intros h p. unfold owner, at_addr. cbn [rev app find fst].
  repeat match goal with |- context [addr_host ?a] => let v := eval vm_compute in (addr_host a) in change (addr_host a) with v end.
  repeat match goal with |- context [addr_path ?a] => let v := eval vm_compute in (addr_path a) in change (addr_path a) with v end.
  repeat match goal with |- context [beq ?k h] =>
    let H := fresh "H" in destruct (beq k h) eqn:H; [apply beq_eq in H; subst h|] end;
  repeat match goal with |- context [beq ?k p] =>
    let H := fresh "H" in destruct (beq k p) eqn:H; [apply beq_eq in H; subst p|] end;
  vm_compute; reflexivity.
Qed.

(* ... in particular of the SET of declarations when addresses are unique: two lists with the
   same elements (any order) route identically *)
Theorem C01_route_function_of_declared_set : forall sites sites',
  NoDup (map addr_key sites) -> NoDup (map addr_key sites') ->
  (forall a s, In (a, s) sites <-> In (a, s) sites') ->
  forall xf hh up proto,
    tserve (tbuild sites) xf hh up proto = tserve (tbuild sites') xf hh up proto.
Proof. exact route_function_of_declared_set. Qed.
Print Assumptions C01_route_function_of_declared_set.

(* ===================== the request-target: routing sees the decoded path only ================= *)
(* unescape (url.ParseRequestURI's path decoding) decodes exactly the spellings: raw decodes to p
   iff every octet of p is written in raw as itself or as "%" + two hex digits of either case *)
Theorem C01_target_decoding_is_spelling : forall raw p, unescape raw = Some p <-> spells raw p.
Proof. exact unescape_spells. Qed.
Print Assumptions C01_target_decoding_is_spelling.

(* every origin-form target that spells the path p — percent-encoded ASCII ("%2F" for "/"
   inside a site's prefix, "%61" for "a"), percent-encoded non-ASCII or invalid UTF-8 octets, hex
   digits of either case, any query — is routed as the declarative [spec] says for p *)
Theorem C01_target_routes_by_decoded_path : forall sites xf hh raw p proto,
  target_ok raw = true -> spells (upto_q raw) p ->
  tserve_target (tbuild sites) xf hh raw proto = Some (spec sites xf hh p proto).
Proof. exact target_route_decoded. Qed.
Print Assumptions C01_target_routes_by_decoded_path.

Theorem C01_target_spelling_irrelevant : forall sites xf hh raw raw' p proto,
  target_ok raw = true -> target_ok raw' = true ->
  spells (upto_q raw) p -> spells (upto_q raw') p ->
  tserve_target (tbuild sites) xf hh raw proto = tserve_target (tbuild sites) xf hh raw' proto.
Proof. exact target_route_spelling_irrelevant. Qed.
Print Assumptions C01_target_spelling_irrelevant.
Example C01_target_spelling_nonvacuous :
  let sites := [(bs "a.com/a/b"%string, 1); (bs "a.com/caf"%string ++ [195;169], 2); (bs "a.com"%string, 3)] in
  target_ok (bs "/a%2fb/c?x=/caf"%string) = true /\
  spells (upto_q (bs "/a%2fb/c?x=/caf"%string)) (bs "/a/b/c"%string) /\
  spells (upto_q (bs "/%61%2Fb/c"%string)) (bs "/a/b/c"%string) /\
  tserve_target (tbuild sites) [] (bs "A.com"%string) (bs "/a%2fb/c?x=/caf"%string) 1 = Some (Site 1 (bs "/a/b"%string)) /\
  tserve_target (tbuild sites) [] (bs "A.com"%string) (bs "/caf%c3%A9/x"%string) 1 = Some (Site 2 (bs "/caf"%string ++ [195;169])) /\
  tserve_target (tbuild sites) [] (bs "A.com"%string) (bs "/caf%C3"%string) 1 = Some (Site 3 (bs "/"%string)) /\
  tserve_target (tbuild sites) [] (bs "A.com"%string) (bs "/caf%C"%string) 1 = None.
Proof.
  cbv zeta. repeat split; try (vm_compute; reflexivity); apply unescape_spells; vm_compute; reflexivity.
Qed.

Theorem C01_target_spelling_functional : forall raw p p', spells raw p -> spells raw p' -> p = p'.
Proof. exact spells_functional. Qed.
Print Assumptions C01_target_spelling_functional.

(* a target is rejected (no routing at all) exactly when it is not origin-form / has a control
   byte, or its path text has no spelling reading (a "%" without two hex digits) *)
Theorem C01_target_rejected_iff : forall raw,
  target_path raw = None <-> (target_ok raw = false \/ forall p, ~ spells (upto_q raw) p).
Proof. exact target_rejected_iff. Qed.
Print Assumptions C01_target_rejected_iff.

Theorem C01_hex_digit_case_irrelevant : forall h,
  (65 <=? h) && (h <=? 70) = true -> hexval (h + 32) = hexval h.
Proof. exact hexval_case. Qed.
Print Assumptions C01_hex_digit_case_irrelevant.
Example C01_hex_digit_case_nonvacuous : (65 <=? 70) && (70 <=? 70) = true /\ hexval 102 = Some 15.
Proof. vm_compute. auto. Qed.
Example C01_route_function_of_declared_set_nonvacuous :
  let sites := [(bs "a.com/x"%string, 1); (bs "*.*.com"%string, 2); (bs "*.a.com:80"%string, 3); (bs ":2015/x"%string, 4)] in
  NoDup (map addr_key sites) /\ NoDup (map addr_key (rev sites)) /\
  (forall a s, In (a, s) sites <-> In (a, s) (rev sites)) /\
  tserve (tbuild (rev sites)) [] (bs "q.b.com"%string) (bs "/"%string) 1 = Site 2 (bs "/"%string).
Proof.
  cbv zeta. repeat split; try (repeat constructor; vm_compute; intuition discriminate);
  try apply in_rev; try (intros H; apply in_rev in H; exact H).
Qed.
Example C01_target_routes_by_decoded_path_nonvacuous :
  target_ok (bs "/%E3%83%89%2fx?q"%string) = true /\
  spells (upto_q (bs "/%E3%83%89%2fx?q"%string)) [47; 227; 131; 137; 47; 120].
Proof. split; [vm_compute; reflexivity|apply unescape_spells; vm_compute; reflexivity]. Qed.

(* ===================== host folding as Go does it (non-ASCII, invalid UTF-8) ================== *)
(* [tserve_u] is serveHTTP/Insert with strings.ToLower modelled as Go computes it on non-ASCII
   text (UTF-8 decoding, ill-formed bytes -> U+FFFD, unicode.ToLower on the code points of the
   modelled blocks). The outcome depends on the request host only through its folded form ... *)
Theorem C01_route_depends_on_folded_host_only : forall sites xf hh hh' up proto,
  lower_key (strip_port hh ++ up) = lower_key (strip_port hh' ++ up) ->
  tserve_u sites xf hh up proto = tserve_u sites xf hh' up proto.
Proof. exact route_u_fold_only. Qed.
Print Assumptions C01_route_depends_on_folded_host_only.
Example C01_route_depends_on_folded_host_only_nonvacuous :
  (* "CAFÉ.com:80" vs "café.com"; KELVIN SIGN "K.com" vs "k.com" *)
  lower_key (strip_port (bs "CAF"%string ++ [195;137] ++ bs ".com:80"%string) ++ [SLASH]) =
  lower_key (strip_port (bs "caf"%string ++ [195;169] ++ bs ".com"%string) ++ [SLASH]) /\
  lower_key (strip_port ([226;132;170] ++ bs ".com"%string) ++ [SLASH]) = lower_key (strip_port (bs "k.com"%string) ++ [SLASH]) /\
  tserve_u [(bs "k.com"%string, 5)] [] ([226;132;170] ++ bs ".com"%string) [SLASH] 1 = Site 5 [SLASH].
Proof. vm_compute. repeat split; reflexivity. Qed.

(* ... and on the declared addresses only through their folded forms *)
Theorem C01_route_depends_on_folded_addresses_only : forall sites sites' xf hh up proto,
  map (fun s => (lower_key (fst s), snd s)) sites = map (fun s => (lower_key (fst s), snd s)) sites' ->
  tserve_u sites xf hh up proto = tserve_u sites' xf hh up proto.
Proof. exact route_u_declared_fold_only. Qed.
Print Assumptions C01_route_depends_on_folded_addresses_only.
Example C01_route_depends_on_folded_addresses_only_nonvacuous :
  map (fun s => (lower_key (fst s), snd s)) [(bs "CAF"%string ++ [195;137] ++ bs ".com/X"%string, 1)] =
  map (fun s => (lower_key (fst s), snd s)) [(bs "caf"%string ++ [195;169] ++ bs ".com/X"%string, 1)].
Proof. vm_compute. reflexivity. Qed.

(* on ASCII text Go's folding is the A-Z folding of the rest of the model *)
Theorem C01_go_lower_ascii : forall s, forallb (fun c => c <? 128) s = true -> go_lower s = to_lower s.
Proof. exact go_lower_ascii. Qed.
Print Assumptions C01_go_lower_ascii.
Example C01_go_lower_ascii_nonvacuous : forallb (fun c => c <? 128) (bs "B.a.Com"%string) = true.
Proof. vm_compute. reflexivity. Qed.

(* "host matching ignores letter case" and nothing else is FALSE of the code on ill-formed text:
   the declared host a<FF>.com answers a request for a<FE>.com — both ill-formed bytes fold to
   U+FFFD — although the two names differ in a byte that is no letter (A-Z folding keeps them
   apart) *)
Theorem C01_host_match_only_case_insensitive_refuted :
  exists sites hh up,
    sites = [([97; 255; 46; 99; 111; 109], 1)] /\ hh = [97; 254; 46; 99; 111; 109] /\
    to_lower hh <> to_lower [97; 255; 46; 99; 111; 109] /\
    tserve_u sites [] hh up 1 = Site 1 [SLASH].
Proof. exact invalid_utf8_hosts_collide. Qed.
Print Assumptions C01_host_match_only_case_insensitive_refuted.

(* the strongest true form: when the host texts (declared and requested) are ASCII — all that
   net/http's Host-header check lets through — the Go folding is the A-Z folding, [tserve_u] IS
   [tserve], and every theorem above (most specific pattern, case/port insensitivity, order
   independence, spec) holds of it *)
Theorem C01_host_match_only_case_insensitive_partial : forall sites xf hh up proto,
  forallb (fun s => ascii_host (fst s)) sites = true -> ascii_host (strip_port hh ++ up) = true ->
  tserve_u sites xf hh up proto = tserve (tbuild sites) xf hh up proto.
Proof. exact route_u_ascii. Qed.
Print Assumptions C01_host_match_only_case_insensitive_partial.
Example C01_host_match_only_case_insensitive_partial_nonvacuous :
  forallb (fun s => ascii_host (fst s)) [(bs "*.A.com:80/caf"%string ++ [195;169], 1)] = true /\
  ascii_host (strip_port (bs "B.a.COM:8080"%string) ++ bs "/caf"%string ++ [195;169;47]) = true /\
  tserve_u [(bs "*.A.com:80/caf"%string ++ [195;169], 1)] [] (bs "B.a.COM:8080"%string) (bs "/caf"%string ++ [195;169;47]) 1
    = Site 1 (bs "/caf"%string ++ [195;169]).
Proof. vm_compute. repeat split; reflexivity. Qed.
