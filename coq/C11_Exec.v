(* C11 — "validate and start agree", stated over the executeDirectives model of C09_Model
   (casket.go executeDirectives: directives outermost, then server blocks, then the keys of a
   block; parsing callbacks after each directive unless justValidate).  Definitions only.

   [schedule]   the setup calls a configuration asks for, as a function of the directive list and
                the server blocks alone (no state, no mode): the static reading of the three loops;
   [lsetup]     a setup function instrumented to record its own call (directive, block index, key
                index, key, tokens) next to whatever state it builds;
   [calls]      the calls an execution in a given mode really makes. *)
Require Import V.Lib V.C09_Model.

Section Agree.
Context {A St : Type}.
Variable setup : bytes -> nat -> nat -> bytes -> list A -> St -> outcome St.
Variable callback : bytes -> St -> outcome St.

Definition call : Type := (bytes * nat * nat * bytes * list A)%type.

Fixpoint sched_keys (d : bytes) (i : nat) (toks : list A) (keys : list bytes) (j : nat) : list call :=
  match keys with
  | [] => []
  | k :: r => (d, i, j, k, toks) :: sched_keys d i toks r (S j)
  end.

Definition sched_block (d : bytes) (i : nat) (b : @block A) : list call :=
  match tokens_of (snd b) d with
  | None => []
  | Some toks => sched_keys d i toks (fst b) 0%nat
  end.

Fixpoint sched_blocks (d : bytes) (bs : list (@block A)) (i : nat) : list call :=
  match bs with
  | [] => []
  | b :: r => sched_block d i b ++ sched_blocks d r (S i)
  end.

Definition schedule (dirs : list bytes) (bs : list (@block A)) : list call :=
  flat_map (fun d => sched_blocks d bs 0%nat) dirs.

(* instrumentation: the log is written by the call itself, before its outcome is known *)
Definition lsetup (d : bytes) (i j : nat) (k : bytes) (toks : list A) (s : St * list call)
  : outcome (St * list call) :=
  let log' := snd s ++ [(d, i, j, k, toks)] in
  match setup d i j k toks (fst s) with
  | Cont s' => Cont (s', log')
  | Stop s' => Stop (s', log')
  end.

Definition lcallback (d : bytes) (s : St * list call) : outcome (St * list call) :=
  match callback d (fst s) with
  | Cont s' => Cont (s', snd s)
  | Stop s' => Stop (s', snd s)
  end.

(* cbs = negb justValidate, as in C09_Model.execute *)
Definition run_logged (cbs : bool) (dirs : list bytes) (bs : list (@block A)) (s : St)
  : outcome (St * list call) :=
  execute lsetup lcallback cbs dirs bs (s, []).

Definition calls (cbs : bool) (dirs : list bytes) (bs : list (@block A)) (s : St) : list call :=
  snd (out_state (run_logged cbs dirs bs s)).

Definition accepted (cbs : bool) (dirs : list bytes) (bs : list (@block A)) (s : St) : bool :=
  out_ok (execute setup callback cbs dirs bs s).

End Agree.

(* relatedness of two outcomes: both continue in related states, or both stop in related states *)
Definition orel {S1 S2 : Type} (R Q : S1 -> S2 -> Prop) (o1 : outcome S1) (o2 : outcome S2) : Prop :=
  match o1, o2 with
  | Cont a, Cont b => R a b
  | Stop a, Stop b => Q a b
  | _, _ => False
  end.

(* ---- the oracle instance used by the correspondence check ----
   For a server block with several keys and ONE directive, the harness sets the directive up for
   each key alone (class 0 = accepted, anything else = rejected) and hands the classes over; the
   model then predicts what the whole block does in either mode: the keys are set up in order and
   the first rejected key ends the load. *)
Definition oracle_setup (perkey : list N) (d : bytes) (i j : nat) (k : bytes) (toks : list N) (s : N)
  : outcome N :=
  match nth_error perkey j with
  | Some 0%N => Cont s
  | Some c => Stop c
  | None => Stop 9%N
  end.
Definition oracle_callback (d : bytes) (s : N) : outcome N := Cont s.

Definition predict_block (cbs : bool) (perkey : list N) : N :=
  let keys := map (fun _ => @nil N) perkey in
  let d := [100%N] in
  match execute (oracle_setup perkey) oracle_callback cbs [d] [(keys, [(d, [0%N])])] 0%N with
  | Cont _ => 0%N
  | Stop c => c
  end.

(* ---- whole files of several server blocks (sites), the same directive line possibly in effect in more than
   one of them (written twice, or through a snippet imported by several sites) ----
   The harness loads every server block as a file of its own (class 0 = accepted, anything else = rejected) and
   hands the classes over; the model predicts what the whole file does in either mode: the blocks are set up in
   order, a block does what it does alone, the first rejected block ends the load.  (With classes 0/1 it does not
   matter that executeDirectives runs directive-outermost: some rejected block ends the load with class 1.) *)
Definition oracle_setup_site (persite : list N) (d : bytes) (i j : nat) (k : bytes) (toks : list N) (s : N)
  : outcome N :=
  match nth_error persite i with
  | Some 0%N => Cont s
  | Some c => Stop c
  | None => Stop 9%N
  end.

Definition site_block (c : N) : @block N := ([@nil N], [([100%N], [0%N])]).

Definition predict_sites (cbs : bool) (persite : list N) : N :=
  match execute (oracle_setup_site persite) oracle_callback cbs [[100%N]] (map site_block persite) 0%N with
  | Cont _ => 0%N
  | Stop c => c
  end.

Definition first_rejected (persite : list N) : N :=
  match find (fun c => negb (c =? 0)%N) persite with
  | Some c => c
  | None => 0%N
  end.

(* ---- setups whose VERDICT depends on the call alone - the directive, the server block, the position of the
   key among the block's keys (controller.ServerBlockKeyIndex), the key itself (controller.Key) and the block's
   tokens - and not on what earlier setups have built: `tls { wildcard }` (the number of labels of the key's host
   name), `tls self_signed` (the host name as SAN), `bind`, `redir` with {host}, `on` (OncePerServerBlock: the
   first key only).  What the call BUILDS ([f], on acceptance and on rejection alike) is arbitrary. *)
Section KeyVerdict.
Context {A St : Type}.
Variable v : @call A -> bool.
Variable f : @call A -> St -> St.
Definition vsetup (d : bytes) (i j : nat) (k : bytes) (toks : list A) (s : St) : outcome St :=
  if v (d, i, j, k, toks) then Cont (f (d, i, j, k, toks) s) else Stop (f (d, i, j, k, toks) s).
End KeyVerdict.
