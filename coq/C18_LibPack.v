(* C18_LibPack — compact byte-string literals for generated case files.
   [hex "…"] literals cost ~150 µs per byte to elaborate (string notation); response bodies of a
   few KB per case need something cheaper: 7 bytes per primitive 63-bit integer literal,
   big-endian inside the word, the last word zero-padded, total length given explicitly.
   Used by case files only (no theorem depends on it); part of the trusted glue like [hex]. *)
Require Import V.Lib.
From Coq Require Export Uint63.

Definition wbytes (w : int) : list N :=
  let z := Z.to_N (Uint63.to_Z w) in
  [N.land (N.shiftr z 48) 255; N.land (N.shiftr z 40) 255; N.land (N.shiftr z 32) 255;
   N.land (N.shiftr z 24) 255; N.land (N.shiftr z 16) 255; N.land (N.shiftr z 8) 255; N.land z 255].
Definition pk (n : nat) (ws : list int) : bytes := firstn n (flat_map wbytes ws).
