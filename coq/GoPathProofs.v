(* GoPathProofs.v — lemmas about the path.Clean model shared by C02/C03 (and others). *)
Require Import V.Lib V.GoPath.
Open Scope N_scope.

Definition no_slash (s : bytes) : Prop := ~ In SLASH s.
Definition good_seg (s : bytes) : Prop :=
  s <> [] /\ is_dot s = false /\ is_dotdot s = false /\ no_slash s.

(* ---- split ---- *)
Lemma split_on_no_sep sep : forall x cur, ~ In sep x -> split_on sep x cur = [rev cur ++ x].
Proof.
  induction x as [|c x IH]; intros cur H; simpl.
  - rewrite app_nil_r. reflexivity.
  - destruct (c =? sep) eqn:E.
    + apply N.eqb_eq in E. subst. exfalso. apply H. left. reflexivity.
    + rewrite IH by (intro Hin; apply H; right; exact Hin). simpl. rewrite <- app_assoc. reflexivity.
Qed.

Lemma split_on_app sep : forall x r cur, ~ In sep x ->
  split_on sep (x ++ sep :: r) cur = (rev cur ++ x) :: split_on sep r [].
Proof.
  induction x as [|c x IH]; intros r cur H; simpl.
  - rewrite N.eqb_refl, app_nil_r. reflexivity.
  - destruct (c =? sep) eqn:E.
    + apply N.eqb_eq in E. subst. exfalso. apply H. left. reflexivity.
    + rewrite IH by (intro Hin; apply H; right; exact Hin). simpl. rewrite <- app_assoc. reflexivity.
Qed.

Lemma split_no_sep sep : forall s cur x, In x (split_on sep s cur) -> ~ In sep cur -> ~ In sep x.
Proof.
  induction s as [|c s IH]; intros cur x Hin Hc; simpl in Hin.
  - destruct Hin as [<-|[]]. rewrite <- in_rev. exact Hc.
  - destruct (c =? sep) eqn:E.
    + destruct Hin as [<-|Hin]; [rewrite <- in_rev; exact Hc|]. eapply IH; [exact Hin|]. intros [].
    + eapply IH; [exact Hin|]. intros [->|H]; [rewrite N.eqb_refl in E; discriminate|auto].
Qed.

Lemma split_join (segs : list bytes) :
  segs <> [] -> (forall s, In s segs -> no_slash s) -> split SLASH (join [SLASH] segs) = segs.
Proof.
  unfold split. induction segs as [|a segs IH]; intros Hne Hall; [congruence|].
  destruct segs as [|b segs].
  - simpl. apply split_on_no_sep. apply Hall. left. reflexivity.
  - change (join [SLASH] (a :: b :: segs)) with (a ++ [SLASH] ++ join [SLASH] (b :: segs)).
    cbn [app]. rewrite split_on_app by (apply Hall; left; reflexivity). cbn [rev app]. f_equal.
    apply IH; [discriminate|]. intros s Hs. apply Hall. right. exact Hs.
Qed.

(* ---- clean_segs ---- *)
Lemma clean_segs_good_id rooted : forall segs stack,
  (forall s, In s segs -> good_seg s) ->
  clean_segs rooted segs stack = rev stack ++ segs.
Proof.
  induction segs as [|s segs IH]; intros stack H; simpl.
  - rewrite app_nil_r. reflexivity.
  - destruct (H s (or_introl eq_refl)) as (Hne & Hd & Hdd & _).
    destruct s as [|c s']; [congruence|]. rewrite Hd, Hdd.
    rewrite IH by (intros x Hx; apply H; right; exact Hx). simpl. rewrite <- app_assoc. reflexivity.
Qed.

Lemma clean_segs_rooted_good : forall segs stack,
  (forall s, In s segs -> no_slash s) -> (forall s, In s stack -> good_seg s) ->
  forall s, In s (clean_segs true segs stack) -> good_seg s.
Proof.
  induction segs as [|x segs IH]; intros stack Hs Hst s Hin; simpl in Hin.
  - apply Hst. apply in_rev. exact Hin.
  - assert (Hs' : forall s, In s segs -> no_slash s) by (intros y Hy; apply Hs; right; exact Hy).
    destruct x as [|c x']; [eapply IH; eauto|].
    destruct (is_dot (c :: x')) eqn:Ed; [eapply IH; eauto|].
    destruct (is_dotdot (c :: x')) eqn:Edd.
    + destruct stack as [|top st'].
      * eapply IH; eauto.
      * assert (Htop : good_seg top) by (apply Hst; left; reflexivity).
        destruct Htop as (_ & _ & Htdd & _). rewrite Htdd in Hin.
        eapply IH; [exact Hs'| |exact Hin]. intros y Hy. apply Hst. right. exact Hy.
    + eapply IH; [exact Hs'| |exact Hin]. intros y [<-|Hy]; [|apply Hst; exact Hy].
      repeat split; auto; [discriminate|]. apply Hs. left. reflexivity.
Qed.

(* ---- clean of a rooted path ---- *)
Definition rooted (p : bytes) : Prop := exists r, p = SLASH :: r.

Lemma clean_rooted_shape p : rooted p ->
  exists segs, clean p = SLASH :: join [SLASH] segs /\ (forall s, In s segs -> good_seg s).
Proof.
  intros (r & ->). unfold clean. rewrite N.eqb_refl.
  exists (clean_segs true (split SLASH (SLASH :: r)) []). split; [reflexivity|].
  apply clean_segs_rooted_good; [|intros s []].
  intros s Hs. unfold no_slash. eapply split_no_sep; [exact Hs|]. intros [].
Qed.

Lemma clean_of_shape segs : (forall s, In s segs -> good_seg s) ->
  clean (SLASH :: join [SLASH] segs) = SLASH :: join [SLASH] segs.
Proof.
  intros Hg. unfold clean. rewrite N.eqb_refl. f_equal. f_equal.
  destruct segs as [|a segs].
  - vm_compute. reflexivity.
  - unfold split. cbn [split_on]. rewrite N.eqb_refl. cbn [rev].
    change (split_on SLASH (join [SLASH] (a :: segs)) []) with (split SLASH (join [SLASH] (a :: segs))).
    rewrite split_join; [|discriminate|intros s Hs; apply (Hg s Hs)].
    change (clean_segs true ([] :: a :: segs) []) with (clean_segs true (a :: segs) []).
    apply (clean_segs_good_id true (a :: segs) [] Hg).
Qed.

Theorem clean_idempotent_rooted p : rooted p -> clean (clean p) = clean p.
Proof. intros H. destruct (clean_rooted_shape p H) as (segs & -> & Hg). apply clean_of_shape. exact Hg. Qed.

Theorem clean_rooted_is_rooted p : rooted p -> rooted (clean p).
Proof. intros H. destruct (clean_rooted_shape p H) as (segs & -> & _). eexists. reflexivity. Qed.

(* "/" ++ p for an already rooted p cleans to the same thing (http.Dir.Open prepends a slash) *)
Theorem clean_extra_slash p : rooted p -> clean (SLASH :: p) = clean p.
Proof.
  intros (r & ->). unfold clean. rewrite !N.eqb_refl. f_equal.
Qed.

(* ---- prefixes, lower-casing ---- *)
Lemma has_prefix_nil (s : bytes) : has_prefix s [] = true.
Proof. destruct s; reflexivity. Qed.

Lemma has_prefix_app : forall (b s x : bytes), has_prefix s b = true -> has_prefix (s ++ x) b = true.
Proof.
  induction b as [|y b IH]; intros s x H; [apply has_prefix_nil|].
  destruct s as [|c s]; simpl in *; [discriminate|].
  apply andb_true_iff in H as [H1 H2]. rewrite H1. simpl. apply IH. exact H2.
Qed.

Lemma has_prefix_refl (s : bytes) : has_prefix s s = true.
Proof. induction s as [|c s IH]; simpl; [reflexivity|]. rewrite N.eqb_refl. exact IH. Qed.

Lemma has_prefix_trans : forall (c a b : bytes),
  has_prefix a b = true -> has_prefix b c = true -> has_prefix a c = true.
Proof.
  induction c as [|z c IH]; intros a b H1 H2; [apply has_prefix_nil|].
  destruct b as [|y b]; [simpl in H2; discriminate|].
  destruct a as [|x a]; [simpl in H1; discriminate|]. simpl in *.
  apply andb_true_iff in H1 as [E1 H1]. apply andb_true_iff in H2 as [E2 H2].
  apply N.eqb_eq in E1, E2. subst. rewrite N.eqb_refl. simpl. eapply IH; eauto.
Qed.

Lemma to_lower_app a b : to_lower (a ++ b) = to_lower a ++ to_lower b.
Proof. apply map_app. Qed.

Lemma ends_with_slash_shape segs : segs <> [] -> (forall s, In s segs -> good_seg s) ->
  ends_with_slash (SLASH :: join [SLASH] segs) = false.
Proof.
  intros Hne Hg. unfold ends_with_slash.
  assert (Hlast : exists pre c, SLASH :: join [SLASH] segs = pre ++ [c] /\ c <> SLASH).
  { induction segs as [|a segs IH]; [congruence|].
    destruct segs as [|b segs].
    - destruct (Hg a (or_introl eq_refl)) as (Ha & _ & _ & Hns).
      destruct (exists_last Ha) as (pre & c & ->). exists (SLASH :: pre), c. split; [reflexivity|].
      intros ->. apply Hns. apply in_or_app. right. left. reflexivity.
    - destruct IH as (pre & c & E & Hc); [discriminate|intros s Hs; apply Hg; right; exact Hs|].
      change (join [SLASH] (a :: b :: segs)) with (a ++ SLASH :: join [SLASH] (b :: segs)).
      rewrite E. exists (SLASH :: a ++ pre), c. split; [|exact Hc].
      cbn. rewrite <- app_assoc. reflexivity. }
  destruct Hlast as (pre & c & -> & Hc). rewrite rev_app_distr. cbn.
  apply N.eqb_neq. exact Hc.
Qed.
