(* C06 — lemmas and proofs. *)
Require Import V.Lib V.GoPath V.C06_Model.
Require Import Permutation.
From Coq Require Import ZifyBool ZifyN ZifyNat.
Open Scope N_scope.
Delimit Scope string_scope with string.

(* ------------------------------------------------------------------ equality helpers *)
Lemma listN_beq_eq a b : listN_beq a b = true -> a = b.
Proof.
  unfold listN_beq. revert b; induction a as [|x a IH]; intros [|y b] H; simpl in H;
    try discriminate; try reflexivity.
  apply andb_true_iff in H as [H1 H2]. apply N.eqb_eq in H1. apply IH in H2. congruence.
Qed.

Lemma listB_beq_eq a b : listB_beq a b = true -> a = b.
Proof.
  unfold listB_beq. revert b; induction a as [|x a IH]; intros [|y b] H; simpl in H;
    try discriminate; try reflexivity.
  apply andb_true_iff in H as [H1 H2]. apply beq_eq in H1. apply IH in H2. congruence.
Qed.

Lemma btls_beq_eq x y : btls_beq x y = true -> x = y.
Proof.
  unfold btls_beq. intro H.
  repeat (apply andb_true_iff in H as [H ?]).
  destruct x, y; simpl in *.
  apply listN_beq_eq in H. apply listN_beq_eq in H5. apply listB_beq_eq in H4.
  apply Bool.eqb_prop in H3. apply N.eqb_eq in H2. apply N.eqb_eq in H1. apply N.eqb_eq in H0.
  congruence.
Qed.

Lemma beq_false_neq a b : beq a b = false -> a <> b.
Proof. intros H E. subst b. rewrite beq_refl in H. discriminate. Qed.

Lemma beq_sym a b : beq a b = beq b a.
Proof.
  destruct (beq a b) eqn:E.
  - apply beq_eq in E. subst b. symmetry. apply beq_refl.
  - destruct (beq b a) eqn:E2; [|reflexivity]. apply beq_eq in E2. subst b.
    rewrite beq_refl in E. discriminate.
Qed.

(* ------------------------------------------------------------------ maps *)
Section MapLemmas.
Context {V : Type}.
Implicit Types m : amap V.

Lemma mget_mset k k' (v : V) m :
  mget k (mset k' v m) = if beq k' k then Some v else mget k m.
Proof.
  induction m as [|[k0 v0] m IH]; simpl.
  - reflexivity.
  - destruct (beq k0 k') eqn:E0; simpl.
    + apply beq_eq in E0. subst k0. destruct (beq k' k); reflexivity.
    + destruct (beq k0 k) eqn:E1.
      * apply beq_eq in E1. subst k0. rewrite (beq_sym k' k), E0. reflexivity.
      * exact IH.
Qed.

Lemma find_key_some m cs k v :
  find_key m cs = Some (k, v) ->
  mget k m = Some v /\
  exists pre post, cs = pre ++ k :: post /\ forall c, In c pre -> mget c m = None.
Proof.
  induction cs as [|c cs IH]; simpl; intro H; [discriminate|].
  destruct (mget c m) as [v0|] eqn:E.
  - injection H as <- <-. split; [exact E|]. exists [], cs. split; [reflexivity|]. intros ? [].
  - destruct (IH H) as [Hg [pre [post [Hc Hp]]]]. split; [exact Hg|].
    exists (c :: pre), post. split; [simpl; congruence|].
    intros c' [<-|Hin]; [exact E|apply Hp; exact Hin].
Qed.

Lemma find_key_none m cs :
  find_key m cs = None -> forall c, In c cs -> mget c m = None.
Proof.
  induction cs as [|c cs IH]; simpl; intros H c' Hin; [destruct Hin|].
  destruct (mget c m) eqn:E; [discriminate|].
  destruct Hin as [<-|Hin]; [exact E|apply IH; assumption].
Qed.

Lemma find_key_first m cs k v :
  mget k m = Some v -> In k cs -> exists k' v', find_key m cs = Some (k', v').
Proof.
  intros Hg Hin. destruct (find_key m cs) as [[k' v']|] eqn:E; [eauto|].
  rewrite (find_key_none _ _ E _ Hin) in Hg. discriminate.
Qed.
End MapLemmas.

(* ------------------------------------------------------------------ candidate lists *)
Lemma wild_cands_aux_closed stars rest :
  wild_cands_aux stars rest =
  map (fun j => join [DOT] (stars ++ repeat [STAR] j ++ skipn j rest)) (seq 1 (length rest)).
Proof.
  revert stars; induction rest as [|x r IH]; intro stars; simpl; [reflexivity|].
  f_equal.
  - rewrite <- app_assoc. reflexivity.
  - rewrite IH. rewrite <- (seq_shift (length r) 1). rewrite map_map.
    apply map_ext. intro j. simpl. rewrite <- app_assoc. reflexivity.
Qed.

Lemma wild_cands_closed name :
  wild_cands name = map (cand name) (seq 1 (length (split DOT name))).
Proof. unfold wild_cands, cand. rewrite wild_cands_aux_closed. reflexivity. Qed.

Lemma cands_closed name : name :: wild_cands name ++ [[]] = spec_cands name.
Proof. unfold spec_cands. rewrite wild_cands_closed. reflexivity. Qed.

Lemma first_index_app_notin k pre post :
  ~ In k pre -> first_index k (pre ++ k :: post) = Some (length pre).
Proof.
  induction pre as [|x pre IH]; simpl; intro Hn.
  - rewrite beq_refl. reflexivity.
  - destruct (beq x k) eqn:E.
    + apply beq_eq in E. exfalso. apply Hn. left. exact E.
    + rewrite IH; [reflexivity|]. intro Hin. apply Hn. right. exact Hin.
Qed.

Lemma first_index_ge k pre rest r :
  ~ In k pre -> first_index k (pre ++ rest) = Some r -> (length pre <= r)%nat.
Proof.
  revert r; induction pre as [|x pre IH]; simpl; intros r Hn H; [lia|].
  destruct (beq x k) eqn:E.
  - apply beq_eq in E. exfalso. apply Hn. left. exact E.
  - destruct (first_index k (pre ++ rest)) as [r0|] eqn:E0; simpl in H; [|discriminate].
    injection H as <-. assert (length pre <= r0)%nat; [|lia].
    apply IH; [|reflexivity]. intro Hin. apply Hn. right. exact Hin.
Qed.

Lemma first_index_in k l r : first_index k l = Some r -> In k l.
Proof.
  revert r; induction l as [|x l IH]; simpl; intros r H; [discriminate|].
  destruct (beq x k) eqn:E.
  - apply beq_eq in E. left. exact E.
  - destruct (first_index k l) eqn:E0; simpl in H; [|discriminate]. right. eapply IH. reflexivity.
Qed.

(* ------------------------------------------------------------------ getConfig *)
Lemma get_config_most_specific V (m : amap V) dflt conn sni k v :
  get_config m dflt conn sni = Found k v ->
  mget k m = Some v /\
  let name := effective_name dflt sni in
  ((name = [] /\ exists a, conn = Some a /\ k = host_only a) \/
   (exists r, level name k = Some r /\
      forall k' v' r', mget k' m = Some v' -> level name k' = Some r' -> (r <= r')%nat)).
Proof.
  unfold get_config. set (name := effective_name dflt sni).
  destruct (is_nil name) eqn:En.
  - destruct conn as [a|].
    + destruct (mget (host_only a) m) as [v0|] eqn:Ea.
      * intro H. injection H as <- <-. split; [exact Ea|]. left.
        split; [destruct name; [reflexivity|discriminate]|]. eauto.
      * rewrite cands_closed.
        destruct (find_key m (spec_cands name)) as [[k0 v0]|] eqn:Ef.
        -- intro H. injection H as <- <-.
           destruct (find_key_some _ _ _ _ Ef) as [Hg [pre [post [Hc Hp]]]].
           split; [exact Hg|]. right.
           assert (Hn : ~ In k0 pre) by (intro Hin; rewrite (Hp _ Hin) in Hg; discriminate).
           exists (length pre). unfold level. rewrite Hc. split; [apply first_index_app_notin; exact Hn|].
           intros k' v' r' Hg' Hl'. eapply first_index_ge; [|exact Hl'].
           intro Hin. rewrite (Hp _ Hin) in Hg'. discriminate.
        -- destruct m; discriminate.
    + rewrite cands_closed.
      destruct (find_key m (spec_cands name)) as [[k0 v0]|] eqn:Ef.
      * intro H. injection H as <- <-.
        destruct (find_key_some _ _ _ _ Ef) as [Hg [pre [post [Hc Hp]]]].
        split; [exact Hg|]. right.
        assert (Hn : ~ In k0 pre) by (intro Hin; rewrite (Hp _ Hin) in Hg; discriminate).
        exists (length pre). unfold level. rewrite Hc. split; [apply first_index_app_notin; exact Hn|].
        intros k' v' r' Hg' Hl'. eapply first_index_ge; [|exact Hl'].
        intro Hin. rewrite (Hp _ Hin) in Hg'. discriminate.
      * destruct m; discriminate.
  - rewrite cands_closed.
    destruct (find_key m (spec_cands name)) as [[k0 v0]|] eqn:Ef.
    + intro H. injection H as <- <-.
      destruct (find_key_some _ _ _ _ Ef) as [Hg [pre [post [Hc Hp]]]].
      split; [exact Hg|]. right.
      assert (Hn : ~ In k0 pre) by (intro Hin; rewrite (Hp _ Hin) in Hg; discriminate).
      exists (length pre). unfold level. rewrite Hc. split; [apply first_index_app_notin; exact Hn|].
      intros k' v' r' Hg' Hl'. eapply first_index_ge; [|exact Hl'].
      intro Hin. rewrite (Hp _ Hin) in Hg'. discriminate.
    + destruct m; discriminate.
Qed.

(* no site governs by failover while some site matches the name *)
Lemma get_config_fallback_only_unmatched V (m : amap V) dflt conn sni :
  get_config m dflt conn sni = Fallback ->
  m <> [] /\ forall k v, mget k m = Some v -> level (effective_name dflt sni) k = None.
Proof.
  unfold get_config. set (name := effective_name dflt sni).
  assert (Hmain : find_key m (spec_cands name) = None ->
                  forall k v, mget k m = Some v -> level name k = None).
  { intros Ef k v Hg. unfold level. destruct (first_index k (spec_cands name)) as [r|] eqn:E; [|reflexivity].
    apply first_index_in in E. rewrite (find_key_none _ _ Ef _ E) in Hg. discriminate. }
  destruct (if is_nil name then match conn with
                                | Some a => match mget (host_only a) m with
                                            | Some v => Some (host_only a, v) | None => None end
                                | None => None end else None) as [[k0 v0]|]; [discriminate|].
  rewrite cands_closed.
  destruct (find_key m (spec_cands name)) as [[k0 v0]|] eqn:Ef; [discriminate|].
  destruct m as [|p m']; [discriminate|]. intros _. split; [discriminate|]. apply Hmain. reflexivity.
Qed.

Lemma get_config_noconfig V (m : amap V) dflt conn sni :
  get_config m dflt conn sni = NoConfig -> m = [].
Proof.
  unfold get_config.
  destruct (if is_nil (effective_name dflt sni) then _ else _) as [[k0 v0]|]; [discriminate|].
  destruct (find_key m _) as [[k0 v0]|]; [discriminate|]. destruct m; [reflexivity|discriminate].
Qed.

(* exact beats wildcard beats catch-all, stated directly *)
Lemma get_config_exact V (m : amap V) dflt conn sni v :
  let name := effective_name dflt sni in
  name <> [] -> mget name m = Some v -> get_config m dflt conn sni = Found name v.
Proof.
  intros name Hn Hg. unfold get_config. fold name.
  destruct name as [|c r] eqn:E; [congruence|]. simpl. simpl in Hg. rewrite Hg. reflexivity.
Qed.

Lemma get_config_catch_all V (m : amap V) dflt conn sni v :
  let name := effective_name dflt sni in
  name <> [] -> mget [] m = Some v ->
  (forall c, In c (name :: wild_cands name) -> mget c m = None) ->
  get_config m dflt conn sni = Found [] v.
Proof.
  intros name Hn Hg Hnone. unfold get_config. fold name.
  destruct (is_nil name) eqn:En; [destruct name; [congruence|discriminate]|].
  assert (H : forall cs, (forall c, In c cs -> mget c m = None) ->
                         find_key m (cs ++ [[]]) = Some ([], v)).
  { induction cs as [|c cs IH]; simpl; intro Hc.
    - rewrite Hg. reflexivity.
    - rewrite (Hc c (or_introl eq_refl)). apply IH. intros c' Hin. apply Hc. right. exact Hin. }
  change (name :: wild_cands name ++ [[]]) with ((name :: wild_cands name) ++ [[]]).
  rewrite (H _ Hnone). reflexivity.
Qed.

(* ------------------------------------------------------------------ MakeTLSConfig *)
(* nil entries count as configs without TLS *)
Definition uniform (p : bool) (cs : list (option tcfg)) : Prop :=
  forall o, In o cs -> enabled (cfg_of o) = p.

Lemma mk_loop_cons dc bad i prev o cs m :
  mk_loop dc bad i prev (o :: cs) m =
  let c := cfg_of o in
  if match prev with Some p => negb (Bool.eqb (enabled c) p) | None => false end then inl 1
  else match build dc bad c with
       | None => inl 2
       | Some ob =>
         if match mget (key_of (host c)) m with
            | Some (_, c2, ob2) => negb (compat c c2 ob ob2)
            | None => false
            end then inl 3
         else mk_loop dc bad (S i) (Some (enabled c)) cs (mset (key_of (host c)) (i, c, ob) m)
       end.
Proof. reflexivity. Qed.

Lemma mk_loop_uniform dc bad i p cs m m' :
  mk_loop dc bad i (Some p) cs m = inr m' -> uniform p cs.
Proof.
  revert i p m; induction cs as [|o cs IH]; intros i p m H o' Hin; [destruct Hin|].
  rewrite mk_loop_cons in H. cbv zeta in H. set (c0 := cfg_of o) in *.
  destruct (Bool.eqb (enabled c0) p) eqn:Ee; simpl in H; [|discriminate].
  apply Bool.eqb_prop in Ee.
  destruct (build dc bad c0) as [ob|]; [|discriminate].
  destruct (match mget (key_of (host c0)) m with Some (_, c2, ob2) => negb (compat c0 c2 ob ob2) | None => false end);
    [discriminate|].
  destruct Hin as [<-|Hin].
  - exact Ee.
  - rewrite Ee in H. eapply IH; [exact H|exact Hin].
Qed.

(* a group is returned only when every entry is a config with TLS enabled *)
Lemma group_uniform dc bad cs g :
  make_tls_config dc bad cs = MkGroup g -> uniform true cs.
Proof.
  unfold make_tls_config. destruct cs as [|o cs]; [discriminate|].
  destruct (mk_loop dc bad 0 None (o :: cs) []) as [e|m'] eqn:E; [discriminate|].
  destruct (first_enabled (o :: cs)) eqn:Ef; [|discriminate]. intros _.
  destruct o as [c0|]; [|discriminate]. simpl in Ef.
  rewrite mk_loop_cons in E. cbv zeta in E. simpl cfg_of in E. cbv iota in E.
  destruct (build dc bad c0) as [ob|]; [|discriminate].
  cbn [mget] in E.
  intros o [<-|Hin].
  - exact Ef.
  - rewrite Ef in E. eapply mk_loop_uniform; [exact E|exact Hin].
Qed.

Lemma enabled_cfg_of o : enabled (cfg_of o) = true -> exists c, o = Some c /\ enabled c = true.
Proof. destruct o as [c|]; simpl; [eauto|discriminate]. Qed.

Lemma group_all_enabled dc bad cs g :
  make_tls_config dc bad cs = MkGroup g ->
  (forall o, In o cs -> o <> None) /\ forall c, In (Some c) cs -> enabled c = true.
Proof.
  intro H. pose proof (group_uniform _ _ _ _ H) as Hu. split.
  - intros o Hin ->. specialize (Hu None Hin). discriminate.
  - intros c Hin. exact (Hu (Some c) Hin).
Qed.

Lemma mixing_rejected_gen dc bad cs :
  (exists o1 o2, In o1 cs /\ In o2 cs /\ enabled (cfg_of o1) <> enabled (cfg_of o2)) ->
  exists e, make_tls_config dc bad cs = MkErr e.
Proof.
  intros [o1 [o2 [H1 [H2 Hd]]]]. unfold make_tls_config.
  destruct cs as [|o cs]; [destruct H1|].
  destruct (mk_loop dc bad 0 None (o :: cs) []) as [e|m'] eqn:E; [eauto|]. exfalso.
  rewrite mk_loop_cons in E. cbv zeta in E. set (c0 := cfg_of o) in *.
  destruct (build dc bad c0) as [ob|]; [|discriminate].
  cbn [mget] in E.
  pose proof (mk_loop_uniform _ _ _ _ _ _ _ E) as Hu.
  assert (Ha : forall o', In o' (o :: cs) -> enabled (cfg_of o') = enabled c0).
  { intros o' [<-|Hin]; [reflexivity|apply Hu; exact Hin]. }
  apply Hd. rewrite (Ha _ H1), (Ha _ H2). reflexivity.
Qed.

(* TLS and plaintext sites (a nil entry counting as plaintext) on one listener: always an error *)
Lemma mixing_rejected dc bad cs :
  mixed cs = true -> exists e, make_tls_config dc bad cs = MkErr e.
Proof.
  unfold mixed. intro H. apply andb_true_iff in H as [H1 H2].
  apply existsb_exists in H1. destruct H1 as [o1 [Hin1 He1]].
  apply existsb_exists in H2. destruct H2 as [o2 [Hin2 He2]].
  apply mixing_rejected_gen. exists o1, o2. split; [exact Hin1|]. split; [exact Hin2|].
  destruct o1 as [c1|]; [|discriminate]. simpl. rewrite He1.
  destruct o2 as [c2|]; simpl; [|discriminate].
  apply negb_true_iff in He2. rewrite He2. discriminate.
Qed.

(* the multiplex error is only raised for a TLS / not-TLS pair (nil counting as not TLS) *)
Lemma mk_loop_err1 dc bad i prev cs m :
  mk_loop dc bad i prev cs m = inl 1 ->
  exists o, In o cs /\ exists p, (prev = Some p \/ exists o', In o' cs /\ enabled (cfg_of o') = p) /\
                                 enabled (cfg_of o) <> p.
Proof.
  revert i prev m; induction cs as [|o cs IH]; intros i prev m H; [discriminate|].
  rewrite mk_loop_cons in H. cbv zeta in H. set (c0 := cfg_of o) in *.
  destruct (match prev with Some p => negb (Bool.eqb (enabled c0) p) | None => false end) eqn:Ep.
  - destruct prev as [p|]; [|discriminate]. apply negb_true_iff in Ep.
    exists o. split; [left; reflexivity|]. exists p. split; [left; reflexivity|].
    fold c0. intro Heq. rewrite Heq in Ep. destruct p; discriminate.
  - destruct (build dc bad c0) as [ob|]; [|discriminate].
    destruct (match mget (key_of (host c0)) m with Some (_, c2, ob2) => negb (compat c0 c2 ob ob2) | None => false end);
      [discriminate|].
    destruct (IH _ _ _ H) as [o1 [Hin [q [Hq Hne]]]].
    exists o1. split; [right; exact Hin|]. exists q. split; [|exact Hne].
    destruct Hq as [Hq|[o' [Hq1 Hq2]]].
    + injection Hq as <-. right. exists o. split; [left; reflexivity|reflexivity].
    + right. exists o'. split; [right; exact Hq1|exact Hq2].
Qed.

Lemma mix_error_sound dc bad cs :
  make_tls_config dc bad cs = MkErr 1 -> mixed cs = true.
Proof.
  unfold make_tls_config. destruct cs as [|o cs]; [discriminate|].
  destruct (mk_loop dc bad 0 None (o :: cs) []) as [e|m'] eqn:E; [|destruct (first_enabled _); discriminate].
  intro H. injection H as ->.
  destruct (mk_loop_err1 _ _ _ _ _ _ E) as [o1 [Hin [p [Hp Hne]]]].
  destruct Hp as [Hp|[o2 [Hp1 Hp2]]]; [discriminate|].
  assert (Hon : forall x, In x (o :: cs) -> enabled (cfg_of x) = true ->
                existsb (fun o => match o with Some c => enabled c | None => false end) (o :: cs) = true).
  { intros x Hx Hex. apply existsb_exists. exists x. split; [exact Hx|].
    destruct x as [c|]; [exact Hex|discriminate]. }
  assert (Hoff : forall x, In x (o :: cs) -> enabled (cfg_of x) = false ->
                 existsb (fun o => match o with Some c => negb (enabled c) | None => true end) (o :: cs) = true).
  { intros x Hx Hex. apply existsb_exists. exists x. split; [exact Hx|].
    destruct x as [c|]; [simpl in Hex; rewrite Hex; reflexivity|reflexivity]. }
  unfold mixed. apply andb_true_iff.
  destruct (enabled (cfg_of o1)) eqn:E1; destruct (enabled (cfg_of o2)) eqn:E2.
  - exfalso. apply Hne. congruence.
  - split; [exact (Hon o1 Hin E1)|exact (Hoff o2 Hp1 E2)].
  - split; [exact (Hon o2 Hp1 E2)|exact (Hoff o1 Hin E1)].
  - exfalso. apply Hne. congruence.
Qed.

(* every entry of the group is one of the given configs, stored under its key, with the
   tls.Config built from that very config *)
Definition entries_ok dc bad (all : list (option tcfg)) (m : amap gval) : Prop :=
  forall k i c ob, mget k m = Some (i, c, ob) ->
    (exists o, nth_error all i = Some o /\ cfg_of o = c) /\ key_of (host c) = k /\ build dc bad c = Some ob.

Lemma mk_loop_entries dc bad all done cs prev m m' :
  all = done ++ cs ->
  entries_ok dc bad all m ->
  mk_loop dc bad (length done) prev cs m = inr m' ->
  entries_ok dc bad all m'.
Proof.
  revert done prev m; induction cs as [|o cs IH]; intros done prev m Hall Hinv H.
  - simpl in H. injection H as <-. exact Hinv.
  - assert (Hall' : all = (done ++ [o]) ++ cs) by (rewrite <- app_assoc; exact Hall).
    assert (Hlen : length (done ++ [o]) = S (length done)) by (rewrite app_length; simpl; lia).
    rewrite mk_loop_cons in H. cbv zeta in H. set (c0 := cfg_of o) in *.
    destruct (match prev with Some p => negb (Bool.eqb (enabled c0) p) | None => false end); [discriminate|].
    destruct (build dc bad c0) as [ob|] eqn:Eb; [|discriminate].
    destruct (match mget (key_of (host c0)) m with Some (_, c2, ob2) => negb (compat c0 c2 ob ob2) | None => false end);
      [discriminate|].
    rewrite <- Hlen in H. eapply IH; [exact Hall'| |exact H].
    intros k i c ob' Hg. rewrite mget_mset in Hg.
    destruct (beq (key_of (host c0)) k) eqn:Ek.
    + injection Hg as <- <- <-. apply beq_eq in Ek. split; [|split; [exact Ek|exact Eb]].
      exists o. split; [|reflexivity].
      rewrite Hall. rewrite nth_error_app2; [|lia]. rewrite Nat.sub_diag. reflexivity.
    + apply Hinv. exact Hg.
Qed.

Lemma group_entries dc bad cs g :
  make_tls_config dc bad cs = MkGroup g ->
  forall k i c ob, mget k g = Some (i, c, ob) ->
    nth_error cs i = Some (Some c) /\ key_of (host c) = k /\ build dc bad c = Some ob.
Proof.
  intro Hmk. pose proof (group_uniform _ _ _ _ Hmk) as Hu. revert Hmk.
  unfold make_tls_config. destruct cs as [|o cs]; [discriminate|].
  destruct (mk_loop dc bad 0 None (o :: cs) []) as [e|m'] eqn:E; [discriminate|].
  destruct (first_enabled (o :: cs)); [|discriminate]. intro H. injection H as <-.
  assert (Hent : entries_ok dc bad (o :: cs) m').
  { eapply (mk_loop_entries dc bad (o :: cs) [] (o :: cs)); [reflexivity| |exact E].
    intros k i c ob Hg. discriminate. }
  intros k i c ob Hg. destruct (Hent _ _ _ _ Hg) as [[o' [Hn Hc]] [Hk Hb]].
  split; [|split; assumption].
  rewrite Hn. f_equal. assert (Hin : In o' (o :: cs)) by (eapply nth_error_In; exact Hn).
  destruct (enabled_cfg_of o' (Hu o' Hin)) as [c1 [-> _]]. simpl in Hc. congruence.
Qed.

Lemma build_enabled_fields dc bad c ob :
  enabled c = true -> build dc bad c = Some ob ->
  exists b, ob = Some b /\ b_min b = pmin c /\ b_max b = pmax c /\ b_cauth b = cauth c /\
            (exists rest, b_ciphers b = SCSV :: rest) /\
            (forall x, In x (b_ciphers b) -> x = SCSV \/ In x (ciphers c) \/ (ciphers c = [] /\ In x dc)).
Proof.
  intros He. unfold build. rewrite He. simpl.
  destruct (negb (cauth c =? 0) && existsb (fun f => mem_bytes f bad) (ccerts c)); [discriminate|].
  intro H. injection H as <-. eexists. split; [reflexivity|]. simpl.
  repeat split.
  - unfold scsv_first. destruct (if is_nil (dedupe (ciphers c)) then dc else dedupe (ciphers c)) as [|x l] eqn:E.
    + eexists. reflexivity.
    + destruct (x =? SCSV) eqn:Ex; [apply N.eqb_eq in Ex; subst x|]; eexists; reflexivity.
  - intros x Hin.
    assert (Hd : forall seen l y, In y (dedupe_aux seen l) -> In y l).
    { intros seen l; revert seen; induction l as [|a l IH]; intros seen y Hy; simpl in *; [exact Hy|].
      destruct (existsb (N.eqb a) seen); [right; eapply IH; exact Hy|].
      destruct Hy as [<-|Hy]; [left; reflexivity|right; eapply IH; exact Hy]. }
    assert (Hs : forall l, In x (scsv_first l) -> x = SCSV \/ In x l).
    { intros l. unfold scsv_first. destruct l as [|a l]; simpl.
      - intros [<-|[]]. left. reflexivity.
      - destruct (a =? SCSV); simpl; intros [<-|Hx]; auto. }
    apply Hs in Hin. destruct Hin as [Hin|Hin]; [left; exact Hin|right].
    destruct (is_nil (dedupe (ciphers c))) eqn:En.
    + destruct (ciphers c) as [|a l] eqn:Ec; [right; split; [reflexivity|exact Hin]|].
      unfold dedupe in En. simpl in En. discriminate.
    + left. eapply Hd. exact Hin.
Qed.

(* sites that share a key (a host name, or one of the catch-all spellings "", 0.0.0.0, ::) all
   get settings equal to their own: the compatibility assert is applied under the stored key *)
Lemma compat_same c1 c2 ob1 ob2 : compat c1 c2 ob1 ob2 = true -> ob1 = ob2.
Proof.
  unfold compat. destruct ob1 as [x|], ob2 as [y|]; try discriminate; [|reflexivity].
  intro H. apply andb_true_iff in H as [H _]. apply btls_beq_eq in H. congruence.
Qed.

Definition own_ok dc bad (done : list (option tcfg)) (m : amap gval) : Prop :=
  forall o, In o done ->
    exists i c' ob, mget (key_of (host (cfg_of o))) m = Some (i, c', ob) /\ build dc bad (cfg_of o) = Some ob.

Lemma mk_loop_own dc bad done cs prev m m' :
  own_ok dc bad done m ->
  mk_loop dc bad (length done) prev cs m = inr m' ->
  own_ok dc bad (done ++ cs) m'.
Proof.
  revert done prev m; induction cs as [|o cs IH]; intros done prev m Hinv H.
  - simpl in H. injection H as <-. rewrite app_nil_r. exact Hinv.
  - assert (Hlen : length (done ++ [o]) = S (length done)) by (rewrite app_length; simpl; lia).
    replace (done ++ o :: cs) with ((done ++ [o]) ++ cs) by (rewrite <- app_assoc; reflexivity).
    rewrite mk_loop_cons in H. cbv zeta in H. set (c0 := cfg_of o) in *.
    destruct (match prev with Some p => negb (Bool.eqb (enabled c0) p) | None => false end); [discriminate|].
    destruct (build dc bad c0) as [ob|] eqn:Eb; [|discriminate].
    destruct (mget (key_of (host c0)) m) as [[[i2 c2] ob2]|] eqn:Eg.
    + destruct (compat c0 c2 ob ob2) eqn:Ec; simpl in H; [|discriminate].
      rewrite <- Hlen in H. eapply IH; [|exact H].
      intros o1 Hin. rewrite mget_mset.
      destruct (beq (key_of (host c0)) (key_of (host (cfg_of o1)))) eqn:Ek.
      * apply beq_eq in Ek.
        apply in_app_or in Hin. destruct Hin as [Hin|[Heq|[]]].
        -- destruct (Hinv o1 Hin) as [i [c' [ob' [Hg Hb]]]].
           rewrite <- Ek in Hg. rewrite Eg in Hg. injection Hg as <- <- <-.
           apply compat_same in Ec. subst ob2. eauto.
        -- subst o1. fold c0. eauto.
      * apply in_app_or in Hin. destruct Hin as [Hin|[Heq|[]]].
        -- apply Hinv; assumption.
        -- subst o1. fold c0 in Ek. rewrite beq_refl in Ek. discriminate.
    + simpl in H. rewrite <- Hlen in H. eapply IH; [|exact H].
      intros o1 Hin. rewrite mget_mset.
      destruct (beq (key_of (host c0)) (key_of (host (cfg_of o1)))) eqn:Ek.
      * apply beq_eq in Ek.
        apply in_app_or in Hin. destruct Hin as [Hin|[Heq|[]]].
        -- destruct (Hinv o1 Hin) as [i [c' [ob' [Hg Hb]]]].
           rewrite <- Ek in Hg. rewrite Eg in Hg. discriminate.
        -- subst o1. fold c0. eauto.
      * apply in_app_or in Hin. destruct Hin as [Hin|[Heq|[]]].
        -- apply Hinv; assumption.
        -- subst o1. fold c0 in Ek. rewrite beq_refl in Ek. discriminate.
Qed.

Lemma group_own_settings dc bad cs g c :
  make_tls_config dc bad cs = MkGroup g -> In (Some c) cs ->
  exists i c' ob, mget (key_of (host c)) g = Some (i, c', ob) /\ build dc bad c = Some ob.
Proof.
  unfold make_tls_config. destruct cs as [|o cs]; [discriminate|].
  destruct (mk_loop dc bad 0 None (o :: cs) []) as [e|m'] eqn:E; [discriminate|].
  destruct (first_enabled (o :: cs)); [|discriminate]. intro H. injection H as <-.
  intro Hin. apply (mk_loop_own dc bad [] (o :: cs) None [] m' (fun _ F => match F with end) E (Some c) Hin).
Qed.

(* ------------------------------------------------------------------ defaults *)
Lemma set_default_versions dc c :
  pmin (set_default dc c) = (if pmin c =? 0 then TLS12 else pmin c) /\
  pmax (set_default dc c) = (if pmax c =? 0 then TLS13 else pmax c) /\
  cauth (set_default dc c) = cauth c /\ enabled (set_default dc c) = enabled c /\
  exists rest, ciphers (set_default dc c) = SCSV :: rest.
Proof. unfold set_default; simpl. repeat split. eexists. reflexivity. Qed.

Definition is_protocols (o : tlsopt) : bool := match o with OProtocols _ => true | _ => false end.

Lemma apply_opt_versions c o c' :
  apply_opt c o = Some c' -> is_protocols o = false -> pmin c' = pmin c /\ pmax c' = pmax c /\ enabled c' = enabled c.
Proof.
  destruct o as [args|names|args| |args]; simpl; intros H Hp; try discriminate.
  - destruct (ciphers_of names); [|discriminate]. injection H as <-. simpl. auto.
  - destruct args as [|m rest]; [discriminate|].
    repeat (match type of H with context [if ?b then _ else _] => destruct b end; simpl in H);
      try discriminate; injection H as <-; simpl; auto.
  - injection H as <-. simpl. auto.
  - destruct args; [discriminate|]. injection H as <-. simpl. auto.
Qed.

Lemma apply_opts_versions os : forall c c',
  apply_opts c os = Some c' -> forallb (fun o => negb (is_protocols o)) os = true ->
  pmin c' = pmin c /\ pmax c' = pmax c /\ enabled c' = enabled c.
Proof.
  induction os as [|o os IH]; simpl; intros c c' H Hp.
  - injection H as <-. auto.
  - apply andb_true_iff in Hp as [Hp1 Hp2]. apply negb_true_iff in Hp1.
    destruct (apply_opt c o) as [c1|] eqn:E; [|discriminate].
    destruct (apply_opt_versions _ _ _ E Hp1) as [H1 [H2 H3]].
    destruct (IH _ _ H Hp2) as [H4 [H5 H6]]. repeat split; congruence.
Qed.

Lemma min_version_default_tls12 dc h hasargs os c :
  tls_setup dc h false hasargs os = Some c ->
  forallb (fun o => negb (is_protocols o)) os = true ->
  enabled c = true /\ pmin c = TLS12 /\ pmax c = TLS13.
Proof.
  unfold tls_setup. destruct (negb hasargs && is_nil os); [discriminate|].
  destruct (apply_opts _ os) as [c1|] eqn:E; [|discriminate]. intros H Hp. injection H as <-.
  destruct (apply_opts_versions _ _ _ E Hp) as [H1 [H2 H3]]. simpl in *.
  unfold set_default; simpl. rewrite H1, H2, H3. simpl. auto.
Qed.

(* whatever the sub-directives, a site set up by the tls directive has min <= max, both real
   protocol versions, TLS 1.2 <= min unless a protocols sub-directive lowers it *)
Lemma tls_off_disables dc h hasargs os c :
  tls_setup dc h true hasargs os = Some c -> enabled c = false.
Proof. unfold tls_setup. intro H. injection H as <-. reflexivity. Qed.

(* ------------------------------------------------------------------ strict SNI = Host *)
Lemma strict_served sites dflt conn sni rhost i s :
  serve sites dflt conn (Some sni) rhost = Served i -> nth_error sites i = Some s -> demands (s_tls s) = true ->
  to_lower sni = route_host rhost /\ (sni = [] -> sniless_elsewhere sites dflt conn = false).
Proof.
  unfold serve. destruct (vmatch (vhosts sites) (route_host rhost)) as [[k j]|]; [|discriminate].
  destruct (nth_error sites j) as [s'|] eqn:Ej; [|discriminate].
  destruct (strict_fail (s_tls s') (Some sni) (route_host rhost) (sniless_elsewhere sites dflt conn)) eqn:Es;
    [discriminate|].
  intro H. injection H as <-. intros Hn Hd. rewrite Ej in Hn. injection Hn as <-.
  unfold strict_fail in Es. rewrite Hd in Es. simpl in Es.
  apply orb_false_iff in Es as [Es1 Es2].
  apply negb_false_iff in Es1. apply beq_eq in Es1. split; [exact Es1|].
  intros ->. simpl in Es2. exact Es2.
Qed.

Lemma strict_sni_host sites dflt conn sni rhost i s :
  serve sites dflt conn (Some sni) rhost = Served i -> nth_error sites i = Some s -> demands (s_tls s) = true ->
  to_lower sni = route_host rhost.
Proof. intros H1 H2 H3. exact (proj1 (strict_served _ _ _ _ _ _ _ H1 H2 H3)). Qed.

(* a request without SNI reaches a client-certificate site only when no default server name is
   set and no site is named by the local address of the connection *)
Lemma sniless_served sites dflt conn rhost i s :
  serve sites dflt conn (Some []) rhost = Served i -> nth_error sites i = Some s -> demands (s_tls s) = true ->
  trim_space dflt = [] /\
  forall a s', conn = Some a -> In s' sites -> host (s_tls s') <> host_only a.
Proof.
  intros H1 H2 H3. pose proof (proj2 (strict_served _ _ _ _ _ _ _ H1 H2 H3) eq_refl) as He.
  unfold sniless_elsewhere in He. apply orb_false_iff in He as [He1 He2]. split.
  - apply negb_false_iff in He1. destruct (trim_space dflt); [reflexivity|discriminate].
  - intros a s' -> Hin Heq.
    assert (Hex : existsb (fun s0 => beq (host (s_tls s0)) (host_only a)) sites = true).
    { apply existsb_exists. exists s'. split; [exact Hin|]. apply beq_eq. exact Heq. }
    rewrite Hex in He2. discriminate.
Qed.

Lemma forbidden_only_on_mismatch sites dflt conn tls rhost i :
  serve sites dflt conn tls rhost = Forbidden i ->
  exists sni s, tls = Some sni /\ nth_error sites i = Some s /\ demands (s_tls s) = true /\
                (to_lower sni <> route_host rhost \/
                 (sni = [] /\ sniless_elsewhere sites dflt conn = true)).
Proof.
  unfold serve. destruct (vmatch (vhosts sites) (route_host rhost)) as [[k j]|]; [|discriminate].
  destruct (nth_error sites j) as [s'|] eqn:Ej; [|discriminate].
  destruct (strict_fail (s_tls s') tls (route_host rhost) (sniless_elsewhere sites dflt conn)) eqn:Es; [|discriminate].
  intro H. injection H as <-. unfold strict_fail in Es. destruct tls as [sni|]; [|discriminate].
  apply andb_true_iff in Es as [Hd Hn]. exists sni, s'. repeat split; try assumption.
  apply orb_true_iff in Hn as [Hn|Hn].
  - left. apply negb_true_iff in Hn. apply beq_false_neq. exact Hn.
  - right. apply andb_true_iff in Hn as [Hn1 Hn2]. split; [|exact Hn2].
    destruct sni; [reflexivity|discriminate].
Qed.

(* ------------------------------------------------------------------ composite *)
Section MapMore.
Context {V : Type}.
Lemma find_key_app_none (m : amap V) a b :
  (forall c, In c a -> mget c m = None) -> find_key m (a ++ b) = find_key m b.
Proof.
  induction a as [|x a IH]; simpl; intro H; [reflexivity|].
  rewrite (H x (or_introl eq_refl)). apply IH. intros c Hc. apply H. right. exact Hc.
Qed.
Lemma find_key_app_some (m : amap V) a b r :
  find_key m a = Some r -> find_key m (a ++ b) = Some r.
Proof.
  induction a as [|x a IH]; simpl; intro H; [discriminate|].
  destruct (mget x m); [exact H|apply IH; exact H].
Qed.
End MapMore.

(* two maps with the same domain pick the same candidate *)
Lemma find_key_same_domain {A B} (m1 : amap A) (m2 : amap B) cs k v :
  (forall c, In c cs -> (mget c m1 = None <-> mget c m2 = None)) ->
  find_key m1 cs = Some (k, v) -> exists w, find_key m2 cs = Some (k, w).
Proof.
  induction cs as [|c cs IH]; simpl; intros Hd H; [discriminate|].
  destruct (mget c m1) as [v1|] eqn:E1.
  - injection H as <- <-. destruct (mget c m2) as [w|] eqn:E2; [eauto|].
    apply (Hd c (or_introl eq_refl)) in E2. congruence.
  - destruct (mget c m2) as [w|] eqn:E2.
    + pose proof (proj1 (Hd c (or_introl eq_refl)) E1). congruence.
    + apply IH; [|exact H]. intros c' Hc. apply Hd. right. exact Hc.
Qed.

(* domain and values of the vhost table *)
Lemma vinsert_get sites : forall i e k j,
  mget k (vinsert i sites e) = Some j ->
  (exists s, nth_error sites (j - i) = Some s /\ (i <= j)%nat /\ vhost_key (s_addr s) = k) \/ mget k e = Some j.
Proof.
  induction sites as [|s sites IH]; simpl; intros i e k j H; [right; exact H|].
  apply IH in H. destruct H as [[s' [Hn [Hle Hk]]]|H].
  - left. exists s'. replace (j - i)%nat with (S (j - S i)) by lia. simpl. repeat split; [exact Hn|lia|exact Hk].
  - rewrite mget_mset in H. destruct (beq (vhost_key (s_addr s)) k) eqn:E.
    + injection H as <-. left. exists s. rewrite Nat.sub_diag. simpl. apply beq_eq in E. repeat split; [lia|exact E].
    + right. exact H.
Qed.

Lemma vinsert_none sites : forall i e k,
  mget k (vinsert i sites e) = None <->
  (mget k e = None /\ forall s, In s sites -> vhost_key (s_addr s) <> k).
Proof.
  induction sites as [|s sites IH]; simpl; intros i e k.
  - split; [intro H; split; [exact H|intros ? []]|intros [H _]; exact H].
  - rewrite IH. rewrite mget_mset. split.
    + intros [H1 H2]. destruct (beq (vhost_key (s_addr s)) k) eqn:E; [discriminate|].
      split; [exact H1|]. intros s' [<-|Hin]; [apply beq_false_neq; exact E|apply H2; exact Hin].
    + intros [H1 H2]. split.
      * destruct (beq (vhost_key (s_addr s)) k) eqn:E; [|exact H1].
        apply beq_eq in E. exfalso. apply (H2 s (or_introl eq_refl)). exact E.
      * intros s' Hin. apply H2. right. exact Hin.
Qed.

(* domain of the TLS group *)
Lemma mk_loop_none dc bad cs : forall i prev m m' k,
  mk_loop dc bad i prev cs m = inr m' ->
  (mget k m' = None <-> (mget k m = None /\ forall o, In o cs -> key_of (host (cfg_of o)) <> k)).
Proof.
  induction cs as [|o cs IH]; intros i prev m m' k H.
  - simpl in H. injection H as <-. split; [intro H; split; [exact H|intros ? []]|intros [H _]; exact H].
  - rewrite mk_loop_cons in H. cbv zeta in H. set (c0 := cfg_of o) in *.
    destruct (match prev with Some p => negb (Bool.eqb (enabled c0) p) | None => false end); [discriminate|].
    destruct (build dc bad c0) as [ob|]; [|discriminate].
    destruct (match mget (key_of (host c0)) m with Some (_, c2, ob2) => negb (compat c0 c2 ob ob2) | None => false end);
      [discriminate|].
    rewrite (IH _ _ _ _ k H). rewrite mget_mset. split.
    + intros [H1 H2]. destruct (beq (key_of (host c0)) k) eqn:E; [discriminate|].
      split; [exact H1|]. intros o1 [<-|Hin]; [apply beq_false_neq; exact E|apply H2; exact Hin].
    + intros [H1 H2]. split.
      * destruct (beq (key_of (host c0)) k) eqn:E; [|exact H1].
        apply beq_eq in E. exfalso. apply (H2 o (or_introl eq_refl)). exact E.
      * intros o1 Hin. apply H2. right. exact Hin.
Qed.

Lemma group_domain dc bad cs g k :
  make_tls_config dc bad cs = MkGroup g ->
  (mget k g = None <-> forall c, In (Some c) cs -> key_of (host c) <> k).
Proof.
  intro Hmk. destruct (group_all_enabled _ _ _ _ Hmk) as [Hnn _]. revert Hmk.
  unfold make_tls_config. destruct cs as [|o cs]; [discriminate|].
  destruct (mk_loop dc bad 0 None (o :: cs) []) as [e|m'] eqn:E; [discriminate|].
  destruct (first_enabled (o :: cs)); [|discriminate]. intro H. injection H as <-.
  rewrite (mk_loop_none _ _ _ _ _ _ _ k E). split.
  - intros [_ H] c Hin. exact (H (Some c) Hin).
  - intro H. split; [reflexivity|]. intros o1 Hin. destruct o1 as [c|]; [exact (H c Hin)|].
    exfalso. exact (Hnn None Hin eq_refl).
Qed.

Lemma to_lower_nonempty s : s <> [] -> to_lower s <> [].
Proof. destruct s; [congruence|]. simpl. discriminate. Qed.

Lemma first_match_cases e hs r :
  first_match e hs = Some r -> exists h, In h hs /\ match_host e h = Some r.
Proof.
  induction hs as [|h hs IH]; simpl; [discriminate|].
  destruct (match_host e h) as [x|] eqn:E.
  - intro H. injection H as <-. exists h. split; [left; reflexivity|exact E].
  - intro H. destruct (IH H) as [h' [Hin Hm]]. exists h'. split; [right; exact Hin|exact Hm].
Qed.

(* wildcard candidates begin with a star: they are neither empty nor an unspecified address *)
Lemma join_star_head l : exists t, join [DOT] ([STAR] :: l) = STAR :: t.
Proof. destruct l; simpl; eexists; reflexivity. Qed.

Lemma wild_cands_star name c : In c (wild_cands name) -> exists t, c = STAR :: t.
Proof.
  rewrite wild_cands_closed. intro H. apply in_map_iff in H. destruct H as [k [<- Hk]].
  apply in_seq in Hk. unfold cand. destruct k as [|k]; [lia|]. simpl. apply join_star_head.
Qed.

Lemma key_of_cases x :
  (key_of x = [] /\ (x = bs "0.0.0.0"%string \/ x = bs "::"%string)) \/
  (key_of x = x /\ x <> bs "0.0.0.0"%string /\ x <> bs "::"%string).
Proof.
  unfold key_of. destruct (beq x (bs "0.0.0.0"%string)) eqn:E1; destruct (beq x (bs "::"%string)) eqn:E2;
    cbn [orb].
  - left. split; [reflexivity|]. left. apply beq_eq. exact E1.
  - left. split; [reflexivity|]. left. apply beq_eq. exact E1.
  - left. split; [reflexivity|]. right. apply beq_eq. exact E2.
  - right. split; [reflexivity|]. split; apply beq_false_neq; assumption.
Qed.

Lemma find_key_at {V} (m : amap V) pre k v rest :
  (forall c, In c pre -> mget c m = None) -> mget k m = Some v ->
  find_key m (pre ++ k :: rest) = Some (k, v).
Proof.
  intros Hp Hk. rewrite find_key_app_none; [|exact Hp]. simpl. rewrite Hk. reflexivity.
Qed.

Theorem clientauth_policy_governs dc bad sites g dflt conn sni rhost v s :
  make_tls_config dc bad (map (fun s => Some (s_tls s)) sites) = MkGroup g ->
  (forall s, In s sites -> vhost_key (s_addr s) = host (s_tls s)) ->
  (forall c, In c fallback_star_names -> mget c (vhosts sites) = None) ->
  serve sites dflt conn (Some sni) rhost = Served v -> nth_error sites v = Some s -> demands (s_tls s) = true ->
  trim_space sni = sni ->
  exists k i c ob, get_config g dflt conn sni = Found k (i, c, ob) /\ build dc bad (s_tls s) = Some ob.
Proof.
  intros Hmk Hsites Hstar Hserve Hnth Hdem Htrim.
  pose proof (strict_sni_host _ _ _ _ _ _ _ Hserve Hnth Hdem) as Hsni.
  pose proof Hserve as Hserve0.
  set (h := to_lower sni).
  (* the routed site and its key *)
  unfold serve in Hserve. rewrite <- Hsni in Hserve. fold h in Hserve.
  destruct (vmatch (vhosts sites) h) as [[kk j]|] eqn:Ev; [|discriminate].
  destruct (nth_error sites j) as [s'|] eqn:Ej; [|discriminate].
  destruct (strict_fail (s_tls s') (Some sni) h _); [discriminate|].
  injection Hserve as ->. rewrite Hnth in Ej. injection Ej as <-.
  set (e := vhosts sites) in *.
  set (cfgs := map (fun s => Some (s_tls s)) sites) in *.
  assert (Hin : In s sites) by (eapply nth_error_In; exact Hnth).
  (* a key of the vhost table that holds v is the host name of s *)
  assert (Hkey : forall k, mget k e = Some v -> k = host (s_tls s)).
  { intros k Hg. unfold e, vhosts in Hg. apply vinsert_get in Hg.
    destruct Hg as [[s0 [Hn0 [_ Hk0]]]|Hg]; [|discriminate].
    rewrite Nat.sub_0_r in Hn0. rewrite Hnth in Hn0. injection Hn0 as <-.
    rewrite <- Hk0. apply Hsites. exact Hin. }
  (* a non-empty name absent from the vhost table is absent from the TLS group *)
  assert (Hdom : forall c, c <> [] -> mget c e = None -> mget c g = None).
  { intros c Hc He. apply (group_domain _ _ _ _ c Hmk). intros cf Hcf Hk.
    unfold cfgs in Hcf. apply in_map_iff in Hcf. destruct Hcf as [s0 [Hs0 Hin0]]. injection Hs0 as <-.
    unfold e, vhosts in He. apply vinsert_none in He. destruct He as [_ He].
    destruct (key_of_cases (host (s_tls s0))) as [[Hk0 _]|[Hk0 _]]; [congruence|].
    apply (He s0 Hin0). rewrite (Hsites _ Hin0). congruence. }
  (* the unspecified addresses are never keys of the TLS group *)
  assert (Hunspec : forall c, c = bs "0.0.0.0"%string \/ c = bs "::"%string -> mget c g = None).
  { intros c Hc. apply (group_domain _ _ _ _ c Hmk). intros cf _ Hk.
    destruct (key_of_cases (host cf)) as [[Hk0 _]|[Hk0 [N1 N2]]].
    - rewrite Hk0 in Hk. destruct Hc as [-> | ->]; discriminate.
    - rewrite Hk0 in Hk. destruct Hc as [-> | ->]; congruence. }
  assert (Hwne : forall x c, In c (wild_cands x) -> c <> []).
  { intros x c Hc. destruct (wild_cands_star _ _ Hc) as [t ->]. discriminate. }
  (* how the router found the site: through a key that is also the TLS key, preceded in the
     candidate list only by absent names, or through a catch-all spelling while no more
     specific name is in the TLS group *)
  assert (RA : mget kk e = Some v /\
               ((key_of kk = [] /\ forall c, In c (h :: wild_cands h) -> c <> [] -> mget c g = None) \/
                (key_of kk = kk /\ exists pre post, h :: wild_cands h = pre ++ kk :: post /\
                                                    forall c, In c pre -> mget c e = None))).
  { unfold vmatch in Ev. cbn [first_match] in Ev.
    destruct (match_host e h) as [x|] eqn:E0.
    - injection Ev as ->. unfold match_host in E0.
      destruct (find_key_some _ _ _ _ E0) as [Hgv [pre [post [Hc Hp]]]]. split; [exact Hgv|].
      assert (Hkin : In kk (h :: wild_cands h)) by (rewrite Hc; apply in_or_app; right; left; reflexivity).
      destruct (key_of_cases kk) as [[Hk0 Hun]|[Hk0 _]]; [left|right; split; [exact Hk0|eauto]].
      split; [exact Hk0|].
      assert (Hkh : kk = h).
      { destruct Hkin as [->|Hw]; [reflexivity|]. destruct (wild_cands_star _ _ Hw) as [t ->].
        destruct Hun as [Hun|Hun]; discriminate. }
      intros c [<-|Hw] Hcn; [apply Hunspec; rewrite <- Hkh; exact Hun|].
      apply Hdom; [exact Hcn|]. apply Hstar.
      unfold fallback_star_names, fallback_hosts. apply in_flat_map. exists h. split; [|exact Hw].
      rewrite <- Hkh. destruct Hun as [-> | ->]; [left; reflexivity|right; left; reflexivity].
    - assert (Hfb : exists h', In h' fallback_hosts /\ match_host e h' = Some (kk, v)).
      { apply first_match_cases. unfold fallback_hosts. cbn [first_match]. exact Ev. }
      destruct Hfb as [h' [Hh' Hm]]. unfold match_host in Hm.
      destruct (find_key_some _ _ _ _ Hm) as [Hgv [pre [post [Hc Hp]]]]. split; [exact Hgv|]. left.
      assert (Hkin : In kk (h' :: wild_cands h')) by (rewrite Hc; apply in_or_app; right; left; reflexivity).
      assert (Hkh : kk = h').
      { destruct Hkin as [->|Hw]; [reflexivity|]. exfalso.
        assert (Hs : mget kk e = None).
        { apply Hstar. unfold fallback_star_names. apply in_flat_map. exists h'. split; assumption. }
        rewrite Hs in Hgv. discriminate. }
      split.
      + rewrite Hkh. unfold fallback_hosts in Hh'.
        destruct Hh' as [<-|[<-|[<-|[]]]]; vm_compute; reflexivity.
      + intros c Hcin Hcn. apply Hdom; [exact Hcn|]. eapply find_key_none; [exact E0|exact Hcin]. }
  destruct RA as [Hgv RA].
  (* the group holds settings equal to s's own under the key of s *)
  destruct (group_own_settings dc bad cfgs g (s_tls s) Hmk) as [i' [c' [ob' [Hg' Hb']]]].
  { unfold cfgs. apply in_map_iff. exists s. split; [reflexivity|exact Hin]. }
  rewrite <- (Hkey _ Hgv) in Hg'.
  destruct sni as [|b0 sni'].
  - (* no SNI: no default server name, no site named by the local address; the catch-all governs *)
    destruct (sniless_served _ _ _ _ _ _ Hserve0 Hnth Hdem) as [Hd Hip].
    assert (Hk0 : key_of kk = []).
    { destruct RA as [[Hk0 _]|[_ [pre [post [Hc _]]]]]; [exact Hk0|].
      assert (Hkin : In kk (h :: wild_cands h)) by (rewrite Hc; apply in_or_app; right; left; reflexivity).
      destruct Hkin as [<-|Hw]; [reflexivity|]. exfalso.
      assert (Hs : mget kk e = None).
      { apply Hstar. unfold fallback_star_names, fallback_hosts. apply in_flat_map. exists [].
        split; [right; right; left; reflexivity|exact Hw]. }
      rewrite Hs in Hgv. discriminate. }
    rewrite Hk0 in Hg'.
    exists [], i', c', ob'. split; [|exact Hb'].
    unfold get_config, effective_name, normalized_name. rewrite Hd. cbn [trim_space trim_left rev app to_lower map is_nil].
    match goal with |- context [@find_key ?V g ?l] =>
      assert (Hfk : @find_key V g l = Some ([], (i', c', ob')))
    end.
    { cbn [find_key]. rewrite Hg'. reflexivity. }
    destruct conn as [a|]; [|rewrite Hfk; reflexivity].
    destruct (mget (host_only a) g) as [[[i2 c2] ob2]|] eqn:Ea; [|rewrite Hfk; reflexivity].
    destruct (group_entries _ _ _ _ Hmk _ _ _ _ Ea) as [Hn2 [Hk2 _]].
    apply nth_error_In in Hn2. unfold cfgs in Hn2. apply in_map_iff in Hn2.
    destruct Hn2 as [s2 [Hs2 Hin2]]. injection Hs2 as <-.
    destruct (key_of_cases (host (s_tls s2))) as [[Hk3 _]|[Hk3 _]].
    + rewrite Hk3 in Hk2. rewrite <- Hk2 in Ea. rewrite Hg' in Ea. injection Ea as <- <- <-.
      rewrite <- Hk2. reflexivity.
    + exfalso. apply (Hip a s2 eq_refl Hin2). congruence.
  - set (sni := b0 :: sni') in *. assert (Hne : sni <> []) by discriminate.
    assert (Hname : effective_name dflt sni = h).
    { unfold effective_name, normalized_name. rewrite Htrim. fold h.
      destruct (is_nil h) eqn:E; [|reflexivity]. exfalso. apply (to_lower_nonempty sni Hne). fold h.
      destruct h; [reflexivity|discriminate]. }
    assert (Hhne : h <> []) by (apply to_lower_nonempty; exact Hne).
    assert (Hcne : forall c, In c (h :: wild_cands h) -> c <> []).
    { intros c [<-|Hc]; [exact Hhne|]. eapply Hwne; exact Hc. }
    unfold get_config. rewrite Hname.
    destruct (is_nil h) eqn:E; [destruct h; [congruence|discriminate]|].
    change (h :: wild_cands h ++ [[]]) with ((h :: wild_cands h) ++ [[]]).
    destruct RA as [[Hk0 Hnone]|[Hk0 [pre [post [Hc Hp]]]]].
    + rewrite Hk0 in Hg'. exists [], i', c', ob'. split; [|exact Hb'].
      replace (find_key g ((h :: wild_cands h) ++ [[]])) with (Some (@nil N, (i', c', ob')));
        [reflexivity|symmetry; apply find_key_at; [|exact Hg']].
      intros c Hcin. apply Hnone; [exact Hcin|apply Hcne; exact Hcin].
    + rewrite Hk0 in Hg'. exists kk, i', c', ob'. split; [|exact Hb'].
      rewrite Hc. rewrite <- app_assoc. simpl.
      replace (find_key g (pre ++ kk :: post ++ [[]])) with (Some (kk, (i', c', ob')));
        [reflexivity|symmetry; apply find_key_at; [|exact Hg']].
      intros c Hcp. apply Hdom; [|apply Hp; exact Hcp].
      apply Hcne. rewrite Hc. apply in_or_app. left. exact Hcp.
Qed.

(* ------------------------------------------------------------------ handshakes without SNI *)
Lemma wild_cands_empty : wild_cands [] = [[STAR]].
Proof. vm_compute. reflexivity. Qed.

Lemma no_sni_governing V (m : amap V) dflt conn sni :
  normalized_name sni = [] ->
  let d := normalized_name dflt in
  (d <> [] ->
     get_config m dflt conn sni =
       match find_key m (spec_cands d) with
       | Some (k, v) => Found k v
       | None => match m with [] => NoConfig | _ => Fallback end
       end) /\
  (d = [] -> forall a v, conn = Some a -> mget (host_only a) m = Some v ->
     get_config m dflt conn sni = Found (host_only a) v) /\
  (d = [] -> (conn = None \/ exists a, conn = Some a /\ mget (host_only a) m = None) ->
     get_config m dflt conn sni =
       match mget [] m with
       | Some v => Found [] v
       | None => match mget [STAR] m with
                 | Some v => Found [STAR] v
                 | None => match m with [] => NoConfig | _ => Fallback end
                 end
       end).
Proof.
  intros Hs d. unfold get_config, effective_name. rewrite Hs. cbn [is_nil]. fold d.
  split; [|split].
  - intros Hd. destruct d as [|c0 d'] eqn:Ed; [congruence|]. cbn [is_nil].
    rewrite <- Ed. rewrite cands_closed. destruct (find_key m (spec_cands d)) as [[k v]|]; reflexivity.
  - intros Hd a v -> Ha. rewrite Hd. cbn [is_nil]. rewrite Ha. reflexivity.
  - intros Hd Hc. rewrite Hd. cbn [is_nil]. rewrite wild_cands_empty. cbn [app find_key].
    assert (E : match conn with
                | Some a => match mget (host_only a) m with Some v => Some (host_only a, v) | None => None end
                | None => None end = None).
    { destruct Hc as [-> | [a [-> Ha]]]; [reflexivity | rewrite Ha; reflexivity]. }
    rewrite E. destruct (mget [] m) as [v|]; [reflexivity|].
    destruct (mget [STAR] m) as [v|]; reflexivity.
Qed.

(* with a default server name set, a request that arrived without SNI is never served by a site
   that demands client certificates — whether the name belongs to a site exactly, through a
   wildcard, or to none *)
Lemma sniless_refused_under_default_name sites dflt conn rhost i s :
  trim_space dflt <> [] -> nth_error sites i = Some s -> demands (s_tls s) = true ->
  serve sites dflt conn (Some []) rhost <> Served i.
Proof.
  intros Hd Hn Hdem Hs. destruct (sniless_served _ _ _ _ _ _ Hs Hn Hdem) as [H _]. exact (Hd H).
Qed.

(* ... nor when a site is named by the local address of the connection *)
Lemma sniless_refused_under_local_address_site sites dflt a rhost i s s' :
  In s' sites -> host (s_tls s') = host_only a -> nth_error sites i = Some s -> demands (s_tls s) = true ->
  serve sites dflt (Some a) (Some []) rhost <> Served i.
Proof.
  intros Hin Hh Hn Hdem Hs. destruct (sniless_served _ _ _ _ _ _ Hs Hn Hdem) as [_ H].
  exact (H a s' eq_refl Hin Hh).
Qed.

(* the handshake of a request without SNI that a client-certificate site serves: whatever config
   governed it carries settings equal to that site's own, and it was not the arbitrary failover *)
Lemma no_sni_clientauth_own_config dc bad sites g dflt conn rhost v s :
  make_tls_config dc bad (map (fun s => Some (s_tls s)) sites) = MkGroup g ->
  (forall s, In s sites -> vhost_key (s_addr s) = host (s_tls s)) ->
  (forall c, In c fallback_star_names -> mget c (vhosts sites) = None) ->
  serve sites dflt conn (Some []) rhost = Served v -> nth_error sites v = Some s -> demands (s_tls s) = true ->
  normalized_name dflt = [] /\
  (forall a s', conn = Some a -> In s' sites -> host (s_tls s') <> host_only a) /\
  get_config g dflt conn [] <> Fallback /\
  forall k i c ob, get_config g dflt conn [] = Found k (i, c, ob) -> build dc bad (s_tls s) = Some ob.
Proof.
  intros Hmk Hk Hstar Hs Hn Hd.
  destruct (sniless_served _ _ _ _ _ _ Hs Hn Hd) as [Hdf Hip].
  destruct (clientauth_policy_governs dc bad sites g dflt conn [] rhost v s Hmk Hk Hstar Hs Hn Hd eq_refl)
    as (k & i & c & ob & Hg & Hb).
  split; [unfold normalized_name; rewrite Hdf; reflexivity|]. split; [exact Hip|].
  split; [rewrite Hg; discriminate|].
  intros k' i' c' ob' Hg'. rewrite Hg in Hg'. injection Hg' as _ _ _ <-. exact Hb.
Qed.

(* ------------------------------------------------------------------ mixing, in every order *)
Lemma existsb_perm {A} (f : A -> bool) l l' : Permutation l l' -> existsb f l = true -> existsb f l' = true.
Proof.
  intros Hp H. apply existsb_exists in H as (x & Hin & Hx). apply existsb_exists. exists x.
  split; [eapply Permutation_in; eassumption | exact Hx].
Qed.

Lemma mixed_perm cs cs' : Permutation cs cs' -> mixed cs = true -> mixed cs' = true.
Proof.
  unfold mixed. intros Hp H. apply andb_true_iff in H as [H1 H2]. apply andb_true_iff.
  split; eapply existsb_perm; eassumption.
Qed.

Lemma mixing_rejected_any_order dc bad cs cs' :
  Permutation cs cs' -> mixed cs = true ->
  exists e, make_tls_config dc bad cs' = MkErr e.
Proof. intros Hp H. apply mixing_rejected. exact (mixed_perm _ _ Hp H). Qed.

Lemma mixing_never_a_listener dc bad cs :
  mixed cs = true -> make_tls_config dc bad cs <> MkNil /\ forall g, make_tls_config dc bad cs <> MkGroup g.
Proof.
  intros H. destruct (mixing_rejected dc bad cs H) as [e He]. rewrite He. split; [discriminate | intros g; discriminate].
Qed.
