Require Import V.Lib V.GoPath V.C06_Model.
