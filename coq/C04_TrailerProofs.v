(* C04 — trailers whose names are shared with response headers *)
Require Import V.Lib V.GoPath V.C04_Model V.C04_Proofs.
From Coq Require Import Lia.
Import ListNotations.
Open Scope N_scope.

(* as trailer_keys_ok, but an ANNOUNCED trailer key may also be a key of the header map handed to the
   writer (the backend sent the field as a response header too, or a header_downstream rule set it),
   as long as no unannounced trailer arrived *)
Definition trailer_keys_ok_shared (h : hdr) (b : bresp) : Prop :=
  NoDup (b_announced b) /\ NoDup (map fst (b_trailers b)) /\
  (forall k, In k (b_announced b) \/ In k (map fst (b_trailers b)) ->
             canon_key k = k /\ conn_tokens k = [k] /\ has_prefix k TRAILER_PREFIX = false /\ k <> K_TRAILER) /\
  (trailers_forced b = true -> forall k, In k (b_announced b) -> hlookup h k = None).

Lemma fold_hput_some (l : hdr) : forall init k,
  hlookup init k <> None -> hlookup (fold_left (fun t kv => hput t (fst kv) (snd kv)) l init) k <> None.
Proof.
  induction l as [|kv l IH]; intros init k H; [exact H|]. cbn [fold_left]. apply IH.
  rewrite hlookup_hput. destruct (beq (fst kv) k); [discriminate|exact H].
Qed.

Lemma announced_in_final b k : In k (b_announced b) -> hlookup (final_trailers b) k <> None.
Proof.
  intros H. unfold final_trailers. apply fold_hput_some.
  induction (b_announced b) as [|a l IH]; [destruct H|]. cbn [map hlookup].
  destruct (beq a k) eqn:E; [discriminate|]. destruct H as [->|H]; [rewrite beq_refl in E; discriminate|apply IH; exact H].
Qed.

Lemma trailers_relayed_rw_shared h b ws mid :
  client_hdr_ok h -> trailer_keys_ok_shared h b -> flush_interleave (map OWrite ws) mid ->
  let s := rw_run true h (resp_ops_with b mid) in
  rs_status s = Some (b_status b) /\
  (b_announced b <> [] -> hlookup (rs_snap s) K_TRAILER = Some (b_announced b)) /\
  (b_announced b <> [] \/ b_trailers b <> [] -> rs_chunking s = true) /\
  (forall k, olist (hlookup (rw_trailers s) k) = olist (hlookup (final_trailers b) k)).
Proof.
  intros [Hnd [Hcl [Htr Hpf]]] [Ha [Ht [Hk Hh]]] Hfi. cbv zeta.
  unfold resp_ops_with. rewrite (nodup_keys_id _ Ha).
  set (ann := b_announced b) in *.
  set (pre := if is_nil ann then [] else [OSetKey K_TRAILER ann]).
  set (T := final_trailers b).
  set (g := fun k : bytes => if trailers_forced b then TRAILER_PREFIX ++ k else k).
  set (P := map (fun kv => OSetKey (if trailers_forced b then TRAILER_PREFIX ++ fst kv else fst kv) (snd kv)) T).
  set (ops := (if is_nil ann then [] else [OFlush]) ++ mid ++ (if trailers_forced b then [OFlush] else []) ++ P).
  change (rs_status (rw_run true h (pre ++ [OWriteHeader (b_status b)] ++ ops)) = Some (b_status b) /\
          (ann <> [] -> hlookup (rs_snap (rw_run true h (pre ++ [OWriteHeader (b_status b)] ++ ops))) K_TRAILER = Some ann) /\
          (ann <> [] \/ b_trailers b <> [] -> rs_chunking (rw_run true h (pre ++ [OWriteHeader (b_status b)] ++ ops)) = true) /\
          (forall k, olist (hlookup (rw_trailers (rw_run true h (pre ++ [OWriteHeader (b_status b)] ++ ops))) k) = olist (hlookup T k))).
  assert (Hpre : forall o, In o pre -> exists k vv, o = OSetKey k vv).
  { subst pre. destruct (is_nil ann); [intros o []|]. intros o [<-|[]]. eauto. }
  destruct (run_summary h pre (b_status b) ops Hpre) as [R1 [R2 [R3 [R4 [R5 R6]]]]].
  cbn [app] in *. set (s := rw_run true h (pre ++ OWriteHeader (b_status b) :: ops)) in *.
  set (h' := fold_setkeys pre h) in *.
  assert (Eh' : forall x, x <> K_TRAILER -> hlookup h' x = hlookup h x).
  { intros x Hx. subst h' pre. destruct (is_nil ann); [reflexivity|]. unfold fold_setkeys. cbn [fold_left].
    rewrite hlookup_hput. assert (E : beq K_TRAILER x = false) by (apply beq_false_iff; congruence). rewrite E. reflexivity. }
  assert (Etr : hlookup h' K_TRAILER = if is_nil ann then None else Some ann).
  { subst h' pre. destruct (is_nil ann); [exact Htr|]. unfold fold_setkeys. cbn [fold_left]. rewrite hlookup_hput, beq_refl. reflexivity. }
  assert (Hndh' : NoDup (map fst h')).
  { subst h' pre. destruct (is_nil ann); [exact Hnd|]. unfold fold_setkeys. cbn [fold_left]. apply hput_nodup. exact Hnd. }
  assert (Edecl : declared_of h' = ann).
  { unfold declared_of. rewrite Etr. destruct ann as [|a0 ann0] eqn:Eann; [reflexivity|]. cbn [is_nil olist].
    apply declared_tokens_id. intros k Hk'. destruct (Hk k (or_introl Hk')) as [A [B _]]. split; assumption. }
  assert (Ech : chunking_of true false h' = true).
  { unfold chunking_of, has_key. rewrite Eh' by (intros E; vm_compute in E; discriminate). rewrite Hcl. reflexivity. }
  destruct (fold_setkeys_interleave _ _ Hfi (writes_no_setkey ws)) as [Hmid _].
  assert (Elive : rs_live s = fold_left (fun t kv => hput t (fst kv) (snd kv)) (map (fun kv => (g (fst kv), snd kv)) T) h').
  { rewrite R3. subst ops. rewrite !fold_setkeys_app, Hmid.
    assert (E1 : fold_setkeys (if is_nil ann then [] else [OFlush]) h' = h') by (destruct (is_nil ann); reflexivity).
    rewrite E1.
    assert (E2 : fold_setkeys (if trailers_forced b then [OFlush] else []) h' = h') by (destruct (trailers_forced b); reflexivity).
    rewrite E2. subst P. apply (fold_setkeys_map g T h'). }
  assert (Hflush : ann <> [] \/ b_trailers b <> [] -> In OFlush ops).
  { intros [H|H]; subst ops.
    - destruct ann; [congruence|]. left. reflexivity.
    - destruct ann as [|a0 ann0] eqn:Eann.
      + apply in_or_app. right. apply in_or_app. right. rewrite (forced_when_unannounced b Eann H). left. reflexivity.
      + left. reflexivity. }
  split; [exact R2|]. split.
  { intros Hne. rewrite R1, Etr. destruct ann; [congruence|reflexivity]. }
  split.
  { intros Hne. rewrite (R5 (Hflush Hne)). exact Ech. }
  intros k. unfold rw_trailers. destruct (rs_chunking s) eqn:Ecs.
  2:{ (* not chunked: there is no trailer at all *)
    assert (N : ~ (ann <> [] \/ b_trailers b <> [])).
    { intros Hne. pose proof (R5 (Hflush Hne)) as X. rewrite Ech in X. discriminate X. }
    assert (N1 : ann = []) by (apply not_ne_nil; intros H; apply N; left; exact H).
    assert (N2 : b_trailers b = []) by (apply not_ne_nil; intros H; apply N; right; exact H).
    subst T. unfold final_trailers. fold ann. rewrite N1, N2. reflexivity. }
  rewrite R4, Edecl.
  assert (HndT : NoDup (map fst T)) by (apply final_trailers_nodup; exact Ha).
  assert (Hndlive : NoDup (map fst (rs_live s))) by (rewrite Elive; apply fold_hput_nodup; exact Hndh').
  rewrite srv_final_trailers_lookup; [|exact Hndlive|exact Ha|intros k' Hk'; apply (Hk k' (or_introl Hk'))].
  assert (Hkeys : forall k', In k' (map fst T) -> has_prefix k' TRAILER_PREFIX = false /\ k' <> K_TRAILER).
  { intros k' Hk'. apply final_trailers_key in Hk'. destruct (Hk k' Hk') as [_ [_ [A B]]]. split; assumption. }
  rewrite Elive. subst g. cbv beta. destruct (trailers_forced b) eqn:Ef; cbv beta iota.
  - (* unannounced trailers arrived: everything travels under the TrailerPrefix *)
    pose proof (setkeys_lookup_hit (fun k => TRAILER_PREFIX ++ k) T h' k (prefix_inj TRAILER_PREFIX) HndT) as X1. cbv beta in X1.
    rewrite Eh' in X1 by (intros E; vm_compute in E; discriminate).
    rewrite (Hpf (TRAILER_PREFIX ++ k) (has_prefix_app _ _)) in X1.
    match goal with |- olist ?A ++ _ = _ => assert (EA : A = match hlookup T k with Some vv => Some vv | None => None end) by exact X1; rewrite EA end.
    destruct (mem k ann) eqn:M.
    + apply mem_In in M. destruct (Hk k (or_introl M)) as [_ [_ [A B']]].
      pose proof (setkeys_lookup_miss (fun k => TRAILER_PREFIX ++ k) T h' k) as X2. cbv beta in X2.
      match goal with |- _ ++ olist ?B = _ => assert (EB : B = hlookup h' k); [apply X2|rewrite EB] end.
      { intros k' _ E. rewrite <- E, has_prefix_app in A. discriminate. }
      rewrite Eh' by exact B'. rewrite (Hh eq_refl k M). cbn [olist]. rewrite app_nil_r. destruct (hlookup T k); reflexivity.
    + rewrite app_nil_r. destruct (hlookup T k); reflexivity.
  - (* every trailer was announced: plain keys, picked up through the declared list *)
    pose proof (setkeys_lookup_miss (fun k => k) T h' (TRAILER_PREFIX ++ k)) as X2. cbv beta in X2.
    rewrite Eh' in X2 by (intros E; vm_compute in E; discriminate).
    rewrite (Hpf (TRAILER_PREFIX ++ k) (has_prefix_app _ _)) in X2.
    match goal with |- olist ?A ++ _ = _ => assert (EA : A = None); [apply X2|rewrite EA] end.
    { intros k' Hk' E. destruct (Hkeys k' Hk') as [A _]. rewrite E, has_prefix_app in A. discriminate. }
    cbn [olist app].
    destruct (mem k ann) eqn:M.
    + apply mem_In in M. destruct (Hk k (or_introl M)) as [_ [_ [_ B]]].
      pose proof (setkeys_lookup_hit (fun k => k) T h' k (fun a b E => E) HndT) as X1. cbv beta in X1.
      rewrite Eh' in X1 by exact B.
      destruct (hlookup T k) as [vv|] eqn:ET.
      * match goal with |- olist ?A = _ => assert (EA2 : A = Some vv) by exact X1; rewrite EA2 end. reflexivity.
      * exfalso. apply (announced_in_final b k M). exact ET.
    + assert (N : hlookup T k = None).
      { subst T. apply trailers_nothing_else.
        - intros HIn. apply mem_In in HIn. fold ann in HIn. congruence.
        - intros HIn. apply (not_forced_announced b k Ef) in HIn. apply mem_In in HIn. fold ann in HIn. congruence. }
      rewrite N. reflexivity.
Qed.
Lemma trailers_shared_name_spec h b r bufsz mid :
  client_hdr_ok h -> trailer_keys_ok_shared h b -> flush_interleave (map OWrite (copy_writes bufsz r)) mid ->
  let s := rw_run true h (resp_ops_with b mid) in
  rs_status s = Some (b_status b) /\
  (b_announced b <> [] -> hlookup (rs_snap s) K_TRAILER = Some (b_announced b)) /\
  (b_announced b <> [] \/ b_trailers b <> [] -> rs_chunking s = true) /\
  (forall k, olist (hlookup (rw_trailers s) k) = olist (hlookup (final_trailers b) k)).
Proof. intros H1 H2 H3. exact (trailers_relayed_rw_shared h b (copy_writes bufsz r) mid H1 H2 H3). Qed.

Definition trailer_keys_ok_sharedb (h : hdr) (b : bresp) : bool :=
  nodupb (b_announced b) && nodupb (map fst (b_trailers b)) &&
  forallb trailer_key_okb (b_announced b ++ map fst (b_trailers b)) &&
  (negb (trailers_forced b) || forallb (fun k => negb (has_key h k)) (b_announced b)).
Lemma trailer_keys_ok_sharedb_sound h b : trailer_keys_ok_sharedb h b = true -> trailer_keys_ok_shared h b.
Proof.
  unfold trailer_keys_ok_sharedb. intros H. repeat (apply andb_true_iff in H; destruct H as [H ?]).
  assert (X : trailer_keys_okb [] b = true).
  { unfold trailer_keys_okb. rewrite H, H2, H1. cbn [andb]. apply forallb_forall. intros k _. reflexivity. }
  destruct (trailer_keys_okb_sound [] b X) as [A [B [C _]]].
  split; [exact A|]. split; [exact B|]. split; [exact C|].
  intros Ef k Hk. rewrite Ef in H0. cbn [negb orb] in H0. rewrite forallb_forall in H0. specialize (H0 k Hk).
  unfold has_key in H0. destruct (hlookup h k); [discriminate|reflexivity].
Qed.

(* a field sent BOTH as a response header (provisional value) and as an announced trailer (final value) *)
Definition wit_sh : hdr := [(bs "Content-Type"%string, [bs "text/plain"%string]); (bs "X-T1"%string, [bs "pending"%string])].
Definition wit_sb : bresp :=
  {| b_status := 200; b_hdr := []; b_announced := [bs "X-T1"%string]; b_trailers := [(bs "X-T1"%string, [bs "t1"%string])] |}.
(* ... and an unannounced trailer besides *)
Definition wit_sb_forced : bresp :=
  {| b_status := 200; b_hdr := []; b_announced := [bs "X-T1"%string];
     b_trailers := [(bs "X-T1"%string, [bs "t1"%string]); (bs "X-U1"%string, [bs "t2"%string])] |}.

Lemma trailers_shared_name_nonvacuous :
  client_hdr_ok wit_sh /\ trailer_keys_ok_shared wit_sh wit_sb /\ hlookup wit_sh (bs "X-T1"%string) = Some [bs "pending"%string] /\
  hlookup (rw_trailers (rw_run true wit_sh (resp_ops wit_sb [bs "body"%string]))) (bs "X-T1"%string) = Some [bs "t1"%string] /\
  hlookup (rs_snap (rw_run true wit_sh (resp_ops wit_sb [bs "body"%string]))) (bs "X-T1"%string) = Some [bs "pending"%string].
Proof.
  split; [apply client_hdr_okb_sound; vm_compute; reflexivity|].
  split; [apply trailer_keys_ok_sharedb_sound; vm_compute; reflexivity|].
  vm_compute. repeat split; reflexivity.
Qed.

(* with an unannounced trailer besides, every trailer travels under the TrailerPrefix while the
   Trailer header still declares the announced key: the writer (response.finalTrailers) then also
   sends what the header map holds under that key - the response HEADER's value comes back as a
   trailer value the backend never sent *)
Lemma trailers_shared_name_forced_refuted :
  exists h b ws,
    client_hdr_ok h /\ NoDup (b_announced b) /\ NoDup (map fst (b_trailers b)) /\ trailers_forced b = true /\
    exists k, olist (hlookup (rw_trailers (rw_run true h (resp_ops b ws))) k) <> olist (hlookup (final_trailers b) k).
Proof.
  exists wit_sh, wit_sb_forced, [bs "body"%string].
  split; [apply client_hdr_okb_sound; vm_compute; reflexivity|].
  split; [apply nodupb_sound; vm_compute; reflexivity|].
  split; [apply nodupb_sound; vm_compute; reflexivity|].
  split; [vm_compute; reflexivity|].
  exists (bs "X-T1"%string). vm_compute. discriminate.
Qed.

Lemma trailers_shared_name_forced_witness :
  hlookup (rw_trailers (rw_run true wit_sh (resp_ops wit_sb_forced [bs "body"%string]))) (bs "X-T1"%string)
  = Some [bs "t1"%string; bs "pending"%string].
Proof. vm_compute. reflexivity. Qed.
