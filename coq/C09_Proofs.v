(* C09 — proofs. *)
Require Import V.Lib V.Gen_C09 V.C09_Model.
From Coq Require Import Permutation.
Open Scope N_scope.

Lemma beq_false_neq a b : beq a b = false -> a <> b.
Proof. intros H E. apply beq_eq in E. congruence. Qed.

Lemma mem_In d l : mem d l = true <-> In d l.
Proof.
  unfold mem. rewrite existsb_exists. split.
  - intros [x [Hin Hb]]. apply beq_eq in Hb. subst x. exact Hin.
  - intros Hin. exists d. split; [exact Hin | apply beq_refl].
Qed.

(* ================= lines, grouping, reorderings ================= *)
Section L.
Context {A : Type}.
Notation line := (@line A).

Lemma lines_of_app d (l1 l2 : list line) :
  lines_of d (l1 ++ l2) = lines_of d l1 ++ lines_of d l2.
Proof. unfold lines_of. apply filter_app. Qed.

Lemma is_dir_self (a : line) : is_dir (fst a) a = true.
Proof. unfold is_dir. apply beq_refl. Qed.

Lemma is_dir_true d (a : line) : is_dir d a = true -> fst a = d.
Proof. unfold is_dir. apply beq_eq. Qed.

Lemma grouping_invariant (l l' : list line) :
  admissible l l' -> forall d, tokens_of l d = tokens_of l' d.
Proof. intros [_ H] d. unfold tokens_of, group. rewrite (H d). reflexivity. Qed.

Lemma present_invariant (l l' : list line) :
  admissible l l' -> forall d, present d l = present d l'.
Proof. intros [_ H] d. unfold present. rewrite (H d). reflexivity. Qed.

Lemma group_invariant (l l' : list line) :
  admissible l l' -> forall d, group d l = group d l'.
Proof. intros [_ H] d. unfold group. rewrite (H d). reflexivity. Qed.

Lemma admissible_refl (l : list line) : admissible l l.
Proof. split; [apply Permutation_refl | reflexivity]. Qed.

Lemma admissible_sym (l l' : list line) : admissible l l' -> admissible l' l.
Proof. intros [P H]. split; [apply Permutation_sym; exact P | intro d; symmetry; apply H]. Qed.

Lemma admissible_trans (l1 l2 l3 : list line) :
  admissible l1 l2 -> admissible l2 l3 -> admissible l1 l3.
Proof.
  intros [P1 H1] [P2 H2]. split.
  - eapply Permutation_trans; eassumption.
  - intro d. rewrite H1. apply H2.
Qed.

(* grouping is what is left of the file order: the order of lines WITHIN a directive matters *)
Lemma group_app d (l1 l2 : list line) : group d (l1 ++ l2) = group d l1 ++ group d l2.
Proof. unfold group. rewrite lines_of_app, map_app, concat_app. reflexivity. Qed.

(* ---- reorder (neighbour exchanges) = admissible ---- *)
Lemma reorder_admissible (l l' : list line) : reorder l l' -> admissible l l'.
Proof.
  induction 1 as [l | a b l1 l2 Hne | l1 l2 l3 _ IH1 _ IH2].
  - apply admissible_refl.
  - split.
    + apply Permutation_app_head. apply perm_swap.
    + intro d. rewrite !lines_of_app. f_equal. unfold lines_of. simpl.
      destruct (is_dir d a) eqn:Ea, (is_dir d b) eqn:Eb; try reflexivity.
      apply is_dir_true in Ea. apply is_dir_true in Eb. congruence.
  - eapply admissible_trans; eassumption.
Qed.

Lemma reorder_cons x (l l' : list line) : reorder l l' -> reorder (x :: l) (x :: l').
Proof.
  induction 1 as [l | a b l1 l2 Hne | l1 l2 l3 _ IH1 _ IH2].
  - apply ro_refl.
  - apply (ro_swap a b (x :: l1) l2 Hne).
  - eapply ro_trans; eassumption.
Qed.

Lemma bubble (a : line) p s :
  lines_of (fst a) p = [] -> reorder (a :: p ++ s) (p ++ a :: s).
Proof.
  induction p as [|x p IH]; intro Hp; simpl.
  - apply ro_refl.
  - unfold lines_of in Hp. simpl in Hp.
    destruct (is_dir (fst a) x) eqn:Ex; [discriminate|].
    eapply ro_trans.
    + apply (ro_swap a x [] (p ++ s)).
      unfold is_dir in Ex. apply beq_false_neq in Ex. congruence.
    + simpl. apply reorder_cons. apply IH. exact Hp.
Qed.

Lemma split_first (a : line) l' r :
  lines_of (fst a) l' = a :: r ->
  exists p s, l' = p ++ a :: s /\ lines_of (fst a) p = [].
Proof.
  induction l' as [|x t IH]; intro H.
  - discriminate.
  - unfold lines_of in H. simpl in H.
    destruct (is_dir (fst a) x) eqn:Ex.
    + injection H as Hx _. subst x. exists [], t. split; reflexivity.
    + destruct (IH H) as [p [s [Ht Hp]]].
      exists (x :: p), s. split.
      * simpl. rewrite Ht. reflexivity.
      * unfold lines_of. simpl. rewrite Ex. exact Hp.
Qed.

Lemma admissible_reorder (l : list line) : forall l', admissible l l' -> reorder l l'.
Proof.
  induction l as [|a l0 IH]; intros l' [P H].
  - apply Permutation_nil in P. subst l'. apply ro_refl.
  - assert (Ha : lines_of (fst a) l' = a :: lines_of (fst a) l0).
    { rewrite <- H. unfold lines_of. simpl. rewrite is_dir_self. reflexivity. }
    destruct (split_first a l' _ Ha) as [p [s [Hl' Hp]]]. subst l'.
    assert (Adm : admissible l0 (p ++ s)).
    { split.
      - eapply Permutation_cons_app_inv. exact P.
      - intro d. specialize (H d). rewrite lines_of_app in H. rewrite lines_of_app.
        unfold lines_of in H at 1 3. simpl in H.
        destruct (is_dir d a) eqn:Ed.
        + apply is_dir_true in Ed. subst d. rewrite Hp in *. simpl in *.
          injection H as H. exact H.
        + exact H. }
    eapply ro_trans.
    + apply reorder_cons. apply IH. exact Adm.
    + apply bubble. exact Hp.
Qed.

Lemma reorder_iff_admissible (l l' : list line) : reorder l l' <-> admissible l l'.
Proof. split; [apply reorder_admissible | apply admissible_reorder]. Qed.

End L.

(* ================= executeDirectives ================= *)
Section E.
Context {A St : Type}.
Variable setup : bytes -> nat -> nat -> bytes -> list A -> St -> outcome St.
Variable callback : bytes -> St -> outcome St.

Definition blocks_admissible (bs bs' : list (@block A)) : Prop :=
  Forall2 (fun b b' => fst b = fst b' /\ admissible (snd b) (snd b')) bs bs'.

Lemma run_block_adm d i (b b' : @block A) s :
  fst b = fst b' -> admissible (snd b) (snd b') ->
  run_block setup d i b s = run_block setup d i b' s.
Proof.
  intros Hk Ha. unfold run_block. rewrite (grouping_invariant _ _ Ha d), Hk. reflexivity.
Qed.

Lemma run_blocks_adm d bs bs' :
  blocks_admissible bs bs' -> forall i s, run_blocks setup d bs i s = run_blocks setup d bs' i s.
Proof.
  induction 1 as [|b b' r r' [Hk Ha] _ IH]; intros i s; simpl.
  - reflexivity.
  - rewrite (run_block_adm d i b b' s Hk Ha).
    destruct (run_block setup d i b' s); [apply IH | reflexivity].
Qed.

Lemma execute_adm cbs dirs bs bs' :
  blocks_admissible bs bs' -> forall s,
  execute setup callback cbs dirs bs s = execute setup callback cbs dirs bs' s.
Proof.
  intros Hb. induction dirs as [|d r IH]; intro s; simpl.
  - reflexivity.
  - unfold run_dir. rewrite (run_blocks_adm d bs bs' Hb).
    destruct (run_blocks setup d bs' 0 s) as [s'|s']; [|reflexivity].
    destruct cbs.
    + destruct (callback d s'); [apply IH | reflexivity].
    + apply IH.
Qed.

(* whatever is built from the outcome (handlers, servers, responses) is the same *)
Lemma same_responses {Req Resp : Type} (build : outcome St -> Req -> Resp) cbs dirs bs bs' s :
  blocks_admissible bs bs' -> forall rq,
  build (execute setup callback cbs dirs bs s) rq = build (execute setup callback cbs dirs bs' s) rq.
Proof. intros Hb rq. rewrite (execute_adm cbs dirs bs bs' Hb). reflexivity. Qed.

(* a directive that is not written anywhere is skipped *)
Lemma run_blocks_absent d bs :
  (forall b, In b bs -> present d (snd b) = false) ->
  forall i s, run_blocks setup d bs i s = Cont s.
Proof.
  induction bs as [|b r IH]; intros Hab i s; simpl.
  - reflexivity.
  - unfold run_block, tokens_of.
    assert (Hb := Hab b (or_introl eq_refl)). unfold present in Hb.
    destruct (lines_of d (snd b)); [|discriminate].
    apply IH. intros b' Hin. apply Hab. right. exact Hin.
Qed.

End E.

(* ================= the trace of setup calls is ordered by the directive list ================= *)
Definition ev_dir (e : event) : bytes :=
  match e with ESetup d _ _ _ _ _ _ => d | ECallback d => d end.

Lemma run_keys_trace d i toks keys : forall j s,
  exists t, out_state (run_keys trace_setup d i toks keys j s) = s ++ t /\
            Forall (fun e => ev_dir e = d) t.
Proof.
  induction keys as [|k r IH]; intros j s; simpl.
  - exists []. rewrite app_nil_r. split; constructor.
  - unfold trace_setup at 1.
    destruct (existsb (beq FAILTOK) toks).
    + simpl. eexists. split; [reflexivity|]. repeat constructor.
    + destruct (IH (S j) (s ++ [ESetup d i j k toks j (Nat.eqb j 0)])) as [t [Ht Hf]].
      exists (ESetup d i j k toks j (Nat.eqb j 0) :: t). split.
      * rewrite Ht, <- app_assoc. reflexivity.
      * constructor; [reflexivity | exact Hf].
Qed.

Lemma run_blocks_trace d bs : forall i s,
  exists t, out_state (run_blocks trace_setup d bs i s) = s ++ t /\
            Forall (fun e => ev_dir e = d) t.
Proof.
  induction bs as [|b r IH]; intros i s; simpl.
  - exists []. rewrite app_nil_r. split; constructor.
  - unfold run_block. destruct (tokens_of (snd b) d) as [toks|].
    + destruct (run_keys_trace d i toks (fst b) 0%nat s) as [t [Ht Hf]].
      destruct (run_keys trace_setup d i toks (fst b) 0 s) as [s'|s']; simpl in Ht; subst s'.
      * destruct (IH (S i) (s ++ t)) as [t2 [Ht2 Hf2]].
        exists (t ++ t2). split; [rewrite Ht2, app_assoc; reflexivity | apply Forall_app; split; assumption].
      * exists t. split; [reflexivity | exact Hf].
    + apply IH.
Qed.

Lemma run_dir_trace cbs cbset cbf d bs s :
  exists t, out_state (run_dir trace_setup (trace_callback cbset cbf) cbs d bs s) = s ++ t /\
            Forall (fun e => ev_dir e = d) t.
Proof.
  unfold run_dir. destruct (run_blocks_trace d bs 0%nat s) as [t [Ht Hf]].
  destruct (run_blocks trace_setup d bs 0 s) as [s'|s']; simpl in Ht; subst s'.
  - destruct cbs.
    + unfold trace_callback. destruct (mem d cbset).
      * exists (t ++ [ECallback d]). split.
        -- rewrite app_assoc. destruct cbf as [f|]; [destruct (beq f d)|]; reflexivity.
        -- apply Forall_app. split; [exact Hf | repeat constructor].
      * exists t. split; [reflexivity | exact Hf].
    + exists t. split; [reflexivity | exact Hf].
  - exists t. split; [reflexivity | exact Hf].
Qed.

(* a list whose elements' directives follow the order of [dirs] *)
Inductive follows : list bytes -> list event -> Prop :=
| fo_nil : forall dirs, follows dirs []
| fo_here : forall d r e t, ev_dir e = d -> follows (d :: r) t -> follows (d :: r) (e :: t)
| fo_skip : forall d r t, follows r t -> follows (d :: r) t.

Lemma follows_app d r t1 t2 :
  Forall (fun e => ev_dir e = d) t1 -> follows r t2 -> follows (d :: r) (t1 ++ t2).
Proof.
  induction 1 as [|e t He _ IH]; intro H2; simpl.
  - apply fo_skip. exact H2.
  - apply fo_here; [exact He | apply IH; exact H2].
Qed.

Lemma execute_trace cbs cbset cbf dirs bs : forall s,
  exists t, out_state (execute trace_setup (trace_callback cbset cbf) cbs dirs bs s) = s ++ t /\
            follows dirs t.
Proof.
  induction dirs as [|d r IH]; intro s; simpl.
  - exists []. rewrite app_nil_r. split; constructor.
  - destruct (run_dir_trace cbs cbset cbf d bs s) as [t [Ht Hf]].
    destruct (run_dir trace_setup (trace_callback cbset cbf) cbs d bs s) as [s'|s']; simpl in Ht; subst s'.
    + destruct (IH (s ++ t)) as [t2 [Ht2 Hf2]].
      exists (t ++ t2). split; [rewrite Ht2, app_assoc; reflexivity | apply follows_app; assumption].
    + exists t. split; [reflexivity|]. rewrite <- (app_nil_r t). apply follows_app; [exact Hf | constructor].
Qed.

(* in a list that follows a duplicate-free [dirs], an event of a later directive never comes
   before an event of an earlier one *)
Lemma follows_In dirs t : follows dirs t -> forall e, In e t -> In (ev_dir e) dirs.
Proof.
  induction 1 as [dirs | d r e t He _ IH | d r t _ IH]; intros x Hx.
  - destruct Hx.
  - destruct Hx as [Hx|Hx]; [subst x; left; symmetry; exact He | apply IH; exact Hx].
  - right. apply IH. exact Hx.
Qed.

Lemma follows_order dirs t :
  follows dirs t -> NoDup dirs ->
  forall t1 e1 t2 e2 t3, t = t1 ++ e1 :: t2 ++ e2 :: t3 ->
  (index_of (ev_dir e1) dirs <= index_of (ev_dir e2) dirs)%nat.
Proof.
  induction 1 as [dirs | d r e t He Hf IH | d r t Hf IH]; intros Hnd t1 e1 t2 e2 t3 Heq.
  - destruct t1; discriminate.
  - destruct t1 as [|x t1]; simpl in Heq; injection Heq as Hx Ht.
    + subst e. simpl. rewrite He. rewrite beq_refl. apply Nat.le_0_l.
    + apply (IH Hnd t1 e1 t2 e2 t3). exact Ht.
  - assert (H1 : In (ev_dir e1) r).
    { apply (follows_In r t Hf). subst t. apply in_or_app. right. left. reflexivity. }
    assert (H2 : In (ev_dir e2) r).
    { apply (follows_In r t Hf). subst t. apply in_or_app. right. right.
      apply in_or_app. right. left. reflexivity. }
    inversion Hnd as [|? ? Hnotin Hnd']; subst.
    simpl.
    destruct (beq d (ev_dir e1)) eqn:E1.
    { apply beq_eq in E1. subst d. contradiction. }
    destruct (beq d (ev_dir e2)) eqn:E2.
    { apply beq_eq in E2. subst d. contradiction. }
    apply le_n_S. apply (IH Hnd' t1 e1 t2 e2 t3). reflexivity.
Qed.

Lemma trace_order cbs cbset cbf dirs bs :
  NoDup dirs ->
  forall t1 e1 t2 e2 t3,
  out_state (trace_of cbs cbset cbf dirs bs) = t1 ++ e1 :: t2 ++ e2 :: t3 ->
  (index_of (ev_dir e1) dirs <= index_of (ev_dir e2) dirs)%nat.
Proof.
  intros Hnd t1 e1 t2 e2 t3 Heq. unfold trace_of in Heq.
  destruct (execute_trace cbs cbset cbf dirs bs []) as [t [Ht Hf]]. simpl in Ht.
  rewrite Ht in Heq. eapply follows_order; eassumption.
Qed.

Lemma trace_admissible cbs cbset cbf dirs bs bs' :
  blocks_admissible bs bs' -> trace_of cbs cbset cbf dirs bs = trace_of cbs cbset cbf dirs bs'.
Proof. intro H. unfold trace_of. apply execute_adm. exact H. Qed.

(* ================= http: the middleware stack ================= *)
Section H.
Context {A : Type}.
Variable errtok : A.
Notation line := (@line A).

Lemma present_tokens_of (ls : list line) d :
  tokens_of ls d = if present d ls then Some (group d ls) else None.
Proof. unfold tokens_of, present. destruct (lines_of d ls); reflexivity. Qed.

Lemma stack_execute dirs (ls : list line) : forall s,
  execute stack_setup stack_callback true dirs [([[]], ls)] s
  = Cont (s ++ filter (fun d => present d ls && adds_mw d) dirs).
Proof.
  induction dirs as [|d r IH]; intro s; simpl.
  - rewrite app_nil_r. reflexivity.
  - unfold run_dir. simpl. unfold run_block. simpl. rewrite present_tokens_of.
    destruct (present d ls); simpl.
    + unfold stack_setup, stack_callback. destruct (adds_mw d); simpl.
      * rewrite IH, <- app_assoc. reflexivity.
      * apply IH.
    + unfold stack_callback. apply IH.
Qed.

Lemma http_stack_spec dirs (ls : list line) :
  http_stack errtok dirs ls
  = filter (fun d => present d (http_inspect errtok ls) && adds_mw d) dirs.
Proof. unfold http_stack. rewrite stack_execute. reflexivity. Qed.

Lemma inspect_admissible (l l' : list line) :
  admissible l l' -> admissible (http_inspect errtok l) (http_inspect errtok l').
Proof.
  intro Ha. unfold http_inspect.
  rewrite <- !(present_invariant l l' Ha).
  destruct (present (bs "gzip"%string) l && negb (present (bs "errors"%string) l)); [|exact Ha].
  destruct Ha as [P H]. split.
  - apply Permutation_app_tail. exact P.
  - intro d. rewrite !lines_of_app, H. reflexivity.
Qed.

Lemma http_stack_admissible dirs (l l' : list line) :
  admissible l l' -> http_stack errtok dirs l = http_stack errtok dirs l'.
Proof.
  intro Ha. rewrite !http_stack_spec. apply filter_ext. intro d.
  rewrite (present_invariant _ _ (inspect_admissible l l' Ha) d). reflexivity.
Qed.

End H.

Lemma filter_nesting (f : bytes -> bool) a b : forall l,
  In a l -> In b l -> (index_of a l < index_of b l)%nat -> f a = true -> f b = true ->
  exists s1 s2 s3, filter f l = s1 ++ a :: s2 ++ b :: s3.
Proof.
  induction l as [|x r IH]; intros Ha Hb Hlt Fa Fb.
  - destruct Ha.
  - simpl in Hlt. destruct (beq x a) eqn:Exa.
    + apply beq_eq in Exa. subst x.
      destruct (beq a b) eqn:Eab; [inversion Hlt|].
      destruct Hb as [Hb|Hb]; [apply beq_false_neq in Eab; congruence|].
      assert (Hbf : In b (filter f r)) by (apply filter_In; split; assumption).
      apply in_split in Hbf. destruct Hbf as [s2 [s3 Hs]].
      exists [], s2, s3. simpl. rewrite Fa, Hs. reflexivity.
    + destruct (beq x b) eqn:Exb; [inversion Hlt|].
      destruct Ha as [Ha|Ha]; [apply beq_false_neq in Exa; congruence|].
      destruct Hb as [Hb|Hb]; [apply beq_false_neq in Exb; congruence|].
      apply Nat.succ_lt_mono in Hlt.
      destruct (IH Ha Hb Hlt Fa Fb) as [s1 [s2 [s3 Hs]]].
      simpl. destruct (f x).
      * exists (x :: s1), s2, s3. rewrite Hs. reflexivity.
      * exists s1, s2, s3. exact Hs.
Qed.

Lemma before_spec dirs a b :
  before dirs a b = true -> In a dirs /\ In b dirs /\ (index_of a dirs < index_of b dirs)%nat.
Proof.
  unfold before. intro H. apply andb_true_iff in H as [H H3]. apply andb_true_iff in H as [H1 H2].
  apply mem_In in H1. apply mem_In in H2. apply Nat.ltb_lt in H3. auto.
Qed.

Lemma stack_nesting {A} (errtok : A) dirs (ls : list (@line A)) a b :
  before dirs a b = true ->
  present a (http_inspect errtok ls) = true -> present b (http_inspect errtok ls) = true ->
  adds_mw a = true -> adds_mw b = true ->
  exists s1 s2 s3, http_stack errtok dirs ls = s1 ++ a :: s2 ++ b :: s3.
Proof.
  intros Hb Pa Pb Ma Mb. rewrite http_stack_spec.
  destruct (before_spec dirs a b Hb) as [Ia [Ib Hlt]].
  apply filter_nesting; try assumption.
  - rewrite Pa, Ma. reflexivity.
  - rewrite Pb, Mb. reflexivity.
Qed.

Lemma compile_nesting {H} (s1 s2 s3 : list (H -> H)) ma mb inner :
  compile (s1 ++ ma :: s2 ++ mb :: s3) inner
  = compile s1 (ma (compile s2 (mb (compile s3 inner)))).
Proof. unfold compile. rewrite fold_right_app. simpl. rewrite fold_right_app. reflexivity. Qed.

(* ================= facts about the list in plugin.go (regenerated every run) ================= *)
Lemma gen_documented_order : documented_order gen_directives = true.
Proof. vm_compute. reflexivity. Qed.

Lemma gen_nodup : NoDup gen_directives.
Proof.
  assert (H : nodup_b gen_directives = true) by (vm_compute; reflexivity).
  revert H. generalize gen_directives. induction l as [|x r IH]; simpl; intro H.
  - constructor.
  - apply andb_true_iff in H as [H1 H2]. constructor.
    + intro Hin. apply mem_In in Hin. rewrite Hin in H1. discriminate.
    + apply IH. exact H2.
Qed.

Definition documented_pair (a b : bytes) : Prop :=
  (In a rewriters /\ b = bs "basicauth"%string) \/
  (In a gates /\ In b content_handlers) \/
  (In a wrappers /\ In b content_handlers) \/
  (In a wrappers /\ In b gates).

Lemma all_before_In dirs xs ys a b :
  all_before dirs xs ys = true -> In a xs -> In b ys -> before dirs a b = true.
Proof.
  unfold all_before. intros H Ha Hb.
  rewrite forallb_forall in H. specialize (H a Ha). rewrite forallb_forall in H. apply H. exact Hb.
Qed.

Lemma documented_pair_before a b : documented_pair a b -> before gen_directives a b = true.
Proof.
  pose proof gen_documented_order as H. unfold documented_order in H.
  apply andb_true_iff in H as [H H4]. apply andb_true_iff in H as [H H3].
  apply andb_true_iff in H as [H H2]. apply andb_true_iff in H as [_ H1].
  intros [[Ha Hb] | [[Ha Hb] | [[Ha Hb] | [Ha Hb]]]].
  - subst b. eapply all_before_In; [exact H1 | exact Ha | left; reflexivity].
  - eapply all_before_In; [exact H2 | exact Ha | exact Hb].
  - eapply all_before_In; [exact H3 | exact Ha | exact Hb].
  - eapply all_before_In; [exact H4 | exact Ha | exact Hb].
Qed.

Lemma documented_pair_adds a b : documented_pair a b -> adds_mw a = true /\ adds_mw b = true.
Proof.
  assert (H : forallb adds_mw (rewriters ++ gates ++ wrappers ++ content_handlers) = true)
    by (vm_compute; reflexivity).
  rewrite forallb_forall in H.
  assert (I1 : forall x, In x rewriters -> adds_mw x = true).
  { intros x Hx. apply H. apply in_or_app. left. exact Hx. }
  assert (I2 : forall x, In x gates -> adds_mw x = true).
  { intros x Hx. apply H. apply in_or_app. right. apply in_or_app. left. exact Hx. }
  assert (I3 : forall x, In x wrappers -> adds_mw x = true).
  { intros x Hx. apply H. apply in_or_app. right. apply in_or_app. right. apply in_or_app. left. exact Hx. }
  assert (I4 : forall x, In x content_handlers -> adds_mw x = true).
  { intros x Hx. apply H. apply in_or_app. right. apply in_or_app. right. apply in_or_app. right. exact Hx. }
  intros [[Ha Hb] | [[Ha Hb] | [[Ha Hb] | [Ha Hb]]]]; split; auto.
  subst b. apply I2. left. reflexivity.
Qed.

Lemma documented_nesting (ls : list (@line bytes)) a b :
  documented_pair a b ->
  present a (http_inspect ERRTOK ls) = true -> present b (http_inspect ERRTOK ls) = true ->
  exists s1 s2 s3, http_stack ERRTOK gen_directives ls = s1 ++ a :: s2 ++ b :: s3.
Proof.
  intros Hp Pa Pb. destruct (documented_pair_adds a b Hp) as [Ma Mb].
  apply stack_nesting; try assumption. apply documented_pair_before. exact Hp.
Qed.

(* ================= the rest of the documented order ================= *)
Lemma gen_documented_order_rest : documented_order_rest gen_directives = true.
Proof. vm_compute. reflexivity. Qed.

Lemma list_beq_beq_eq : forall a b : list bytes, list_beq beq a b = true -> a = b.
Proof.
  induction a as [|x a IH]; intros [|y b] H; try discriminate; [reflexivity|].
  cbn [list_beq] in H. apply andb_true_iff in H as [H1 H2]. apply beq_eq in H1. subst y.
  f_equal. apply IH. exact H2.
Qed.

Lemma filter_andb {A} (p q : A -> bool) : forall l, filter (fun x => p x && q x) l = filter p (filter q l).
Proof.
  induction l as [|x r IH]; [reflexivity|]. cbn [filter].
  destruct (q x); cbn [filter]; [destruct (p x); cbn [andb]; rewrite IH; reflexivity|].
  rewrite andb_false_r. exact IH.
Qed.

Lemma gen_std_sequence : filter adds_mw gen_directives = adds_mw_list.
Proof. apply list_beq_beq_eq. vm_compute. reflexivity. Qed.

(* for EVERY http site: the stack is the documented sequence (written in the model, not read from
   plugin.go) restricted to the directives present *)
Lemma http_stack_documented {A} (errtok : A) (ls : list (@line A)) :
  http_stack errtok gen_directives ls = filter (fun d => present d (http_inspect errtok ls)) adds_mw_list.
Proof. rewrite http_stack_spec, filter_andb, gen_std_sequence. reflexivity. Qed.

(* ================= histories of loads ================= *)
Lemma step_dirs cbset s l : ps_dirs (fst (step cbset s l)) = ps_dirs s.
Proof. reflexivity. Qed.

Lemma hist_dirs cbset : forall h s, ps_dirs (run_hist wr_none cbset s h) = ps_dirs s.
Proof.
  induction h as [|l r IH]; intro s; [reflexivity|].
  unfold run_hist in *. cbn [fold_left]. rewrite IH. reflexivity.
Qed.

(* a list discipline that never writes is all it takes — and it is necessary, see the Examples *)
Lemma hist_dirs_gen wr cbset : (forall d l c, wr d l c = d) ->
  forall h s, ps_dirs (run_hist wr cbset s h) = ps_dirs s.
Proof.
  intros Hwr. induction h as [|l r IH]; intro s; [reflexivity|].
  unfold run_hist in *. cbn [fold_left]. rewrite IH. unfold step_gen. cbn [fst ps_dirs]. apply Hwr.
Qed.

Lemma order_is_history_independent cbset h s l :
  ps_dirs (run_hist wr_none cbset s h) = ps_dirs s /\
  snd (step cbset (run_hist wr_none cbset s h) l) = load_outcome cbset (ps_dirs s) l /\
  (forall (A : Type) (errtok : A) (ls : list (@line A)),
     http_stack errtok (ps_dirs (run_hist wr_none cbset s h)) ls = http_stack errtok (ps_dirs s) ls).
Proof.
  pose proof (hist_dirs cbset h s) as H. split; [exact H|]. split.
  - unfold step, step_gen. cbn [snd]. rewrite H. reflexivity.
  - intros A errtok ls. rewrite H. reflexivity.
Qed.

(* a load whose outcome was computed against the canonical list follows it (calls in list order) *)
Lemma hist_next_load_follows_list cbset h s l t1 e1 t2 e2 t3 :
  NoDup (ps_dirs s) ->
  snd (snd (step cbset (run_hist wr_none cbset s h) l)) = t1 ++ e1 :: t2 ++ e2 :: t3 ->
  (index_of (ev_dir e1) (ps_dirs s) <= index_of (ev_dir e2) (ps_dirs s))%nat.
Proof.
  intros Hnd Heq. destruct (order_is_history_independent cbset h s l) as [_ [Hr _]]. rewrite Hr in Heq.
  unfold load_outcome in Heq.
  destruct (negb (all_valid (ps_dirs s) (l_blocks l))); [destruct t1; discriminate|].
  destruct (negb (l_syntax_ok l)); [destruct t1; discriminate|].
  cbn [snd] in Heq. eapply trace_order; eassumption.
Qed.

(* ================= the compiled chain at request time ================= *)
Lemma compile_cons {H} (m : H -> H) ms inner : compile (m :: ms) inner = m (compile ms inner).
Proof. reflexivity. Qed.

Lemma chain_run_gen stops : forall stack log,
  compile (map (mw_of stops) stack) fileserver log = log ++ chain_trace stops stack.
Proof.
  unfold chain_trace. induction stack as [|d r IH]; intro log.
  - reflexivity.
  - cbn [map upto]. rewrite compile_cons. unfold mw_of at 1. destruct (stops d).
    + reflexivity.
    + rewrite IH. destruct (upto stops r) as [p s]. cbn [map rev].
      rewrite map_app. cbn [map]. rewrite <- !app_assoc. reflexivity.
Qed.

Lemma chain_run_spec stops stack : chain_run stops stack = chain_trace stops stack.
Proof. unfold chain_run. rewrite chain_run_gen. reflexivity. Qed.

Lemma upto_split stops : forall l p s, upto stops l = (p, s) ->
  (forall x, In x p -> stops x = false) /\
  match s with
  | None => l = p
  | Some b => stops b = true /\ exists rest, l = p ++ b :: rest
  end.
Proof.
  induction l as [|d r IH]; intros p s H; cbn [upto] in H.
  - injection H as <- <-. split; [intros x []|reflexivity].
  - destruct (stops d) eqn:Ed.
    + injection H as <- <-. split; [intros x []|]. split; [exact Ed|]. exists r. reflexivity.
    + destruct (upto stops r) as [p' s'] eqn:Eu. injection H as <- <-.
      destruct (IH p' s' eq_refl) as [Hp Hs]. split.
      * intros x [Hx|Hx]; [subst x; exact Ed | apply Hp; exact Hx].
      * destruct s' as [b|].
        -- destruct Hs as [Hb [rest Hr]]. split; [exact Hb|]. exists rest. rewrite Hr. reflexivity.
        -- rewrite Hs. reflexivity.
Qed.

(* nobody answers: every handler of the stack is entered in stack order, the file server runs, and
   they are left in reverse order — the chain nests exactly in list order *)
Lemma chain_nests stops stack : (forall d, In d stack -> stops d = false) ->
  chain_run stops stack = map HEnter stack ++ [HServed] ++ map HExit (rev stack).
Proof.
  intros Hno. rewrite chain_run_spec. unfold chain_trace.
  destruct (upto stops stack) as [p s] eqn:Eu. destruct (upto_split stops stack p s Eu) as [_ Hs].
  destruct s as [b|].
  - destruct Hs as [Hb [rest Hr]]. rewrite Hno in Hb; [discriminate|]. rewrite Hr. apply in_or_app. right. left. reflexivity.
  - rewrite Hs. reflexivity.
Qed.

Lemma prefix_stop (stops : bytes -> bool) : forall p s rest s1 a t,
  p ++ s :: rest = s1 ++ a :: t -> (forall x, In x p -> stops x = false) -> stops a = true ->
  exists q, s1 ++ [a] = p ++ s :: q.
Proof.
  induction p as [|y p IH]; intros s rest s1 a t Heq Hp Ha.
  - destruct s1 as [|x s1]; cbn [app] in *.
    + injection Heq as -> _. exists []. reflexivity.
    + injection Heq as -> _. exists (s1 ++ [a]). reflexivity.
  - destruct s1 as [|x s1]; cbn [app] in *.
    + injection Heq as -> _. rewrite (Hp a (or_introl eq_refl)) in Ha. discriminate.
    + injection Heq as -> Heq. destruct (IH s rest s1 a t Heq (fun z Hz => Hp z (or_intror Hz)) Ha) as [q Hq].
      exists q. rewrite Hq. reflexivity.
Qed.

Lemma nodup_app_disjoint {A} (l1 l2 : list A) x : NoDup (l1 ++ l2) -> In x l1 -> In x l2 -> False.
Proof.
  induction l1 as [|y l1 IH]; intros Hnd H1 H2; [destruct H1|].
  cbn [app] in Hnd. inversion Hnd as [|? ? Hnot Hnd']; subst.
  destruct H1 as [H1|H1]; [subst y; apply Hnot; apply in_or_app; right; exact H2 | exact (IH Hnd' H1 H2)].
Qed.

(* a handler that answers keeps every handler behind it in the stack from running *)
Lemma gate_blocks_inner stops s1 a s2 b s3 :
  NoDup (s1 ++ a :: s2 ++ b :: s3) -> stops a = true ->
  ~ In (HEnter b) (chain_run stops (s1 ++ a :: s2 ++ b :: s3)) /\
  ~ In HServed (chain_run stops (s1 ++ a :: s2 ++ b :: s3)).
Proof.
  intros Hnd Ha. rewrite chain_run_spec. unfold chain_trace.
  destruct (upto stops (s1 ++ a :: s2 ++ b :: s3)) as [p s] eqn:Eu.
  destruct (upto_split stops _ p s Eu) as [Hp Hs].
  destruct s as [c|].
  2:{ exfalso. assert (Hin : In a p) by (rewrite <- Hs; apply in_or_app; right; left; reflexivity).
      rewrite (Hp a Hin) in Ha. discriminate. }
  destruct Hs as [Hc [rest Hr]]. symmetry in Hr.
  destruct (prefix_stop stops p c rest s1 a (s2 ++ b :: s3) Hr Hp Ha) as [q Hq].
  assert (Hsub : forall x, In x (p ++ [c]) -> In x (s1 ++ [a])).
  { intros x Hx. rewrite Hq. apply in_app_or in Hx as [Hx|[Hx|[]]]; apply in_or_app; [left; exact Hx | right; left; exact Hx]. }
  assert (Hnd2 : NoDup ((s1 ++ [a]) ++ s2 ++ b :: s3)) by (rewrite <- app_assoc; exact Hnd).
  assert (Hb : ~ In b (p ++ [c])).
  { intro Hx. apply (nodup_app_disjoint _ _ b Hnd2 (Hsub b Hx)). apply in_or_app. right. left. reflexivity. }
  split.
  - intro Hin. apply Hb. apply in_app_or in Hin as [Hin|Hin].
    + apply in_map_iff in Hin as [x [Hx Hxin]]. injection Hx as ->. apply in_or_app. left. exact Hxin.
    + apply in_app_or in Hin as [Hin|Hin].
      * destruct Hin as [Hin|[Hin|[]]]; [|discriminate]. injection Hin as ->. apply in_or_app. right. left. reflexivity.
      * apply in_map_iff in Hin as [x [Hx _]]. discriminate.
  - intro Hin. apply in_app_or in Hin as [Hin|Hin].
    + apply in_map_iff in Hin as [x [Hx _]]. discriminate.
    + apply in_app_or in Hin as [Hin|Hin].
      * destruct Hin as [Hin|[Hin|[]]]; discriminate.
      * apply in_map_iff in Hin as [x [Hx _]]. discriminate.
Qed.

(* every pair the property names: the pairs of [documented_pair] and those of the rest of the order *)
Definition named_pair (a b : bytes) : Prop :=
  documented_pair a b \/
  (In a rewriters /\ In b [bs "internal"; bs "redir"; bs "status"]%string) \/
  (a = bs "request_id"%string /\ b = bs "log"%string) \/
  (a = bs "log"%string /\ In b (rewriters ++ [bs "gzip"; bs "header"; bs "errors"]%string)) \/
  (a = bs "gzip"%string /\ In b [bs "header"; bs "errors"]%string).

Lemma named_pair_before a b : named_pair a b -> before gen_directives a b = true.
Proof.
  pose proof gen_documented_order_rest as H. unfold documented_order_rest in H.
  apply andb_true_iff in H as [H _]. apply andb_true_iff in H as [H _]. apply andb_true_iff in H as [H _].
  apply andb_true_iff in H as [H Hgz]. apply andb_true_iff in H as [H Hlog]. apply andb_true_iff in H as [H Hrid].
  apply andb_true_iff in H as [H _]. apply andb_true_iff in H as [H _]. apply andb_true_iff in H as [Hint Hrs].
  intros [Hd | [[Ha Hb] | [[-> ->] | [[-> Hb] | [-> Hb]]]]].
  - apply documented_pair_before. exact Hd.
  - destruct Hb as [<- | Hb].
    + eapply all_before_In; [exact Hint | exact Ha | left; reflexivity].
    + eapply all_before_In; [exact Hrs | exact Ha | exact Hb].
  - eapply all_before_In; [exact Hrid | left; reflexivity | left; reflexivity].
  - eapply all_before_In; [exact Hlog | left; reflexivity | exact Hb].
  - eapply all_before_In; [exact Hgz | left; reflexivity | exact Hb].
Qed.

Lemma named_pair_adds a b : named_pair a b -> adds_mw a = true /\ adds_mw b = true.
Proof.
  assert (H : forallb adds_mw ([bs "request_id"; bs "log"; bs "gzip"; bs "header"; bs "errors"; bs "internal"; bs "redir"; bs "status"]%string ++ rewriters) = true)
    by (vm_compute; reflexivity).
  rewrite forallb_forall in H.
  intros [Hd | [[Ha Hb] | [[-> ->] | [[-> Hb] | [-> Hb]]]]].
  - apply documented_pair_adds. exact Hd.
  - split; apply H; apply in_or_app; [right; exact Ha | left]. cbn in Hb |- *. intuition.
  - split; apply H; apply in_or_app; left; cbn; intuition.
  - split; apply H; [apply in_or_app; left; cbn; intuition|].
    apply in_app_or in Hb as [Hb|Hb]; apply in_or_app; [right; exact Hb | left; cbn in Hb |- *; intuition].
  - split; apply H; apply in_or_app; left; cbn in Hb |- *; intuition.
Qed.

Lemma named_nesting (ls : list (@line bytes)) a b :
  named_pair a b ->
  present a (http_inspect ERRTOK ls) = true -> present b (http_inspect ERRTOK ls) = true ->
  exists s1 s2 s3, http_stack ERRTOK gen_directives ls = s1 ++ a :: s2 ++ b :: s3.
Proof.
  intros Hp Pa Pb. destruct (named_pair_adds a b Hp) as [Ma Mb].
  apply stack_nesting; try assumption. apply named_pair_before. exact Hp.
Qed.

Lemma http_stack_nodup {A} (errtok : A) (ls : list (@line A)) : NoDup (http_stack errtok gen_directives ls).
Proof. rewrite http_stack_spec. apply NoDup_filter. exact gen_nodup. Qed.

(* every http site, every file order, every pair the property names: when the outer directive's
   handler answers, the inner directive's handler and the file server never run; when nobody
   answers, all handlers run nested in list order *)
Lemma documented_gate_blocks (ls : list (@line bytes)) stops a b :
  named_pair a b ->
  present a (http_inspect ERRTOK ls) = true -> present b (http_inspect ERRTOK ls) = true ->
  stops a = true ->
  ~ In (HEnter b) (chain_run stops (http_stack ERRTOK gen_directives ls)) /\
  ~ In HServed (chain_run stops (http_stack ERRTOK gen_directives ls)).
Proof.
  intros Hp Pa Pb Ha. destruct (named_nesting ls a b Hp Pa Pb) as [s1 [s2 [s3 Hs]]].
  pose proof (http_stack_nodup ERRTOK ls) as Hnd. rewrite Hs in *.
  apply gate_blocks_inner; assumption.
Qed.

Lemma site_chain_nests {A} (errtok : A) (ls : list (@line A)) stops :
  (forall d, stops d = false) ->
  chain_run stops (http_stack errtok gen_directives ls) =
  let stack := filter (fun d => present d (http_inspect errtok ls)) adds_mw_list in
  map HEnter stack ++ [HServed] ++ map HExit (rev stack).
Proof. intros Hno. rewrite chain_nests by (intros d _; apply Hno). rewrite http_stack_documented. reflexivity. Qed.
