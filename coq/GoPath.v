(* GoPath.v — executable models of Go's strings helpers and path.Clean, and of
   casket's httpserver.Path.Matches.  Tied to Go by the `golib` differential
   check (harness sub-command), not by proof. *)
Require Import V.Lib.
Open Scope N_scope.

Definition SLASH : N := 47.
Definition DOT : N := 46.

Definition lower_byte (c : N) : N := if (65 <=? c) && (c <=? 90) then c + 32 else c.
Definition to_lower (s : bytes) : bytes := map lower_byte s.

Fixpoint has_prefix (s p : bytes) : bool :=
  match p, s with
  | [], _ => true
  | y :: p', x :: s' => (x =? y) && has_prefix s' p'
  | _ :: _, [] => false
  end.

Definition has_suffix (s p : bytes) : bool := has_prefix (rev s) (rev p).

(* split on a separator byte: strings.Split(s, sep) for a 1-byte sep (never empty result) *)
Fixpoint split_on (sep : N) (s : bytes) (cur : bytes) : list bytes :=
  match s with
  | [] => [rev cur]
  | c :: r => if c =? sep then rev cur :: split_on sep r [] else split_on sep r (c :: cur)
  end.
Definition split (sep : N) (s : bytes) : list bytes := split_on sep s [].

Fixpoint join (sep : bytes) (l : list bytes) : bytes :=
  match l with
  | [] => []
  | [x] => x
  | x :: r => x ++ sep ++ join sep r
  end.

Definition is_dot (s : bytes) : bool := beq s [DOT].
Definition is_dotdot (s : bytes) : bool := beq s [DOT; DOT].

(* segment stack machine equivalent to path.Clean's lazybuf loop; [stack] is reversed *)
Fixpoint clean_segs (rooted : bool) (segs : list bytes) (stack : list bytes) : list bytes :=
  match segs with
  | [] => rev stack
  | s :: rest =>
      match s with
      | [] => clean_segs rooted rest stack
      | _ =>
        if is_dot s then clean_segs rooted rest stack
        else if is_dotdot s then
          match stack with
          | top :: st' => if is_dotdot top then clean_segs rooted rest (s :: stack)
                          else clean_segs rooted rest st'
          | [] => if rooted then clean_segs rooted rest [] else clean_segs rooted rest [s]
          end
        else clean_segs rooted rest (s :: stack)
      end
  end.

Definition clean (p : bytes) : bytes :=
  match p with
  | [] => [DOT]
  | c :: _ =>
      let rooted := c =? SLASH in
      let out := join [SLASH] (clean_segs rooted (split SLASH p) []) in
      if rooted then SLASH :: out
      else match out with [] => [DOT] | _ => out end
  end.

(* httpserver.Path.Matches *)
Definition ends_with_slash (s : bytes) : bool :=
  match rev s with c :: _ => c =? SLASH | [] => false end.

Definition path_matches (case_sensitive : bool) (p base : bytes) : bool :=
  if beq base [SLASH] || beq base [] then true
  else
    let p' := clean p ++ (if ends_with_slash p then [SLASH] else []) in
    let b' := clean base ++ (if ends_with_slash base then [SLASH] else []) in
    if case_sensitive then has_prefix p' b'
    else has_prefix (to_lower p') (to_lower b').
