(* C19 — connection histories (corollaries of accept_isolates) and the Host-derived placeholders
   {hostonly} / {server_port} *)
Require Import V.Lib V.C19_Model V.C19_Proofs V.C19_ProofsHello V.C19_ProofsWire.
Require V.GoNet.
From Coq Require Import Lia ZifyBool ZifyN ZifyNat.


(* what is recorded for a connection is a function of the bytes THAT connection delivered: two
   arbitrary histories (any pools, any other connections, any interleaving, any segmentation) in
   which two connections delivered the same byte string record the same thing for them *)
Lemma recorded_history_independent (pool1 pool2 : list bytes) (evs1 evs2 : list ev) (id1 id2 : nat)
      (segs1 segs2 : list bytes) :
  own_segs evs1 id1 = Some segs1 -> own_segs evs2 id2 = Some segs2 ->
  concat segs1 = concat segs2 ->
  exists st1 st2, l_run true (l_init pool1) evs1 = Ok st1 /\ l_run true (l_init pool2) evs2 = Ok st2 /\
                  recorded_for st1 id1 = recorded_for st2 id2 /\
                  recorded_for st1 id1 = recorded_of (concat segs1).
Proof.
  intros Ho1 Ho2 Hc.
  destruct (accept_isolates pool1 evs1) as [st1 [H1 R1]].
  destruct (accept_isolates pool2 evs2) as [st2 [H2 R2]].
  exists st1, st2. repeat split; try assumption.
  - rewrite R1, R2, Ho1, Ho2, Hc. reflexivity.
  - rewrite R1, Ho1. reflexivity.
Qed.

(* an earlier history [pre] (connections that left anything in the pool) in front of a history
   does not change what a connection accepted afterwards records *)
Lemma own_segs_app_accept (pre evs : list ev) (id k : nat) :
  own_segs (pre ++ EvAccept id k :: evs) id = own_segs (EvAccept id k :: evs) id.
Proof.
  unfold own_segs. rewrite fold_left_app. cbn [fold_left own_step].
  generalize (fold_left own_step pre (fun _ : nat => None)). intro m0.
  assert (G : forall l (m m' : nat -> option (list bytes)), m id = m' id ->
              fold_left own_step l m id = fold_left own_step l m' id).
  { induction l as [|e l IH]; intros m m' E; [exact E|]. cbn [fold_left]. apply IH.
    destruct e as [i k'|i seg]; cbn [own_step]; unfold upd.
    - destruct (id =? i)%nat; [reflexivity|exact E].
    - destruct (m i) eqn:Em; destruct (m' i) eqn:Em'; unfold upd.
      + destruct (id =? i)%nat eqn:Ei; [|exact E].
        apply PeanoNat.Nat.eqb_eq in Ei. subst i. rewrite Em, Em' in E. injection E as <-. reflexivity.
      + destruct (id =? i)%nat eqn:Ei; [|exact E].
        apply PeanoNat.Nat.eqb_eq in Ei. subst i. rewrite Em, Em' in E. discriminate.
      + destruct (id =? i)%nat eqn:Ei; [|exact E].
        apply PeanoNat.Nat.eqb_eq in Ei. subst i. rewrite Em, Em' in E. discriminate.
      + exact E. }
  apply G. unfold upd. rewrite PeanoNat.Nat.eqb_refl. reflexivity.
Qed.

Lemma earlier_history_irrelevant (pool : list bytes) (pre evs : list ev) (id k : nat) :
  exists st st', l_run true (l_init pool) (pre ++ EvAccept id k :: evs) = Ok st /\
                 l_run true (l_init []) (EvAccept id 0 :: evs) = Ok st' /\
                 recorded_for st id = recorded_for st' id.
Proof.
  destruct (accept_isolates pool (pre ++ EvAccept id k :: evs)) as [st [H R]].
  destruct (accept_isolates [] (EvAccept id 0 :: evs)) as [st' [H' R']].
  exists st, st'. repeat split; try assumption.
  rewrite R, R', own_segs_app_accept.
  assert (E : own_segs (EvAccept id k :: evs) id = own_segs (EvAccept id 0 :: evs) id) by reflexivity.
  rewrite E. reflexivity.
Qed.

(* {hostonly} is always a contiguous piece of the peer's Host, {server_port} a suffix of it (or
   the default) — GoNet's SplitHostPort model is built from firstn/skipn only, so it is total by
   construction; what is proved is WHERE the values come from *)
Lemma host_only_piece (host : bytes) : exists a b, host = a ++ host_only host ++ b.
Proof.
  unfold host_only, GoNet.split_host_port.
  destruct (GoNet.last_index GoNet.COLON host) as [i|]; [|exists [], []; cbn; rewrite app_nil_r; reflexivity].
  destruct host as [|c0 tl]; [exists [], []; reflexivity|].
  destruct (N.eqb c0 GoNet.LBR).
  - destruct (GoNet.index_of GoNet.RBR (c0 :: tl)) as [e|]; [|exists [], []; cbn; rewrite app_nil_r; reflexivity].
    destruct (Nat.eqb (e + 1) (length (c0 :: tl))); [exists [], []; cbn; rewrite app_nil_r; reflexivity|].
    destruct (Nat.eqb (e + 1) i); [|exists [], []; cbn; rewrite app_nil_r; reflexivity].
    destruct (GoNet.contains_byte GoNet.LBR (skipn 1 (c0 :: tl))); [exists [], []; cbn; rewrite app_nil_r; reflexivity|].
    destruct (GoNet.contains_byte GoNet.RBR (skipn (e + 1) (c0 :: tl))); [exists [], []; cbn; rewrite app_nil_r; reflexivity|].
    exists [c0], (skipn (e - 1) tl). cbn [skipn app]. rewrite firstn_skipn. reflexivity.
  - cbv zeta.
    destruct (GoNet.contains_byte GoNet.COLON (firstn i (c0 :: tl))); [exists [], []; cbn; rewrite app_nil_r; reflexivity|].
    destruct (GoNet.contains_byte GoNet.LBR (c0 :: tl)); [exists [], []; cbn; rewrite app_nil_r; reflexivity|].
    destruct (GoNet.contains_byte GoNet.RBR (c0 :: tl)); [exists [], []; cbn; rewrite app_nil_r; reflexivity|].
    exists [], (skipn i (c0 :: tl)). cbn [app]. rewrite firstn_skipn. reflexivity.
Qed.

Lemma server_port_suffix (host : bytes) : server_port host = lit_80 \/ exists a, host = a ++ server_port host.
Proof.
  unfold server_port, GoNet.split_host_port.
  destruct (GoNet.last_index GoNet.COLON host) as [i|]; [|left; reflexivity].
  destruct host as [|c0 tl]; [left; reflexivity|].
  destruct (N.eqb c0 GoNet.LBR).
  - destruct (GoNet.index_of GoNet.RBR (c0 :: tl)) as [e|]; [|left; reflexivity].
    destruct (Nat.eqb (e + 1) (length (c0 :: tl))); [left; reflexivity|].
    destruct (Nat.eqb (e + 1) i); [|left; reflexivity].
    destruct (GoNet.contains_byte GoNet.LBR (skipn 1 (c0 :: tl))); [left; reflexivity|].
    destruct (GoNet.contains_byte GoNet.RBR (skipn (e + 1) (c0 :: tl))); [left; reflexivity|].
    right. exists (firstn (i + 1) (c0 :: tl)). rewrite firstn_skipn. reflexivity.
  - cbv zeta.
    destruct (GoNet.contains_byte GoNet.COLON (firstn i (c0 :: tl))); [left; reflexivity|].
    destruct (GoNet.contains_byte GoNet.LBR (c0 :: tl)); [left; reflexivity|].
    destruct (GoNet.contains_byte GoNet.RBR (c0 :: tl)); [left; reflexivity|].
    right. exists (firstn (i + 1) (c0 :: tl)). rewrite firstn_skipn. reflexivity.
Qed.

(* {labelN}: for EVERY Host and EVERY N text the checked-indexing model never panics and returns
   exactly the specification's value — the N-th dot-separated piece of the Host as sent *)
Lemma label_subst_value (host nstr : bytes) : label_subst host nstr = Ok (label_spec host nstr).
Proof.
  unfold label_subst, label_spec. cbv zeta. destruct (atoi nstr) as [n|]; [|reflexivity].
  destruct (n <? 1)%Z eqn:E1.
  - assert ((1 <=? n)%Z = false) as -> by lia. reflexivity.
  - assert ((1 <=? n)%Z = true) as -> by lia. cbn [andb].
    destruct (Z.of_nat (length (split 46 host)) <? n)%Z eqn:E2.
    + assert ((n <=? Z.of_nat (length (split 46 host)))%Z = false) as -> by lia. reflexivity.
    + assert ((n <=? Z.of_nat (length (split 46 host)))%Z = true) as -> by lia.
      unfold idx. destruct (nth_error (split 46 host) (Z.to_nat (n - 1))) as [v|] eqn:En.
      * cbn [rbind]. do 2 f_equal. symmetry. apply nth_error_nth. exact En.
      * apply nth_error_None in En. lia.
Qed.

(* the pieces are those of the Host as sent: joining them with dots gives the Host back, so a
   port with dots in it is split like everything else and never re-attached or dropped *)
Lemma label_pieces_count (host : bytes) :
  length (split 46 host) = S (length (filter (fun c => N.eqb c 46) host)).
Proof.
  unfold split. generalize (@nil N) as cur. induction host as [|c r IH]; intro cur; cbn [split_on filter].
  - reflexivity.
  - destruct (N.eqb c 46); cbn [length]; rewrite IH; reflexivity.
Qed.
