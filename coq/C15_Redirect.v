(* C15 — redirect synthesis over whole site sets: which hosts get a plaintext redirect site, as an
   iff in terms of the SET of declared sites (no indices), its invariance under permutation of the
   declarations, uniqueness, and what does depend on the order (the port a redirect names when a host
   has several TLS sites and none on :443).  Stdlib + Lia only. *)
Require Import V.Lib V.GoPath V.C15_Model V.C15_Proofs.
From Coq Require Import Lia Permutation.
Open Scope N_scope.

(* ------------------------------------------------------------------ hostHasOtherPort, exactly *)
Lemma other_has_iff l : forall k0 i h p,
  other_has l k0 i h p = true <->
  exists k o, nth_error l k = Some o /\ (k0 + k)%nat <> i /\ host o = h /\ port o = p.
Proof.
  induction l as [|x l IH]; intros k0 i h p; cbn [other_has].
  - split; [discriminate|intros (k & o & H & _); destruct k; discriminate H].
  - rewrite orb_true_iff, IH. split.
    + intros [H|(k & o & Hn & Hne & Hh & Hp)].
      * apply andb_true_iff in H as [H Hp]. apply andb_true_iff in H as [Hne Hh].
        apply negb_true_iff, Nat.eqb_neq in Hne. apply beq_eq in Hh. apply beq_eq in Hp.
        exists 0%nat, x. split; [reflexivity|]. split; [lia|auto].
      * exists (S k), o. split; [exact Hn|]. split; [lia|auto].
    + intros (k & o & Hn & Hne & Hh & Hp). destruct k as [|k]; simpl in Hn.
      * injection Hn as ->. left. rewrite Hh, Hp, !beq_refl, !andb_true_r.
        apply negb_true_iff, Nat.eqb_neq. lia.
      * right. exists k, o. split; [exact Hn|]. split; [lia|auto].
Qed.

(* when the site itself is not on port p: "no OTHER site of its host on p" is "no site of its host on p" *)
Lemma hhop_false_set all j c p :
  nth_error all j = Some c -> port c <> p ->
  (host_has_other_port all j p = false <-> forall o, In o all -> host o = host c -> port o <> p).
Proof.
  intros Hn Hp. unfold host_has_other_port. rewrite Hn. split.
  - intros H o Ho Hh Hpo. apply In_nth_error in Ho as (k & Hk).
    destruct (Nat.eq_dec k j) as [->|Hne].
    + rewrite Hn in Hk. injection Hk as <-. contradiction.
    + assert (T : other_has all 0 j (host c) p = true)
        by (apply other_has_iff; exists k, o; simpl; auto).
      congruence.
  - intros H. destruct (other_has all 0 j (host c) p) eqn:E; [|reflexivity].
    apply other_has_iff in E as (k & o & Hk & _ & Hh & Hpo). exfalso.
    apply (H o); [eapply nth_error_In; exact Hk|exact Hh|exact Hpo].
Qed.

(* ------------------------------------------------------------------ the set-level condition *)
(* host h gets a redirect site: some TLS-enabled site for h without no_redirect, not explicitly HTTP,
   no site for h on port 80, and — the rule behind F-C15-2, as coded — that site is on :443 or no
   site for h is *)
Definition redirect_wanted (all : list site) (h : bytes) : Prop :=
  exists c, In c all /\ host c = h /\
    en (tls c) = true /\ nr (tls c) = false /\ port c <> P80 /\ scheme c <> HTTP /\
    (forall o, In o all -> host o = h -> port o <> P80) /\
    (port c = P443 \/ forall o, In o all -> host o = h -> port o <> P443).

Lemma wants_in_set all j c :
  nth_error all j = Some c ->
  (wants_in all j c <->
   en (tls c) = true /\ nr (tls c) = false /\ port c <> P80 /\ scheme c <> HTTP /\
   (forall o, In o all -> host o = host c -> port o <> P80) /\
   (port c = P443 \/ forall o, In o all -> host o = host c -> port o <> P443)).
Proof.
  intros Hn. unfold wants_in. split.
  - intros (H1 & H2 & Hp & Hs & H3 & H4). repeat split; try assumption.
    + apply (hhop_false_set all j c P80 Hn Hp). exact H3.
    + destruct H4 as [H4|H4]; [left; exact H4|].
      destruct (beq (port c) P443) eqn:E; [left; apply beq_eq; exact E|right].
      apply beq_neq in E. apply (hhop_false_set all j c P443 Hn E). exact H4.
  - intros (H1 & H2 & Hp & Hs & H3 & H4). repeat split; try assumption.
    + apply (hhop_false_set all j c P80 Hn Hp). exact H3.
    + destruct H4 as [H4|H4]; [left; exact H4|].
      destruct (beq (port c) P443) eqn:E; [left; apply beq_eq; exact E|right].
      apply beq_neq in E. apply (hhop_false_set all j c P443 Hn E). exact H4.
Qed.

Lemma redirect_wanted_iff all h :
  redirect_wanted all h <-> exists j c, nth_error all j = Some c /\ host c = h /\ wants_in all j c.
Proof.
  unfold redirect_wanted. split.
  - intros (c & Hin & Hh & H). apply In_nth_error in Hin as (j & Hn). exists j, c.
    split; [exact Hn|]. split; [exact Hh|]. apply (wants_in_set all j c Hn). subst h. exact H.
  - intros (j & c & Hn & Hh & Hw). exists c. split; [eapply nth_error_In; exact Hn|]. split; [exact Hh|].
    apply (wants_in_set all j c Hn) in Hw. subst h. exact Hw.
Qed.

(* ------------------------------------------------------------------ redirect sites exist exactly for the wanted hosts *)
Lemma redirect_exists_iff all :
  exists extra, make_plaintext_redirects all = all ++ extra /\
    (forall r, In r extra -> port r = P80 /\ scheme r = [] /\ en (tls r) = false /\ is_synth r = true) /\
    NoDup (map host extra) /\
    forall h, (exists r, In r extra /\ host r = h) <-> redirect_wanted all h.
Proof.
  destruct (make_plaintext_redirects_sound all) as (extra & He & Hf).
  destruct (redirects_unique all) as (extra' & He' & Hnd).
  assert (extra' = extra) by (rewrite He in He'; apply app_inv_head in He'; congruence). subst extra'.
  exists extra. split; [exact He|]. rewrite Forall_forall in Hf. split; [|split; [exact Hnd|]].
  - intros r Hr. destruct (Hf r Hr) as (j & c & _ & -> & _). repeat split; reflexivity.
  - intros h. rewrite redirect_wanted_iff. split.
    + intros (r & Hr & Hh). destruct (Hf r Hr) as (j & c & Hn & -> & Hw). exists j, c. auto.
    + intros (j & c & Hn & Hh & Hw).
      destruct (redirects_complete all j c Hn Hw) as (extra2 & He2 & r & Hr & Hrh & _).
      assert (extra2 = extra) by (rewrite He in He2; apply app_inv_head in He2; congruence). subst extra2.
      exists r. split; [exact Hr|congruence].
Qed.

(* ------------------------------------------------------------------ order independence *)
Lemma redirect_wanted_perm all all' h : Permutation all all' -> redirect_wanted all h -> redirect_wanted all' h.
Proof.
  intros P (c & Hin & Hh & H1 & H2 & Hp & Hs & H3 & H4).
  assert (Q : forall o, In o all' -> In o all) by (intros o; apply Permutation_in; apply Permutation_sym; exact P).
  exists c. split; [eapply Permutation_in; eassumption|]. repeat split; try assumption.
  - intros o Ho. apply H3. apply Q. exact Ho.
  - destruct H4 as [H4|H4]; [left; exact H4|right]. intros o Ho. apply H4. apply Q. exact Ho.
Qed.

(* the SET of hosts that get a redirect site does not depend on the order of the declarations *)
Lemma redirect_hosts_perm all all' extra extra' :
  Permutation all all' ->
  make_plaintext_redirects all = all ++ extra -> make_plaintext_redirects all' = all' ++ extra' ->
  Permutation (map host extra) (map host extra').
Proof.
  intros P He He'.
  destruct (redirect_exists_iff all) as (x & Hx & _ & Hnd & Hiff).
  destruct (redirect_exists_iff all') as (x' & Hx' & _ & Hnd' & Hiff').
  assert (x = extra) by (rewrite He in Hx; apply app_inv_head in Hx; congruence). subst x.
  assert (x' = extra') by (rewrite He' in Hx'; apply app_inv_head in Hx'; congruence). subst x'.
  apply NoDup_Permutation; try assumption. intros h.
  rewrite !in_map_iff. split.
  - intros (r & Hh & Hr). assert (W : redirect_wanted all h) by (apply Hiff; exists r; auto).
    apply (redirect_wanted_perm all all' h P) in W. apply Hiff' in W as (r' & Hr' & Hh'). exists r'. auto.
  - intros (r & Hh & Hr). assert (W : redirect_wanted all' h) by (apply Hiff'; exists r; auto).
    apply (redirect_wanted_perm all' all h (Permutation_sym P)) in W. apply Hiff in W as (r' & Hr' & Hh'). exists r'. auto.
Qed.

(* ------------------------------------------------------------------ what the redirect names *)
(* if the host has a site on :443 at all, a redirect for it can only come from a :443 site: the
   Location carries no port, whatever the order *)
Lemma redirect_target_with_443 all extra r o :
  make_plaintext_redirects all = all ++ extra -> In r extra ->
  In o all -> host o = host r -> port o = P443 -> redir r = Some [].
Proof.
  intros He Hr Ho Hh Hp.
  destruct (make_plaintext_redirects_sound all) as (x & Hx & Hf).
  assert (x = extra) by (rewrite He in Hx; apply app_inv_head in Hx; congruence). subst x.
  rewrite Forall_forall in Hf. destruct (Hf r Hr) as (j & c & Hn & -> & Hw).
  apply (wants_in_set all j c Hn) in Hw. destruct Hw as (_ & _ & _ & _ & _ & H4).
  cbn [redir redir_site]. unfold redir_port.
  destruct H4 as [H4|H4].
  - rewrite H4. reflexivity.
  - exfalso. apply (H4 o Ho Hh Hp).
Qed.

(* in every case it is the port of an eligible TLS site of that host (omitted for 443) *)
Lemma redirect_target_is_a_tls_site all extra r :
  make_plaintext_redirects all = all ++ extra -> In r extra ->
  exists c, In c all /\ host c = host r /\ en (tls c) = true /\ nr (tls c) = false /\
            port c <> P80 /\ scheme c <> HTTP /\ redir r = Some (redir_port c).
Proof.
  intros He Hr.
  destruct (make_plaintext_redirects_sound all) as (x & Hx & Hf).
  assert (x = extra) by (rewrite He in Hx; apply app_inv_head in Hx; congruence). subst x.
  rewrite Forall_forall in Hf. destruct (Hf r Hr) as (j & c & Hn & -> & (H1 & H2 & Hp & Hs & _)).
  exists c. split; [eapply nth_error_In; exact Hn|]. repeat split; assumption.
Qed.

(* without a :443 site the named port DOES depend on the order: the first eligible site wins *)
Definition w_tls_site (p : bytes) : site :=
  {| scheme := []; host := bs "example.com"; port := p; listen := [];
     tls := {| en := true; mg := false; mn := true; ss := false; nr := false; od := false; email := [] |};
     redir := None |}.

Lemma redirect_target_order_refuted :
  exists all all', Permutation all all' /\
    map redir (skipn (length all) (make_plaintext_redirects all)) <>
    map redir (skipn (length all') (make_plaintext_redirects all')).
Proof.
  exists [w_tls_site (bs "8443"); w_tls_site (bs "9443")], [w_tls_site (bs "9443"); w_tls_site (bs "8443")].
  split; [apply perm_swap|]. vm_compute. discriminate.
Qed.

(* several TLS sites of one host on different ports: still one redirect site (uniqueness is part of
   redirect_exists_iff; this is the instance the seeded first-sibling change breaks) *)
Lemma redirect_unique_many_ports :
  map (fun s => (host s, port s)) (skipn 3 (make_plaintext_redirects
     [w_tls_site (bs "8443"); w_tls_site (bs "9443"); w_tls_site (bs "7443")])) = [(bs "example.com", P80)].
Proof. vm_compute. reflexivity. Qed.

(* ---------------------------------------------------------------- the callback when nothing is obtained at startup
   (round 5, seeded change m9: an early return of activateHTTPS when no site needs a certificate at startup) *)

Definition no_startup_certificate (init : list site) : Prop :=
  forall s, In s init -> mg (tls (mark_one s)) && negb (od (tls (mark_one s))) = false.

Lemma activate_without_startup_certificate : forall init,
  no_startup_certificate init ->
  stage_a init = make_plaintext_redirects (map mark_one init).
Proof.
  intros init H. unfold stage_a. f_equal.
  rewrite <- (map_id (map mark_one init)) at 2.
  apply map_ext_in. intros s Hs. apply in_map_iff in Hs. destruct Hs as [s0 [Heq Hin]]. subst s.
  unfold enable_one. cbv zeta. rewrite (H s0 Hin). reflexivity.
Qed.

Lemma activate_redirects_without_startup_certificate : forall init,
  no_startup_certificate init ->
  exists extra, stage_a init = map mark_one init ++ extra /\
    (forall r, In r extra -> port r = P80 /\ scheme r = [] /\ en (tls r) = false /\ is_synth r = true) /\
    NoDup (map host extra) /\
    forall h, (exists r, In r extra /\ host r = h) <->
      exists c, In c (map mark_one init) /\ host c = h /\
        en (tls c) = true /\ nr (tls c) = false /\ port c <> P80 /\ scheme c <> HTTP /\
        (forall o, In o (map mark_one init) -> host o = h -> port o <> P80) /\
        (port c = P443 \/ forall o, In o (map mark_one init) -> host o = h -> port o <> P443).
Proof.
  intros init H. rewrite (activate_without_startup_certificate init H).
  exact (redirect_exists_iff (map mark_one init)).
Qed.

Definition w_manual : dsite :=
  Build_dsite [] (bs "8443") [] (bs "shop.example.com") (bs "8443") [] (TDir A2 false false false).
Lemma activate_without_startup_certificate_witness :
  exists init, init_sites [w_manual] = Some init /\
    forallb (fun s => negb (mg (tls (mark_one s)) && negb (od (tls (mark_one s))))) init = true /\
    map redir (stage_a init) = [None; Some (bs "8443")].
Proof. eexists. split; [vm_compute; reflexivity|]. split; vm_compute; reflexivity. Qed.
