(* C11 — property theorems only (the regenerated index obligations live in Gen_C11.v). *)
Require Import V.Lib V.C11_Model V.C11_Proofs V.Gen_C11.
Require V.C09_Model.
Require Import V.C11_Exec V.C11_ExecProofs V.C11_KeyProofs.
Open Scope Z_scope.

(* Every Dispenser operation a setup function can call is TOTAL (no index out of range, whatever
   the token list — including lists spliced from imports with foreign files and line numbers),
   keeps the cursor inside [-1, max(len-1,0)], never moves it backwards, and strictly advances it
   whenever it answers true. *)
Theorem C11_next_total : forall d, cursor_ok d ->
  exists b d', d_next d = Ok (b, d') /\ good d d' b /\ d_nesting d' = d_nesting d.
Proof. exact next_total. Qed.
Print Assumptions C11_next_total.
Theorem C11_next_arg_total : forall d, cursor_ok d ->
  exists b d', d_next_arg d = Ok (b, d') /\ good d d' b /\ d_nesting d' = d_nesting d.
Proof. exact next_arg_total. Qed.
Print Assumptions C11_next_arg_total.
Theorem C11_next_line_total : forall d, cursor_ok d ->
  exists b d', d_next_line d = Ok (b, d') /\ good d d' b /\ d_nesting d' = d_nesting d.
Proof. exact next_line_total. Qed.
Print Assumptions C11_next_line_total.
Theorem C11_val_total : forall d, cursor_ok d -> exists v, d_val d = Ok v.
Proof. exact val_total. Qed.
Print Assumptions C11_val_total.
Theorem C11_next_block_total : forall d initial, cursor_ok d ->
  exists b d', d_next_block d initial = Ok (b, d') /\ cursor_ok d' /\ d_tokens d' = d_tokens d /\
               d_cursor d <= d_cursor d' /\ (b = true -> d_cursor d < d_cursor d').
Proof. exact next_block_total. Qed.
Print Assumptions C11_next_block_total.
Theorem C11_remaining_args_total : forall fuel d acc, cursor_ok d ->
  exists args d', d_remaining_args fuel d acc = Ok (args, d') /\ cursor_ok d' /\
                  d_tokens d' = d_tokens d /\ d_cursor d <= d_cursor d'.
Proof. exact remaining_args_total. Qed.
Print Assumptions C11_remaining_args_total.

(* Termination of the loops `for c.Next()`, `for c.NextArg()`, `for c.NextLine()`,
   `for c.NextBlock()`: each [true] strictly decreases the bounded measure len - cursor. *)
Theorem C11_loop_measure_decreases : forall d d' b,
  cursor_ok d -> good d d' b -> b = true -> dlen d - d_cursor d' < dlen d - d_cursor d.
Proof. exact loop_bound. Qed.
Print Assumptions C11_loop_measure_decreases.
Theorem C11_cursor_bounded : forall d, cursor_ok d ->
  0 <= Z.max (dlen d - 1) 0 - d_cursor d <= Z.max (dlen d) 1.
Proof. exact cursor_bounded. Qed.
Print Assumptions C11_cursor_bounded.
Theorem C11_fresh_dispenser_ok : forall toks,
  cursor_ok {| d_tokens := toks; d_cursor := -1; d_nesting := 0 |}.
Proof. exact init_cursor_ok. Qed.
Print Assumptions C11_fresh_dispenser_ok.

(* The index obligations regenerated from the setup functions of the current tree, as ONE statement:
   the conjunction of every obligation `0 <= i < len` (or slice bound) under the guards in scope at
   that source line (Gen_C11.v; `Print c11_all_obligations.` shows them). An obligation that lia
   cannot prove is taken out of the conjunction by lib/c11.py and reported by the check as a
   violation (or as a pinned site, lib/c11_pins.json). *)
Theorem C11_index_obligations_hold : c11_all_obligations.
Proof. exact c11_all_obligations_hold. Qed.
Print Assumptions C11_index_obligations_hold.

Close Scope Z_scope.
(* ---- validate and start agree: over the executeDirectives model of C09_Model ([C09_Model.execute],
   cbs = negb justValidate), for EVERY setup function, callback, directive list, server blocks and
   initial state ---- *)

(* Both modes draw their setup calls from ONE schedule, a function of the directive list and the
   server blocks alone: the calls really made (recorded by the calls themselves) are an initial
   segment of it, in its order, and all of it when the configuration is accepted. *)
Theorem C11_calls_follow_schedule :
  forall (A St : Type) (setup : bytes -> nat -> nat -> bytes -> list A -> St -> C09_Model.outcome St)
         (callback : bytes -> St -> C09_Model.outcome St) (cbs : bool) (dirs : list bytes)
         (bs : list (@C09_Model.block A)) (s : St),
  exists rest, schedule dirs bs = calls setup callback cbs dirs bs s ++ rest /\
  (accepted setup callback cbs dirs bs s = true -> rest = []).
Proof. exact @calls_follow_schedule. Qed.
Print Assumptions C11_calls_follow_schedule.

(* ... and the schedule holds one call for every key of every block that writes the directive, with
   that block's tokens — so an accepted validation has set the directive up for every key, not for
   the first one only. *)
Theorem C11_schedule_covers_every_key :
  forall (A : Type) (dirs : list bytes) (bs : list (@C09_Model.block A)) d i b j k toks,
  In d dirs -> nth_error bs i = Some b -> nth_error (fst b) j = Some k ->
  C09_Model.tokens_of (snd b) d = Some toks -> In (d, i, j, k, toks) (schedule dirs bs).
Proof. exact @schedule_covers_every_key. Qed.
Print Assumptions C11_schedule_covers_every_key.
Example C11_schedule_covers_every_key_nonvacuous :
  In ([100%N], 0%nat, 1%nat, [2%N], [0%N])
     (schedule [[100%N]] [([[1%N]; [2%N]], [([100%N], [0%N])])]).
Proof. vm_compute. auto. Qed.

(* the recording does not change what is executed *)
Theorem C11_logging_faithful :
  forall (A St : Type) (setup : bytes -> nat -> nat -> bytes -> list A -> St -> C09_Model.outcome St)
         (callback : bytes -> St -> C09_Model.outcome St) cbs dirs bs s,
  C09_Model.out_ok (run_logged setup callback cbs dirs bs s) = accepted setup callback cbs dirs bs s /\
  fst (C09_Model.out_state (run_logged setup callback cbs dirs bs s)) =
  C09_Model.out_state (C09_Model.execute setup callback cbs dirs bs s).
Proof. exact @logging_faithful. Qed.
Print Assumptions C11_logging_faithful.

(* Agreement proper. If what the start-only callbacks change is invisible to the setup functions
   (R relates states that setups cannot tell apart: related states give both-accept with related
   results, or both-reject) and the callbacks themselves do not fail, then validation and start
   accept the same configurations and make exactly the same setup calls in the same order. *)
Theorem C11_validate_start_agree :
  forall (A St : Type) (setup : bytes -> nat -> nat -> bytes -> list A -> St -> C09_Model.outcome St)
         (callback : bytes -> St -> C09_Model.outcome St) (R : St -> St -> Prop),
  (forall d i j k t s1 s2, R s1 s2 -> orel R (fun _ _ => True) (setup d i j k t s1) (setup d i j k t s2)) ->
  (forall d s1 s2, R s1 s2 -> exists s2', callback d s2 = C09_Model.Cont s2' /\ R s1 s2') ->
  forall dirs bs s1 s2, R s1 s2 ->
  accepted setup callback false dirs bs s1 = accepted setup callback true dirs bs s2 /\
  calls setup callback false dirs bs s1 = calls setup callback true dirs bs s2.
Proof. exact @validate_start_agree. Qed.
Print Assumptions C11_validate_start_agree.

(* the hypotheses are satisfiable by something that is not trivial: setups that count their calls
   and reject a token 7, callbacks that count theirs; R ignores the callback counter; the example
   configuration has two keys, is rejected at its second block, and makes calls *)
Definition ex_setup (d : bytes) (i j : nat) (k : bytes) (toks : list N) (s : nat * nat) : C09_Model.outcome (nat * nat) :=
  if existsb (N.eqb 7) toks then C09_Model.Stop s else C09_Model.Cont (S (fst s), snd s).
Definition ex_callback (d : bytes) (s : nat * nat) : C09_Model.outcome (nat * nat) := C09_Model.Cont (fst s, S (snd s)).
Example C11_validate_start_agree_nonvacuous :
  let R := fun a b : nat * nat => fst a = fst b in
  (forall d i j k t s1 s2, R s1 s2 -> orel R (fun _ _ => True) (ex_setup d i j k t s1) (ex_setup d i j k t s2)) /\
  (forall d s1 s2, R s1 s2 -> exists s2', ex_callback d s2 = C09_Model.Cont s2' /\ R s1 s2') /\
  R (0, 0)%nat (0, 0)%nat /\
  length (calls ex_setup ex_callback true [[100%N]; [101%N]]
            [([[1%N]; [2%N]], [([100%N], [0%N])]); ([[3%N]], [([101%N], [7%N])])] (0, 0)%nat) = 3%nat /\
  accepted ex_setup ex_callback true [[100%N]; [101%N]]
            [([[1%N]; [2%N]], [([100%N], [0%N])]); ([[3%N]], [([101%N], [7%N])])] (0, 0)%nat = false.
Proof.
  cbn zeta. split; [|split; [|split; [|split]]].
  - intros d i j k t s1 s2 H. unfold ex_setup. destruct (existsb (N.eqb 7) t); cbn; auto.
  - intros d s1 s2 H. eexists. split; [reflexivity|]. cbn. exact H.
  - reflexivity.
  - vm_compute. reflexivity.
  - vm_compute. reflexivity.
Qed.

(* Without those hypotheses the statement "validate and start agree" is false of the model (as it is of
   the code: parsing callbacks only run on a start and may fail for reasons of the environment). *)
Theorem C11_validate_start_agree_unconditional_refuted :
  exists (setup : bytes -> nat -> nat -> bytes -> list N -> N -> C09_Model.outcome N)
         (callback : bytes -> N -> C09_Model.outcome N) dirs bs s,
    accepted setup callback false dirs bs s = true /\ accepted setup callback true dirs bs s = false.
Proof. exact agree_unconditional_refuted. Qed.
Print Assumptions C11_validate_start_agree_unconditional_refuted.

(* Strongest unconditional-in-the-setups statement: when callbacks leave the state alone (they may
   fail), whatever a start accepts validation accepts, and the start's setup calls are an initial
   segment of validation's. *)
Theorem C11_validate_start_agree_partial :
  forall (A St : Type) (setup : bytes -> nat -> nat -> bytes -> list A -> St -> C09_Model.outcome St)
         (callback : bytes -> St -> C09_Model.outcome St),
  (forall d s, C09_Model.out_state (callback d s) = s) ->
  forall dirs bs s,
  (accepted setup callback true dirs bs s = true -> accepted setup callback false dirs bs s = true) /\
  exists rest, calls setup callback false dirs bs s = app (calls setup callback true dirs bs s) rest.
Proof. exact @start_is_prefix_of_validate. Qed.
Print Assumptions C11_validate_start_agree_partial.
Example C11_validate_start_agree_partial_nonvacuous :
  (forall d s, C09_Model.out_state (failing_callback d s) = s) /\
  accepted ok_setup failing_callback true [[100%N]] [([[]], [([100%N], [0%N])])] 0%N = false.
Proof. split; [reflexivity|vm_compute; reflexivity]. Qed.

(* the oracle instance the correspondence check evaluates predicts the same class in both modes *)
Theorem C11_predict_block_mode_independent :
  forall perkey, predict_block false perkey = predict_block true perkey.
Proof. exact predict_block_mode_independent. Qed.
Print Assumptions C11_predict_block_mode_independent.

(* ---- parseUpstream's port text (proxy / upstream arguments with colons and slashes in every order) ----
   The slice u[len(us)+1 : portsEnd] is in bounds for EVERY address: the end is searched from the LAST colon
   (u[colon] is ':', so a slash found in u[colon:] lies strictly behind it).  The regenerated obligation of that
   site (Gen_C11, pinned: the translator does not see that u[colon] is not a slash) is this statement over the
   facts the translator collects; when the code changes the pin lapses and the targeted search composes
   arguments from the function's own separators in every relative order (scheme://host:port/path:with:colons,
   host/a:b, [::1]:80/x:y, unix:/p:q) to find the crashing configuration. *)
Theorem C11_upstream_port_cut_in_bounds :
  forall len colon k : Z,
  (0 <= colon < len -> (k = -1 \/ (1 <= k /\ colon + k + 1 <= len)) ->
  let portsEnd := if k =? -1 then len else colon + k in
  0 <= colon + 1 /\ colon + 1 <= portsEnd /\ portsEnd <= len)%Z.
Proof. exact upstream_port_cut_in_bounds. Qed.
Print Assumptions C11_upstream_port_cut_in_bounds.

(* ... whereas with the end searched from the host (a seeded variant) the bounds cross for an address whose last
   colon sits in the path *)
Theorem C11_upstream_port_cut_from_host_refuted :
  exists len colon hostStart k : Z,
    (0 <= hostStart /\ hostStart <= colon /\ colon < len /\ 0 <= k /\ hostStart + k + 1 <= len /\
    ~ (colon + 1 <= hostStart + k))%Z.
Proof. exact upstream_port_cut_from_host_refuted. Qed.
Print Assumptions C11_upstream_port_cut_from_host_refuted.

(* ---- a rejected setup leaves nothing behind that a later setup trips over (sequences of loads in ONE process) ----
   Over the executeDirectives model, for EVERY setup function, callback, sequence of configurations (validated or
   started, accepted or REJECTED at any point) and configuration loaded after them.  The state a setup sees is
   (process-global part, part of the load being made); every load starts from a fresh second part and from the
   global part the loads before it left.  If setups and callbacks cannot tell apart global states related by [R]
   and leave the global part as they found it up to [R] WHATEVER THEY ANSWER (on every error path: the mutex taken
   is released, the table is not half-written), then a configuration is accepted after any sequence of loads
   exactly when it is accepted alone, and builds the same thing.  The harness checks the conclusion on the real
   setup functions: for every registered directive a rejected configuration followed by accepted ones of the same
   and of other directives, in one child process, every step against the same configuration loaded alone. *)
Theorem C11_outcome_after_any_loads :
  forall (A G L : Type) (setup : bytes -> nat -> nat -> bytes -> list A -> G * L -> C09_Model.outcome (G * L))
         (callback : bytes -> G * L -> C09_Model.outcome (G * L)) (R : G -> G -> Prop),
  (forall g, R g g) -> (forall a b c, R a b -> R b c -> R a c) ->
  (forall d i j k t s1 s2, RL R s1 s2 -> orel (RL R) (RL R) (setup d i j k t s1) (setup d i j k t s2)) ->
  (forall d s1 s2, RL R s1 s2 -> orel (RL R) (RL R) (callback d s1) (callback d s2)) ->
  (forall d i j k t s, R (fst s) (fst (C09_Model.out_state (setup d i j k t s)))) ->
  (forall d s, R (fst s) (fst (C09_Model.out_state (callback d s)))) ->
  forall (l0 : L) (cs : list (@conf A)) (g : G) (c : @conf A),
  C09_Model.out_ok (load setup callback l0 c (after_loads setup callback l0 cs g)) = C09_Model.out_ok (load setup callback l0 c g) /\
  R (fst (C09_Model.out_state (load setup callback l0 c g)))
    (fst (C09_Model.out_state (load setup callback l0 c (after_loads setup callback l0 cs g)))) /\
  snd (C09_Model.out_state (load setup callback l0 c (after_loads setup callback l0 cs g))) =
  snd (C09_Model.out_state (load setup callback l0 c g)).
Proof. exact @outcome_after_any_loads. Qed.
Print Assumptions C11_outcome_after_any_loads.

(* the hypotheses are satisfiable by something that is not trivial: setups that extend a process-global table
   before they look at their tokens (and reject a token 7 after the table was written); the table after a rejected
   load differs from the table before, the configuration loaded next is accepted as it is alone *)
Example C11_outcome_after_any_loads_nonvacuous :
  let R := fun _ _ : list N => True in
  (forall d i j k t s1 s2, RL R s1 s2 -> orel (RL R) (RL R) (seq_setup d i j k t s1) (seq_setup d i j k t s2)) /\
  (forall d i j k t s, R (fst s) (fst (C09_Model.out_state (seq_setup d i j k t s)))) /\
  let bad : @conf N := (false, [[100%N]], [([[1%N]], [([100%N], [7%N])])]) in
  let good : @conf N := (true, [[100%N]], [([[1%N]; [2%N]], [([100%N], [0%N])])]) in
  C09_Model.out_ok (load seq_setup seq_callback 0%nat bad []) = false /\
  after_loads seq_setup seq_callback 0%nat [bad] [] = [7%N] /\
  C09_Model.out_ok (load seq_setup seq_callback 0%nat good (after_loads seq_setup seq_callback 0%nat [bad] [])) = true.
Proof.
  cbn zeta. split; [|split; [|split; [|split]]].
  - intros d i j k t [g1 l1] [g2 l2] [_ E]. cbn in E. subst l2. unfold seq_setup. cbn [fst snd].
    destruct (existsb (N.eqb 7) t); cbn; unfold RL; cbn; auto.
  - intros; exact I.
  - vm_compute. reflexivity.
  - vm_compute. reflexivity.
  - vm_compute. reflexivity.
Qed.

(* Without the frame hypothesis the statement is false: an error path that returns with a process-global mutex held
   (the global part is the mutex; a setup that meets it held does not get through) - the configuration that is
   accepted alone is not accepted after the rejected one. *)
Theorem C11_lock_left_held_refuted :
  exists (bad good : @conf N),
    C09_Model.out_ok (load lock_setup lock_callback 0%nat good false) = true /\
    C09_Model.out_ok (load lock_setup lock_callback 0%nat bad false) = false /\
    C09_Model.out_ok (load lock_setup lock_callback 0%nat good (after_loads lock_setup lock_callback 0%nat [bad] false)) = false.
Proof. exact lock_left_held_refuted. Qed.
Print Assumptions C11_lock_left_held_refuted.

(* The one process-global resource a setup function of the tree takes and must give back - the mutex of the
   htpasswd table of basicauth (C08_Model.get_matcher, the model of GetHtpasswdMatcher) - is free again on EVERY
   path (file missing, file that does not parse, user not found, success), and the call itself never waits: so the
   next `basicauth ... htpasswd=` rule of the process, whatever file and user it names, does not block. *)
Theorem C11_htpasswd_lock_released_on_every_path :
  forall e g f u r g' o,
  C08_Model.g_htlock g = false -> C08_Model.get_matcher e g f u = (r, g', o) ->
  r <> C08_Model.RHang /\ C08_Model.g_htlock g' = false.
Proof. exact htpasswd_lock_released. Qed.
Print Assumptions C11_htpasswd_lock_released_on_every_path.

Theorem C11_htpasswd_rule_after_a_rejected_one_never_blocks :
  forall e1 e2 g f1 u1 f2 u2 r1 g1 o1,
  C08_Model.g_htlock g = false -> C08_Model.get_matcher e1 g f1 u1 = (r1, g1, o1) ->
  fst (fst (C08_Model.get_matcher e2 g1 f2 u2)) <> C08_Model.RHang.
Proof. exact htpasswd_lock_released_twice. Qed.
Print Assumptions C11_htpasswd_rule_after_a_rejected_one_never_blocks.

Example C11_htpasswd_rule_after_a_rejected_one_nonvacuous :
  let damaged := {| C08_Model.h_present := true; C08_Model.h_users := [(2, 1)%N]; C08_Model.h_bad := true; C08_Model.h_after := [(1, 1)%N] |} in
  let good := {| C08_Model.h_present := true; C08_Model.h_users := [(1, 1)%N]; C08_Model.h_bad := false; C08_Model.h_after := [] |} in
  exists g1, C08_Model.get_matcher [(1%N, damaged)] C08_Model.g0 1%N 1%N = (C08_Model.RErr, g1, None) /\
             fst (fst (C08_Model.get_matcher [(1%N, good)] g1 1%N 1%N)) = C08_Model.ROk /\
             (* the error path that keeps the mutex (the code before the repair of F-C08-lock; a seeded change brings it back) *)
             exists g2, C08_Model.get_matcher_gen false [(1%N, damaged)] C08_Model.g0 1%N 1%N = (C08_Model.RErr, g2, None) /\
                        fst (fst (C08_Model.get_matcher_gen false [(1%N, good)] g2 1%N 1%N)) = C08_Model.RHang.
Proof. eexists. split; [vm_compute; reflexivity|]. split; [vm_compute; reflexivity|]. eexists. split; vm_compute; reflexivity. Qed.

(* ---- whole files of several sites; the same directive line in effect more than once within one load ----
   The oracle instance of CConfSites: the blocks are set up in order, each does what it does as a file of its own,
   the first rejected one ends the load, in BOTH modes.  A line that is in effect n+1 times (written in several
   blocks, or through a snippet imported by several sites) is accepted exactly when it is accepted once: being in
   effect more than once within a load neither crashes nor changes the answer.  The harness holds the real
   ValidateAndExecuteDirectives against this for every registered directive (the line twice in one block, in two and
   three blocks, through a snippet imported by two sites / twice by one site / next to the site's own line) and for
   files of two and three sites mixing directives, own lines and shared snippets. *)
Theorem C11_predict_sites_first_rejected :
  forall cbs persite, predict_sites cbs persite = first_rejected persite.
Proof. exact predict_sites_first_rejected. Qed.
Print Assumptions C11_predict_sites_first_rejected.

Theorem C11_predict_sites_mode_independent :
  forall persite, predict_sites false persite = predict_sites true persite.
Proof. exact predict_sites_mode_independent. Qed.
Print Assumptions C11_predict_sites_mode_independent.

Theorem C11_sites_accepted_iff_each_accepted :
  forall cbs persite, predict_sites cbs persite = 0%N <-> Forall (fun c => c = 0%N) persite.
Proof. exact predict_sites_accepted_iff. Qed.
Print Assumptions C11_sites_accepted_iff_each_accepted.

Theorem C11_same_line_in_every_site_answers_as_once :
  forall cbs c n, predict_sites cbs (repeat c (S n)) = c.
Proof. exact predict_sites_same_line. Qed.
Print Assumptions C11_same_line_in_every_site_answers_as_once.
Example C11_same_line_in_every_site_answers_as_once_nonvacuous :
  predict_sites true [0%N; 0%N; 0%N] = 0%N /\ predict_sites false [0%N; 1%N; 0%N] = 1%N.
Proof. vm_compute. repeat split; reflexivity. Qed.

(* ---- validate / start agreement for server blocks with ANY number of keys and setups whose verdict depends on the
   key: executeDirectives runs every directive for EVERY key of a block, in both modes.  [vsetup v f]: the verdict
   [v] is a function of the call (directive, block index, key index = controller.ServerBlockKeyIndex, key =
   controller.Key, the block's tokens), what the call builds ([f]) is arbitrary. ---- *)

(* validation accepts exactly the configurations whose EVERY scheduled call - every key of every block that writes
   the directive, for every directive - is accepted by the verdict; whatever the state it starts from *)
Theorem C11_validation_accepts_iff_every_key_accepts :
  forall (A St : Type) (v : @call A -> bool) (f : @call A -> St -> St)
         (callback : bytes -> St -> C09_Model.outcome St) dirs (bs : list (@C09_Model.block A)) s,
  accepted (vsetup v f) callback false dirs bs s = forallb v (schedule dirs bs).
Proof. exact @validation_accepts_iff_every_key. Qed.
Print Assumptions C11_validation_accepts_iff_every_key_accepts.

(* the directive phase of a start against validation, from ANY two states: what a start accepts validation accepts,
   and when no parsing callback fails a start accepts exactly the configurations validation accepts *)
Theorem C11_start_directive_phase_agrees_with_validation :
  forall (A St : Type) (v : @call A -> bool) (f : @call A -> St -> St)
         (callback : bytes -> St -> C09_Model.outcome St) dirs (bs : list (@C09_Model.block A)) s1 s2,
  (accepted (vsetup v f) callback true dirs bs s2 = true -> accepted (vsetup v f) callback false dirs bs s1 = true) /\
  ((forall d s', C09_Model.out_ok (callback d s') = true) ->
   accepted (vsetup v f) callback true dirs bs s2 = accepted (vsetup v f) callback false dirs bs s1).
Proof. exact @start_directive_phase_agrees. Qed.
Print Assumptions C11_start_directive_phase_agrees_with_validation.

(* a key the verdict rejects ANYWHERE among the keys of a block makes both modes reject *)
Theorem C11_rejected_key_rejects_both_modes :
  forall (A St : Type) (v : @call A -> bool) (f : @call A -> St -> St)
         (callback : bytes -> St -> C09_Model.outcome St) cbs dirs (bs : list (@C09_Model.block A)) s d i b j k toks,
  In d dirs -> nth_error bs i = Some b -> nth_error (fst b) j = Some k ->
  C09_Model.tokens_of (snd b) d = Some toks -> v (d, i, j, k, toks) = false ->
  accepted (vsetup v f) callback cbs dirs bs s = false.
Proof. exact @rejected_key_rejects_both_modes. Qed.
Print Assumptions C11_rejected_key_rejects_both_modes.

(* satisfiable: the verdict rejects the key [42] (third of three keys of the first block), the calls count
   themselves, the callbacks count themselves and never fail *)
Definition ex_kv (c : @call N) : bool := negb (leqb (snd (fst c)) [42%N]).
Example C11_rejected_key_rejects_both_modes_nonvacuous :
  let bs := [([[1%N]; [2%N]; [42%N]], [([100%N], [0%N])])] in
  In [100%N] [[100%N]] /\ nth_error bs 0%nat = Some (hd ([], []) bs) /\
  nth_error (fst (hd ([], []) bs)) 2%nat = Some [42%N] /\
  C09_Model.tokens_of (snd (hd ([], []) bs)) [100%N] = Some [0%N] /\
  ex_kv ([100%N], 0%nat, 2%nat, [42%N], [0%N]) = false /\
  (forall d s', C09_Model.out_ok (ex_callback d s') = true) /\
  accepted (vsetup ex_kv (fun _ s => (S (fst s), snd s))) ex_callback true [[100%N]] bs (0, 0)%nat = false /\
  accepted (vsetup ex_kv (fun _ s => (S (fst s), snd s))) ex_callback true [[100%N]]
           [([[1%N]; [2%N]; [43%N]], [([100%N], [0%N])])] (0, 0)%nat = true.
Proof. cbn zeta. repeat split; try (vm_compute; auto; fail). Qed.
