(* C11 — property theorems only (the regenerated index obligations live in Gen_C11.v). *)
Require Import V.Lib V.C11_Model V.C11_Proofs V.Gen_C11.
Open Scope Z_scope.

(* Every Dispenser operation a setup function can call is TOTAL (no index out of range, whatever
   the token list — including lists spliced from imports with foreign files and line numbers),
   keeps the cursor inside [-1, max(len-1,0)], never moves it backwards, and strictly advances it
   whenever it answers true. *)
Theorem C11_next_total : forall d, cursor_ok d ->
  exists b d', d_next d = Ok (b, d') /\ good d d' b /\ d_nesting d' = d_nesting d.
Proof. exact next_total. Qed.
Print Assumptions C11_next_total.
Theorem C11_next_arg_total : forall d, cursor_ok d ->
  exists b d', d_next_arg d = Ok (b, d') /\ good d d' b /\ d_nesting d' = d_nesting d.
Proof. exact next_arg_total. Qed.
Print Assumptions C11_next_arg_total.
Theorem C11_next_line_total : forall d, cursor_ok d ->
  exists b d', d_next_line d = Ok (b, d') /\ good d d' b /\ d_nesting d' = d_nesting d.
Proof. exact next_line_total. Qed.
Print Assumptions C11_next_line_total.
Theorem C11_val_total : forall d, cursor_ok d -> exists v, d_val d = Ok v.
Proof. exact val_total. Qed.
Print Assumptions C11_val_total.
Theorem C11_next_block_total : forall d initial, cursor_ok d ->
  exists b d', d_next_block d initial = Ok (b, d') /\ cursor_ok d' /\ d_tokens d' = d_tokens d /\
               d_cursor d <= d_cursor d' /\ (b = true -> d_cursor d < d_cursor d').
Proof. exact next_block_total. Qed.
Print Assumptions C11_next_block_total.
Theorem C11_remaining_args_total : forall fuel d acc, cursor_ok d ->
  exists args d', d_remaining_args fuel d acc = Ok (args, d') /\ cursor_ok d' /\
                  d_tokens d' = d_tokens d /\ d_cursor d <= d_cursor d'.
Proof. exact remaining_args_total. Qed.
Print Assumptions C11_remaining_args_total.

(* Termination of the loops `for c.Next()`, `for c.NextArg()`, `for c.NextLine()`,
   `for c.NextBlock()`: each [true] strictly decreases the bounded measure len - cursor. *)
Theorem C11_loop_measure_decreases : forall d d' b,
  cursor_ok d -> good d d' b -> b = true -> dlen d - d_cursor d' < dlen d - d_cursor d.
Proof. exact loop_bound. Qed.
Print Assumptions C11_loop_measure_decreases.
Theorem C11_cursor_bounded : forall d, cursor_ok d ->
  0 <= Z.max (dlen d - 1) 0 - d_cursor d <= Z.max (dlen d) 1.
Proof. exact cursor_bounded. Qed.
Print Assumptions C11_cursor_bounded.
Theorem C11_fresh_dispenser_ok : forall toks,
  cursor_ok {| d_tokens := toks; d_cursor := -1; d_nesting := 0 |}.
Proof. exact init_cursor_ok. Qed.
Print Assumptions C11_fresh_dispenser_ok.

(* The index obligations regenerated from the setup functions of the current tree, as ONE statement:
   the conjunction of every obligation `0 <= i < len` (or slice bound) under the guards in scope at
   that source line (Gen_C11.v; `Print c11_all_obligations.` shows them). An obligation that lia
   cannot prove is taken out of the conjunction by lib/c11.py and reported by the check as a
   violation (or as a pinned site, lib/c11_pins.json). *)
Theorem C11_index_obligations_hold : c11_all_obligations.
Proof. exact c11_all_obligations_hold. Qed.
Print Assumptions C11_index_obligations_hold.
