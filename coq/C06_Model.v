(* C06 — TLS settings follow the SNI-matched site; no TLS/plaintext mixing: executable model.
   Mirrors caskettls/handshake.go (configGroup.getConfig, normalizedName),
   caskettls/config.go (MakeTLSConfig, buildStandardTLSConfig, assertConfigsCompatible,
   assertClientCertsCompatible, SetDefaultTLSParams), caskettls/setup.go (the protocols /
   ciphers / clients / insecure_disable_sni_matching sub-directives of setupTLS),
   caskethttp/httpserver/server.go (serveHTTP's strict SNI = Host test) composed with the host
   level of vhosttrie.go (Insert/Match/matchHost/splitHostPath) and net.SplitHostPort.
   Host names / SNI values are ASCII byte strings.  Definitions only. *)
Require Import V.Lib V.GoPath.
Open Scope N_scope.
Delimit Scope string_scope with string.

(* ------------------------------------------------------------------ strings *)
Definition COLON : N := 58.
Definition LBR : N := 91.
Definition RBR : N := 93.
Definition STAR : N := 42.

Definition is_nil {A} (l : list A) : bool := match l with [] => true | _ => false end.

(* strings.TrimSpace on ASCII input *)
Definition is_space (c : N) : bool :=
  (c =? 9) || (c =? 10) || (c =? 11) || (c =? 12) || (c =? 13) || (c =? 32).
Fixpoint trim_left (s : bytes) : bytes :=
  match s with
  | c :: r => if is_space c then trim_left r else s
  | [] => []
  end.
Definition trim_space (s : bytes) : bytes := rev (trim_left (rev (trim_left s))).

(* handshake.go:normalizedName *)
Definition normalized_name (s : bytes) : bytes := to_lower (trim_space s).

Fixpoint index_of (c : N) (s : bytes) : option nat :=
  match s with
  | [] => None
  | x :: r => if x =? c then Some O else option_map S (index_of c r)
  end.
Definition last_index_of (c : N) (s : bytes) : option nat :=
  match index_of c (rev s) with
  | Some i => Some (length s - 1 - i)%nat
  | None => None
  end.
Definition contains (c : N) (s : bytes) : bool := existsb (N.eqb c) s.

(* net.SplitHostPort, host result only; None = error *)
Definition split_host (s : bytes) : option bytes :=
  match last_index_of COLON s with
  | None => None
  | Some i =>
    match s with
    | [] => None
    | c0 :: s1 =>
      if c0 =? LBR then
        match index_of RBR s with
        | None => None
        | Some e =>
          if Nat.eqb (e + 1) i then
            if contains LBR s1 || contains RBR (skipn (e + 1) s) then None
            else Some (firstn (e - 1) s1)
          else None
        end
      else
        let host := firstn i s in
        if contains COLON host || contains LBR s || contains RBR s then None else Some host
    end
  end.

(* host, or the input itself when SplitHostPort fails (the idiom used by serveHTTP,
   splitHostPath and getConfig) *)
Definition host_only (s : bytes) : bytes :=
  match split_host s with Some h => h | None => s end.

Fixpoint before_slash (s : bytes) : bytes :=
  match s with
  | [] => []
  | c :: r => if c =? SLASH then [] else c :: before_slash r
  end.

(* ------------------------------------------------------------------ maps (Go map[string]V) *)
Section Map.
Context {V : Type}.
Definition amap := list (bytes * V).
Fixpoint mget (k : bytes) (m : amap) : option V :=
  match m with
  | [] => None
  | (k', v) :: r => if beq k' k then Some v else mget k r
  end.
Fixpoint mset (k : bytes) (v : V) (m : amap) : amap :=
  match m with
  | [] => [(k, v)]
  | (k', v') :: r => if beq k' k then (k, v) :: r else (k', v') :: mset k v r
  end.
(* first candidate that is a key *)
Fixpoint find_key (m : amap) (cands : list bytes) : option (bytes * V) :=
  match cands with
  | [] => None
  | c :: r => match mget c m with Some v => Some (c, v) | None => find_key m r end
  end.
End Map.
Arguments amap V : clear implicits.

(* ------------------------------------------------------------------ wildcard candidates *)
(* the loop  labels[i] = "*"; candidate = Join(labels, ".")  of getConfig and matchHost *)
Fixpoint wild_cands_aux (stars rest : list bytes) : list bytes :=
  match rest with
  | [] => []
  | _ :: r => let stars' := stars ++ [[STAR]] in
              join [DOT] (stars' ++ r) :: wild_cands_aux stars' r
  end.
Definition wild_cands (name : bytes) : list bytes := wild_cands_aux [] (split DOT name).

(* closed form used by the specification: the k leftmost labels replaced by "*" *)
Definition cand (name : bytes) (k : nat) : bytes :=
  join [DOT] (repeat [STAR] k ++ skipn k (split DOT name)).
(* candidates in decreasing specificity: exact, 1..n starred labels, catch-all "" *)
Definition spec_cands (name : bytes) : list bytes :=
  name :: map (cand name) (seq 1 (length (split DOT name))) ++ [[]].

Fixpoint first_index (k : bytes) (l : list bytes) : option nat :=
  match l with
  | [] => None
  | x :: r => if beq x k then Some O else option_map S (first_index k r)
  end.
(* specificity level of key k for a name: 0 exact, j = j labels starred, n+1 catch-all *)
Definition level (name k : bytes) : option nat := first_index k (spec_cands name).

(* ------------------------------------------------------------------ getConfig *)
Inductive lookup (V : Type) :=
| Found (k : bytes) (v : V)
| Fallback            (* "failover with a random config": any value of the map *)
| NoConfig.           (* empty group: nil *)
Arguments Found {V} k v.
Arguments Fallback {V}.
Arguments NoConfig {V}.

Definition effective_name (dflt sni : bytes) : bytes :=
  let n := normalized_name sni in
  if is_nil n then normalized_name dflt else n.

(* conn = hello.Conn.LocalAddr().String() when hello.Conn != nil *)
Definition get_config {V} (m : amap V) (dflt : bytes) (conn : option bytes) (sni : bytes) : lookup V :=
  let name := effective_name dflt sni in
  let ipstep :=
    if is_nil name then
      match conn with
      | Some a => match mget (host_only a) m with Some v => Some (host_only a, v) | None => None end
      | None => None
      end
    else None in
  match ipstep with
  | Some (k, v) => Found k v
  | None =>
    match find_key m (name :: wild_cands name ++ [[]]) with
    | Some (k, v) => Found k v
    | None => match m with [] => NoConfig | _ => Fallback end
    end
  end.

(* ------------------------------------------------------------------ caskettls.Config *)
Record tcfg := mkT {
  host : bytes; enabled : bool; pmin : N; pmax : N; ciphers : list N; curves : list N;
  alpn : list bytes; prefer : bool; cauth : N; ccerts : list bytes; insecure : bool }.

(* the fields of the built *tls.Config that the listener hands to crypto/tls *)
Record btls := mkB {
  b_min : N; b_max : N; b_ciphers : list N; b_curves : list N; b_alpn : list bytes;
  b_prefer : bool; b_cauth : N }.

Definition SCSV : N := 22016.      (* tls.TLS_FALLBACK_SCSV 0x5600 *)
Definition TLS10 : N := 769.
Definition TLS11 : N := 770.
Definition TLS12 : N := 771.
Definition TLS13 : N := 772.
Definition ACME_ALPN : bytes := bs "acme-tls/1"%string.

(* defaultCiphers / defaultCiphersNonAESNI *)
Definition default_ciphers (aesni : bool) : list N :=
  if aesni then [49196; 49200; 49195; 49199; 52393; 52392]
  else [52393; 52392; 49196; 49200; 49195; 49199].
Definition default_curves : list N := [29; 23].

Fixpoint dedupe_aux (seen l : list N) : list N :=
  match l with
  | [] => []
  | x :: r => if existsb (N.eqb x) seen then dedupe_aux seen r else x :: dedupe_aux (x :: seen) r
  end.
Definition dedupe (l : list N) : list N := dedupe_aux [] l.

Definition mem_bytes (x : bytes) (l : list bytes) : bool := existsb (beq x) l.

Definition scsv_first (l : list N) : list N :=
  match l with
  | x :: _ => if x =? SCSV then l else SCSV :: l
  | [] => [SCSV]
  end.

(* buildStandardTLSConfig: None = error (a client CA file cannot be loaded: [bad] lists such
   files); Some None = TLS disabled, no tls.Config *)
Definition build (dc : list N) (bad : list bytes) (c : tcfg) : option (option btls) :=
  if negb (enabled c) then Some None
  else if negb (cauth c =? 0) && existsb (fun f => mem_bytes f bad) (ccerts c) then None
  else
    let cs := dedupe (ciphers c) in
    let cs := if is_nil cs then dc else cs in
    Some (Some {| b_min := pmin c; b_max := pmax c; b_ciphers := scsv_first cs;
                  b_curves := dedupe (curves c);
                  b_alpn := if mem_bytes ACME_ALPN (alpn c) then alpn c else alpn c ++ [ACME_ALPN];
                  b_prefer := prefer c; b_cauth := cauth c |}).

Definition listN_beq := list_beq N.eqb.
Definition listB_beq := list_beq beq.

Definition btls_beq (x y : btls) : bool :=
  listN_beq (b_ciphers x) (b_ciphers y) && listN_beq (b_curves x) (b_curves y) &&
  listB_beq (b_alpn x) (b_alpn y) && Bool.eqb (b_prefer x) (b_prefer y) &&
  (b_min x =? b_min y) && (b_max x =? b_max y) && (b_cauth x =? b_cauth y).

(* assertConfigsCompatible + assertClientCertsCompatible *)
Definition compat (c1 c2 : tcfg) (b1 b2 : option btls) : bool :=
  match b1, b2 with
  | None, None => true
  | Some x, Some y =>
      btls_beq x y &&
      (if (b_cauth x =? 0) || (b_cauth y =? 0) then true else listB_beq (ccerts c1) (ccerts c2))
  | _, _ => false
  end.

(* "0.0.0.0" and "::" are stored (and checked for compatibility) under the catch-all key *)
Definition key_of (h : bytes) : bytes :=
  if beq h (bs "0.0.0.0"%string) || beq h (bs "::"%string) then [] else h.

Definition gval := (nat * tcfg * option btls)%type.   (* index in configs, the Config, its tlsConfig *)
Inductive mkres :=
| MkNil                      (* (nil, nil): no configs or TLS disabled *)
| MkErr (cls : N)            (* 1 multiplex TLS/not TLS, 2 build error, 3 incompatible same name *)
| MkGroup (g : amap gval).

(* a nil entry is replaced by new(Config) — no host name, TLS disabled — and then treated like
   every other config *)
Definition nil_cfg : tcfg := mkT [] false 0 0 [] [] [] false 0 [] false.
Definition cfg_of (o : option tcfg) : tcfg := match o with Some c => c | None => nil_cfg end.

Fixpoint mk_loop (dc : list N) (bad : list bytes) (i : nat) (prev : option bool)
         (cs : list (option tcfg)) (m : amap gval) : N + amap gval :=
  match cs with
  | [] => inr m
  | o :: r =>
    let c := cfg_of o in
    if match prev with Some p => negb (Bool.eqb (enabled c) p) | None => false end then inl 1
    else match build dc bad c with
         | None => inl 2
         | Some ob =>
           if match mget (key_of (host c)) m with
              | Some (_, c2, ob2) => negb (compat c c2 ob ob2)
              | None => false
              end then inl 3
           else mk_loop dc bad (S i) (Some (enabled c)) r (mset (key_of (host c)) (i, c, ob) m)
         end
  end.

Definition first_enabled (cs : list (option tcfg)) : bool :=
  match cs with Some c :: _ => enabled c | _ => false end.

Definition make_tls_config (dc : list N) (bad : list bytes) (cs : list (option tcfg)) : mkres :=
  match cs with
  | [] => MkNil
  | _ => match mk_loop dc bad 0 None cs [] with
         | inl e => MkErr e
         | inr m => if first_enabled cs then MkGroup m else MkNil
         end
  end.

(* SetDefaultTLSParams *)
Definition set_default (dc : list N) (c : tcfg) : tcfg :=
  {| host := host c; enabled := enabled c;
     pmin := if pmin c =? 0 then TLS12 else pmin c;
     pmax := if pmax c =? 0 then TLS13 else pmax c;
     ciphers := SCSV :: (if is_nil (ciphers c) then dc else ciphers c);
     curves := if is_nil (curves c) then default_curves else curves c;
     alpn := alpn c; prefer := true; cauth := cauth c; ccerts := ccerts c; insecure := insecure c |}.

(* ------------------------------------------------------------------ the tls directive *)
Inductive tlsopt :=
| OProtocols (args : list bytes)
| OCiphers (names : list bytes)
| OClients (args : list bytes)
| OInsecure
| OAlpn (args : list bytes).

Definition to_upper_byte (c : N) : N := if (97 <=? c) && (c <=? 122) then c - 32 else c.
Definition to_upper (s : bytes) : bytes := map to_upper_byte s.

Definition protocol_of (s : bytes) : option N :=
  let l := to_lower s in
  if beq l (bs "tls1.0"%string) then Some TLS10 else if beq l (bs "tls1.1"%string) then Some TLS11
  else if beq l (bs "tls1.2"%string) then Some TLS12 else if beq l (bs "tls1.3"%string) then Some TLS13 else None.

Definition cipher_table : list (bytes * N) :=
  [ (bs "ECDHE-ECDSA-AES256-GCM-SHA384"%string, 49196); (bs "ECDHE-RSA-AES256-GCM-SHA384"%string, 49200);
    (bs "ECDHE-ECDSA-AES128-GCM-SHA256"%string, 49195); (bs "ECDHE-RSA-AES128-GCM-SHA256"%string, 49199);
    (bs "ECDHE-ECDSA-WITH-CHACHA20-POLY1305"%string, 52393); (bs "ECDHE-RSA-WITH-CHACHA20-POLY1305"%string, 52392);
    (bs "ECDHE-RSA-AES256-CBC-SHA"%string, 49172); (bs "ECDHE-RSA-AES128-CBC-SHA"%string, 49171);
    (bs "ECDHE-ECDSA-AES256-CBC-SHA"%string, 49162); (bs "ECDHE-ECDSA-AES128-CBC-SHA"%string, 49161);
    (bs "RSA-AES256-CBC-SHA"%string, 53); (bs "RSA-AES128-CBC-SHA"%string, 47);
    (bs "ECDHE-RSA-3DES-EDE-CBC-SHA"%string, 49170); (bs "RSA-3DES-EDE-CBC-SHA"%string, 10) ].
Definition cipher_of (s : bytes) : option N := mget (to_upper s) cipher_table.

Fixpoint ciphers_of (names : list bytes) : option (list N) :=
  match names with
  | [] => Some []
  | n :: r => match cipher_of n, ciphers_of r with
              | Some c, Some l => Some (c :: l)
              | _, _ => None
              end
  end.

(* one sub-directive applied to the config being filled; None = setup error *)
Definition apply_opt (c : tcfg) (o : tlsopt) : option tcfg :=
  let upd mn mx cph al ca cc ins :=
    {| host := host c; enabled := enabled c; pmin := mn; pmax := mx; ciphers := cph;
       curves := curves c; alpn := al; prefer := prefer c; cauth := ca; ccerts := cc; insecure := ins |} in
  match o with
  | OProtocols [a] =>
      match protocol_of a with
      | Some v => Some (upd v v (ciphers c) (alpn c) (cauth c) (ccerts c) (insecure c))
      | None => None
      end
  | OProtocols (a :: b :: _) =>
      match protocol_of a, protocol_of b with
      | Some lo, Some hi =>
          if hi <? lo then None
          else Some (upd lo hi (ciphers c) (alpn c) (cauth c) (ccerts c) (insecure c))
      | _, _ => None
      end
  | OProtocols [] => None     (* the real code panics here (args[0]); never generated *)
  | OCiphers names =>
      match ciphers_of names with
      | Some l => Some (upd (pmin c) (pmax c) (ciphers c ++ l) (alpn c) (cauth c) (ccerts c) (insecure c))
      | None => None
      end
  | OClients [] => None
  | OClients (m :: rest) =>
      let '(mode, start, must) :=
        if beq m (bs "request"%string) then (1, 1%nat, false)
        else if beq m (bs "require"%string) then (2, 1%nat, false)
        else if beq m (bs "verify_if_given"%string) then (3, 1%nat, true)
        else (4, 0%nat, true) in
      if must && Nat.leb (length (m :: rest)) start then None
      else Some (upd (pmin c) (pmax c) (ciphers c) (alpn c) mode (skipn start (m :: rest)) (insecure c))
  | OInsecure => Some (upd (pmin c) (pmax c) (ciphers c) (alpn c) (cauth c) (ccerts c) true)
  | OAlpn [] => None
  | OAlpn args => Some (upd (pmin c) (pmax c) (ciphers c) (alpn c ++ args) (cauth c) (ccerts c) (insecure c))
  end.

Fixpoint apply_opts (c : tcfg) (os : list tlsopt) : option tcfg :=
  match os with
  | [] => Some c
  | o :: r => match apply_opt c o with Some c' => apply_opts c' r | None => None end
  end.

Definition empty_cfg (h : bytes) : tcfg :=
  mkT h false 0 0 [] [] [] false 0 [] false.

(* setupTLS for `tls off` (off = true), `tls <cert> <key> { opts }` (hasargs) or `tls { opts }` *)
Definition tls_setup (dc : list N) (h : bytes) (off : bool) (hasargs : bool) (os : list tlsopt) : option tcfg :=
  let c0 := mkT h true 0 0 [] [] [] false 0 [] false in
  if off then Some (empty_cfg h)
  else if negb hasargs && is_nil os then None     (* `tls` needs an argument or a non-empty block *)
  else match apply_opts c0 os with
       | Some c => Some (set_default dc c)
       | None => None
       end.

(* ------------------------------------------------------------------ serveHTTP *)
Record site := mkS { s_addr : bytes;      (* Addr.VHost(): the address as written, without scheme *)
                     s_tls : tcfg }.      (* TLS.Hostname = normalised Addr.Host *)

(* vhostTrie.splitHostPath, host part: lower-case, port stripped; the brackets of a port-less
   bracketed literal are dropped *)
Definition strip_brackets (h : bytes) : bytes :=
  match h with
  | c0 :: r => match rev r with
               | c1 :: m => if (c0 =? LBR) && (c1 =? RBR) then rev m else h
               | [] => h
               end
  | [] => h
  end.
Definition vhost_key (key : bytes) : bytes :=
  let h := to_lower (before_slash key) in
  match split_host h with Some x => x | None => strip_brackets h end.

Fixpoint vinsert (i : nat) (sites : list site) (e : amap nat) : amap nat :=
  match sites with
  | [] => e
  | s :: r => vinsert (S i) r (mset (vhost_key (s_addr s)) i e)
  end.
Definition vhosts (sites : list site) : amap nat := vinsert 0 sites [].

Definition match_host (e : amap nat) (h : bytes) : option (bytes * nat) :=
  find_key e (h :: wild_cands h).

Definition fallback_hosts : list bytes := [bs "0.0.0.0"%string; bs "::"%string; []].
(* the wildcard candidates matchHost derives from the fallback hosts: "*.0.0.0", "*.*.0.0",
   "*.*.*.0", "*.*.*.*" and "*" — a site with such a name answers for every unmatched host *)
Definition fallback_star_names : list bytes := flat_map wild_cands fallback_hosts.

Fixpoint first_match (e : amap nat) (hs : list bytes) : option (bytes * nat) :=
  match hs with
  | [] => None
  | h :: r => match match_host e h with Some x => Some x | None => first_match e r end
  end.
(* vhostTrie.Match at the host level (every site is keyed with path "/") *)
Definition vmatch (e : amap nat) (h : bytes) : option (bytes * nat) :=
  first_match e (h :: fallback_hosts).

Inductive outcome := NoSite | Forbidden (i : nat) | Served (i : nat).

Definition demands (c : tcfg) : bool := negb (cauth c =? 0) && negb (insecure c).

(* hostname as serveHTTP computes it from r.Host *)
Definition req_hostname (rhost : bytes) : bytes := host_only rhost.
(* the host the vhost trie is searched for: Match(hostname + "/") *)
Definition route_host (rhost : bytes) : bytes := vhost_key (req_hostname rhost ++ [SLASH]).

(* Server.handshakeWithoutSNIElsewhere: a handshake without SNI is governed by the default server
   name or else by a site named by the local IP address of the connection before any catch-all
   config is considered (dflt = certmagic.Default.DefaultServerName, conn = the LocalAddr of the
   connection as found in the request context) *)
Definition sniless_elsewhere (sites : list site) (dflt : bytes) (conn : option bytes) : bool :=
  negb (is_nil (trim_space dflt)) ||
  match conn with
  | Some a => existsb (fun s => beq (host (s_tls s)) (host_only a)) sites
  | None => false
  end.

(* the SNI value is compared to the host name the site was looked up by (routedHost); a
   connection without SNI must in addition not have been governed elsewhere *)
Definition strict_fail (c : tcfg) (tls : option bytes) (routed : bytes) (elsewhere : bool) : bool :=
  match tls with
  | Some sni => demands c && (negb (beq (to_lower sni) routed) || (is_nil sni && elsewhere))
  | None => false
  end.

Definition serve (sites : list site) (dflt : bytes) (conn : option bytes) (tls : option bytes)
           (rhost : bytes) : outcome :=
  match vmatch (vhosts sites) (route_host rhost) with
  | None => NoSite
  | Some (_, i) =>
      match nth_error sites i with
      | None => NoSite
      | Some s => if strict_fail (s_tls s) tls (route_host rhost) (sniless_elsewhere sites dflt conn)
                  then Forbidden i else Served i
      end
  end.

(* crypto/tls version negotiation for a client offering [cmin, cmax] (trusted, observed on
   real handshakes): highest common version *)
Definition negotiate (b : btls) (cmin cmax : N) : option N :=
  let hi := N.min (b_max b) cmax in
  let lo := N.max (b_min b) cmin in
  if lo <=? hi then Some hi else None.

(* ------------------------------------------------------------------ correspondence cases *)
Inductive lobs :=
| LErr (cls : N)
| LNil                       (* MakeTLSConfig returned (nil, nil) *)
| LNone                      (* GetConfigForClient returned nil *)
| LGov (i : nat) (b : btls). (* governing Config = configs[i], its tls.Config fields *)

Inductive sobs :=            (* what happened to a request *)
| SNoSite | SForbidden | SServed (i : nat).

Inductive case :=
| CSplit (s : bytes) (obs : option bytes)
| CLookup (aesni : bool) (bad : list bytes) (cfgs : list (option tcfg)) (dflt : bytes)
          (conn : option bytes) (sni : bytes) (obs : lobs)
| CDefaults (aesni : bool) (c : tcfg) (twice : bool) (obs : tcfg) (obs_built : lobs)
| CSetup (aesni : bool) (off : bool) (opts : list tlsopt) (obs : option tcfg)
| CServe (aesni : bool) (sites : list site) (dflt : bytes) (conn : option bytes)
         (tls : option bytes) (rhost : bytes) (obs_gov : lobs) (obs : sobs)
(* real handshake against a started instance: per site (address, off?, sub-directives); client
   default server name (-default-sni) in force, SNI as sent, offered version range, Host header
   (empty for an HTTP/1.0 request without Host);
   observed: 0 start error class / handshake failure / negotiated version, certificate asked,
   response *)
| CHandshake (aesni : bool) (sites : list (bytes * bytes * bool * list tlsopt)) (conn : bytes) (dflt : bytes)
             (sni : bytes) (cmin cmax : N) (rhost : bytes)
             (obs_start : N) (obs_version : N) (obs_asked : bool) (obs : sobs).

(* ---- equality helpers ---- *)
Definition opt_bytes_beq (a b : option bytes) : bool :=
  match a, b with Some x, Some y => beq x y | None, None => true | _, _ => false end.

Definition tcfg_beq (x y : tcfg) : bool :=
  beq (host x) (host y) && Bool.eqb (enabled x) (enabled y) && (pmin x =? pmin y) && (pmax x =? pmax y) &&
  listN_beq (ciphers x) (ciphers y) && listN_beq (curves x) (curves y) && listB_beq (alpn x) (alpn y) &&
  Bool.eqb (prefer x) (prefer y) && (cauth x =? cauth y) && listB_beq (ccerts x) (ccerts y) &&
  Bool.eqb (insecure x) (insecure y).

Definition lobs_beq (a b : lobs) : bool :=
  match a, b with
  | LErr x, LErr y => x =? y
  | LNil, LNil => true
  | LNone, LNone => true
  | LGov i x, LGov j y => Nat.eqb i j && btls_beq x y
  | _, _ => false
  end.

Definition sobs_beq (a b : sobs) : bool :=
  match a, b with
  | SNoSite, SNoSite => true
  | SForbidden, SForbidden => true
  | SServed i, SServed j => Nat.eqb i j
  | _, _ => false
  end.

(* model of MakeTLSConfig(...).GetConfigForClient(hello); None = nondeterministic fallback *)
Definition model_lookup (dc : list N) (bad : list bytes) (cfgs : list (option tcfg)) (dflt : bytes)
           (conn : option bytes) (sni : bytes) : option lobs * amap gval :=
  match make_tls_config dc bad cfgs with
  | MkErr e => (Some (LErr e), [])
  | MkNil => (Some LNil, [])
  | MkGroup g =>
      match get_config g dflt conn sni with
      | Found _ (i, _, Some b) => (Some (LGov i b), g)
      | Found _ (_, _, None) => (Some LNone, g)
      | NoConfig => (Some LNone, g)
      | Fallback => (None, g)
      end
  end.

Definition lookup_agree (m : option lobs * amap gval) (obs : lobs) : bool :=
  match fst m with
  | Some l => lobs_beq l obs
  | None => match obs with
            | LGov i b => existsb (fun kv => match snd kv with
                                             | (j, _, Some b') => Nat.eqb i j && btls_beq b b'
                                             | _ => false end) (snd m)
            | _ => false
            end
  end.

(* ---- the executable specification, evaluated on the implementation's observation ---- *)
Definition some_cfgs (cfgs : list (option tcfg)) : list tcfg :=
  flat_map (fun o => match o with Some c => [c] | None => [] end) cfgs.

(* a nil entry is a plaintext placeholder (MakeTLSConfig replaces it by a disabled Config) *)
Definition mixed (cfgs : list (option tcfg)) : bool :=
  existsb (fun o => match o with Some c => enabled c | None => false end) cfgs &&
  existsb (fun o => match o with Some c => negb (enabled c) | None => true end) cfgs.

Definition raw_same (x y : tcfg) : bool :=
  (pmin x =? pmin y) && (pmax x =? pmax y) && listN_beq (ciphers x) (ciphers y) &&
  listN_beq (curves x) (curves y) && listB_beq (alpn x) (alpn y) && Bool.eqb (prefer x) (prefer y) &&
  (cauth x =? cauth y) && listB_beq (ccerts x) (ccerts y).

(* specificity of key k for the handshake: the local-IP step for an empty name ranks first *)
Definition srank (dflt : bytes) (conn : option bytes) (sni : bytes) (k : bytes) : option nat :=
  let name := effective_name dflt sni in
  if is_nil name && match conn with Some a => beq k (host_only a) | None => false end then Some O
  else option_map S (level name k).

Definition opt_le (a b : option nat) : bool :=
  match a, b with
  | Some x, Some y => Nat.leb x y
  | Some _, None => true
  | None, Some _ => false
  | None, None => true
  end.

Definition nodup_N (l : list N) : bool :=
  (fix go (l : list N) := match l with [] => true | x :: r => negb (existsb (N.eqb x) r) && go r end) l.

(* the settings the listener applies are the site's own *)
Definition settings_ok (dc : list N) (c : tcfg) (b : btls) : bool :=
  (b_min b =? pmin c) && (b_max b =? pmax c) && (b_cauth b =? cauth c) &&
  match b_ciphers b with
  | x :: rest => (x =? SCSV) && nodup_N (b_ciphers b) &&
                 forallb (fun y => existsb (N.eqb y) (if is_nil (ciphers c) then dc else ciphers c)) rest &&
                 forallb (fun y => (y =? SCSV) || existsb (N.eqb y) rest)
                         (if is_nil (ciphers c) then dc else ciphers c)
  | [] => false
  end.

Definition lookup_spec (dc : list N) (bad : list bytes) (cfgs : list (option tcfg)) (dflt : bytes)
           (conn : option bytes) (sni : bytes) (obs : lobs) : bool :=
  let cs := some_cfgs cfgs in
  if mixed cfgs then match obs with LErr _ => true | _ => false end
  else match obs with
  | LErr cls =>
      if cls =? 1 then false
      else if cls =? 2 then existsb (fun c => enabled c && negb (cauth c =? 0) &&
                                             existsb (fun f => mem_bytes f bad) (ccerts c)) cs
      else existsb (fun c => existsb (fun c' => beq (key_of (host c)) (key_of (host c')) && negb (raw_same c c')) cs) cs
  | LNil => forallb (fun c => negb (enabled c)) cs
  | LNone => false
  | LGov i b =>
      match nth_error cfgs i with
      | Some (Some c) =>
          enabled c && settings_ok dc c b &&
          (* every site that shares the governing name sees its own settings applied *)
          forallb (fun c' => negb (beq (key_of (host c')) (key_of (host c))) || settings_ok dc c' b) cs &&
          let r := srank dflt conn sni (key_of (host c)) in
          forallb (fun c' => opt_le r (srank dflt conn sni (key_of (host c')))) cs
      | _ => false
      end
  end.

(* what two sites stored under one key must agree on (the compatibility assert demands more) *)
Definition policy_compatible (x y : tcfg) : bool :=
  (pmin x =? pmin y) && (pmax x =? pmax y) && (cauth x =? cauth y) &&
  ((cauth x =? 0) || listB_beq (ccerts x) (ccerts y)).

(* policy equality that matters for the client-certificate clause *)
Definition same_policy (x y : tcfg) : bool :=
  (cauth x =? cauth y) && listB_beq (ccerts x) (ccerts y).

Definition serve_spec (sites : list site) (dflt : bytes) (conn : option bytes) (tls : option bytes)
           (rhost : bytes) (obs_gov : lobs) (obs : sobs) : bool :=
  match obs with
  | SServed v =>
      match nth_error sites v, tls with
      | Some s, Some sni =>
          if demands (s_tls s) then
            beq (to_lower sni) (route_host rhost) &&
            match obs_gov with
            | LGov g _ => match nth_error sites g with
                          | Some sg => same_policy (s_tls sg) (s_tls s)
                          | None => false end
            | _ => false
            end
          else true
      | Some _, None => true
      | None, _ => false
      end
  | SForbidden =>
      (* refused only on a TLS connection: for a name mismatch (SNI against the host name the
         request is routed by), or, the handshake having carried no SNI, when a default server
         name is set or a site is named by the local address (such a handshake is not tied to
         the catch-all site) *)
      match tls with
      | Some sni => negb (beq (to_lower sni) (route_host rhost)) ||
                    (is_nil sni &&
                     (negb (is_nil (trim_space dflt)) ||
                      match conn with
                      | Some a => existsb (fun s => beq (host (s_tls s)) (host_only a)) sites
                      | None => false
                      end))
      | None => false
      end
  | SNoSite => true
  end.

Definition sobs_of (o : outcome) : sobs :=
  match o with NoSite => SNoSite | Forbidden _ => SForbidden | Served i => SServed i end.

(* ---- handshake cases ---- *)
Fixpoint setup_sites (dc : list N) (l : list (bytes * bytes * bool * list tlsopt)) : option (list site) :=
  match l with
  | [] => Some []
  | (addr, h, off, os) :: r =>
      match tls_setup dc h off true os, setup_sites dc r with
      | Some c, Some ss => Some (mkS addr c :: ss)
      | _, _ => None
      end
  end.

(* TLS 1.0/1.1 need a CBC-SHA suite usable with the ECDSA test certificate; 1.2 an ECDSA suite *)
Definition version_feasible (b : btls) (v : N) : bool :=
  if v <? TLS12 then existsb (fun c => (c =? 49162) || (c =? 49161)) (b_ciphers b)
  else if v =? TLS12 then existsb (fun c => (c =? 49196) || (c =? 49195) || (c =? 52393) ||
                                            (c =? 49162) || (c =? 49161)) (b_ciphers b)
  else true.

Definition judge (c : case) : N :=
  match c with
  | CSplit s obs => verdict (opt_bytes_beq (split_host s) obs) true
  | CLookup aesni bad cfgs dflt conn sni obs =>
      let dc := default_ciphers aesni in
      verdict (lookup_agree (model_lookup dc bad cfgs dflt conn sni) obs)
              (lookup_spec dc bad cfgs dflt conn sni obs)
  | CDefaults aesni c twice obs obs_built =>
      let dc := default_ciphers aesni in
      let m := if twice then set_default dc (set_default dc c) else set_default dc c in
      let agree := tcfg_beq m obs &&
                   lookup_agree (model_lookup dc [] [Some m] [] None (host m)) obs_built in
      let spec :=
        (pmin obs =? (if pmin c =? 0 then TLS12 else pmin c)) &&
        (pmax obs =? (if pmax c =? 0 then TLS13 else pmax c)) &&
        (cauth obs =? cauth c) && Bool.eqb (enabled obs) (enabled c) &&
        match obs_built with
        | LGov _ b => enabled c &&
                      settings_ok dc (mkT (host c) true (if pmin c =? 0 then TLS12 else pmin c)
                                          (if pmax c =? 0 then TLS13 else pmax c) (ciphers c) [] []
                                          true (cauth c) [] false) b
        | LNil => negb (enabled c)
        | _ => false
        end in
      verdict agree spec
  | CSetup aesni off opts obs =>
      let dc := default_ciphers aesni in
      let m := tls_setup dc [] off false opts in
      let agree := match m, obs with
                   | Some x, Some y => tcfg_beq x y
                   | None, None => true
                   | _, _ => false end in
      (* spec: TLS 1.2 minimum / 1.3 maximum unless a protocols sub-directive says otherwise;
         client policy exactly as the last clients sub-directive says; off disables *)
      let protos := flat_map (fun o => match o with OProtocols a => [a] | _ => [] end) opts in
      let clients := flat_map (fun o => match o with OClients a => [a] | _ => [] end) opts in
      let spec :=
        match obs with
        | None => true
        | Some y =>
            if off then negb (enabled y)
            else enabled y &&
              match rev protos with
              | [] => (pmin y =? TLS12) && (pmax y =? TLS13)
              | [a] :: _ => match protocol_of a with Some v => (pmin y =? v) && (pmax y =? v) | None => false end
              | (a :: b :: _) :: _ =>
                  match protocol_of a, protocol_of b with
                  | Some lo, Some hi => (pmin y =? lo) && (pmax y =? hi) && (lo <=? hi)
                  | _, _ => false end
              | [] :: _ => false
              end &&
              match rev clients with
              | [] => cauth y =? 0
              | (m :: _) :: _ =>
                  cauth y =? (if beq m (bs "request"%string) then 1 else if beq m (bs "require"%string) then 2
                              else if beq m (bs "verify_if_given"%string) then 3 else 4)
              | [] :: _ => false
              end &&
              match ciphers y with x :: _ => x =? SCSV | [] => false end
        end in
      verdict agree spec
  | CServe aesni sites dflt conn tls rhost obs_gov obs =>
      let dc := default_ciphers aesni in
      let cfgs := map (fun s => Some (s_tls s)) sites in
      let sni := match tls with Some s => s | None => [] end in
      let ml := model_lookup dc [] cfgs dflt conn sni in
      let agree :=
        lookup_agree ml obs_gov &&
        match obs_gov with
        | LErr _ => true
        | _ => sobs_beq (sobs_of (serve sites dflt conn tls rhost)) obs
        end in
      let spec :=
        match obs_gov with
        | LErr _ => lookup_spec dc [] cfgs dflt conn sni obs_gov
        | _ => lookup_spec dc [] cfgs dflt conn sni obs_gov && serve_spec sites dflt conn tls rhost obs_gov obs
        end in
      verdict agree spec
  | CHandshake aesni raw conn dflt sni cmin cmax rhost obs_start obs_version obs_asked obs =>
      let dc := default_ciphers aesni in
      match setup_sites dc raw with
      | None => verdict (obs_start =? 9) true            (* a directive was rejected *)
      | Some sites =>
          let cfgs := map (fun s => Some (s_tls s)) sites in
          let ml := model_lookup dc [] cfgs dflt (Some conn) sni in
          (* spec, from the observations alone.  On the wire: version inside the range of a most
             specific site, certificate asked iff that site's policy says so, a site that demands
             certificates only answers on a connection where one was asked for; an instance that
             started has no TLS/plaintext mix and no two sites under one key with different
             protocol ranges or client-certificate policies *)
          let cs := some_cfgs cfgs in
          let rk c := srank dflt (Some conn) sni (key_of (host c)) in
          let most_specific c := forallb (fun c' => opt_le (rk c) (rk c')) cs in
          let spec_started :=
            negb (mixed cfgs) &&
            forallb (fun c => forallb (fun c' => negb (beq (key_of (host c)) (key_of (host c'))) ||
                                                 policy_compatible c c') cs) cs &&
            ((obs_version =? 0) ||
             ((cmin <=? obs_version) && (obs_version <=? cmax) &&
              existsb (fun c => most_specific c && (pmin c <=? obs_version) &&
                                (obs_version <=? pmax c) &&
                                Bool.eqb obs_asked (negb (cauth c =? 0))) cs)) &&
            match obs with
            | SServed i => match nth_error sites i with
                           | Some s => negb (demands (s_tls s)) || obs_asked
                           | None => false end
            | _ => true
            end in
          let spec :=
            if obs_start =? 0 then spec_started
            else if obs_start =? 8 then negb (mixed cfgs)                 (* plaintext listener *)
            else lookup_spec dc [] cfgs dflt (Some conn) sni (LErr obs_start) in
          match fst ml with
          | Some (LErr e) => verdict (obs_start =? e) spec
          | Some LNil => verdict (obs_start =? 8) spec
          | Some (LNone) => verdict false spec
          | fb =>
              (* the governing config: the one found, or any config of the group on failover *)
              let cands := match fb with
                           | Some (LGov _ b) => [b]
                           | _ => flat_map (fun kv => match snd kv with (_, _, Some b) => [b] | _ => [] end) (snd ml)
                           end in
              let predicted b :=
                let v := match negotiate b cmin cmax with
                         | Some v => if version_feasible b v then v else 0
                         | None => 0 end in
                let asked := negb (v =? 0) && negb (b_cauth b =? 0) in
                let out := if v =? 0 then SNoSite else sobs_of (serve sites dflt (Some conn) (Some sni) rhost) in
                (obs_version =? v) && Bool.eqb obs_asked asked && sobs_beq out obs in
              let agree := (obs_start =? 0) && existsb predicted cands in
              verdict agree spec
          end
      end
  end.

(* ---- vocabulary of the refutation theorems in C06_Props ---- *)
(* a request is served by a site that demands client certificates although the handshake was
   governed by a config with another client-certificate policy *)
Definition served_under_foreign_policy (sites : list site) (dflt : bytes) (conn : option bytes)
           (sni rhost : bytes) : Prop :=
  exists g v s k i c b,
    make_tls_config (default_ciphers true) [] (map (fun s => Some (s_tls s)) sites) = MkGroup g /\
    serve sites dflt conn (Some sni) rhost = Served v /\ nth_error sites v = Some s /\ demands (s_tls s) = true /\
    get_config g dflt conn sni = Found k (i, c, Some b) /\ b_cauth b <> cauth (s_tls s).
Definition open_site (a h : string) : site := mkS (bs a) (mkT (bs h) true TLS12 TLS13 [] [] [] true 0 [] false).
Definition mtls_site (a h : string) : site := mkS (bs a) (mkT (bs h) true TLS12 TLS13 [] [] [] true 2 [] false).
