(* C05 — proofs about the discrete-time retry loop (runT). *)
Require Import V.Lib V.C05_Model V.C05_Proofs.
From Coq Require Import Lia ZifyBool ZifyN ZifyNat.
Open Scope N_scope.

(* ---------- small facts ---------- *)
Lemma live_cons now x l : live now (x :: l) = (if now <? x then 1 else 0) + live now l.
Proof. unfold live. cbn [filter]. destruct (now <? x); cbn [length]; lia. Qed.

Lemma live_antitone l : forall t t', t <= t' -> live t' l <= live t l.
Proof.
  induction l as [|x l IH]; intros t t' Ht; [unfold live; cbn; lia|].
  rewrite !live_cons. specialize (IH t t' Ht).
  destruct (t' <? x) eqn:E1; destruct (t <? x) eqn:E2; lia.
Qed.

Lemma upd_same {A} (f : nat -> A) i v : upd f i v i = v.
Proof. unfold upd. rewrite Nat.eqb_refl. reflexivity. Qed.
Lemma upd_other {A} (f : nat -> A) i v j : j <> i -> upd f i v j = f j.
Proof. intros H. unfold upd. destruct (Nat.eqb_spec j i); [contradiction|reflexivity]. Qed.

Lemma nth_map_seq (f : nat -> bool) n i :
  nth i (map f (seq 0 n)) false = if Nat.ltb i n then f i else false.
Proof.
  destruct (Nat.ltb_spec i n) as [Hlt|Hge].
  - rewrite nth_indep with (d' := f 0%nat) by (rewrite map_length, seq_length; exact Hlt).
    rewrite map_nth, seq_nth by exact Hlt. reflexivity.
  - apply nth_overflow. rewrite map_length, seq_length. exact Hge.
Qed.

Lemma script_at_in (s : script) k : In (script_at s k) (spre s) \/ script_at s k = sdflt s.
Proof. unfold script_at. destruct (nth_in_or_default k (spre s) (sdflt s)); auto. Qed.

Lemma all_ok_at s k : all_ok s = true -> ak (script_at s k) = KOk.
Proof.
  unfold all_ok. intros H. apply andb_true_iff in H as [Hp Hd].
  destruct (script_at_in s k) as [Hin| ->].
  - rewrite forallb_forall in Hp. specialize (Hp _ Hin). destruct (ak (script_at s k)); try discriminate; reflexivity.
  - destruct (ak (sdflt s)); try discriminate; reflexivity.
Qed.

Lemma forallb_seq_nth (P : nat -> bool) n i :
  forallb P (seq 0 n) = true -> (i < n)%nat -> P i = true.
Proof. intros H Hi. rewrite forallb_forall in H. apply H. apply in_seq. lia. Qed.

Lemma never_ok_at n scr i k :
  never_ok n scr = true -> (i < n)%nat -> is_ok (ak (script_at (scr i) k)) = false.
Proof.
  intros H Hi. apply (forallb_seq_nth _ _ _ H) in Hi. apply andb_true_iff in Hi as [Hp Hd].
  destruct (script_at_in (scr i) k) as [Hin| ->].
  - rewrite forallb_forall in Hp. apply negb_true_iff. apply Hp. exact Hin.
  - apply negb_true_iff. exact Hd.
Qed.

Lemma durs_le_at n scr dmax i k :
  durs_le n scr dmax = true -> (i < n)%nat -> adur (script_at (scr i) k) <= dmax.
Proof.
  intros H Hi. apply (forallb_seq_nth _ _ _ H) in Hi. apply andb_true_iff in Hi as [Hp Hd].
  destruct (script_at_in (scr i) k) as [Hin| ->].
  - rewrite forallb_forall in Hp. specialize (Hp _ Hin). lia.
  - lia.
Qed.

Lemma att_ok_true k rx : att_ok k rx = true -> k = KOk /\ rx = RxFull.
Proof. destruct k, rx; cbn; try discriminate; auto. Qed.

Section T.
Variable S : Type.
Variable sel : S -> list bool -> option nat * S.
Variable c : tcfg.
Variable unh : nat -> bool.
Variable scr : nat -> script.
Variable envdown : nat -> nat -> bool.
Notation run := (runT S sel c unh scr envdown).

Definition sel_sound : Prop :=
  forall st av i st', sel st av = (Some i, st') -> nth i av false = true.

Lemma t_avail_nth it now fx i :
  nth i (t_avail c unh envdown it now fx) false = true ->
  (i < t_n c)%nat /\ unh i = false /\ envdown it i = false /\ live now (fx i) < t_mf c.
Proof using c unh envdown. clear scr S sel.
  unfold t_avail. rewrite nth_map_seq. destruct (Nat.ltb_spec i (t_n c)) as [Hlt|Hge]; [|discriminate].
  intros H. apply andb_true_iff in H as [H12 H3]. apply andb_true_iff in H12 as [H1 H2].
  apply negb_true_iff in H1. apply negb_true_iff in H2. repeat split; auto. lia.
Qed.

Lemma t_avail_nth_true it now fx i :
  (i < t_n c)%nat -> unh i = false -> envdown it i = false -> live now (fx i) < t_mf c ->
  nth i (t_avail c unh envdown it now fx) false = true.
Proof using c unh envdown. clear scr S sel.
  intros Hi H1 H2 H3. unfold t_avail. rewrite nth_map_seq.
  destruct (Nat.ltb_spec i (t_n c)); [|lia]. rewrite H1, H2. cbn. lia.
Qed.

(* ---------- termination: never a hang ---------- *)
Theorem runT_terminates : forall fuel now fx cnt st fresh it,
  0 < t_ti c -> (1 <= fuel)%nat -> t_td c <= now + N.of_nat (fuel - 1) * t_ti c ->
  fst (run fuel now fx cnt st fresh it) <> THang.
Proof.
  induction fuel as [|f IH]; intros now fx cnt st fresh it Hti Hf Hb; [lia|].
  assert (Hstep : forall t fx' cnt' st' fresh', now <= t -> t_td c <=? t = false ->
            fst (run f (t + t_ti c) fx' cnt' st' fresh' (Datatypes.S it)) <> THang).
  { intros t fx' cnt' st' fresh' Ht Hk. apply N.leb_gt in Hk.
    replace (Datatypes.S f - 1)%nat with f in Hb by lia.
    destruct f as [|f']; [cbn in Hb; lia|].
    apply IH; [exact Hti|lia|].
    replace (Datatypes.S f' - 1)%nat with f' by lia.
    rewrite Nat2N.inj_succ, N.mul_succ_l in Hb. lia. }
  cbn [runT]. destruct (sel st _) as [[i|] st'].
  - destruct (is_refuse _).
    + unfold keep. destruct (t_td c <=? now) eqn:Hk; [cbn; discriminate|].
      specialize (Hstep now fx (upd cnt i (Datatypes.S (cnt i))) st' fresh (N.le_refl _) Hk).
      destruct (run f _ _ _ _ _ _) as [o tr]. exact Hstep.
    + destruct (att_ok _ _); [cbn; discriminate|].
      unfold keep. destruct (t_td c <=? now + adur _) eqn:Hk; [cbn; discriminate|].
      match goal with |- context [run f ?t ?a ?b ?d ?e ?g] =>
        pose proof (Hstep (now + adur (script_at (scr i) (cnt i))) a b d e ltac:(lia) Hk) as Hs;
        destruct (run f t a b d e g) as [o tr] end.
      exact Hs.
  - unfold keep. destruct (t_td c <=? now) eqn:Hk; [cbn; discriminate|].
    specialize (Hstep now fx cnt st' fresh (N.le_refl _) Hk).
    destruct (run f _ _ _ _ _ _) as [o tr]. exact Hstep.
Qed.

Lemma fuel_bound_ok fuel : 0 < t_ti c -> (N.to_nat (t_td c / t_ti c) + 2 <= fuel)%nat ->
  t_td c <= 0 + N.of_nat (fuel - 1) * t_ti c.
Proof using c. clear S sel unh scr envdown.
  intros Hti Hf.
  pose proof (N.div_mod' (t_td c) (t_ti c)) as Hdm.
  pose proof (N.mod_lt (t_td c) (t_ti c) ltac:(lia)) as Hlt.
  assert (t_td c / t_ti c + 1 <= N.of_nat (fuel - 1)) by lia.
  assert ((t_td c / t_ti c + 1) * t_ti c <= N.of_nat (fuel - 1) * t_ti c)
    by (apply N.mul_le_mono_r; assumption).
  lia.
Qed.

(* ---------- no host ever succeeds: 502 once the duration is spent, within a bounded time ---------- *)
Theorem runT_502_when_spent : forall dmax, sel_sound ->
  never_ok (t_n c) scr = true -> durs_le (t_n c) scr dmax = true -> 0 < t_ti c ->
  forall fuel now fx cnt st fresh it,
  (1 <= fuel)%nat -> t_td c <= now + N.of_nat (fuel - 1) * t_ti c -> now < t_td c + t_ti c ->
  exists t tr, run fuel now fx cnt st fresh it = (T502 t, tr) /\
               t_td c <= t /\ t < t_td c + t_ti c + dmax.
Proof.
  intros dmax Hsound Hnever Hdur Hti.
  induction fuel as [|f IH]; intros now fx cnt st fresh it Hf Hb Hnow; [lia|].
  assert (Hstep : forall t fx' cnt' st' fresh', now <= t -> t_td c <=? t = false ->
            exists t2 tr, run f (t + t_ti c) fx' cnt' st' fresh' (Datatypes.S it) = (T502 t2, tr) /\
                          t_td c <= t2 /\ t2 < t_td c + t_ti c + dmax).
  { intros t fx' cnt' st' fresh' Ht Hk. apply N.leb_gt in Hk.
    replace (Datatypes.S f - 1)%nat with f in Hb by lia.
    destruct f as [|f']; [cbn in Hb; lia|].
    apply IH; [lia| |lia].
    replace (Datatypes.S f' - 1)%nat with f' by lia.
    rewrite Nat2N.inj_succ, N.mul_succ_l in Hb. lia. }
  cbn [runT]. destruct (sel st _) as [[i|] st'] eqn:Hs.
  - apply Hsound in Hs. apply t_avail_nth in Hs as (Hi & _).
    destruct (is_refuse _).
    + unfold keep. destruct (t_td c <=? now) eqn:Hk.
      * apply N.leb_le in Hk. exists now. eexists. split; [reflexivity|]. lia.
      * destruct (Hstep now fx (upd cnt i (Datatypes.S (cnt i))) st' fresh (N.le_refl _) Hk)
          as (t2 & tr & -> & Hb2). exists t2. eexists. split; [reflexivity|exact Hb2].
    + pose proof (never_ok_at _ _ _ (cnt i) Hnever Hi) as Hno.
      pose proof (durs_le_at _ _ _ _ (cnt i) Hdur Hi) as Hd.
      assert (Hnok : att_ok (ak (script_at (scr i) (cnt i))) (rx_of c (ak (script_at (scr i) (cnt i))) fresh) = false).
      { destruct (ak (script_at (scr i) (cnt i))); try discriminate; reflexivity. }
      rewrite Hnok. unfold keep.
      destruct (t_td c <=? now + adur (script_at (scr i) (cnt i))) eqn:Hk.
      * apply N.leb_le in Hk. eexists. eexists. split; [reflexivity|]. lia.
      * match goal with |- context [run f ?t ?a ?b ?d ?e ?g] =>
          destruct (Hstep (now + adur (script_at (scr i) (cnt i))) a b d e ltac:(lia) Hk)
            as (t2 & tr & -> & Hb2) end.
        exists t2. eexists. split; [reflexivity|exact Hb2].
  - unfold keep. destruct (t_td c <=? now) eqn:Hk.
    + apply N.leb_le in Hk. exists now. eexists. split; [reflexivity|]. lia.
    + destruct (Hstep now fx cnt st' fresh (N.le_refl _) Hk) as (t2 & tr & -> & Hb2).
      exists t2. eexists. split; [reflexivity|exact Hb2].
Qed.

(* ---------- failed hosts are skipped until their failure expires ---------- *)
Theorem runT_skip_ok : sel_sound -> forall fuel now fx cnt st fresh it acc,
  (forall i t, live t (acc i) <= live t (fx i)) ->
  skip_ok (t_mf c) (t_ft c) acc (snd (run fuel now fx cnt st fresh it)) = true.
Proof.
  intros Hsound. induction fuel as [|f IH]; intros now fx cnt st fresh it acc Hacc; [reflexivity|].
  cbn [runT]. destruct (sel st _) as [[i|] st'] eqn:Hs.
  - apply Hsound in Hs. apply t_avail_nth in Hs as (Hi & _ & _ & Hl).
    assert (Hchk : (live now (acc i) <? t_mf c) = true) by (specialize (Hacc i now); lia).
    destruct (is_refuse _).
    + destruct (keep c now).
      * specialize (IH n fx (upd cnt i (Datatypes.S (cnt i))) st' fresh (Datatypes.S it) acc Hacc).
        destruct (run f _ _ _ _ _ _) as [o tr]. cbn [snd skip_ok ev_fail_rec] in *.
        rewrite Hchk, IH. reflexivity.
      * cbn. rewrite Hchk. reflexivity.
    + destruct (att_ok _ _).
      * cbn. rewrite Hchk. reflexivity.
      * set (te := now + adur (script_at (scr i) (cnt i))).
        set (fx' := if 0 <? t_ft c then upd fx i (te + t_ft c :: fx i) else fx).
        set (acc' := if 0 <? t_ft c then upd acc i (te + t_ft c :: acc i) else acc).
        assert (Hacc' : forall j t, live t (acc' j) <= live t (fx' j)).
        { intros j t. unfold acc', fx'. destruct (0 <? t_ft c); [|apply Hacc].
          destruct (Nat.eq_dec j i) as [->|Hne].
          - rewrite !upd_same, !live_cons. specialize (Hacc i t). lia.
          - rewrite !upd_other by exact Hne. apply Hacc. }
        destruct (keep c te).
        -- specialize (IH n fx' (upd cnt i (Datatypes.S (cnt i))) st' false (Datatypes.S it) acc' Hacc').
           destruct (run f _ _ _ _ _ _) as [o tr]. cbn [snd skip_ok ev_fail_rec] in *.
           rewrite Hchk. fold te. fold acc'. rewrite IH. reflexivity.
        -- cbn. rewrite Hchk. reflexivity.
  - destruct (keep c now).
    + specialize (IH n fx cnt st' fresh (Datatypes.S it) acc Hacc).
      destruct (run f _ _ _ _ _ _) as [o tr]. cbn [snd skip_ok ev_fail_rec] in *. exact IH.
    + reflexivity.
Qed.

(* ---------- bodies ---------- *)
Lemma rx_of_good_buffered k fresh :
  negb (t_hasbody c) || t_buf c || fresh = true -> rx_good (rx_of c k fresh) = true.
Proof. intros H. unfold rx_of. rewrite H. destruct k; reflexivity. Qed.

(* the body is good for every attempt if it is still untouched, or buffered, or absent; a second
   attempt only happens when keepRetrying let it, i.e. try_duration <> 0, and then it is buffered *)
Lemma keep_some_buffered t t' : keep c t = Some t' -> t_buf c = true.
Proof.
  unfold keep, t_buf. destruct (t_td c <=? t) eqn:E; [discriminate|]. intros _.
  apply negb_true_iff. apply N.eqb_neq. apply N.leb_gt in E. lia.
Qed.

Theorem runT_bodies_ok :
  forall fuel now fx cnt st fresh it,
  fresh = true \/ negb (t_hasbody c) || t_buf c = true ->
  bodies_ok (snd (run fuel now fx cnt st fresh it)) = true.
Proof.
  induction fuel as [|f IH]; intros now fx cnt st fresh it Hb; [reflexivity|].
  cbn [runT]. destruct (sel st _) as [[i|] st'].
  - destruct (is_refuse _).
    + destruct (keep c now); [|reflexivity].
      specialize (IH n fx (upd cnt i (Datatypes.S (cnt i))) st' fresh (Datatypes.S it) Hb).
      destruct (run f _ _ _ _ _ _) as [o tr]. exact IH.
    + assert (Hg : rx_good (rx_of c (ak (script_at (scr i) (cnt i))) fresh) = true).
      { apply rx_of_good_buffered. destruct Hb as [->|Hb]; [apply orb_true_r|rewrite Hb; reflexivity]. }
      destruct (att_ok _ _); [cbn; rewrite Hg; reflexivity|].
      match goal with |- context [keep c ?t] => destruct (keep c t) eqn:Hk end.
      * apply keep_some_buffered in Hk.
        match goal with |- context [run f ?t ?a ?b ?d ?e ?g] =>
          specialize (IH t a b d e g); destruct (run f t a b d e g) as [o tr] end.
        cbn [snd bodies_ok forallb] in *. rewrite Hg, IH; [reflexivity|].
        right. rewrite Hk. apply orb_true_r.
      * cbn. rewrite Hg. reflexivity.
  - destruct (keep c now); [|reflexivity].
    specialize (IH n fx cnt st' fresh (Datatypes.S it) Hb).
    destruct (run f _ _ _ _ _ _) as [o tr]. exact IH.
Qed.

(* ---------- the final status is the one of the last event ---------- *)
Lemma run_nonempty : forall fuel now fx cnt st fresh it,
  fst (run fuel now fx cnt st fresh it) <> THang -> snd (run fuel now fx cnt st fresh it) <> [].
Proof.
  destruct fuel as [|f]; intros now fx cnt st fresh it H; [cbn in H; congruence|].
  cbn [runT] in *. destruct (sel st _) as [[i|] st'].
  - destruct (is_refuse _).
    + destruct (keep c now); [|cbn; discriminate]. destruct (run f _ _ _ _ _ _). cbn. discriminate.
    + destruct (att_ok _ _); [cbn; discriminate|].
      match goal with |- context [keep c ?t] => destruct (keep c t) end; [|cbn; discriminate].
      destruct (run f _ _ _ _ _ _). cbn. discriminate.
  - destruct (keep c now); [|cbn; discriminate]. destruct (run f _ _ _ _ _ _). cbn. discriminate.
Qed.

Lemma answered_ok_cons e tr o :
  tr <> [] -> match e with EAttempt _ _ _ _ ok _ => ok = false | _ => True end ->
  answered_ok (t_n c) unh tr o = true -> answered_ok (t_n c) unh (e :: tr) o = true.
Proof.
  intros Hne He H. destruct tr as [|e2 tr]; [congruence|].
  assert (Hl : last (e :: e2 :: tr) (ENone 0) = last (e2 :: tr) (ENone 0)) by reflexivity.
  assert (Hr : removelast (e :: e2 :: tr) = e :: removelast (e2 :: tr)) by reflexivity.
  unfold answered_ok in *. rewrite Hl. destruct o as [j t|t|]; [| |discriminate].
  - rewrite Hr. remember (removelast (e2 :: tr)) as l.
    apply andb_true_iff in H as [H1 H2]. rewrite H1. cbn [forallb andb]. rewrite H2.
    destruct e; try reflexivity. rewrite He. reflexivity.
  - remember (e2 :: tr) as l.
    apply andb_true_iff in H as [H1 H2]. rewrite H2. cbn [forallb]. rewrite H1.
    destruct e; try reflexivity. rewrite He. reflexivity.
Qed.

Theorem runT_answered_ok : sel_sound -> forall fuel now fx cnt st fresh it,
  fst (run fuel now fx cnt st fresh it) <> THang ->
  answered_ok (t_n c) unh (snd (run fuel now fx cnt st fresh it)) (fst (run fuel now fx cnt st fresh it)) = true.
Proof.
  intros Hsound. induction fuel as [|f IH]; intros now fx cnt st fresh it H; [cbn in H; congruence|].
  cbn [runT] in *. destruct (sel st _) as [[i|] st'] eqn:Hs.
  - apply Hsound in Hs. apply t_avail_nth in Hs as (Hi & Hu & _).
    destruct (is_refuse _).
    + destruct (keep c now).
      * specialize (IH n fx (upd cnt i (Datatypes.S (cnt i))) st' fresh (Datatypes.S it)).
        pose proof (run_nonempty f n fx (upd cnt i (Datatypes.S (cnt i))) st' fresh (Datatypes.S it)) as Hne.
        destruct (run f _ _ _ _ _ _) as [o tr]. cbn [fst snd] in *.
        apply answered_ok_cons; auto.
      * cbn. rewrite N.eqb_refl. reflexivity.
    + destruct (att_ok _ _) eqn:Hok.
      * apply att_ok_true in Hok as [Hk Hrx]. cbn [fst snd answered_ok last removelast forallb].
        rewrite Hrx, Hk, Nat.eqb_refl, N.eqb_refl, Hu.
        destruct (Nat.ltb_spec i (t_n c)); [reflexivity|lia].
      * match goal with |- context [keep c ?t] => destruct (keep c t) eqn:Hkp end.
        -- match goal with |- context [run f ?t ?a ?b ?d ?e ?g] =>
             specialize (IH t a b d e g); pose proof (run_nonempty f t a b d e g) as Hne;
             destruct (run f t a b d e g) as [o tr] end.
           cbn [fst snd] in *. apply answered_ok_cons; auto.
        -- cbn. rewrite N.eqb_refl. reflexivity.
  - destruct (keep c now).
    + specialize (IH n fx cnt st' fresh (Datatypes.S it)).
      pose proof (run_nonempty f n fx cnt st' fresh (Datatypes.S it)) as Hne.
      destruct (run f _ _ _ _ _ _) as [o tr]. cbn [fst snd] in *.
      apply answered_ok_cons; auto.
    + cbn. rewrite N.eqb_refl. reflexivity.
Qed.

End T.

(* ---------- a healthy host is reached ---------- *)
Lemma list_sum_cons a l : list_sum (a :: l) = (a + list_sum l)%nat.
Proof. reflexivity. Qed.

Lemma sum_decr (f f' : nat -> nat) l i :
  NoDup l -> In i l -> (forall j, j <> i -> f' j = f j) -> (f' i + 1 <= f i)%nat ->
  (list_sum (map f' l) + 1 <= list_sum (map f l))%nat.
Proof.
  induction l as [|a l IH]; intros Hnd Hin Hoth Hi; [contradiction|].
  inversion Hnd as [|? ? Hnotin Hnd']; subst. cbn [map]. rewrite !list_sum_cons.
  destruct (Nat.eq_dec a i) as [->|Hne].
  - assert (map f' l = map f l) as ->.
    { apply map_ext_in. intros j Hj. apply Hoth. intros ->. contradiction. }
    lia.
  - destruct Hin as [->|Hin]; [congruence|]. rewrite (Hoth a Hne).
    specialize (IH Hnd' Hin Hoth Hi). lia.
Qed.

Lemma count_refuse_skipn_le l : forall k,
  (count_refuse (skipn (Datatypes.S k) l) <= count_refuse (skipn k l))%nat.
Proof.
  induction l as [|a l IH]; intros k; [destruct k; cbn; lia|].
  destruct k as [|k].
  - cbn [skipn]. unfold count_refuse. cbn [filter]. destruct (is_refuse (ak a)); cbn [length]; lia.
  - cbn [skipn]. apply IH.
Qed.

Lemma count_refuse_skipn_hit l d : forall k,
  (k < length l)%nat -> is_refuse (ak (nth k l d)) = true ->
  (count_refuse (skipn (Datatypes.S k) l) + 1 = count_refuse (skipn k l))%nat.
Proof.
  induction l as [|a l IH]; intros k Hk Hr; [cbn in Hk; lia|].
  destruct k as [|k].
  - cbn in Hr. cbn [skipn]. unfold count_refuse. cbn [filter]. rewrite Hr. cbn [length]. lia.
  - cbn [skipn]. apply IH; [cbn in Hk; lia|exact Hr].
Qed.

Lemma sum_bound (b : nat -> bool) (r : nat -> nat) (f : nat -> nat) m l :
  (forall i, f i <= (if b i then m else 0) + r i)%nat ->
  (list_sum (map f l) <= m * length (filter b l) + list_sum (map r l))%nat.
Proof.
  intros Hf. induction l as [|a l IH]; [cbn; lia|].
  cbn [map filter]. rewrite !list_sum_cons. specialize (Hf a). destruct (b a); cbn [length]; lia.
Qed.

Section R.
Variable S : Type.
Variable sel : S -> list bool -> option nat * S.
Variable sinv : nat -> S -> Prop.   (* sinv k st: the selector is complete for the next k calls *)
Variable c : tcfg.
Variable unh : nat -> bool.
Variable scr : nat -> script.
Variable envdown : nat -> nat -> bool.
Variable g : nat.
Variable dmax : N.
Notation run := (runT S sel c unh scr envdown).

Hypothesis Hsound : sel_sound S sel.
Hypothesis Hcomplete : forall k st av, length av = t_n c -> sinv (Datatypes.S k) st ->
  existsb (fun b => b) av = true -> fst (sel st av) <> None.
Hypothesis Hinv : forall k st av, length av = t_n c -> sinv (Datatypes.S k) st -> sinv k (snd (sel st av)).
Hypothesis Hg : (g < t_n c)%nat.
Hypothesis Hgu : unh g = false.
Hypothesis Hgok : all_ok (scr g) = true.
Hypothesis Hgenv : forall it, envdown it g = false.
Hypothesis Hdfl : forallb (fun i => negb (is_refuse (ak (sdflt (scr i))))) (seq 0 (t_n c)) = true.
Hypothesis Hdur : durs_le (t_n c) scr dmax = true.

Definition cntF (l : list N) : nat := length (filter (fun x => t_ft c <=? x) l).
Definition mfn : nat := N.to_nat (t_mf c).
Definition ph (fx : nat -> list N) (cnt : nat -> nat) (i : nat) : nat :=
  (if bad_host unh scr g i then mfn - Nat.min mfn (cntF (fx i)) else 0) +
  count_refuse (skipn (cnt i) (spre (scr i))).
Definition Phi fx cnt : nat := list_sum (map (ph fx cnt) (seq 0 (t_n c))).

Lemma cntF_cons x l : cntF (x :: l) = ((if (t_ft c <=? x)%N then 1 else 0) + cntF l)%nat.
Proof. unfold cntF. cbn [filter]. destruct (t_ft c <=? x); reflexivity. Qed.

Lemma cntF_le_live now l : now < t_ft c -> N.of_nat (cntF l) <= live now l.
Proof.
  intros Hn. induction l as [|x l IH]; [unfold cntF, live; cbn; lia|].
  rewrite cntF_cons, live_cons. destruct (t_ft c <=? x) eqn:E1; destruct (now <? x) eqn:E2; lia.
Qed.

Lemma Phi_decr fx cnt fx' cnt' i :
  (i < t_n c)%nat -> (forall j, j <> i -> fx' j = fx j /\ cnt' j = cnt j) ->
  (ph fx' cnt' i + 1 <= ph fx cnt i)%nat -> (Phi fx' cnt' + 1 <= Phi fx cnt)%nat.
Proof.
  intros Hi Hoth Hd. unfold Phi. apply sum_decr with (i := i).
  - apply seq_NoDup.
  - apply in_seq. lia.
  - intros j Hj. destruct (Hoth j Hj) as [H1 H2]. unfold ph. rewrite H1, H2. reflexivity.
  - exact Hd.
Qed.

Lemma ft_now now w : now + N.of_nat w * (t_ti c + dmax) < t_ft c -> now < t_ft c.
Proof. intros H. lia. Qed.

Lemma ft_step now w d :
  now + N.of_nat (Datatypes.S w) * (t_ti c + dmax) < t_ft c -> d <= dmax ->
  now + d + t_ti c + N.of_nat w * (t_ti c + dmax) < t_ft c.
Proof. intros H Hd. rewrite Nat2N.inj_succ, N.mul_succ_l in H. lia. Qed.

Lemma ft_step0 now w :
  now + N.of_nat (Datatypes.S w) * (t_ti c + dmax) < t_ft c ->
  now + t_ti c + N.of_nat w * (t_ti c + dmax) < t_ft c.
Proof. intros H. rewrite Nat2N.inj_succ, N.mul_succ_l in H. lia. Qed.

Lemma td_now now w :
  now + N.of_nat (Datatypes.S w - 1) * t_ti c + N.of_nat (Datatypes.S w) * dmax < t_td c ->
  now + dmax < t_td c.
Proof. intros H. rewrite Nat2N.inj_succ, N.mul_succ_l in H. lia. Qed.

Lemma td_step now w d :
  now + N.of_nat (Datatypes.S w - 1) * t_ti c + N.of_nat (Datatypes.S w) * dmax < t_td c -> d <= dmax ->
  w = 0%nat \/ now + d + t_ti c + N.of_nat (w - 1) * t_ti c + N.of_nat w * dmax < t_td c.
Proof.
  intros H Hd. destruct w as [|w]; [left; reflexivity|right].
  replace (Datatypes.S (Datatypes.S w) - 1)%nat with (Datatypes.S w) in H by lia.
  replace (Datatypes.S w - 1)%nat with w by lia.
  rewrite !Nat2N.inj_succ, !N.mul_succ_l in H. rewrite Nat2N.inj_succ, N.mul_succ_l. lia.
Qed.

Lemma td_step0 now w :
  now + N.of_nat (Datatypes.S w - 1) * t_ti c + N.of_nat (Datatypes.S w) * dmax < t_td c ->
  w = 0%nat \/ now + t_ti c + N.of_nat (w - 1) * t_ti c + N.of_nat w * dmax < t_td c.
Proof.
  intros H. destruct (td_step now w 0 H ltac:(lia)) as [?|H2]; [left; assumption|right].
  rewrite N.add_0_r in H2. exact H2.
Qed.

Lemma reach_main : forall fuel w now fx cnt st fresh it,
  (Phi fx cnt <= w)%nat -> (w < fuel)%nat -> sinv (Datatypes.S w) st ->
  now + N.of_nat w * (t_ti c + dmax) < t_ft c ->
  (w = 0%nat \/ now + N.of_nat (w - 1) * t_ti c + N.of_nat w * dmax < t_td c) ->
  (fresh = true \/ negb (t_hasbody c) || t_buf c = true) ->
  live now (fx g) < t_mf c ->
  exists j t tr, run fuel now fx cnt st fresh it = (TAnswered j t, tr).
Proof.
  induction fuel as [|f IH]; intros w now fx cnt st fresh it HPhi Hw Hsi Hft Htd Hbody Hlg;
    [clear - Hw; lia|].
  pose proof (ft_now _ _ Hft) as Hnowft.
  cbn [runT].
  assert (Hga : nth g (t_avail c unh envdown it now fx) false = true)
    by (apply t_avail_nth_true; auto).
  assert (Hlen : length (t_avail c unh envdown it now fx) = t_n c)
    by (unfold t_avail; rewrite map_length, seq_length; reflexivity).
  pose proof (Hcomplete w st _ Hlen Hsi (existsb_nth _ _ Hga)) as Hsome.
  pose proof (Hinv w st _ Hlen Hsi) as Hsi'.
  destruct (sel st _) as [[i|] st'] eqn:Hs; [|cbn in Hsome; congruence].
  cbn [snd] in Hsi'.
  apply Hsound in Hs. apply t_avail_nth in Hs as (Hi & Hui & _ & Hli).
  destruct (is_refuse (ak (script_at (scr i) (cnt i)))) eqn:Href.
  - (* acquireConn refused: one scripted refusal is used up *)
    assert (Hklt : (cnt i < length (spre (scr i)))%nat).
    { destruct (Nat.lt_ge_cases (cnt i) (length (spre (scr i)))) as [|Hge]; [assumption|].
      unfold script_at in Href. rewrite nth_overflow in Href by exact Hge.
      pose proof (forallb_seq_nth _ _ _ Hdfl Hi) as Hd. cbn in Hd. rewrite Href in Hd. discriminate. }
    assert (Hdec : (Phi fx (upd cnt i (Datatypes.S (cnt i))) + 1 <= Phi fx cnt)%nat).
    { apply Phi_decr with (i := i); [exact Hi| |].
      - intros j Hj. split; [reflexivity|apply upd_other; exact Hj].
      - unfold ph. rewrite upd_same.
        pose proof (count_refuse_skipn_hit (spre (scr i)) (sdflt (scr i)) (cnt i) Hklt Href) as Hc.
        clear - Hc. lia. }
    destruct w as [|w']; [clear - Hdec HPhi; lia|].
    destruct Htd as [Htd|Htd]; [clear - Htd; lia|].
    pose proof (td_now _ _ Htd) as Hnt.
    unfold keep. replace (t_td c <=? now) with false by (clear - Hnt; lia).
    assert (HPhi' : (Phi fx (upd cnt i (Datatypes.S (cnt i))) <= w')%nat) by (clear - Hdec HPhi; lia).
    assert (Hw' : (w' < f)%nat) by (clear - Hw; lia).
    assert (Hlg' : live (now + t_ti c) (fx g) < t_mf c).
    { pose proof (live_antitone (fx g) now (now + t_ti c) ltac:(clear; lia)) as Ha. clear - Ha Hlg. lia. }
    destruct (IH w' (now + t_ti c) fx (upd cnt i (Datatypes.S (cnt i))) st' fresh (Datatypes.S it)
                 HPhi' Hw' Hsi' (ft_step0 _ _ Hft) (td_step0 _ _ Htd) Hbody Hlg') as (j & t & tr & Hr).
    rewrite Hr. eexists. eexists. eexists. reflexivity.
  - destruct (att_ok _ _) eqn:Hok; [eexists; eexists; eexists; reflexivity|].
    (* a failed forward: the host cannot be a good one *)
    assert (Hnotok : all_ok (scr i) = false).
    { destruct (all_ok (scr i)) eqn:Ha; [|reflexivity]. exfalso.
      rewrite (all_ok_at _ (cnt i) Ha) in Hok. unfold rx_of in Hok.
      destruct Hbody as [->|Hb]; [rewrite orb_true_r in Hok|rewrite Hb in Hok]; cbn in Hok; discriminate. }
    assert (Hig : i <> g) by (intros ->; congruence).
    assert (Hbad : bad_host unh scr g i = true).
    { unfold bad_host. rewrite Hui, Hnotok. destruct (Nat.eqb_spec i g); [contradiction|reflexivity]. }
    pose proof (durs_le_at _ _ _ _ (cnt i) Hdur Hi) as Hd.
    set (a := script_at (scr i) (cnt i)) in *.
    replace (0 <? t_ft c) with true by (clear - Hnowft; lia).
    set (fx' := upd fx i (now + adur a + t_ft c :: fx i)).
    assert (Hdec : (Phi fx' (upd cnt i (Datatypes.S (cnt i))) + 1 <= Phi fx cnt)%nat).
    { apply Phi_decr with (i := i); [exact Hi| |].
      - intros j Hj. unfold fx'. rewrite !upd_other by exact Hj. auto.
      - unfold ph, fx'. rewrite !upd_same, Hbad, cntF_cons.
        replace (t_ft c <=? now + adur a + t_ft c) with true by (clear; lia).
        pose proof (cntF_le_live now (fx i) Hnowft) as H1.
        pose proof (count_refuse_skipn_le (spre (scr i)) (cnt i)) as H2.
        unfold mfn. clear - H1 H2 Hli. lia. }
    destruct w as [|w']; [clear - Hdec HPhi; lia|].
    destruct Htd as [Htd|Htd]; [clear - Htd; lia|].
    pose proof (td_now _ _ Htd) as Hnt.
    unfold keep. replace (t_td c <=? now + adur a) with false by (clear - Hnt Hd; lia).
    assert (HPhi' : (Phi fx' (upd cnt i (Datatypes.S (cnt i))) <= w')%nat) by (clear - Hdec HPhi; lia).
    assert (Hw' : (w' < f)%nat) by (clear - Hw; lia).
    assert (Hbody' : false = true \/ negb (t_hasbody c) || t_buf c = true).
    { right. unfold t_buf.
      replace (t_td c =? 0) with false by (clear - Hnt; lia). apply orb_true_r. }
    assert (Hlg' : live (now + adur a + t_ti c) (fx' g) < t_mf c).
    { unfold fx'. rewrite upd_other by congruence.
      pose proof (live_antitone (fx g) now (now + adur a + t_ti c) ltac:(clear; lia)) as Ha.
      clear - Ha Hlg. lia. }
    destruct (IH w' (now + adur a + t_ti c) fx' (upd cnt i (Datatypes.S (cnt i))) st' false (Datatypes.S it)
                 HPhi' Hw' Hsi' (ft_step _ _ _ Hft Hd) (td_step _ _ _ Htd Hd) Hbody' Hlg') as (j & t & tr & Hr).
    rewrite Hr. eexists. eexists. eexists. reflexivity.
Qed.

Lemma Phi_init fx :
  (Phi fx (fun _ => 0%nat) <= N.to_nat (waste c unh scr g))%nat.
Proof using c unh scr g.
  clear Hsound Hcomplete Hinv Hg Hgu Hgok Hgenv Hdfl Hdur. clear S sel sinv envdown dmax.
  unfold Phi, waste, nbad, nrefuse.
  pose proof (sum_bound (bad_host unh scr g) (fun i => count_refuse (spre (scr i)))
               (ph fx (fun _ => 0%nat)) mfn (seq 0 (t_n c))) as H.
  unfold mfn in *. rewrite N2Nat.inj_add, N2Nat.inj_mul, !Nat2N.id.
  apply H. intros i. unfold ph, mfn. cbn [skipn]. destruct (bad_host unh scr g i); lia.
Qed.
End R.

Theorem runT_reaches_healthy :
  forall (S : Type) (sel : S -> list bool -> option nat * S) (sinv : nat -> S -> Prop)
         c unh scr envdown g dmax,
  sel_sound S sel ->
  (forall k st av, length av = t_n c -> sinv (Datatypes.S k) st ->
     existsb (fun b => b) av = true -> fst (sel st av) <> None) ->
  (forall k st av, length av = t_n c -> sinv (Datatypes.S k) st -> sinv k (snd (sel st av))) ->
  reach_hyp c unh scr g dmax = true ->
  (forall it, envdown it g = false) ->
  forall fx0 st0 fuel,
  live 0 (fx0 g) < t_mf c ->
  sinv (Datatypes.S (N.to_nat (waste c unh scr g))) st0 ->
  (N.to_nat (waste c unh scr g) < fuel)%nat ->
  exists j t tr, runT S sel c unh scr envdown fuel 0 fx0 (fun _ => 0%nat) st0 true 0 = (TAnswered j t, tr) /\
                 answered_ok (t_n c) unh tr (TAnswered j t) = true.
Proof.
  intros S sel sinv c unh scr envdown g dmax Hsound Hcomp Hinv Hyp Henv fx0 st0 fuel Hl Hsi Hfuel.
  unfold reach_hyp in Hyp.
  repeat (apply andb_true_iff in Hyp as [Hyp ?]).
  rename H into Htd, H0 into Hft, H1 into Hmf, H2 into Hdur, H3 into Hdfl, H4 into Hgok, H5 into Hgu.
  apply Nat.ltb_lt in Hyp. apply negb_true_iff in Hgu.
  set (W := waste c unh scr g) in *.
  destruct (reach_main S sel sinv c unh scr envdown g dmax Hsound Hcomp Hinv Hyp Hgu Hgok Henv Hdfl Hdur
              fuel (N.to_nat W) 0 fx0 (fun _ => 0%nat) st0 true 0) as (j & t & tr & Hr); auto.
  - apply Phi_init.
  - rewrite N2Nat.id. lia.
  - destruct (N.eqb_spec W 0) as [->|Hne]; [left; reflexivity|right].
    replace (N.of_nat (N.to_nat W - 1)) with (W - 1) by lia. rewrite N2Nat.id.
    cbn [orb] in Htd. lia.
  - exists j, t, tr. split; [exact Hr|].
    pose proof (runT_answered_ok S sel c unh scr envdown Hsound fuel 0 fx0 (fun _ => 0%nat) st0 true 0) as Ha.
    rewrite Hr in Ha. apply Ha. cbn. discriminate.
Qed.

(* ---------- every policy of policy.go, behind staticUpstream.Select, is such a selector ---------- *)
Definition pool_of (av : list bool) (cs : list Z) : list host :=
  map (fun i => mk_host (negb (nth i av false)) 0 (nth i cs 0%Z) 0) (seq 0 (length av)).

Inductive rpol := RFirst | RHash (h : N) | RRobin | RRandom | RLeast (cs : list Z).

(* selector state: the round-robin counter and the stream of rand.Int() values *)
Definition rsel (p : rpol) (st : N * list N) (av : list bool) : option nat * (N * list N) :=
  match p with
  | RFirst => (static_select av first_select, st)
  | RHash h => (static_select av (fun av => hash_select av h), st)
  | RRobin => match av with
              | [a] => (if a then Some 0%nat else None, st)
              | _ => if existsb (fun b => b) av
                     then (fst (rr_select av (fst st)), (snd (rr_select av (fst st)), snd st))
                     else (None, st)
              end
  | RRandom => (static_select av (fun av => random_select av (snd st)), (fst st, skipn (length av) (snd st)))
  | RLeast cs => (static_select av (fun av => least_conn_select 1 (pool_of av cs) (snd st)),
                  (fst st, skipn (length av) (snd st)))
  end.
(* round robin is complete for EVERY counter value; all it needs is a pool of fewer than 2^32
   hosts (poolLen := uint32(len(pool))) *)
Definition rinv (p : rpol) (n : nat) (k : nat) (st : N * list N) : Prop :=
  match p with RRobin => N.of_nat n < U32 | _ => True end.

Lemma nth_map_seq_gen {A} (f : nat -> A) n i d : (i < n)%nat -> nth i (map f (seq 0 n)) d = f i.
Proof.
  intros Hi. rewrite nth_indep with (d' := f 0%nat) by (rewrite map_length, seq_length; exact Hi).
  rewrite map_nth, seq_nth by exact Hi. reflexivity.
Qed.

Lemma pool_of_avail av cs : avail_vec 1 (pool_of av cs) = av.
Proof.
  unfold avail_vec, pool_of. rewrite map_map.
  apply nth_ext with (d := false) (d' := false).
  - rewrite map_length, seq_length. reflexivity.
  - intros i Hi. rewrite map_length, seq_length in Hi.
    rewrite nth_map_seq_gen by exact Hi.
    unfold available, down, full. cbn. destruct (nth i av false); reflexivity.
Qed.

Lemma least_sound av cs rs i :
  least_conn_select 1 (pool_of av cs) rs = Some i -> nth i av false = true.
Proof.
  intros H. apply least_conn_minimal in H as (h & Hn & Ha & _).
  rewrite <- (pool_of_avail av cs). unfold avail_vec.
  apply nth_error_split in Hn as (l1 & l2 & Hp & <-).
  rewrite Hp, map_app, app_nth2 by (rewrite map_length; lia).
  rewrite map_length, Nat.sub_diag. cbn. exact Ha.
Qed.

Lemma least_complete av cs rs :
  existsb (fun b => b) av = true -> least_conn_select 1 (pool_of av cs) rs <> None.
Proof.
  intros H. apply least_conn_complete.
  rewrite <- (pool_of_avail av cs) in H. unfold avail_vec in H. rewrite existsb_exists in H.
  destruct H as (b & Hin & ->). apply in_map_iff in Hin as (h & Hh & Hin).
  apply existsb_exists. exists h. split; assumption.
Qed.

Theorem rsel_sound p : sel_sound (N * list N) (rsel p).
Proof.
  intros st av i st' H. destruct p; cbn [rsel] in H.
  - injection H as H _. eapply static_sound; [|exact H]. apply first_sound.
  - injection H as H _. eapply static_sound; [|exact H]. intros j. apply hash_sound.
  - destruct av as [|a [|b r]].
    + cbn in H. discriminate.
    + destruct a; [|discriminate]. injection H as <- _. reflexivity.
    + destruct (existsb _ _); [|discriminate]. injection H as H _. apply rr_sound in H. exact H.
  - injection H as H _. eapply static_sound; [|exact H]. intros j. apply random_sound.
  - injection H as H _. eapply static_sound; [|exact H]. intros j. apply least_sound.
Qed.

Theorem rsel_complete p n k st av :
  length av = n -> rinv p n (Datatypes.S k) st -> existsb (fun b => b) av = true ->
  fst (rsel p st av) <> None.
Proof.
  intros Hl Hi He. destruct p; cbn [rsel fst].
  - apply static_complete; [apply first_complete|exact He].
  - apply static_complete; [apply hash_complete|exact He].
  - destruct av as [|a [|b r]].
    + cbn in He. discriminate.
    + cbn in He. rewrite orb_false_r in He. subst a. discriminate.
    + rewrite He. cbn [fst]. apply rr_complete; [|exact He].
      cbn [rinv] in Hi. rewrite Hl. exact Hi.
  - apply static_complete; [apply random_complete|exact He].
  - apply static_complete; [apply least_complete|exact He].
Qed.

Theorem rsel_inv p n k st av :
  length av = n -> rinv p n (Datatypes.S k) st -> rinv p n k (snd (rsel p st av)).
Proof. intros Hl Hi. destruct p; cbn [rinv] in *; try exact I. exact Hi. Qed.

(* the retry loop with any policy of policy.go reaches a healthy host *)
Theorem runT_reaches_healthy_policies : forall p c unh scr envdown g dmax,
  reach_hyp c unh scr g dmax = true ->
  (forall it, envdown it g = false) ->
  forall fx0 robin rs fuel,
  live 0 (fx0 g) < t_mf c ->
  N.of_nat (t_n c) < U32 ->
  (N.to_nat (waste c unh scr g) < fuel)%nat ->
  exists j t tr, runT (N * list N) (rsel p) c unh scr envdown fuel 0 fx0 (fun _ => 0%nat) (robin, rs) true 0
                 = (TAnswered j t, tr) /\ answered_ok (t_n c) unh tr (TAnswered j t) = true.
Proof.
  intros p c unh scr envdown g dmax Hyp Henv fx0 robin rs fuel Hl Hrr Hfuel.
  assert (Hsi : forall k, rinv p (t_n c) k (robin, rs)) by (intros k; destruct p; cbn [rinv]; (exact I || exact Hrr)).
  apply runT_reaches_healthy with (sinv := rinv p (t_n c)) (g := g) (dmax := dmax); auto.
  - apply rsel_sound.
  - intros k st av. apply rsel_complete.
Qed.

(* ---------- bytes form of the body clause ---------- *)
Lemma bodies_ok_bytes {A} (body : list A) tr t i k rx ok te :
  bodies_ok tr = true -> In (EAttempt t i k rx ok te) tr ->
  rx_bytes body rx = None \/ rx_bytes body rx = Some body.
Proof.
  unfold bodies_ok. rewrite forallb_forall. intros H Hin. specialize (H _ Hin). cbn in H.
  destruct rx; cbn in *; try discriminate; auto.
Qed.

(* ---------- witnesses ---------- *)
Definition always (k : akind) (d : N) : script := mk_script [] (mk_astep k d).
Definition no_env : nat -> nat -> bool := fun _ _ => false.
Definition fx_none : nat -> list N := fun _ => [].
Definition cnt0 : nat -> nat := fun _ => 0%nat.
Definition scr_of (l : list script) : nat -> script := fun i => nth i l (always KFailBefore 0).
Definition unh_of (l : list bool) : nat -> bool := fun i => nth i l true.

(* three hosts, `first`: two failing ones in front of the healthy one *)
Definition exA_c := mk_tcfg 3 1 100 21 4 true.
Definition exA_scr := scr_of [always KFailBefore 0; always KFailAfter 2; always KOk 1].
Example exA_run :
  reach_hyp exA_c (unh_of [false; false; false]) exA_scr 2 2 = true /\
  runT _ (rsel RFirst) exA_c (unh_of [false; false; false]) exA_scr no_env 3 0 fx_none cnt0 (0, []) true 0 =
  (TAnswered 2 11, [EAttempt 0 0 KFailBefore RxNotRead false 0; EAttempt 4 1 KFailAfter RxFull false 6;
                    EAttempt 10 2 KOk RxFull true 11]).
Proof. split; vm_compute; reflexivity. Qed.

(* fail_timeout = 0: the failing first host is selected again and again, the healthy one never *)
Theorem reach_needs_fail_timeout :
  exists c scr t tr,
    t_ft c = 0 /\ all_ok (scr 1%nat) = true /\
    runT _ (rsel RFirst) c (unh_of [false; false]) scr no_env 100 0 fx_none cnt0 (0, []) true 0 = (T502 t, tr).
Proof.
  exists (mk_tcfg 2 1 0 9 2 true), (scr_of [always KFailBefore 0; always KOk 0]).
  eexists. eexists. split; [reflexivity|]. split; [reflexivity|]. vm_compute. reflexivity.
Qed.

(* budget shorter than the failing forward: 502 although the second host is healthy *)
Theorem reach_needs_budget :
  exists c scr t tr,
    0 < t_ft c /\ all_ok (scr 1%nat) = true /\
    runT _ (rsel RFirst) c (unh_of [false; false]) scr no_env 100 0 fx_none cnt0 (0, []) true 0 = (T502 t, tr).
Proof.
  exists (mk_tcfg 2 1 100 3 2 true), (scr_of [always KFailAfter 4; always KOk 0]).
  eexists. eexists. split; [reflexivity|]. split; [reflexivity|]. vm_compute. reflexivity.
Qed.

(* a single host is retried too (max_fails 2: it is tried again after its first failure); its body
   is buffered like any other, the second forward gets the complete body again and answers *)
Definition exB_c := mk_tcfg 1 2 50 20 2 true.
Definition exB_scr := scr_of [mk_script [mk_astep KFailAfter 1] (mk_astep KOk 0)].
Example exB_single_host_replayed :
  t_n exB_c = 1%nat /\
  runT _ (rsel RFirst) exB_c (unh_of [false]) exB_scr no_env 20 0 fx_none cnt0 (0, []) true 0 =
  (TAnswered 0 3, [EAttempt 0 0 KFailAfter RxFull false 1; EAttempt 3 0 KOk RxFull true 3]).
Proof. split; vm_compute; reflexivity. Qed.

Example exC_502 :
  never_ok 2 (scr_of [always KFailBefore 1; always KFailAfter 3]) = true /\
  runT _ (rsel RFirst) (mk_tcfg 2 1 7 9 2 true) (unh_of [false; false])
       (scr_of [always KFailBefore 1; always KFailAfter 3]) no_env 6 0 fx_none cnt0 (0, []) true 0 =
  (T502 9, [EAttempt 0 0 KFailBefore RxNotRead false 1; EAttempt 3 1 KFailAfter RxFull false 6;
            EAttempt 8 0 KFailBefore RxNotRead false 9]).
Proof. split; vm_compute; reflexivity. Qed.

(* ---------- top-level forms (start of the request: now = 0, iteration 0) ---------- *)
Theorem retryT_502_top :
  forall (S : Type) (sel : S -> list bool -> option nat * S) c unh scr envdown dmax,
  sel_sound S sel ->
  never_ok (t_n c) scr = true -> durs_le (t_n c) scr dmax = true -> 0 < t_ti c ->
  forall fuel fx cnt st fresh,
  (N.to_nat (t_td c / t_ti c) + 2 <= fuel)%nat ->
  exists t tr, runT S sel c unh scr envdown fuel 0 fx cnt st fresh 0 = (T502 t, tr) /\
               t_td c <= t /\ t < t_td c + t_ti c + dmax.
Proof.
  intros S sel c unh scr envdown dmax Hs Hn Hd Hti fuel fx cnt st fresh Hf.
  assert (H1 : (1 <= fuel)%nat) by (clear - Hf; set (q := N.to_nat (t_td c / t_ti c)) in *; clearbody q; lia).
  pose proof (fuel_bound_ok c fuel Hti Hf) as H2.
  assert (H3 : 0 < t_td c + t_ti c) by lia.
  exact (runT_502_when_spent S sel c unh scr envdown dmax Hs Hn Hd Hti fuel 0 fx cnt st fresh 0 H1 H2 H3).
Qed.

Theorem retryT_terminates_top :
  forall (S : Type) (sel : S -> list bool -> option nat * S) c unh scr envdown fuel fx cnt st fresh,
  0 < t_ti c -> (N.to_nat (t_td c / t_ti c) + 2 <= fuel)%nat ->
  fst (runT S sel c unh scr envdown fuel 0 fx cnt st fresh 0) <> THang.
Proof.
  intros S sel c unh scr envdown fuel fx cnt st fresh Hti Hf.
  assert (H1 : (1 <= fuel)%nat) by (clear - Hf; set (q := N.to_nat (t_td c / t_ti c)) in *; clearbody q; lia).
  pose proof (fuel_bound_ok c fuel Hti Hf) as H2.
  exact (runT_terminates S sel c unh scr envdown fuel 0 fx cnt st fresh 0 Hti H1 H2).
Qed.

(* from the start of the request (the body is untouched), whatever the configuration *)
Theorem body_complete_top :
  forall (S : Type) (sel : S -> list bool -> option nat * S) c unh scr envdown,
  forall fuel now fx cnt st it,
  bodies_ok (snd (runT S sel c unh scr envdown fuel now fx cnt st true it)) = true /\
  forall (A : Type) (body : list A) t i k rx ok te,
    In (EAttempt t i k rx ok te) (snd (runT S sel c unh scr envdown fuel now fx cnt st true it)) ->
    rx_bytes body rx = None \/ rx_bytes body rx = Some body.
Proof.
  intros S sel c unh scr envdown fuel now fx cnt st it.
  pose proof (runT_bodies_ok S sel c unh scr envdown fuel now fx cnt st true it (or_introl eq_refl)) as H.
  split; [exact H|]. intros A body t i k rx ok te Hin. eapply bodies_ok_bytes; eauto.
Qed.

Theorem skip_top :
  forall (S : Type) (sel : S -> list bool -> option nat * S) c unh scr envdown,
  sel_sound S sel -> forall fuel now fx cnt st fresh it,
  skip_ok (t_mf c) (t_ft c) (fun _ => []) (snd (runT S sel c unh scr envdown fuel now fx cnt st fresh it)) = true.
Proof.
  intros S sel c unh scr envdown Hs fuel now fx cnt st fresh it.
  apply runT_skip_ok; [exact Hs|]. intros i t. unfold live. cbn. lia.
Qed.

(* the selector the case files run (sel_of, counter only) is the policy selector of the theorems *)
Definition rpol_of (p : pol) : option rpol :=
  match p with
  | PFirst => Some RFirst
  | PRoundRobin _ => Some RRobin
  | PHash h | PHeaderValue h => Some (RHash h)
  | _ => None
  end.
Theorem sel_of_is_rsel p rp st rs av :
  rpol_of p = Some rp ->
  fst (sel_of p st av) = fst (rsel rp (st, rs) av) /\ snd (sel_of p st av) = fst (snd (rsel rp (st, rs) av)).
Proof.
  destruct p; cbn [rpol_of]; intros H; try discriminate; injection H as <-; cbn [sel_of rsel fst snd];
    try (split; reflexivity).
  destruct av as [|a [|b r]]; cbn [fst snd]; try (split; reflexivity).
  destruct (existsb _ _); cbn [fst snd]; split; reflexivity.
Qed.

(* 502 is only ever returned once try_duration is spent, whatever the hosts and the selector do *)
Theorem runT_502_only_spent :
  forall (S : Type) (sel : S -> list bool -> option nat * S) c unh scr envdown fuel now fx cnt st fresh it t,
  fst (runT S sel c unh scr envdown fuel now fx cnt st fresh it) = T502 t -> t_td c <= t.
Proof.
  intros S sel c unh scr envdown. induction fuel as [|f IH]; intros now fx cnt st fresh it t H; [discriminate|].
  cbn [runT] in H. destruct (sel st _) as [[i|] st'].
  - destruct (is_refuse _).
    + unfold keep in H. destruct (t_td c <=? now) eqn:Hk.
      * cbn in H. injection H as <-. lia.
      * specialize (IH (now + t_ti c) fx (upd cnt i (Datatypes.S (cnt i))) st' fresh (Datatypes.S it) t).
        destruct (runT _ _ _ _ _ _ f _ _ _ _ _ _) as [o tr]. apply IH. exact H.
    + destruct (att_ok _ _); [discriminate|].
      unfold keep in H. destruct (t_td c <=? now + adur (script_at (scr i) (cnt i))) eqn:Hk.
      * cbn in H. injection H as <-. lia.
      * match type of H with context [runT _ _ _ _ _ _ f ?a ?b ?d ?e ?g ?h] =>
          specialize (IH a b d e g h t); destruct (runT _ _ _ _ _ _ f a b d e g h) as [o tr] end.
        apply IH. exact H.
  - unfold keep in H. destruct (t_td c <=? now) eqn:Hk.
    + cbn in H. injection H as <-. lia.
    + specialize (IH (now + t_ti c) fx cnt st' fresh (Datatypes.S it) t).
      destruct (runT _ _ _ _ _ _ f _ _ _ _ _ _) as [o tr]. apply IH. exact H.
Qed.
