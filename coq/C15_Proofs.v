(* C15 — proofs.  Stdlib + Lia only. *)
Require Import V.Lib V.GoPath V.Gen_C15 V.C15_Model.
From Coq Require Import Lia.
Open Scope N_scope.

(* ------------------------------------------------------------------ basics *)
Lemma beq_neq a b : beq a b = false <-> a <> b.
Proof.
  split.
  - intros H E. apply beq_eq in E. congruence.
  - intros H. destruct (beq a b) eqn:E; [apply beq_eq in E; contradiction|reflexivity].
Qed.

Lemma negb_beq_true a b : negb (beq a b) = true <-> a <> b.
Proof. rewrite negb_true_iff. apply beq_neq. Qed.

(* ------------------------------------------------------------------ tls directive *)
Lemma tls_setup_unmanaged d t : tls_setup d = Some t -> mg t = false.
Proof.
  destruct d as [|a l o n]; cbn [tls_setup].
  - intros H; injection H as <-. reflexivity.
  - destruct a as [|e|].
    + destruct (l || o || n); [|discriminate]. intros H; injection H as <-. reflexivity.
    + destruct (beq e (bs "off")); intros H; injection H as <-; reflexivity.
    + intros H; injection H as <-. reflexivity.
Qed.

(* the flags left by the directive, read back declaratively *)
Lemma tls_setup_allows d t :
  tls_setup d = Some t ->
  ((negb (mn t) || od t) && negb (ss t) && negb (beq (email t) (bs "off"))) = tlsdir_allows_managed d
  /\ od t = tlsdir_on_demand d.
Proof.
  destruct d as [|a l o n]; cbn [tls_setup tlsdir_allows_managed tlsdir_on_demand].
  - intros H; injection H as <-. split; reflexivity.
  - destruct a as [|e|].
    + destruct l, o, n; cbn; intros H; try discriminate; injection H as <-; split; reflexivity.
    + destruct (beq e (bs "off")) eqn:E; destruct (beq e (bs "self_signed")) eqn:E';
        intros H; injection H as <-; cbn [en mg mn ss nr od email]; rewrite ?E, ?E';
        destruct l, o; split; reflexivity.
    + destruct o; intros H; injection H as <-; split; reflexivity.
Qed.

(* ------------------------------------------------------------------ standardizeAddress *)
Lemma beq_HTTPS_P80 : beq HTTPS P80 = false. Proof. reflexivity. Qed.

Lemma std_addr_http_port l p0 sc p :
  p0 <> [] ->
  (if beq l HTTP && beq p0 P443 || beq l HTTPS && beq p0 P80 then None
   else Some (match l with
              | [] => if beq p0 P80 then HTTP else if beq p0 P443 then HTTPS else []
              | _ => l
              end, p0)) = Some (sc, p) ->
  beq p P80 || beq sc HTTP = beq l HTTP || beq p0 P80.
Proof.
  intros Hne.
  destruct (beq l HTTP) eqn:E3.
  - rewrite andb_true_l. destruct (beq p0 P443) eqn:E4; [intros H; discriminate H|]. rewrite orb_false_l.
    destruct (beq l HTTPS && beq p0 P80) eqn:E5; [intros H; discriminate H|].
    intros H. injection H as <- <-.
    destruct l as [|c l']; [discriminate E3|]. rewrite E3. rewrite orb_true_r. reflexivity.
  - rewrite andb_false_l, orb_false_l.
    destruct (beq l HTTPS) eqn:E4.
    + destruct (beq p0 P80) eqn:E5; [intros H; discriminate H|]. rewrite andb_false_r.
      intros H. injection H as <- <-. rewrite E5.
      apply beq_eq in E4. subst l. reflexivity.
    + rewrite andb_false_l. intros H. injection H as <- <-.
      destruct l as [|c l'].
      * destruct (beq p0 P80) eqn:E5; [reflexivity|].
        destruct (beq p0 P443); reflexivity.
      * rewrite E3. rewrite orb_false_r. reflexivity.
Qed.

(* a declaration is plain HTTP (scheme http, port 80 or the service name) exactly when the parsed
   address carries scheme "http" or port "80" *)
Lemma std_addr_http sch prt sc p :
  std_addr sch prt = Some (sc, p) ->
  beq p P80 || beq sc HTTP = beq (to_lower sch) HTTP || beq prt P80 || beq prt HTTP.
Proof.
  unfold std_addr, std_port. generalize (to_lower sch) as l. intros l.
  destruct (beq prt HTTPS) eqn:E1.
  { apply beq_eq in E1. subst prt. change (beq P443 P80) with false.
    change (beq HTTPS P80) with false. change (beq HTTPS HTTP) with false.
    change (beq P443 P443) with true. cbn [P443 bs].
    rewrite andb_true_r, andb_false_r, orb_false_r.
    destruct (beq l HTTP) eqn:E2; [discriminate|].
    intros H. injection H as <- <-.
    destruct l as [|c l']; [reflexivity|]. rewrite E2. reflexivity. }
  destruct (beq prt HTTP) eqn:E2.
  { apply beq_eq in E2. subst prt. change (beq P80 P80) with true. change (beq P80 P443) with false.
    cbn [P80 bs]. rewrite andb_false_r, andb_true_r. simpl orb at 1.
    destruct (beq l HTTPS) eqn:E3; [discriminate|].
    intros H. injection H as <- <-. rewrite !orb_true_r. reflexivity. }
  rewrite orb_false_r.
  destruct prt as [|c0 prt'].
  - (* no port: derived from the scheme *)
    change (beq [] P80) with false. rewrite orb_false_r.
    destruct (beq l HTTP) eqn:E3.
    + change (beq P80 P443) with false. change (beq P80 P80) with true.
      rewrite andb_false_r, andb_true_r. simpl orb at 1.
      destruct (beq l HTTPS) eqn:E4.
      { apply beq_eq in E3. apply beq_eq in E4. subst l. discriminate. }
      intros H. injection H as <- <-. reflexivity.
    + destruct (beq l HTTPS) eqn:E4.
      * change (beq P443 P443) with true. change (beq P443 P80) with false. simpl.
        intros H. injection H as <- <-.
        apply beq_eq in E4. subst l. reflexivity.
      * simpl. intros H. injection H as <- <-.
        destruct l as [|c l']; [reflexivity|]. rewrite E3. reflexivity.
  - intros H. rewrite (std_addr_http_port l (c0 :: prt') sc p); [reflexivity|discriminate|exact H].
Qed.

(* ------------------------------------------------------------------ qualification *)
(* markQualifiedForAutoHTTPS, as the eight-way conjunction it is *)
Lemma qualifies_iff s :
  qualifies s = true <->
  is_loopback (host s) = false /\ is_loopback (listen s) = false /\
  is_internal (host s) = false /\ is_internal (listen s) = false /\
  (mn (tls s) = false \/ od (tls s) = true) /\ ss (tls s) = false /\
  port s <> P80 /\ email (tls s) <> bs "off" /\
  (subject_public (host s) = true \/ od (tls s) = true) /\
  scheme s <> HTTP.
Proof.
  unfold qualifies, qualifies_for_managed_tls.
  rewrite !andb_true_iff, !negb_true_iff, !orb_true_iff, !negb_true_iff, !beq_neq.
  tauto.
Qed.

Lemma mark_one_spec s :
  mark_one s = with_tls s (set_mg (mg (tls s) || qualifies s) (tls s)).
Proof.
  unfold mark_one. destruct (qualifies s); [rewrite orb_true_r; reflexivity|].
  rewrite orb_false_r. destruct s as [a b c d t r]. destruct t. reflexivity.
Qed.

Lemma mark_one_managed s : mg (tls (mark_one s)) = mg (tls s) || qualifies s.
Proof. rewrite mark_one_spec. reflexivity. Qed.

(* the model's qualification coincides with the declarative spec of the property *)
Lemma qualifies_spec d s :
  addr_agrees d = true -> init_site d = Some s -> qualifies s = spec_qualifies d.
Proof.
  unfold addr_agrees, init_site. intros Ha Hi.
  destruct (std_addr (ds_scheme d) (ds_port d)) as [[sc p]|] eqn:Es; [|discriminate].
  apply andb_true_iff in Ha as [Hs Hp]. apply beq_eq in Hs. apply beq_eq in Hp. subst sc p.
  pose proof (std_addr_http _ _ _ _ Es) as Hh.
  destruct (tls_setup (d_tls d)) as [t|] eqn:Et; [|discriminate].
  injection Hi as <-.
  destruct (tls_setup_allows _ _ Et) as [Hal Hod].
  unfold qualifies, qualifies_for_managed_tls, spec_qualifies, local_addr, declared_http.
  cbn [scheme host port listen tls].
  rewrite <- Hal, <- Hod, <- Hh.
  destruct (is_loopback (da_host d)), (is_internal (da_host d)), (is_loopback (d_listen d)),
    (is_internal (d_listen d)), (mn t), (od t), (ss t), (beq (da_port d) P80), (beq (email t) (bs "off")),
    (subject_public (da_host d)), (beq (da_scheme d) HTTP); reflexivity.
Qed.

(* ------------------------------------------------------------------ hostHasOtherPort / makePlaintextRedirects *)
Lemma other_has_app a b k i h p :
  other_has (a ++ b) k i h p = other_has a k i h p || other_has b (k + length a) i h p.
Proof.
  revert k. induction a as [|x a IH]; intros k; simpl.
  - rewrite Nat.add_0_r. reflexivity.
  - rewrite IH. rewrite <- orb_assoc. do 3 f_equal. lia.
Qed.

Lemma hhop_app_false all x j p :
  (j < length all)%nat -> host_has_other_port (all ++ x) j p = false -> host_has_other_port all j p = false.
Proof.
  intros Hj. unfold host_has_other_port. rewrite nth_error_app1 by exact Hj.
  destruct (nth_error all j) as [c|]; [|reflexivity].
  rewrite other_has_app. intros H. apply orb_false_iff in H. tauto.
Qed.

(* the condition under which site j of [all] gets a redirect site, relative to [all] *)
Definition wants_in (all : list site) (j : nat) (c : site) : Prop :=
  en (tls c) = true /\ nr (tls c) = false /\ port c <> P80 /\ scheme c <> HTTP /\
  host_has_other_port all j P80 = false /\
  (port c = P443 \/ host_has_other_port all j P443 = false).

Lemma wants_redirect_iff all j c : wants_redirect all j c = true <-> wants_in all j c.
Proof.
  unfold wants_redirect, wants_in.
  rewrite !andb_true_iff, orb_true_iff, !negb_true_iff, !beq_neq, beq_eq. tauto.
Qed.

Lemma wants_in_mono all x j c : (j < length all)%nat -> wants_in (all ++ x) j c -> wants_in all j c.
Proof.
  intros Hj (H1 & H2 & Hp & Hs & H3 & H4). repeat split; try assumption.
  - eapply hhop_app_false; eassumption.
  - destruct H4 as [H4|H4]; [left; exact H4|right; eapply hhop_app_false; eassumption].
Qed.

Lemma mpr_sound n : forall i all, (i + n <= length all)%nat ->
  exists extra, mpr n i all = all ++ extra /\
    Forall (fun r => exists j c, (i <= j < i + n)%nat /\ nth_error all j = Some c /\
                                 r = redir_site c /\ wants_in all j c) extra.
Proof.
  induction n as [|n IH]; intros i all Hlen; simpl.
  - exists []. rewrite app_nil_r. split; [reflexivity|constructor].
  - destruct (nth_error all i) as [c|] eqn:Ec.
    2:{ apply nth_error_None in Ec. lia. }
    destruct (wants_redirect all i c) eqn:Ew.
    + destruct (IH (S i) (all ++ [redir_site c])) as (extra & He & Hf).
      { rewrite app_length. simpl. lia. }
      exists (redir_site c :: extra). split.
      * rewrite He. rewrite <- app_assoc. reflexivity.
      * constructor.
        -- exists i, c. split; [lia|]. split; [exact Ec|]. split; [reflexivity|].
           apply wants_redirect_iff. exact Ew.
        -- eapply Forall_impl; [|exact Hf]. intros r (j & c' & Hj & Hn & Hr & Hw).
           assert (Hjl : (j < length all)%nat) by lia.
           rewrite nth_error_app1 in Hn by exact Hjl.
           exists j, c'. split; [lia|]. split; [exact Hn|]. split; [exact Hr|].
           eapply wants_in_mono; eassumption.
    + destruct (IH (S i) all) as (extra & He & Hf); [lia|].
      exists extra. split; [exact He|].
      eapply Forall_impl; [|exact Hf]. intros r (j & c' & Hj & Hn & Hr & Hw).
      exists j, c'. split; [lia|]. auto.
Qed.

Lemma make_plaintext_redirects_sound all :
  exists extra, make_plaintext_redirects all = all ++ extra /\
    Forall (fun r => exists j c, nth_error all j = Some c /\ r = redir_site c /\ wants_in all j c) extra.
Proof.
  unfold make_plaintext_redirects.
  destruct (mpr_sound (length all) 0 all) as (extra & He & Hf); [simpl; lia|].
  exists extra. split; [exact He|].
  eapply Forall_impl; [|exact Hf]. intros r (j & c & _ & H). exists j, c. exact H.
Qed.

(* ------------------------------------------------------------------ stage lemmas *)
Lemma enable_one_mg s : mg (tls (enable_one s)) = mg (tls s).
Proof.
  unfold enable_one. destruct (mg (tls s) && negb (od (tls s))); [|reflexivity].
  match goal with |- context [if ?b then _ else _] => destruct b end; reflexivity.
Qed.
Lemma enable_one_redir s : redir (enable_one s) = redir s.
Proof.
  unfold enable_one. destruct (mg (tls s) && negb (od (tls s))); [|reflexivity].
  match goal with |- context [if ?b then _ else _] => destruct b end; reflexivity.
Qed.
Lemma mark_one_redir s : redir (mark_one s) = redir s.
Proof. unfold mark_one. destruct (qualifies s); reflexivity. Qed.
Lemma enable_one_unmanaged s : mg (tls s) = false -> enable_one s = s.
Proof. unfold enable_one. intros ->. reflexivity. Qed.
Lemma mark_one_unqualified s : qualifies s = false -> mark_one s = s.
Proof. unfold mark_one. intros ->. reflexivity. Qed.

Lemma init_site_fields d s :
  init_site d = Some s ->
  scheme s = da_scheme d /\ host s = da_host d /\ port s = da_port d /\ listen s = d_listen d /\
  redir s = None /\ mg (tls s) = false /\ tls_setup (d_tls d) = Some (tls s).
Proof.
  unfold init_site. destruct (tls_setup (d_tls d)) as [t|] eqn:Et; [|discriminate].
  intros H. injection H as <-. simpl. repeat split; try reflexivity.
  eapply tls_setup_unmanaged; exact Et.
Qed.

Lemma init_sites_cons d ds init :
  init_sites (d :: ds) = Some init ->
  exists s l, init = s :: l /\ init_site d = Some s /\ init_sites ds = Some l.
Proof.
  simpl. destruct (init_site d) as [s|]; [|discriminate].
  destruct (init_sites ds) as [l|]; [|discriminate].
  intros H. injection H as <-. eauto.
Qed.

Definition after_callback (s : site) : site := enable_one (mark_one s).

Lemma stage_a_shape init :
  exists extra, stage_a init = map after_callback init ++ extra /\
    Forall (fun r => exists j c, nth_error (map after_callback init) j = Some c /\ r = redir_site c /\
                                 wants_in (map after_callback init) j c) extra.
Proof.
  unfold stage_a. rewrite map_map. apply make_plaintext_redirects_sound.
Qed.

(* S1 over the whole pipeline *)
Lemma spec_managed_decl ds : forall init extra,
  init_sites ds = Some init -> forallb addr_agrees ds = true ->
  Forall (fun r => is_synth r = true /\ mg (tls r) = false) extra ->
  spec_managed ds (map after_callback init ++ extra) = true.
Proof.
  induction ds as [|d ds IH]; intros init extra Hi Ha Hx.
  - simpl in Hi. injection Hi as <-. simpl. apply forallb_forall. intros r Hr.
    rewrite Forall_forall in Hx. destruct (Hx r Hr) as [-> ->]. reflexivity.
  - apply init_sites_cons in Hi as (s & l & -> & Hs & Hl).
    simpl in Ha. apply andb_true_iff in Ha as [Had Ha].
    simpl. rewrite (IH l extra Hl Ha Hx), andb_true_r.
    destruct (init_site_fields _ _ Hs) as (_ & _ & _ & _ & Hr & Hm & _).
    unfold after_callback, is_synth.
    rewrite enable_one_mg, mark_one_managed, enable_one_redir, mark_one_redir, Hr, Hm.
    rewrite (qualifies_spec d s Had Hs). simpl. rewrite eqb_reflx. reflexivity.
Qed.

Lemma redir_site_synth c : is_synth (redir_site c) = true /\ mg (tls (redir_site c)) = false.
Proof. split; reflexivity. Qed.

Lemma pipeline_managed ds init :
  init_sites ds = Some init -> forallb addr_agrees ds = true ->
  spec_managed ds (stage_a init) = true.
Proof.
  intros Hi Ha. destruct (stage_a_shape init) as (extra & -> & Hf).
  apply spec_managed_decl; try assumption.
  eapply Forall_impl; [|exact Hf]. intros r (j & c & _ & -> & _). apply redir_site_synth.
Qed.

(* S2 over the whole pipeline *)
Definition finish (s : site) : site := group_one (ms_one s).

Lemma group_one_tls s : tls (group_one s) = tls s.
Proof. unfold group_one. destruct (port s); reflexivity. Qed.

Lemma qualifies_not_http s : qualifies s = true -> beq (port s) P80 || beq (scheme s) HTTP = false.
Proof.
  intros H. apply qualifies_iff in H. destruct H as (_ & _ & _ & _ & _ & _ & Hp & _ & _ & Hs).
  apply beq_neq in Hp. apply beq_neq in Hs. rewrite Hp, Hs. reflexivity.
Qed.

Lemma ms_one_http s : beq (port s) P80 || beq (scheme s) HTTP = true -> en (tls (ms_one s)) = false.
Proof.
  intros H. unfold ms_one. destruct (en (tls s)) eqn:E; [|exact E].
  rewrite H. cbn [port with_tls].
  match goal with |- context [if ?b then _ else _] => destruct b end; reflexivity.
Qed.

Lemma spec_http_decl ds : forall init extra,
  init_sites ds = Some init -> forallb addr_agrees ds = true ->
  Forall (fun r => en (tls r) = false /\ port r = P80 /\ scheme r = []) extra ->
  spec_http_no_tls ds (map finish (map after_callback init) ++ extra) = true.
Proof.
  induction ds as [|d ds IH]; intros init extra Hi Ha Hx.
  - simpl in Hi. injection Hi as <-. simpl. apply forallb_forall. intros r Hr.
    rewrite Forall_forall in Hx. destruct (Hx r Hr) as (-> & -> & ->). reflexivity.
  - apply init_sites_cons in Hi as (s & l & -> & Hs & Hl).
    simpl in Ha. apply andb_true_iff in Ha as [Had Ha].
    simpl. rewrite (IH l extra Hl Ha Hx), andb_true_r.
    destruct (declared_http d) eqn:Ed; [|reflexivity]. simpl.
    apply negb_true_iff.
    destruct (init_site_fields _ _ Hs) as (Hsc & _ & Hp & _ & _ & Hm & _).
    assert (Hh : beq (port s) P80 || beq (scheme s) HTTP = true).
    { unfold addr_agrees in Had.
      destruct (std_addr (ds_scheme d) (ds_port d)) as [[sc p]|] eqn:Es; [|discriminate].
      apply andb_true_iff in Had as [H1 H2]. apply beq_eq in H1. apply beq_eq in H2. subst sc p.
      rewrite Hp, Hsc, (std_addr_http _ _ _ _ Es). exact Ed. }
    assert (Hq : qualifies s = false).
    { destruct (qualifies s) eqn:Eq; [|reflexivity]. apply qualifies_not_http in Eq. congruence. }
    unfold after_callback, finish. rewrite (mark_one_unqualified _ Hq), (enable_one_unmanaged _ Hm).
    rewrite group_one_tls. apply ms_one_http. exact Hh.
Qed.

Lemma finish_redir_site c :
  let r := finish (redir_site c) in en (tls r) = false /\ port r = P80 /\ scheme r = [].
Proof. cbv. auto. Qed.

Lemma pipeline_http_no_tls ds init :
  init_sites ds = Some init -> forallb addr_agrees ds = true ->
  spec_http_no_tls ds (pipeline init) = true.
Proof.
  intros Hi Ha. unfold pipeline, stage_b. rewrite map_map.
  destruct (stage_a_shape init) as (extra & -> & Hf).
  change (fun x => group_one (ms_one x)) with finish.
  rewrite map_app. apply spec_http_decl; try assumption.
  apply Forall_forall. intros r Hr. apply in_map_iff in Hr as (r0 & <- & Hr0).
  rewrite Forall_forall in Hf. destruct (Hf r0 Hr0) as (j & c & _ & -> & _).
  apply finish_redir_site.
Qed.

(* ------------------------------------------------------------------ redirect targets *)
Lemma redir_port_not_80 c : port c <> P80 -> redir_port c <> P80.
Proof.
  unfold redir_port. destruct (beq (port c) P443); [discriminate|auto].
Qed.

(* every synthesised site: plain HTTP on :80 for the host of a TLS-enabled site without no_redirect
   that has no other site of its host on :80, and it names that site's port (omitted for 443) *)
Lemma redirects_sound all :
  exists extra, make_plaintext_redirects all = all ++ extra /\
    forall r, In r extra ->
      exists j c, nth_error all j = Some c /\ host r = host c /\ listen r = listen c /\
        port r = P80 /\ scheme r = [] /\ en (tls r) = false /\ mg (tls r) = false /\
        redir r = Some (if beq (port c) P443 then [] else port c) /\
        en (tls c) = true /\ nr (tls c) = false /\ port c <> P80 /\ scheme c <> HTTP /\
        host_has_other_port all j P80 = false.
Proof.
  destruct (make_plaintext_redirects_sound all) as (extra & He & Hf).
  exists extra. split; [exact He|]. intros r Hr. rewrite Forall_forall in Hf.
  destruct (Hf r Hr) as (j & c & Hn & -> & (H1 & H2 & Hp & Hs & H3 & _)).
  exists j, c. split; [exact Hn|]. do 7 (split; [reflexivity|]). auto.
Qed.

(* no synthesised redirect names the HTTP port, for EVERY site list *)
Lemma redirects_never_http_port all :
  exists extra, make_plaintext_redirects all = all ++ extra /\
    forall r, In r extra -> exists p, redir r = Some p /\ p <> P80.
Proof.
  destruct (make_plaintext_redirects_sound all) as (extra & He & Hf).
  exists extra. split; [exact He|]. intros r Hr. rewrite Forall_forall in Hf.
  destruct (Hf r Hr) as (j & c & Hn & -> & (_ & _ & Hp & _)).
  exists (redir_port c). split; [reflexivity|]. apply redir_port_not_80. exact Hp.
Qed.

(* ... and the site a redirect points to still serves HTTPS after MakeServers: TLS stays enabled,
   its port is not 80 and its scheme is not http *)
Lemma ms_one_https c :
  en (tls c) = true -> beq (port c) P80 = false -> beq (scheme c) HTTP = false ->
  tls (ms_one c) = tls c /\ host (ms_one c) = host c /\
  beq (scheme (ms_one c)) HTTP = false /\ beq (port (ms_one c)) P80 = false.
Proof.
  intros He Hp Hs. unfold ms_one. rewrite He, Hp, Hs. cbn [orb].
  destruct c as [sc h p l t r]. cbn [scheme host port listen tls redir] in *.
  destruct sc as [|s0 sc'];
    match goal with |- context [if ?b then _ else _] => destruct b end;
    cbn [with_scheme with_port with_tls scheme host port listen tls redir];
    repeat split; try assumption; reflexivity.
Qed.

Lemma group_one_fields s :
  host (group_one s) = host s /\ scheme (group_one s) = scheme s /\
  (beq (port s) P80 = false -> beq (port (group_one s)) P80 = false).
Proof.
  unfold group_one. destruct (port s) eqn:E; cbn [with_port host scheme port]; rewrite ?E; auto.
Qed.

Lemma finish_keeps_https c :
  en (tls c) = true -> port c <> P80 -> scheme c <> HTTP ->
  https_site (finish c) = true /\ nr (tls (finish c)) = nr (tls c) /\ host (finish c) = host c.
Proof.
  intros He Hp Hs. apply beq_neq in Hp. apply beq_neq in Hs.
  destruct (ms_one_https c He Hp Hs) as (Ht & Hh & Hsc & Hpo).
  destruct (group_one_fields (ms_one c)) as (Gh & Gs & Gp).
  unfold finish, https_site. rewrite group_one_tls, Ht, He, Gs, Hsc, (Gp Hpo), Gh, Hh. auto.
Qed.

Lemma redirects_target_stays_https all :
  exists extra, make_plaintext_redirects all = all ++ extra /\
    forall r, In r extra ->
      exists j c, nth_error all j = Some c /\ host r = host (finish c) /\ redir r = Some (redir_port c) /\
        https_site (finish c) = true /\ nr (tls (finish c)) = false.
Proof.
  destruct (make_plaintext_redirects_sound all) as (extra & He & Hf).
  exists extra. split; [exact He|]. intros r Hr. rewrite Forall_forall in Hf.
  destruct (Hf r Hr) as (j & c & Hn & -> & (H1 & H2 & Hp & Hs & _)).
  destruct (finish_keeps_https c H1 Hp Hs) as (Hh & Hnr & Hho).
  exists j, c. split; [exact Hn|]. split; [symmetry; exact Hho|]. split; [reflexivity|].
  split; [exact Hh|]. rewrite Hnr. exact H2.
Qed.

(* ------------------------------------------------------------------ completeness of redirect synthesis *)
Lemma other_has_true l : forall k i h p,
  other_has l k i h p = true -> exists r, In r l /\ host r = h /\ port r = p.
Proof.
  induction l as [|x l IH]; intros k i h p; simpl; [discriminate|].
  intros H. apply orb_true_iff in H as [H|H].
  - apply andb_true_iff in H as [H Hp]. apply andb_true_iff in H as [_ Hh].
    apply beq_eq in Hh. apply beq_eq in Hp. exists x. auto.
  - destruct (IH _ _ _ _ H) as (r & Hr & Hh & Hp). exists r. auto.
Qed.

Lemma mpr_complete n : forall i orig acc,
  (i + n = length orig)%nat -> Forall (fun r => port r = P80) acc ->
  forall j c, (i <= j < i + n)%nat -> nth_error orig j = Some c -> wants_in orig j c ->
  exists extra, mpr n i (orig ++ acc) = orig ++ extra /\
    exists r, In r extra /\ host r = host c /\ port r = P80.
Proof.
  induction n as [|n IH]; intros i orig acc Hlen Hacc j c Hj Hn Hw; [lia|].
  simpl.
  assert (Hi : (i < length orig)%nat) by lia.
  destruct (nth_error orig i) as [ci|] eqn:Eci.
  2:{ apply nth_error_None in Eci. lia. }
  rewrite nth_error_app1 by exact Hi. rewrite Eci.
  set (all' := if wants_redirect (orig ++ acc) i ci then (orig ++ acc) ++ [redir_site ci] else orig ++ acc).
  assert (Hall' : exists acc', all' = orig ++ acc' /\ Forall (fun r => port r = P80) acc' /\
                               (forall r, In r acc -> In r acc') /\
                               (wants_redirect (orig ++ acc) i ci = true -> In (redir_site ci) acc')).
  { unfold all'. destruct (wants_redirect (orig ++ acc) i ci).
    - exists (acc ++ [redir_site ci]). rewrite app_assoc. split; [reflexivity|]. split.
      + apply Forall_app. split; [exact Hacc|]. constructor; [reflexivity|constructor].
      + split; intros; apply in_or_app; [left; assumption|right; left; reflexivity].
    - exists acc. split; [reflexivity|]. split; [exact Hacc|]. split; [auto|discriminate]. }
  destruct Hall' as (acc' & -> & Hacc' & Hsub & Hnew).
  destruct (mpr_sound n (S i) (orig ++ acc')) as (more & Hmore & _).
  { rewrite app_length. lia. }
  destruct (Nat.eq_dec j i) as [->|Hne].
  - (* the candidate itself *)
    rewrite Hn in Eci. injection Eci as <-.
    exists (acc' ++ more). split; [rewrite Hmore, app_assoc; reflexivity|].
    destruct (wants_redirect (orig ++ acc) i c) eqn:Ew.
    + exists (redir_site c). split; [apply in_or_app; left; auto|]. split; reflexivity.
    + (* blocked: only a synthesised site of the same host can be the blocker *)
      destruct Hw as (H1 & H2 & Hp80 & Hsch & H3 & H4).
      apply beq_neq in Hp80. apply beq_neq in Hsch.
      unfold wants_redirect in Ew. rewrite H1, H2, Hp80, Hsch in Ew. simpl in Ew.
      unfold host_has_other_port in Ew, H3, H4.
      rewrite nth_error_app1 in Ew by exact Hi. rewrite Hn in Ew, H3, H4.
      rewrite !other_has_app, H3 in Ew. simpl in Ew.
      destruct (other_has acc (length orig) i (host c) P80) eqn:E80.
      * destruct (other_has_true _ _ _ _ _ E80) as (r & Hr & Hh & Hp).
        exists r. split; [apply in_or_app; left; auto|]. auto.
      * simpl in Ew. exfalso.
        destruct H4 as [H4|H4].
        -- rewrite H4 in Ew. discriminate.
        -- rewrite H4 in Ew. simpl in Ew.
           destruct (beq (port c) P443); [discriminate|]. simpl in Ew.
           apply negb_false_iff in Ew.
           destruct (other_has_true _ _ _ _ _ Ew) as (r & Hr & _ & Hp).
           rewrite Forall_forall in Hacc. rewrite (Hacc r Hr) in Hp. discriminate.
  - destruct (IH (S i) orig acc') with (j := j) (c := c) as (extra & He & r & Hr & Hh & Hp);
      try assumption; try lia.
    exists extra. split; [exact He|]. exists r. auto.
Qed.

Lemma redirects_complete all j c :
  nth_error all j = Some c -> wants_in all j c ->
  exists extra, make_plaintext_redirects all = all ++ extra /\
    exists r, In r extra /\ host r = host c /\ port r = P80.
Proof.
  intros Hn Hw. unfold make_plaintext_redirects.
  assert (Hj : (0 <= j < 0 + length all)%nat).
  { split; [lia|]. apply nth_error_Some. congruence. }
  pose proof (mpr_complete (length all) 0 all [] eq_refl (Forall_nil _) j c Hj Hn Hw) as H.
  rewrite app_nil_r in H. exact H.
Qed.

(* ------------------------------------------------------------------ witnesses of the refuted clauses *)
Definition w_http_tls : dsite :=
  Build_dsite (bs "http") [] (bs "http") (bs "example.com") (bs "80") []
              (TDir (A1 (bs "admin@example.com")) false false false).

Definition w_alt : dsite :=
  Build_dsite [] (bs "8443") [] (bs "example.com") (bs "8443") [] (TDir (A1 (bs "admin@example.com")) false false false).
Definition w_443_noredir : dsite :=
  Build_dsite [] [] [] (bs "example.com") [] [] (TDir A0 false false true).

(* an HTTPS site (TLS enabled, no no_redirect, no plaintext sibling) for whose host nothing is synthesised *)
Lemma redirect_complete_refuted :
  exists ds init, init_sites ds = Some init /\ forallb addr_agrees ds = true /\
    exists c, In c (pipeline init) /\ https_site c = true /\ nr (tls c) = false /\
      forallb (fun o => negb (beq (host o) (host c) && beq (port o) P80)) (pipeline init) = true /\
      forallb (fun o => negb (is_synth o)) (pipeline init) = true.
Proof.
  exists [w_alt; w_443_noredir]. eexists. split; [vm_compute; reflexivity|]. split; [vm_compute; reflexivity|].
  eexists. split; [vm_compute; left; reflexivity|]. repeat split; vm_compute; reflexivity.
Qed.

(* ------------------------------------------------------------------ the redirect handler *)
Definition plain (s : bytes) : Prop := forall c, In c s -> c <> COLON /\ c <> LBR /\ c <> RBR.

Lemma plain_contains s c : plain s -> (c = COLON \/ c = LBR \/ c = RBR) -> contains_byte c s = false.
Proof.
  intros Hp Hc. unfold contains_byte. destruct (existsb (N.eqb c) s) eqn:E; [|reflexivity].
  apply existsb_exists in E as (x & Hx & Hcx). apply N.eqb_eq in Hcx. subst x.
  destruct (Hp c Hx) as (H1 & H2 & H3). destruct Hc as [->| [->| ->]]; contradiction.
Qed.

Lemma contains_byte_app c a b : contains_byte c (a ++ b) = contains_byte c a || contains_byte c b.
Proof. unfold contains_byte. apply existsb_app. Qed.

Lemma last_index_none s : contains_byte COLON s = false -> last_index_byte COLON s = None.
Proof.
  unfold contains_byte. induction s as [|x s IH]; [reflexivity|].
  cbn [existsb last_index_byte]. intros H. apply orb_false_iff in H as [Hx Hs]. rewrite (IH Hs).
  rewrite N.eqb_sym, Hx. reflexivity.
Qed.

Lemma last_index_app h p :
  contains_byte COLON p = false -> last_index_byte COLON (h ++ COLON :: p) = Some (length h).
Proof.
  intros Hp. induction h as [|x h IH]; cbn [app last_index_byte].
  - rewrite (last_index_none p Hp). rewrite N.eqb_refl. reflexivity.
  - rewrite IH. reflexivity.
Qed.

Lemma split_host_port_none h : plain h -> split_host_port h = None.
Proof.
  intros Hp. unfold split_host_port.
  rewrite last_index_none; [reflexivity|]. apply plain_contains; auto.
Qed.

Lemma firstn_app_exact {A} (a b : list A) : firstn (length a) (a ++ b) = a.
Proof. induction a; simpl; congruence. Qed.
Lemma skipn_app_exact {A} (a b : list A) : skipn (length a) (a ++ b) = b.
Proof. induction a; simpl; congruence. Qed.

Lemma skipn_app_cons {A} (a b : list A) x : skipn (S (length a)) (a ++ x :: b) = b.
Proof. induction a as [|y a IH]; [reflexivity|exact IH]. Qed.

Lemma split_host_port_simple h p :
  plain h -> plain p -> split_host_port (h ++ COLON :: p) = Some (h, p).
Proof.
  intros Hh Hp. unfold split_host_port.
  rewrite last_index_app by (apply plain_contains; auto).
  assert (Hc : forall c, (c = LBR \/ c = RBR) -> contains_byte c (h ++ COLON :: p) = false).
  { intros c Hc. rewrite contains_byte_app. rewrite (plain_contains h c Hh) by tauto.
    simpl. rewrite (plain_contains p c Hp) by tauto.
    destruct Hc as [->| ->]; reflexivity. }
  destruct h as [|c0 h'].
  - pose proof (Hc LBR (or_introl eq_refl)) as HL. pose proof (Hc RBR (or_intror eq_refl)) as HR.
    cbn [app length firstn] in *. change (COLON =? LBR) with false. cbv iota.
    rewrite HL, HR. reflexivity.
  - assert (H0 : c0 <> LBR) by (apply (Hh c0); left; reflexivity).
    cbn [app]. apply N.eqb_neq in H0. rewrite H0.
    change (c0 :: h' ++ COLON :: p) with ((c0 :: h') ++ COLON :: p).
    rewrite firstn_app_exact.
    rewrite (plain_contains (c0 :: h') COLON Hh) by auto.
    rewrite (Hc LBR), (Hc RBR) by auto.
    rewrite skipn_app_cons. reflexivity.
Qed.

Definition port_part (rport : bytes) : bytes := match rport with [] => [] | _ => COLON :: rport end.

Lemma has_prefix_app_self (x y : bytes) : has_prefix (x ++ y) x = true.
Proof. induction x as [|c x IH]; [destruct y; reflexivity|]. simpl. rewrite N.eqb_refl. exact IH. Qed.

Lemma has_suffix_app_self (a b : bytes) : has_suffix (a ++ b) b = true.
Proof. unfold has_suffix. rewrite rev_app_distr. apply has_prefix_app_self. Qed.

(* when SplitHostPort finds the port p behind h, exactly ":p" is dropped *)
Lemma strip_port_go_some h x p :
  split_host_port (h ++ COLON :: p) = Some (x, p) -> strip_port_go (h ++ COLON :: p) = h.
Proof.
  intros H. unfold strip_port_go. rewrite H, has_suffix_app_self.
  replace (length (h ++ COLON :: p) - S (length p))%nat with (length h)
    by (rewrite app_length; simpl; lia).
  apply firstn_app_exact.
Qed.

(* bracketed literals: [a] with no bracket inside a (colons allowed) *)
Definition nobr (s : bytes) : Prop := forall c, In c s -> c <> LBR /\ c <> RBR.
Definition bracketed (h : bytes) : Prop := exists a, h = LBR :: a ++ [RBR] /\ nobr a.
(* a host as it appears in a Host header: a name / IPv4 address, or a bracketed IPv6 literal *)
Definition host_token (h : bytes) : Prop := plain h \/ bracketed h.

Lemma nobr_contains s c : nobr s -> (c = LBR \/ c = RBR) -> contains_byte c s = false.
Proof.
  intros Hp Hc. unfold contains_byte. destruct (existsb (N.eqb c) s) eqn:E; [|reflexivity].
  apply existsb_exists in E as (x & Hx & Hcx). apply N.eqb_eq in Hcx. subst x.
  destruct (Hp c Hx) as (H1 & H2). destruct Hc as [->| ->]; contradiction.
Qed.

Lemma index_byte_app c a r : contains_byte c a = false -> index_byte c (a ++ c :: r) = Some (length a).
Proof.
  unfold contains_byte. induction a as [|x a IH]; intros H; simpl.
  - rewrite N.eqb_refl. reflexivity.
  - simpl in H. apply orb_false_iff in H as [Hx Ha]. rewrite N.eqb_sym, Hx. rewrite (IH Ha). reflexivity.
Qed.

Lemma length_bracket (a : bytes) : length (LBR :: a ++ [RBR]) = S (S (length a)).
Proof. simpl. rewrite app_length. simpl. lia. Qed.

(* "[a]" carries no port *)
Lemma split_host_port_bracket_none a : nobr a -> split_host_port (LBR :: a ++ [RBR]) = None.
Proof.
  intros Ha. unfold split_host_port.
  destruct (last_index_byte COLON (LBR :: a ++ [RBR])) as [i|]; [|reflexivity].
  change (LBR =? LBR) with true. cbv iota.
  change (LBR :: a ++ [RBR]) with ((LBR :: a) ++ RBR :: []).
  rewrite index_byte_app.
  2:{ unfold contains_byte. simpl. change (RBR =? LBR) with false. simpl.
      apply (nobr_contains a RBR Ha). auto. }
  replace (length ((LBR :: a) ++ [RBR])) with (S (length (LBR :: a))) by (rewrite app_length; simpl; lia).
  rewrite Nat.eqb_refl. reflexivity.
Qed.

(* "[a]:p" splits into the bare literal and the port *)
Lemma split_host_port_bracket a p :
  nobr a -> plain p -> split_host_port ((LBR :: a ++ [RBR]) ++ COLON :: p) = Some (a, p).
Proof.
  intros Ha Hp. unfold split_host_port.
  rewrite last_index_app by (apply plain_contains; auto).
  rewrite length_bracket.
  assert (E : (LBR :: a ++ [RBR]) ++ COLON :: p = (LBR :: a) ++ RBR :: COLON :: p)
    by (simpl; rewrite <- app_assoc; reflexivity).
  rewrite E. cbn [app]. change (LBR =? LBR) with true. cbv iota.
  change (LBR :: a ++ RBR :: COLON :: p) with ((LBR :: a) ++ RBR :: COLON :: p).
  rewrite index_byte_app.
  2:{ unfold contains_byte. simpl. change (RBR =? LBR) with false. simpl.
      apply (nobr_contains a RBR Ha). auto. }
  cbn [length].
  replace (length ((LBR :: a) ++ RBR :: COLON :: p)) with (S (S (S (length a + length p))))
    by (rewrite app_length; simpl; lia).
  assert (N1 : Nat.eqb (S (S (length a))) (S (S (S (length a + length p)))) = false)
    by (apply Nat.eqb_neq; lia).
  rewrite N1, Nat.eqb_refl.
  (* no '[' behind the first one *)
  rewrite contains_byte_app. rewrite (nobr_contains a LBR Ha) by auto.
  assert (CL : contains_byte LBR (RBR :: COLON :: p) = false).
  { unfold contains_byte. simpl. change (LBR =? RBR) with false. change (LBR =? COLON) with false. simpl.
    apply (plain_contains p LBR Hp). auto. }
  rewrite CL. simpl orb. cbv iota.
  (* no ']' behind the port's colon *)
  assert (SK : skipn (S (S (length a))) ((LBR :: a) ++ RBR :: COLON :: p) = COLON :: p).
  { change ((LBR :: a) ++ RBR :: COLON :: p) with (LBR :: (a ++ RBR :: COLON :: p)).
    cbn [skipn]. apply skipn_app_cons. }
  rewrite SK.
  assert (CR : contains_byte RBR (COLON :: p) = false).
  { unfold contains_byte. simpl. change (RBR =? COLON) with false. simpl. apply (plain_contains p RBR Hp). auto. }
  rewrite CR.
  replace (S (length a) - 1)%nat with (length a) by lia.
  rewrite firstn_app_exact.
  assert (SK2 : skipn (S (S (S (length a)))) ((LBR :: a) ++ RBR :: COLON :: p) = p).
  { rewrite <- E. rewrite <- (length_bracket a). apply skipn_app_cons. }
  rewrite SK2. reflexivity.
Qed.

Lemma strip_port_go_token h : host_token h -> strip_port_go h = h.
Proof.
  intros [Hh|(a & -> & Ha)]; unfold strip_port_go.
  - rewrite (split_host_port_none h Hh). reflexivity.
  - rewrite (split_host_port_bracket_none a Ha). reflexivity.
Qed.

Lemma strip_port_go_token_port h p : host_token h -> plain p -> strip_port_go (h ++ COLON :: p) = h.
Proof.
  intros [Hh|(a & -> & Ha)] Hp.
  - exact (strip_port_go_some h h p (split_host_port_simple h p Hh Hp)).
  - exact (strip_port_go_some _ a p (split_host_port_bracket a p Ha Hp)).
Qed.

(* For every host h — a name without colon or brackets, or a bracketed IPv6 literal —, every port
   text p, every redirect port and every request URI: the Location is https://h[:redirPort]uri;
   the Host's own port is dropped, the brackets are kept. *)
Lemma redir_location_token rport h uri :
  host_token h ->
  redir_location rport h uri = hex_escape_non_ascii (bs "https://" ++ h ++ port_part rport ++ uri).
Proof. intros Hh. unfold redir_location. rewrite (strip_port_go_token h Hh). reflexivity. Qed.

Lemma redir_location_token_port rport h p uri :
  host_token h -> plain p ->
  redir_location rport (h ++ COLON :: p) uri = hex_escape_non_ascii (bs "https://" ++ h ++ port_part rport ++ uri).
Proof. intros Hh Hp. unfold redir_location. rewrite (strip_port_go_token_port h p Hh Hp). reflexivity. Qed.

Lemma hex_escape_ascii s : (forall c, In c s -> c < 128) -> hex_escape_non_ascii s = s.
Proof.
  induction s as [|x s IH]; intros H; [reflexivity|].
  unfold hex_escape_non_ascii in *. simpl.
  assert (Hx : x < 128) by (apply H; left; reflexivity).
  apply N.ltb_lt in Hx. rewrite Hx. simpl. f_equal. apply IH. intros c Hc. apply H. right. exact Hc.
Qed.

(* ------------------------------------------------------------------ classifier lemmas *)
Lemma ip_never_qualifies s ip :
  parse_ip (host s) = Some ip -> od (tls s) = false -> qualifies s = false.
Proof.
  intros Hip Hod. unfold qualifies, qualifies_for_managed_tls, subject_public, subject_is_ip.
  rewrite Hip, Hod. simpl. rewrite !andb_false_r. reflexivity.
Qed.

Lemma empty_host_never_qualifies s : host s = [] -> od (tls s) = false -> qualifies s = false.
Proof.
  intros Hh Hod. unfold qualifies, qualifies_for_managed_tls. rewrite Hh, Hod.
  change (subject_public []) with false. simpl. rewrite !andb_false_r. reflexivity.
Qed.

Lemma lower_byte_not_colon c : c <> COLON -> lower_byte c <> COLON.
Proof.
  unfold lower_byte, COLON. intros H.
  destruct ((65 <=? c) && (c <=? 90)) eqn:E; [|exact H].
  apply andb_true_iff in E as [E1 E2]. apply N.leb_le in E1. lia.
Qed.

Lemma to_lower_no_colon h : contains_byte COLON h = false -> contains_byte COLON (to_lower h) = false.
Proof.
  unfold contains_byte, to_lower. induction h as [|x h IH]; [reflexivity|].
  cbn [map existsb]. intros H. apply orb_false_iff in H as [Hx Hh]. rewrite (IH Hh), orb_false_r.
  apply N.eqb_neq. apply N.eqb_neq in Hx. intros E. symmetry in E. revert E. apply lower_byte_not_colon. auto.
Qed.

(* the return expression of IsLoopback for the table as it stands *)
Lemma is_loopback_host_unfold h :
  is_loopback_host h = beq h (bs "localhost") || beq (trim_brackets h) (bs "::1")
                       || has_prefix h (bs "127.") || has_suffix h (bs ".localhost").
Proof.
  unfold is_loopback_host.
  cbn [existsb gen_c15_loopback_eq gen_c15_loopback_trim_eq gen_c15_loopback_prefixes gen_c15_loopback_suffixes fst snd].
  rewrite !orb_false_r. reflexivity.
Qed.

(* a host without a colon is judged by IsLoopback on the whole string *)
Lemma loopback_hostpart_no_colon h : contains_byte COLON h = false -> loopback_hostpart h = h.
Proof.
  intros H. unfold loopback_hostpart, split_host_port.
  rewrite (last_index_none _ (to_lower_no_colon h H)). reflexivity.
Qed.

Lemma is_loopback_no_colon h :
  contains_byte COLON h = false ->
  is_loopback h = beq h (bs "localhost") || beq (trim_brackets h) (bs "::1")
                  || has_prefix h (bs "127.") || has_suffix h (bs ".localhost").
Proof.
  intros H. unfold is_loopback. rewrite (loopback_hostpart_no_colon h H). apply is_loopback_host_unfold.
Qed.

Lemma loopback_name_never_qualifies s :
  contains_byte COLON (host s) = false ->
  host s = bs "localhost" \/ has_suffix (host s) (bs ".localhost") = true \/ has_prefix (host s) (bs "127.") = true ->
  qualifies s = false.
Proof.
  intros Hc H. unfold qualifies. rewrite (is_loopback_no_colon _ Hc).
  destruct H as [H|[H|H]].
  - rewrite H. reflexivity.
  - rewrite H. rewrite !orb_true_r. reflexivity.
  - rewrite H. rewrite !orb_true_r. reflexivity.
Qed.

Lemma subject_is_internal_unfold h :
  subject_is_internal h = beq h (bs "localhost") || has_suffix h (bs ".localhost") || has_suffix h (bs ".local")
                          || has_suffix h (bs ".home.arpa").
Proof.
  unfold subject_is_internal. cbn [existsb gen_c15_cert_internal_eq gen_c15_cert_internal_suffixes].
  rewrite !orb_false_r, !orb_assoc. reflexivity.
Qed.

(* .local / .localhost / .home.arpa names cannot get a public certificate *)
Lemma internal_suffix_never_public h :
  has_suffix h (bs ".localhost") = true \/ has_suffix h (bs ".local") = true \/ has_suffix h (bs ".home.arpa") = true ->
  subject_public h = false.
Proof.
  intros H. unfold subject_public. rewrite subject_is_internal_unfold.
  destruct H as [H|[H|H]]; rewrite H; rewrite ?orb_true_r; simpl; rewrite ?andb_false_r; reflexivity.
Qed.

(* ------------------------------------------------------------------ statements as used in C15_Props *)
Lemma managed_iff_qualifies s : mg (tls s) = false ->
  (mg (tls (mark_one s)) = true <->
   is_loopback (host s) = false /\ is_loopback (listen s) = false /\
   is_internal (host s) = false /\ is_internal (listen s) = false /\
   (mn (tls s) = false \/ od (tls s) = true) /\ ss (tls s) = false /\
   port s <> P80 /\ email (tls s) <> bs "off" /\
   (subject_public (host s) = true \/ od (tls s) = true) /\
   scheme s <> HTTP).
Proof. intros Hm. rewrite mark_one_managed, Hm. simpl. exact (qualifies_iff s). Qed.

Lemma redirects_complete_partial all j c : nth_error all j = Some c ->
  en (tls c) = true -> nr (tls c) = false -> port c <> P80 -> scheme c <> HTTP ->
  host_has_other_port all j P80 = false ->
  (port c = P443 \/ host_has_other_port all j P443 = false) ->
  exists extra, make_plaintext_redirects all = all ++ extra /\
    exists r, In r extra /\ host r = host c /\ port r = P80.
Proof. intros Hn H1 H2 Hp Hs H3 H4. apply (redirects_complete all j c Hn). unfold wants_in. auto 10. Qed.

Lemma redir_location_full rport h p uri : host_token h -> plain p ->
  redir_location rport h uri = hex_escape_non_ascii (bs "https://" ++ h ++ port_part rport ++ uri) /\
  redir_location rport (h ++ COLON :: p) uri = hex_escape_non_ascii (bs "https://" ++ h ++ port_part rport ++ uri).
Proof. intros. split; [apply redir_location_token|apply redir_location_token_port]; assumption. Qed.

(* ------------------------------------------------------------------ at most one redirect site per host *)
Lemma other_has_nth l : forall o k i x h p,
  nth_error l k = Some x -> (o + k)%nat <> i -> host x = h -> port x = p -> other_has l o i h p = true.
Proof.
  induction l as [|y l IH]; intros o k i x h p Hn Hne Hh Hp; [destruct k; discriminate|].
  cbn [other_has]. destruct k as [|k]; simpl in Hn.
  - injection Hn as ->. rewrite Nat.add_0_r in Hne. apply Nat.eqb_neq in Hne. rewrite Hne.
    rewrite Hh, Hp, !beq_refl. reflexivity.
  - rewrite (IH (S o) k i x h p Hn); [apply orb_true_r| lia | exact Hh | exact Hp].
Qed.

Lemma in_skipn_nth {A} (l : list A) m x : In x (skipn m l) -> exists k, (m <= k)%nat /\ nth_error l k = Some x.
Proof.
  revert l. induction m as [|m IH]; intros l H.
  - simpl in H. apply In_nth_error in H as (k & Hk). exists k. split; [lia|exact Hk].
  - destruct l as [|y l]; [destruct H|]. simpl in H. destruct (IH l H) as (k & Hk & Hn).
    exists (S k). split; [lia|exact Hn].
Qed.

Lemma skipn_app_le {A} (a b : list A) m : (m <= length a)%nat -> skipn m (a ++ b) = skipn m a ++ b.
Proof.
  revert a. induction m as [|m IH]; intros a H; [reflexivity|].
  destruct a as [|y a]; [simpl in H; lia|]. simpl. apply IH. simpl in H. lia.
Qed.

Lemma mpr_unique n : forall i all, (i + n <= length all)%nat ->
  exists extra, mpr n i all = all ++ extra /\ NoDup (map host extra) /\
    forall r x, In r extra -> In x (skipn (i + n) all) -> port x = P80 -> host x <> host r.
Proof.
  induction n as [|n IH]; intros i all Hlen; simpl.
  - exists []. rewrite app_nil_r. split; [reflexivity|]. split; [constructor|]. intros r x [].
  - destruct (nth_error all i) as [c|] eqn:Ec.
    2:{ apply nth_error_None in Ec. lia. }
    destruct (wants_redirect all i c) eqn:Ew.
    + destruct (IH (S i) (all ++ [redir_site c])) as (extra & He & Hnd & Hx).
      { rewrite app_length. simpl. lia. }
      assert (Hsk : skipn (S i + n) (all ++ [redir_site c]) = skipn (i + S n) all ++ [redir_site c]).
      { replace (S i + n)%nat with (i + S n)%nat by lia. apply skipn_app_le. exact Hlen. }
      exists (redir_site c :: extra). split; [rewrite He, <- app_assoc; reflexivity|]. split.
      * simpl. constructor; [|exact Hnd]. intros Hin. apply in_map_iff in Hin as (r & Hr & Hin).
        apply (Hx r (redir_site c) Hin); [rewrite Hsk; apply in_or_app; right; left; reflexivity|reflexivity|].
        simpl. symmetry. exact Hr.
      * intros r x [<-|Hr] Hxin Hp.
        -- (* a later :80 site of the same host would have blocked the redirect *)
           simpl. intros Hh.
           apply wants_redirect_iff in Ew. destruct Ew as (_ & _ & _ & _ & H80 & _).
           unfold host_has_other_port in H80. rewrite Ec in H80.
           apply in_skipn_nth in Hxin as (k & Hk & Hn).
           rewrite (other_has_nth all 0 k i x (host c) P80 Hn) in H80; [discriminate|simpl; lia|exact Hh|exact Hp].
        -- apply (Hx r x Hr); [|exact Hp]. rewrite Hsk. apply in_or_app. left. exact Hxin.
    + destruct (IH (S i) all) as (extra & He & Hnd & Hx); [lia|].
      exists extra. split; [exact He|]. split; [exact Hnd|].
      intros r x Hr Hxin Hp. apply (Hx r x Hr); [|exact Hp].
      replace (S i + n)%nat with (i + S n)%nat by lia. exact Hxin.
Qed.

Lemma redirects_unique all :
  exists extra, make_plaintext_redirects all = all ++ extra /\ NoDup (map host extra).
Proof.
  unfold make_plaintext_redirects.
  destruct (mpr_unique (length all) 0 all) as (extra & He & Hnd & _); [simpl; lia|].
  exists extra. auto.
Qed.
