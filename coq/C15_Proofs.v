Require Import V.Lib V.GoPath V.C15_Model.
Open Scope N_scope.
Lemma tls_absent_ok : tls_setup TAbsent = Some tls0.
Proof. reflexivity. Qed.
