(* C13 — property theorems only.  Each is closed by [exact] of a lemma proved in
   C13_Proofs.v and followed by Print Assumptions. *)
Require Import V.Lib V.GoPath V.C13_Model V.C13_Proofs.
Require V.Gen_C20 V.C19_Model V.C20_Model.
From Coq Require Import Permutation.
Open Scope list_scope.
Open Scope N_scope.

(* ---------- request side ---------- *)

(* 1 vs 4 byte lengths: the reference decoder recovers every length below 2^31 *)
Theorem C13_size_roundtrip :
  forall n rest, n < 2147483648 -> decode_size (encode_size n ++ rest) = Some (n, rest).
Proof. exact size_roundtrip. Qed.
Print Assumptions C13_size_roundtrip.

(* the model's arithmetic form of the 4-byte size is Go's [size |= 1<<31] written big endian *)
Theorem C13_size_encoding_is_go :
  forall n, 127 < n -> n < 2147483648 ->
  encode_size n = let m := N.lor n 2147483648 in
                  [(m / 16777216) mod 256; (m / 65536) mod 256; (m / 256) mod 256; m mod 256].
Proof. exact encode_size_is_go. Qed.
Print Assumptions C13_size_encoding_is_go.

(* every record the client writes is a multiple of 8 bytes long and is read back exactly
   (type, request id, content) by a responder that takes the padding length from the header *)
Theorem C13_records_wellformed :
  forall ty id c rest, ty < 256 -> id < 65536 -> len c <= 65535 ->
  len (write_record ty id c) mod 8 = 0 /\
  parse_record (write_record ty id c ++ rest) = Some (ty, id, c, rest).
Proof. exact records_wellformed. Qed.
Print Assumptions C13_records_wellformed.

(* for EVERY body length: the stdin stream is cut into records of at most 65500 bytes, none of
   them empty except the terminator, and a responder reading records up to the first empty one
   gets exactly the body bytes and is positioned right after the stream *)
Theorem C13_stream_concat :
  forall ty id data rest, ty < 256 -> id < 65536 ->
  (forall c, In c (chunks (N.to_nat MAXW) data) -> c <> [] /\ len c <= MAXW) /\
  concat (chunks (N.to_nat MAXW) data) = data /\
  read_stream ty id (stream_wire ty id data ++ rest) = Some (data, rest).
Proof. exact stream_concat. Qed.
Print Assumptions C13_stream_concat.

(* name-value pairs: encoding then decoding is the identity for all names and values < 2^31 *)
Theorem C13_pairs_roundtrip :
  forall ps, (forall kv, In kv ps -> len (fst kv) < 2147483648 /\ len (snd kv) < 2147483648) ->
  decode_pairs (concat (map encode_pair ps)) = Some ps.
Proof. exact pairs_roundtrip. Qed.
Print Assumptions C13_pairs_roundtrip.

(* The whole request, for EVERY parameter map whose pairs each fit a single 65 500-byte record
   (the property's own premise: the ENCODED pair, lengths included, is at most 65500 bytes), EVERY
   map iteration order and EVERY body: a conforming responder receives role Responder, flags 0,
   exactly the pairs (as a permutation of the map) and exactly the body bytes. *)
Theorem C13_request_exact :
  forall ps order body w,
  (forall kv, In kv ps -> fits kv = true) ->
  Permutation ps order ->
  request_wire order body = Ok w ->
  exists got, responder_receive w = Some (1, 0, got, body_bytes body) /\ Permutation ps got.
Proof. exact request_roundtrip_any_order. Qed.
Print Assumptions C13_request_exact.

Example C13_request_exact_nonvacuous :
  exists w, request_wire [(bs "SCRIPT_NAME", bs "/x.php"); (bs "EMPTY", [])] (Some (bs "a=1")) = Ok w /\
            responder_receive w = Some (1, 0, [(bs "SCRIPT_NAME", bs "/x.php"); (bs "EMPTY", [])], bs "a=1").
Proof. eexists. split; vm_compute; reflexivity. Qed.

(* the premise covers the pair that the unrepaired writePairs cut (it tested 8+len(k)+len(v)): a
   10-byte name with a 65485-byte value, whose encoding is exactly 65500 bytes *)
Example C13_request_exact_covers_boundary_pair :
  fits (wit_k, wit_v) = true /\ MAXW < 8 + len wit_k + len wit_v.
Proof. exact wit_fits. Qed.

(* writing a request never panics, whatever the sizes of names, values and body (a name that
   leaves no room in a record gets an empty value) *)
Theorem C13_request_no_panic :
  forall ps body, exists w, request_wire ps body = Ok w.
Proof. exact request_wire_total. Qed.
Print Assumptions C13_request_no_panic.

(* ---------- response side ---------- *)

(* record.read's slicing never goes out of range, for EVERY byte string from the peer *)
Theorem C13_record_read_no_panic : forall conn, exists r, record_read conn = Ok r.
Proof. exact record_read_no_panic. Qed.
Print Assumptions C13_record_read_no_panic.

Theorem C13_stream_reader_no_panic :
  forall conn sizes, exists x, sr_read_all (sr_init conn) sizes [] = Ok x.
Proof. exact stream_reader_no_panic. Qed.
Print Assumptions C13_stream_reader_no_panic.

(* Demultiplexing is exact: for EVERY sequence of output/stderr records (any content split, any
   padding length, any interleaving), followed by EndRequest and anything after it, and for
   EVERY sequence of caller buffer sizes: the bytes handed to the caller are a prefix of the
   concatenated output contents, the diverted bytes a prefix of the concatenated stderr
   contents, the only error is EOF, and at EOF both are complete. *)
Theorem C13_demux_exact :
  forall recs tail sizes d e s',
  Forall valid_rec recs ->
  sr_read_all (sr_init (wire_of recs ++ enc_rec end_rec ++ tail)) sizes [] = Ok (d, e, s') ->
  (e = None \/ e = Some REOF) /\
  (exists orest, stdout_of recs = d ++ orest /\ (e = Some REOF -> orest = [])) /\
  (exists erest, contents_of T_STDERR recs = stderr_of s' ++ erest /\ (e = Some REOF -> erest = [])).
Proof. exact demux_exact. Qed.
Print Assumptions C13_demux_exact.

Example C13_demux_exact_nonvacuous :
  sr_read_all (sr_init (wire_of [(6, bs "St", 3); (7, bs "warn", 0); (6, bs "atus", 1); (6, [], 0)]
                        ++ enc_rec end_rec ++ bs "junk")) [3; 0; 100; 5; 5]%nat []
  = Ok (bs "Status", Some REOF,
        {| s_conn := [0; 0; 0; 0; 0; 0; 0; 0] ++ bs "junk"; s_buf := []; s_stderr := [bs "warn"] |}).
Proof. vm_compute. reflexivity. Qed.


(* ... and a caller that keeps reading (buffers of at least one byte, enough reads) gets
   everything: all output bytes, all stderr bytes on the side, then EOF *)
Theorem C13_demux_complete :
  forall recs tail sizes d e s',
  Forall valid_rec recs ->
  (forall m, In m sizes -> (1 <= m)%nat) ->
  (length (stdout_of recs) + length recs < length sizes)%nat ->
  sr_read_all (sr_init (wire_of recs ++ enc_rec end_rec ++ tail)) sizes [] = Ok (d, e, s') ->
  e = Some REOF /\ d = stdout_of recs /\ stderr_of s' = contents_of T_STDERR recs.
Proof. exact demux_complete. Qed.
Print Assumptions C13_demux_complete.

(* Progress: FCGIClient.Request reads the response through bufio.Reader, which gives up
   (io.ErrNoProgress, the client gets 502 and everything is lost) after 100 consecutive reads
   returning (0, nil).  For EVERY framing — any interleaving and ANY run length of stderr records,
   before, inside or after the header block, empty stderr records included — and EVERY sequence
   of caller buffers, the reader returns (0, nil) only when it consumed an EMPTY OUTPUT record:
   the number of such reads, hence the longest run of them, is bounded by the number of empty
   output records the responder sent, and a responder sending fewer than 100 (a conforming one
   sends one, the stream terminator) never exhausts bufio's budget. *)
Theorem C13_reader_progress :
  forall recs tail sizes t,
  Forall valid_rec recs ->
  sr_reads (sr_init (wire_of recs ++ enc_rec end_rec ++ tail)) sizes = Ok t ->
  (stalls t <= length (filter empty_out recs))%nat /\
  (max_stall_run t <= length (filter empty_out recs))%nat /\
  ((length (filter empty_out recs) < BUFIO_EMPTY_READS)%nat -> bufio_ok t = true).
Proof. exact reader_progress. Qed.
Print Assumptions C13_reader_progress.

(* 150 stderr records in a row inside the header block: every read still delivers bytes *)
Example C13_reader_progress_nonvacuous :
  sr_reads (sr_init (wire_of ([(6, bs "Status: 2", 0)] ++ repeat (7, bs "E", 7) 150 ++ [(7, [], 0); (6, bs "00", 0); (6, [], 0)])
                     ++ enc_rec end_rec)) [64; 64; 64; 64]%nat
  = Ok [(64, 9, None); (64, 2, None); (64, 0, None); (64, 0, Some REOF)]%nat.
Proof. vm_compute. reflexivity. Qed.

(* The bound is tight, and the hypothesis of the last clause necessary: the reader does return
   (0, nil) on every empty output record (so did the code before this round), hence a responder
   that sends 100 empty stdout records in a row — which no conforming responder does, an empty
   record closes the stream — exhausts the budget. *)
Theorem C13_reader_progress_tight :
  exists recs sizes t,
    Forall valid_rec recs /\ length (filter empty_out recs) = BUFIO_EMPTY_READS /\
    sr_reads (sr_init (wire_of recs ++ enc_rec end_rec)) sizes = Ok t /\ bufio_ok t = false.
Proof. exact reader_progress_tight. Qed.
Print Assumptions C13_reader_progress_tight.

(* [sr_reads] is the call-by-call view of the very reads [sr_read_all] accumulates *)
Theorem C13_reads_are_the_reads :
  forall sizes s acc,
  exists t, sr_reads s sizes = Ok t /\
  match sr_read_all s sizes acc with
  | Ok (d, e, _) => (length d = length (concat (rev acc)) + fold_right (fun x a => snd (fst x) + a) 0 t)%nat /\
                    (match e with None => True | Some _ => exists m n, last t (0, 0, None)%nat = (m, n, e) end)
  | Panic => False
  end.
Proof. exact sr_reads_all. Qed.
Print Assumptions C13_reads_are_the_reads.

(* The response as a whole: for EVERY conforming head (fields) and body, EVERY framing of
   head ++ body into output records with stderr records interleaved anywhere, what the client
   side parses is exactly the responder's fields and body; stderr is complete and separate. *)
Theorem C13_response_exact :
  forall fields body recs tail sizes d e s',
  Forall conf_field fields -> Forall valid_rec recs ->
  stdout_of recs = render_head fields ++ body ->
  (forall m, In m sizes -> (1 <= m)%nat) ->
  (length (stdout_of recs) + length recs < length sizes)%nat ->
  sr_read_all (sr_init (wire_of recs ++ enc_rec end_rec ++ tail)) sizes [] = Ok (d, e, s') ->
  parse_head d = Some (fields, body) /\ stderr_of s' = contents_of T_STDERR recs /\ e = Some REOF.
Proof. exact response_exact. Qed.
Print Assumptions C13_response_exact.

Example C13_response_exact_nonvacuous :
  let fields := [(bs "Status", bs "404 Not Found"); (bs "X-A", bs "1")] in
  let recs := [(6, bs "Status: 404 N", 0); (7, bs "oops", 2); (6, bs "ot Found" ++ [13; 10] ++ bs "X-A: 1" ++ [13], 5);
               (6, [10; 13; 10] ++ bs "body", 0)] in
  stdout_of recs = render_head fields ++ bs "body" /\ resp_status fields = Some 404.
Proof. vm_compute. split; reflexivity. Qed.

(* ---------- dispatch ---------- *)

(* A request path with the rule's extension (any letter case) under the rule's path, not
   excepted, is sent to a responder with the trimmed request path as script — for EVERY rule
   list, EVERY file system (whether or not the file exists) and EVERY path — PROVIDED the path
   can be split for that rule. *)
Theorem C13_ext_always_dispatched_partial :
  forall cs stat_ok open_ok rules i p r,
  In r rules -> rule_matches cs r p = true -> allowed cs r p = true ->
  r_ext r <> [] -> last_byte (r_ext r) <> Some SLASH ->
  has_suffix (to_lower (trim_right p)) (to_lower (r_ext r)) = true ->
  can_split cs r (trim_right p) = true ->
  exists j, serve cs stat_ok open_ok rules i p = ODispatch j (trim_right p).
Proof. exact serve_ext_dispatched. Qed.
Print Assumptions C13_ext_always_dispatched_partial.

(* With case-insensitive paths (the default) and a split string equal to the extension up to
   letter case (the php preset), the proviso always holds: the clause is true in full. *)
Theorem C13_ext_always_dispatched_default :
  forall stat_ok open_ok rules i p r,
  In r rules -> rule_matches false r p = true -> allowed false r p = true ->
  r_ext r <> [] -> last_byte (r_ext r) <> Some SLASH ->
  to_lower (r_split r) = to_lower (r_ext r) ->
  has_suffix (to_lower (trim_right p)) (to_lower (r_ext r)) = true ->
  exists j, serve false stat_ok open_ok rules i p = ODispatch j (trim_right p).
Proof. exact serve_ext_dispatched_default. Qed.
Print Assumptions C13_ext_always_dispatched_default.

Example C13_ext_always_dispatched_nonvacuous :
  serve false (fun _ => true) (fun _ => false) [php_rule] 0 (bs "/B.PHP. ") = ODispatch 0 (bs "/B.PHP").
Proof. vm_compute. reflexivity. Qed.

(* Without the proviso the clause is false: with CASE_SENSITIVE_PATH the existing file /B.PHP
   under the php preset goes to the next handler (the static file server). *)
Theorem C13_ext_always_dispatched_refuted :
  exists stat_ok open_ok rules p r,
    In r rules /\ rule_matches true r p = true /\ allowed true r p = true /\
    stat_ok (trim_right p) = true /\ r_ext r <> [] /\ last_byte (r_ext r) <> Some SLASH /\
    has_suffix (to_lower (trim_right p)) (to_lower (r_ext r)) = true /\
    serve true stat_ok open_ok rules 0 p = ONext.
Proof. exact ext_dispatch_case_sensitive_refuted. Qed.
Print Assumptions C13_ext_always_dispatched_refuted.

(* the dispatch decision itself never panics — EVERY rule list, file system and request path,
   the empty path included (strings.HasSuffix(fpath, "/") replaced fpath[len(fpath)-1]) *)
Theorem C13_dispatch_no_panic :
  forall cs stat_ok open_ok rules i p, serve cs stat_ok open_ok rules i p <> OPanic.
Proof. exact serve_no_panic. Qed.
Print Assumptions C13_dispatch_no_panic.

(* script name and path info are split at the FIRST occurrence of the configured split string
   (compared case-folded unless paths are case sensitive): DOCUMENT_URI ++ PATH_INFO is the script
   path, DOCUMENT_URI ends with the split string and no shorter prefix does *)
Theorem C13_split_env_spec :
  forall cs r f d pi,
  split_at cs r f = Ok (d, pi) ->
  d ++ pi = f /\
  has_suffix (fold cs d) (fold cs (r_split r)) = true /\
  exists pos, length d = (pos + length (r_split r))%nat /\
    forall k, (k < pos)%nat -> has_prefix (skipn k (fold cs f)) (fold cs (r_split r)) = false.
Proof. exact split_at_spec. Qed.
Print Assumptions C13_split_env_spec.

(* ... and once canSplit has accepted the path the split cannot go out of range: splitPos folds
   ASCII letters only (repaired, F-C13-3), which is the model's [fold], so the offset found in the
   folded path is an offset of the original path *)
Theorem C13_split_total :
  forall cs r f, can_split cs r f = true -> exists d pi, split_at cs r f = Ok (d, pi).
Proof. exact split_at_total. Qed.
Print Assumptions C13_split_total.

(* ---------- CGI variables ---------- *)

(* every header arrives as HTTP_<NAME> with its values joined by ", " — for EVERY request whose
   header fields map to distinct HTTP_* names, whatever the configured env entries and method *)
Theorem C13_env_headers_arrive :
  forall cs sv r q f el n vals,
  env_list cs sv r q f = Ok el ->
  NoDup (map (fun kv => env_name (fst kv)) (q_headers q)) ->
  In (n, vals) (q_headers q) ->
  env_lookup (env_name n) el = Some (join (bs ", ") vals).
Proof. exact env_headers_arrive. Qed.
Print Assumptions C13_env_headers_arrive.

(* every configured env entry arrives EXPANDED (the last one of a name wins) unless a request
   header maps to the same name or it is one of REQUEST_METHOD / CONTENT_LENGTH / CONTENT_TYPE,
   which the client sets per method; a value without braces arrives verbatim *)
Theorem C13_env_entries_arrive_partial :
  forall cs sv r q f el k,
  env_list cs sv r q f = Ok el ->
  mem k (map (fun kv => env_name (fst kv)) (q_headers q)) = false ->
  mem k METHOD_VARS = false ->
  forall v, env_lookup k (r_env r) = Some v ->
  exists out, cfg_expand q v = Ok out /\ env_lookup k el = Some out /\
              (C19_Model.has_brace v = false -> out = v).
Proof. exact env_entries_arrive. Qed.
Print Assumptions C13_env_entries_arrive_partial.

(* "the responder receives exactly … the configured env entries": for EVERY rule, request and
   configured entry (same provisos), the value received is the TEMPLATE of the configured value —
   a function of the configured text alone (C20_template_total, C20_replace_factorises) — rendered
   with the request's substitution function, whose empty value is the EMPTY STRING
   (NewReplacer(r, nil, "")). *)
Theorem C13_env_configured_entries_exact :
  forall cs sv r q f el k v,
  env_list cs sv r q f = Ok el ->
  mem k (map (fun kv => env_name (fst kv)) (q_headers q)) = false ->
  mem k METHOD_VARS = false ->
  env_lookup k (r_env r) = Some v ->
  exists t, C20_Model.template v = Ok t /\
            env_lookup k el = Some (C20_Model.render (cfg_gs q) t) /\
            C20_Model.e_empty (cfg_renv CFG_EMPTY q) = [].
Proof. exact env_configured_entries_exact. Qed.
Print Assumptions C13_env_configured_entries_exact.

(* ... and these are the placeholders that render as the empty string: a request header, cookie
   or query argument the request does not carry, any response header, the recorder and TLS
   placeholders (no recorder, plain HTTP), and every unknown placeholder *)
Theorem C13_env_absent_value_is_empty_string :
  forall q key, absent_for q key -> cfg_gs q key = [].
Proof. exact cfg_absent_empty. Qed.
Print Assumptions C13_env_absent_value_is_empty_string.

(* The table the expansion runs on is C20's dispatch table (the labels of getSubstitution's switch,
   C20_vocabulary_is_dispatch_table) with the three TLS-dependent labels handed in.  Every label
   it COMPUTES from the request components has, in buildEnv's request environment, exactly the
   value C13's own documented table lists — for EVERY request and empty value ... *)
Theorem C13_env_computed_labels_agree :
  forall empty q key f,
  In (key, C20_Model.Fn f) cfg_dispatch ->
  C20_Model.assoc key (cfg_defaults empty q) = Some (f (cfg_renv empty q)).
Proof. exact cfg_fn_agrees. Qed.
Print Assumptions C13_env_computed_labels_agree.

(* ... and on plain HTTP the expansion of a configured value is C20's expand_env itself *)
Theorem C13_env_expansion_is_replacer_model :
  forall q v, q_tls q = None -> cfg_expand q v = C20_Model.expand_env (cfg_renv CFG_EMPTY q) v.
Proof. exact cfg_expand_plain_http. Qed.
Print Assumptions C13_env_expansion_is_replacer_model.

(* building the variables never fails once canSplit has accepted the path (Replace is total) *)
Theorem C13_env_total :
  forall cs sv r q f, can_split cs r f = true -> exists el, env_list cs sv r q f = Ok el.
Proof. exact env_list_total. Qed.
Print Assumptions C13_env_total.

Definition ex_q : request :=
  {| q_method := bs "POST"; q_path := bs "/x.php"; q_query := bs "a=1"; q_requri := bs "/x.php?a=1";
     q_host := bs "h.test:8080"; q_remote := bs "[::1]:9"; q_proto := bs "HTTP/1.1";
     q_headers := [(bs "X-Forwarded-For", [bs "a"; bs "b"]); (bs "Content-Length", [bs "3"])];
     q_prefix := [SLASH]; q_user := []; q_cl := 3%Z;
     q_cookies := [(bs "sid", bs "abc")]; q_qargs := [(bs "a", bs "1")]; q_osenv := [];
     q_host_hp := Some (bs "h.test", bs "8080"); q_remote_hp := Some (bs "::1", bs "9"); q_tls := None |}.
Definition ex_sv : server := {| sv_name := bs "s"; sv_port := bs "80"; sv_software := bs "Casket"; sv_version := bs "1" |}.
Definition ex_rule : rule :=
  {| r_path := r_path php_rule; r_ext := r_ext php_rule; r_split := r_split php_rule; r_index := [];
     r_except := [];
     r_env := [(bs "AUTH_USER", bs "{>X-Auth-User}"); (bs "CIPHER", bs "{tls_cipher}");
               (bs "MIXED", bs "u={>X-Auth-User};h={host};m={method};c={~sid};q={?a}{?zz}");
               (bs "SERVER_NAME", bs "{hostonly}"); (bs "LIT", bs "plain")];
     r_root := r_root php_rule |}.

Example C13_env_configured_entries_exact_nonvacuous :
  match env_list false ex_sv ex_rule ex_q (bs "/x.php") with
  | Ok el => env_lookup (bs "AUTH_USER") el = Some [] /\
             env_lookup (bs "CIPHER") el = Some [] /\
             env_lookup (bs "MIXED") el = Some (bs "u=;h=h.test:8080;m=POST;c=abc;q=1") /\
             env_lookup (bs "SERVER_NAME") el = Some (bs "h.test") /\
             env_lookup (bs "LIT") el = Some (bs "plain")
  | Panic => False
  end.
Proof. vm_compute. repeat split; reflexivity. Qed.

(* HTTPS=on reaches the responder exactly on TLS connections and REQUEST_SCHEME says https exactly
   there — for EVERY rule and request that does not configure these names itself *)
Theorem C13_env_scheme_vars :
  forall cs sv r q f el,
  env_list cs sv r q f = Ok el ->
  (forall k, In k [bs "HTTPS"; bs "REQUEST_SCHEME"] ->
     mem k (map (fun kv => env_name (fst kv)) (q_headers q)) = false /\ env_lookup k (r_env r) = None) ->
  env_lookup (bs "HTTPS") el = match q_tls q with Some _ => Some (bs "on") | None => None end /\
  env_lookup (bs "REQUEST_SCHEME") el = Some (match q_tls q with Some _ => bs "https" | None => bs "http" end).
Proof. exact env_scheme_vars. Qed.
Print Assumptions C13_env_scheme_vars.

Definition ex_q_tls : request :=
  {| q_method := bs "GET"; q_path := bs "/x.php"; q_query := []; q_requri := bs "/x.php";
     q_host := bs "h.test"; q_remote := bs "10.0.0.1:1"; q_proto := bs "HTTP/2.0"; q_headers := [];
     q_prefix := [SLASH]; q_user := []; q_cl := 0%Z; q_cookies := []; q_qargs := []; q_osenv := [];
     q_host_hp := None; q_remote_hp := Some (bs "10.0.0.1", bs "1"); q_tls := Some (772, 4865) |}.

(* TLS 1.3 with a TLS 1.3 suite: no mod_ssl name for either, the replacer says tls1.3 / UNKNOWN *)
Example C13_env_scheme_vars_nonvacuous :
  match env_list false ex_sv ex_rule ex_q_tls (bs "/x.php"), env_list false ex_sv ex_rule ex_q (bs "/x.php") with
  | Ok el, Ok el0 =>
      env_lookup (bs "HTTPS") el = Some (bs "on") /\ env_lookup (bs "REQUEST_SCHEME") el = Some (bs "https") /\
      env_lookup (bs "SSL_PROTOCOL") el = None /\ env_lookup (bs "CIPHER") el = Some (bs "UNKNOWN") /\
      env_lookup (bs "HTTPS") el0 = None /\ env_lookup (bs "REQUEST_SCHEME") el0 = Some (bs "http")
  | _, _ => False
  end.
Proof. vm_compute. repeat split; reflexivity. Qed.

Example C13_env_computed_labels_agree_nonvacuous :
  In (bs "{method}", C20_Model.Fn C20_Model.e_method) cfg_dispatch /\
  In (bs "{status}", C20_Model.Fn C20_Model.f_status) cfg_dispatch /\
  C20_Model.assoc (bs "{scheme}") cfg_dispatch = Some C20_Model.Oracle.
Proof. vm_compute. tauto. Qed.

Example C13_env_expansion_is_replacer_model_nonvacuous :
  q_tls ex_q = None /\
  cfg_expand ex_q (bs "{method} {uri} {scheme} {>X-Auth-User}|{tls_cipher}|{port}") = Ok (bs "POST /x.php?a=1 http ||9").
Proof. vm_compute. split; reflexivity. Qed.

Example C13_env_absent_value_is_empty_string_nonvacuous :
  absent_for ex_q (bs "{>X-Auth-User}") /\ absent_for ex_q (bs "{~nocookie}") /\
  absent_for ex_q (bs "{?zz}") /\ absent_for ex_q (bs "{tls_cipher}") /\ absent_for ex_q (bs "{nope}").
Proof.
  repeat split.
  - left. exists (bs "X-Auth-User"). vm_compute. repeat split; reflexivity.
  - right; left. exists (bs "nocookie"). vm_compute. repeat split; reflexivity.
  - right; right; left. exists (bs "zz"). vm_compute. repeat split; reflexivity.
  - right; right; right; right; right; left. split; [reflexivity|]. vm_compute. tauto.
  - right; right; right; right; right; right. exists 110. vm_compute. repeat split; reflexivity.
Qed.

Example C13_split_env_spec_nonvacuous :
  split_at false php_rule (bs "/a/X.PHP/extra.php") = Ok (bs "/a/X.PHP", bs "/extra.php").
Proof. vm_compute. reflexivity. Qed.

Example C13_env_headers_arrive_nonvacuous :
  match env_list false ex_sv php_rule ex_q (bs "/x.php") with
  | Ok el => env_lookup (bs "HTTP_X_FORWARDED_FOR") el = Some (bs "a, b") /\
             env_lookup (bs "REMOTE_ADDR") el = Some (bs "::1") /\
             env_lookup (bs "CONTENT_LENGTH") el = Some (bs "3") /\
             env_lookup (bs "SCRIPT_FILENAME") el = Some (bs "/srv/x.php")
  | Panic => False
  end.
Proof. vm_compute. repeat split; reflexivity. Qed.

(* ---------- several fastcgi rules ---------- *)
(* The clause "an existing file with the rule's extension under the rule's path always reaches the responder"
   over ALL rules of a site: a rule that matches the path but cannot split it (its split string does not occur
   in the path) and has no index file for it is passed over - the "no index file present" branch of
   Handler.ServeHTTP continues with the next rule, it does not hand the request to the next middleware
   (the static file server) - for EVERY rule list, file system and path ... *)
Theorem C13_unsplittable_rule_is_skipped :
  forall cs stat_ok open_ok r rest i p,
  index_file open_ok (trim_right p) (r_index r) = None ->
  can_split cs r (trim_right p) = false ->
  serve cs stat_ok open_ok (r :: rest) i p = serve cs stat_ok open_ok rest (S i) p.
Proof. exact unsplittable_rule_is_skipped. Qed.
Print Assumptions C13_unsplittable_rule_is_skipped.

(* ... hence a script of a LATER rule is sent to a responder whatever rules that cannot split it stand in
   front (a catch-all php rule before the rule of another responder) *)
Theorem C13_later_rule_claims_its_script :
  forall cs stat_ok open_ok pre rest i p r,
  Forall (fun r0 => index_file open_ok (trim_right p) (r_index r0) = None /\ can_split cs r0 (trim_right p) = false) pre ->
  rule_matches cs r p = true -> allowed cs r p = true ->
  r_ext r <> [] -> last_byte (r_ext r) <> Some SLASH ->
  has_suffix (to_lower (trim_right p)) (to_lower (r_ext r)) = true ->
  can_split cs r (trim_right p) = true ->
  exists j, serve cs stat_ok open_ok (pre ++ r :: rest) i p = ODispatch j (trim_right p).
Proof. exact later_rule_claims_its_script. Qed.
Print Assumptions C13_later_rule_claims_its_script.

Example C13_later_rule_claims_its_script_nonvacuous :
  can_split false php_rule (bs "/cgi/tool.pl") = false /\
  serve false (fun _ => true) (fun _ => true) [php_rule; pl_rule] 0 (bs "/cgi/tool.pl") = ODispatch 1 (bs "/cgi/tool.pl") /\
  serve false (fun _ => false) (fun _ => false) [php_rule; pl_rule] 0 (bs "/cgi/tool.pl/extra/info") = ODispatch 1 (bs "/cgi/tool.pl/extra/info") /\
  serve false (fun _ => true) (fun _ => true) [php_rule] 0 (bs "/cgi/tool.pl") = ONext.
Proof. exact later_rule_witness. Qed.

(* ---------- the directive's setup: a preset on the directive line combined with a block ---------- *)

(* fastcgiParse applies the preset FIRST and the block's sub-directives after it, in the order written:
   for EVERY directive (any preset the code knows or none, any block) the rule it produces is the one
   the configuration says — every setting given in the block wins over the preset's value, the last
   one given wins, env entries accumulate in order, fields given nowhere keep the preset's value (or
   are empty without preset), the root is the site root unless the block names one. *)
Theorem C13_block_settings_override_preset :
  forall absroot c r, parse_rule absroot c = Some r -> r = eff_rule absroot c.
Proof. exact parse_rule_is_declared. Qed.
Print Assumptions C13_block_settings_override_preset.

Theorem C13_block_ext_split_index_win_over_preset :
  forall absroot path pre its post r,
  parse_rule absroot {| c_path := path; c_preset := pre; c_items := its ++ post |} = Some r ->
  (forall v tl, post = IExt v :: tl -> forallb (fun it => match it with IExt _ => false | _ => true end) tl = true -> r_ext r = v) /\
  (forall v tl, post = ISplit v :: tl -> forallb (fun it => match it with ISplit _ => false | _ => true end) tl = true -> r_split r = v) /\
  (forall v tl, post = IIndex v :: tl -> forallb (fun it => match it with IIndex _ => false | _ => true end) tl = true -> r_index r = v).
Proof. exact block_settings_win. Qed.
Print Assumptions C13_block_ext_split_index_win_over_preset.

(* the setup refuses exactly the configurations that name a preset the code does not know *)
Theorem C13_setup_refuses_only_unknown_presets :
  forall absroot c, parse_rule absroot c = None <-> preset_known c = false.
Proof. exact parse_rule_refuses_iff. Qed.
Print Assumptions C13_setup_refuses_only_unknown_presets.

Theorem C13_setup_rules_are_the_declared_rules :
  forall absroot cs,
  (forall rs, parse_rules absroot cs = Some rs -> rs = map (eff_rule absroot) cs) /\
  (forallb preset_known cs = true -> exists rs, parse_rules absroot cs = Some rs).
Proof. exact setup_rules_are_declared. Qed.
Print Assumptions C13_setup_rules_are_the_declared_rules.

(* end to end at model level: a directive with a preset AND its own extension in the block — an existing
   script with the block's extension (any letter case) under the rule's path is sent to the responder *)
Theorem C13_preset_with_own_ext_dispatched :
  forall absroot c r stat_ok open_ok p,
  parse_rule absroot c = Some r ->
  let d := eff_rule absroot c in
  rule_matches false d p = true -> allowed false d p = true ->
  r_ext d <> [] -> last_byte (r_ext d) <> Some SLASH ->
  to_lower (r_split d) = to_lower (r_ext d) ->
  has_suffix (to_lower (trim_right p)) (to_lower (r_ext d)) = true ->
  exists j, serve false stat_ok open_ok [r] 0 p = ODispatch j (trim_right p).
Proof. exact preset_with_own_ext_dispatched. Qed.
Print Assumptions C13_preset_with_own_ext_dispatched.

Example C13_preset_with_block_nonvacuous :
  parse_rule (bs "/srv") php5_cfg =
    Some {| r_path := bs "/"; r_ext := bs ".php5"; r_split := bs ".php5"; r_index := [bs "index.php5"];
            r_except := []; r_env := [(bs "APP_ENV", bs "prod")]; r_root := bs "/srv" |} /\
  parse_rule (bs "/srv") {| c_path := bs "/"; c_preset := Some (bs "php"); c_items := [] |} =
    Some {| r_path := bs "/"; r_ext := bs ".php"; r_split := bs ".php"; r_index := [bs "index.php"];
            r_except := []; r_env := []; r_root := bs "/srv" |} /\
  parse_rule (bs "/srv") {| c_path := bs "/"; c_preset := Some (bs "python"); c_items := [IExt (bs ".py")] |} = None /\
  (exists r, parse_rule (bs "/srv") php5_cfg = Some r /\
     serve false (fun _ => true) (fun _ => true) [r] 0 (bs "/info.php5") = ODispatch 0 (bs "/info.php5") /\
     serve false (fun _ => true) (fun _ => true) [r] 0 (bs "/INFO.PHP5") = ODispatch 0 (bs "/INFO.PHP5")).
Proof. exact php5_cfg_witness. Qed.

(* ---------- several responses being read at the same time ---------- *)

(* For EVERY set of responder byte streams and EVERY schedule of Read calls over their readers (which
   reader reads next, with what buffer size): what reader i has delivered, the error it ended with and
   its state are exactly what it gets reading ITS OWN stream alone with its own sequence of buffer
   sizes.  The delivered bytes of a response are a function of its own record stream: the readers of
   different responses share no buffer. *)
Theorem C13_responses_do_not_share_buffers :
  forall conns sched rs i,
  (i < length conns)%nat ->
  run_sched (map rd_init conns) sched = Ok rs ->
  sr_read_all (sr_init (nth i conns [])) (sizes_of i sched) [] =
    Ok (rd_data (nth i rs (rd_init [])), rd_err (nth i rs (rd_init [])), rd_s (nth i rs (rd_init []))).
Proof. exact responses_do_not_share_buffers. Qed.
Print Assumptions C13_responses_do_not_share_buffers.

Theorem C13_overlapping_reads_no_panic :
  forall sched rs, exists rs', run_sched rs sched = Ok rs'.
Proof. exact run_sched_no_panic. Qed.
Print Assumptions C13_overlapping_reads_no_panic.

Example C13_responses_do_not_share_buffers_nonvacuous :
  exists rs, run_sched (map rd_init two_conns) [(0, 3); (1, 8); (1, 8); (0, 8); (1, 8); (0, 8)]%nat = Ok rs /\
             map rd_data rs = [bs "AAAAAAAA"; bs "BBBBbb"] /\ map rd_err rs = [Some REOF; Some REOF].
Proof. exact two_conns_witness. Qed.

(* ---------- sequences of requests ---------- *)

(* EVERY sequence of requests, EVERY position in it: whatever was sent before and after — other sites, other
   rules, bodies of any size — a conforming responder receives for the i-th request role Responder, flags 0,
   exactly its pairs and exactly its body bytes: no byte of another request, no left-over of an earlier one.
   (The `after` cases hold the implementation to this when the earlier request failed part-way.) *)
Theorem C13_request_exact_in_any_sequence :
  forall reqs i ps order body w,
  nth_error reqs i = Some (order, body) ->
  (forall kv, In kv ps -> fits kv = true) ->
  Permutation ps order ->
  nth_error (sequence_wires reqs) i = Some (Ok w) ->
  exists got, responder_receive w = Some (1, 0, got, body_bytes body) /\ Permutation ps got.
Proof. exact request_roundtrip_in_any_sequence. Qed.
Print Assumptions C13_request_exact_in_any_sequence.

(* the bytes of a request do not depend on its neighbours *)
Theorem C13_sequence_wire_is_the_solo_wire : forall before q after,
  nth_error (sequence_wires (before ++ q :: after)) (length before) = Some (request_wire (fst q) (snd q)).
Proof. exact sequence_wires_pointwise. Qed.
Print Assumptions C13_sequence_wire_is_the_solo_wire.

Example C13_request_exact_in_any_sequence_nonvacuous :
  exists w, nth_error (sequence_wires [([(bs "A", bs "1")], Some (bs "first body")); ([(bs "SCRIPT_NAME", bs "/x.php")], None)]) 1 = Some (Ok w) /\
            responder_receive w = Some (1, 0, [(bs "SCRIPT_NAME", bs "/x.php")], []).
Proof. eexists. split; vm_compute; reflexivity. Qed.

(* ---------- the header block reader (textproto.ReadMIMEHeader as Request uses it) ---------- *)
Require Import V.C13_HeadProofs.

(* What the client receives — status, header multimap, body, or a refusal — is a function of the
   responder's STDOUT byte stream ONLY: for EVERY two framings of the same output (record sizes,
   padding, stderr records at any position, empty records in mid-stream, any bytes after END_REQUEST)
   and EVERY two sequences of caller buffers that reach the end, the bytes handed to the header
   reader are the same and so is everything made of them; stderr is complete, on the side. *)
Theorem C13_response_is_function_of_stdout :
  forall recs1 recs2 tail1 tail2 sizes1 sizes2 d1 e1 s1 d2 e2 s2,
  Forall valid_rec recs1 -> Forall valid_rec recs2 ->
  stdout_of recs1 = stdout_of recs2 ->
  (forall m, In m sizes1 -> (1 <= m)%nat) -> (forall m, In m sizes2 -> (1 <= m)%nat) ->
  (length (stdout_of recs1) + length recs1 < length sizes1)%nat ->
  (length (stdout_of recs2) + length recs2 < length sizes2)%nat ->
  sr_read_all (sr_init (wire_of recs1 ++ enc_rec end_rec ++ tail1)) sizes1 [] = Ok (d1, e1, s1) ->
  sr_read_all (sr_init (wire_of recs2 ++ enc_rec end_rec ++ tail2)) sizes2 [] = Ok (d2, e2, s2) ->
  d1 = d2 /\ client_view d1 = client_view (stdout_of recs1) /\ client_view d1 = client_view d2 /\
  stderr_of s1 = contents_of T_STDERR recs1 /\ stderr_of s2 = contents_of T_STDERR recs2.
Proof. exact client_view_function_of_stdout. Qed.
Print Assumptions C13_response_is_function_of_stdout.

Example C13_response_is_function_of_stdout_nonvacuous :
  let out := bs "status: 404 Not Found" ++ [10] ++ bs "x-a: 1" ++ [13; 10] ++ bs "  more" ++ [10; 10] ++ bs "body" in
  let recs1 := [(6, out, 0)] in
  let recs2 := [(7, bs "warn", 3); (6, firstn 3 out, 5); (6, [], 0); (7, [], 1); (6, skipn 3 out, 255); (6, [], 0)] in
  stdout_of recs1 = stdout_of recs2 /\
  sr_read_all (sr_init (wire_of recs1 ++ enc_rec end_rec)) (repeat 4096%nat 40) [] = Ok (out, Some REOF, {| s_conn := [0;0;0;0;0;0;0;0]; s_buf := []; s_stderr := [] |}) /\
  (exists s2, sr_read_all (sr_init (wire_of recs2 ++ enc_rec end_rec ++ bs "junk")) (repeat 7%nat 60) [] = Ok (out, Some REOF, s2)) /\
  client_view out = HResp 404 [(bs "Status", bs "404 Not Found"); (bs "X-A", bs "1 more")] (bs "body").
Proof. vm_compute. repeat split; try reflexivity. eexists; reflexivity. Qed.

(* END_REQUEST ends the stream whatever it carries: any appStatus / protocolStatus, any content length,
   any padding (its body is not read) *)
Theorem C13_end_request_status_ignored : forall c pad rest,
  record_read (enc_rec (T_END, c, pad) ++ rest) = Ok (RErr REOF (c ++ repeat 170 (N.to_nat pad) ++ rest)).
Proof. exact end_request_any_status. Qed.
Print Assumptions C13_end_request_status_ignored.

Theorem C13_end_request_ends_the_read : forall c pad rest m se,
  (1 <= m)%nat ->
  exists s', sr_read {| s_conn := enc_rec (T_END, c, pad) ++ rest; s_buf := []; s_stderr := se |} m = Ok ([], Some REOF, s')
             /\ s_stderr s' = se.
Proof. exact end_request_ends_the_read. Qed.
Print Assumptions C13_end_request_ends_the_read.

Example C13_end_request_ends_the_read_nonvacuous :
  fst (fst (match sr_read {| s_conn := enc_rec (T_END, [0; 0; 0; 9; 2; 0; 0; 0], 7) ++ bs "x"; s_buf := []; s_stderr := [] |} 1 with
            | Ok x => x | Panic => (bs "panic", None, sr_init []) end)) = [] /\ (1 <= 1)%nat.
Proof. vm_compute. split; [reflexivity | lia]. Qed.

(* the status the client gets is always a three-digit code; without a Status field it is 200 *)
Theorem C13_status_is_three_digits : forall out st f b, client_view out = HResp st f b -> 100 <= st <= 999.
Proof. exact client_view_status. Qed.
Print Assumptions C13_status_is_three_digits.

Example C13_status_is_three_digits_nonvacuous :
  client_view (bs "Status: +201 Created" ++ [10; 10]) = HResp 201 [(bs "Status", bs "+201 Created")] [] /\
  client_view (bs "Status: 1000" ++ [10; 10]) = HFail /\ client_view (bs "Status: -200" ++ [10; 10]) = HFail.
Proof. vm_compute. repeat split; reflexivity. Qed.

Theorem C13_no_status_is_200_partial : forall fields,
  first_value (bs "Status") fields = [] -> status_of fields = Some 200.
Proof. exact no_status_is_200. Qed.
Print Assumptions C13_no_status_is_200_partial.

(* "a Location field without a Status field is a redirect (302)" (RFC 3875 6.2.3/6.2.4) is false of the
   code: the response goes out as 200 with the Location field *)
Theorem C13_location_without_status_is_redirect_refuted :
  exists out v, client_view out = HResp 200 [(bs "Location", v)] [] /\ first_value (bs "Status") [(bs "Location", v)] = [].
Proof. exists (bs "location: /moved" ++ [13; 10; 13; 10]), (bs "/moved"). vm_compute. split; reflexivity. Qed.
Print Assumptions C13_location_without_status_is_redirect_refuted.

(* the reader on the forms the property names (evaluated examples, not general claims): bare LF and CRLF
   mixed, continuation lines joined by one space, repeated keys in arrival order, keys canonicalised,
   a key with a space kept as written, a line without colon / leading white space / a control byte
   in a value refuse the whole block *)
Example C13_mime_head_forms :
  mime_head (bs "set-cookie: a=1" ++ [13; 10] ++ bs "SET-COOKIE:b=2" ++ [10] ++ bs "x-long: one" ++ [10; 9] ++ bs " two  " ++ [13; 10; 32] ++ bs "three" ++ [10] ++ bs "odd key: v" ++ [10; 13; 10] ++ bs "body")
    = MHead [(bs "Set-Cookie", bs "a=1"); (bs "Set-Cookie", bs "b=2"); (bs "X-Long", bs "one two three"); (bs "odd key", bs "v")] (bs "body") /\
  mime_head (bs "X-A: 1" ++ [10] ++ bs "no colon here" ++ [10; 10]) = MErr /\
  mime_head (bs " X-A: 1" ++ [10; 10]) = MErr /\
  mime_head (bs "X-A: a" ++ [1; 10; 10]) = MErr /\
  mime_head (bs "X(a): 1" ++ [10; 10]) = MErr.
Proof. vm_compute. repeat split; reflexivity. Qed.
