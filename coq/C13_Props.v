Require Import V.Lib V.GoPath V.C13_Model.
