(* C13 — property theorems only.  Each is closed by [exact] of a lemma proved in
   C13_Proofs.v and followed by Print Assumptions. *)
Require Import V.Lib V.GoPath V.C13_Model V.C13_Proofs.
From Coq Require Import Permutation.
Open Scope list_scope.
Open Scope N_scope.

(* ---------- request side ---------- *)

(* 1 vs 4 byte lengths: the reference decoder recovers every length below 2^31 *)
Theorem C13_size_roundtrip :
  forall n rest, n < 2147483648 -> decode_size (encode_size n ++ rest) = Some (n, rest).
Proof. exact size_roundtrip. Qed.
Print Assumptions C13_size_roundtrip.

(* the model's arithmetic form of the 4-byte size is Go's [size |= 1<<31] written big endian *)
Theorem C13_size_encoding_is_go :
  forall n, 127 < n -> n < 2147483648 ->
  encode_size n = let m := N.lor n 2147483648 in
                  [(m / 16777216) mod 256; (m / 65536) mod 256; (m / 256) mod 256; m mod 256].
Proof. exact encode_size_is_go. Qed.
Print Assumptions C13_size_encoding_is_go.

(* every record the client writes is a multiple of 8 bytes long and is read back exactly
   (type, request id, content) by a responder that takes the padding length from the header *)
Theorem C13_records_wellformed :
  forall ty id c rest, ty < 256 -> id < 65536 -> len c <= 65535 ->
  len (write_record ty id c) mod 8 = 0 /\
  parse_record (write_record ty id c ++ rest) = Some (ty, id, c, rest).
Proof. exact records_wellformed. Qed.
Print Assumptions C13_records_wellformed.

(* for EVERY body length: the stdin stream is cut into records of at most 65500 bytes, none of
   them empty except the terminator, and a responder reading records up to the first empty one
   gets exactly the body bytes and is positioned right after the stream *)
Theorem C13_stream_concat :
  forall ty id data rest, ty < 256 -> id < 65536 ->
  (forall c, In c (chunks (N.to_nat MAXW) data) -> c <> [] /\ len c <= MAXW) /\
  concat (chunks (N.to_nat MAXW) data) = data /\
  read_stream ty id (stream_wire ty id data ++ rest) = Some (data, rest).
Proof. exact stream_concat. Qed.
Print Assumptions C13_stream_concat.

(* name-value pairs: encoding then decoding is the identity for all names and values < 2^31 *)
Theorem C13_pairs_roundtrip :
  forall ps, (forall kv, In kv ps -> len (fst kv) < 2147483648 /\ len (snd kv) < 2147483648) ->
  decode_pairs (concat (map encode_pair ps)) = Some ps.
Proof. exact pairs_roundtrip. Qed.
Print Assumptions C13_pairs_roundtrip.

(* The whole request, for EVERY parameter map whose pairs each fit a single 65 500-byte record
   (the property's own premise: the ENCODED pair, lengths included, is at most 65500 bytes), EVERY
   map iteration order and EVERY body: a conforming responder receives role Responder, flags 0,
   exactly the pairs (as a permutation of the map) and exactly the body bytes. *)
Theorem C13_request_exact :
  forall ps order body w,
  (forall kv, In kv ps -> fits kv = true) ->
  Permutation ps order ->
  request_wire order body = Ok w ->
  exists got, responder_receive w = Some (1, 0, got, body_bytes body) /\ Permutation ps got.
Proof. exact request_roundtrip_any_order. Qed.
Print Assumptions C13_request_exact.

Example C13_request_exact_nonvacuous :
  exists w, request_wire [(bs "SCRIPT_NAME", bs "/x.php"); (bs "EMPTY", [])] (Some (bs "a=1")) = Ok w /\
            responder_receive w = Some (1, 0, [(bs "SCRIPT_NAME", bs "/x.php"); (bs "EMPTY", [])], bs "a=1").
Proof. eexists. split; vm_compute; reflexivity. Qed.

(* the premise covers the pair that the unrepaired writePairs cut (it tested 8+len(k)+len(v)): a
   10-byte name with a 65485-byte value, whose encoding is exactly 65500 bytes *)
Example C13_request_exact_covers_boundary_pair :
  fits (wit_k, wit_v) = true /\ MAXW < 8 + len wit_k + len wit_v.
Proof. exact wit_fits. Qed.

(* writing a request never panics, whatever the sizes of names, values and body (a name that
   leaves no room in a record gets an empty value) *)
Theorem C13_request_no_panic :
  forall ps body, exists w, request_wire ps body = Ok w.
Proof. exact request_wire_total. Qed.
Print Assumptions C13_request_no_panic.

(* ---------- response side ---------- *)

(* record.read's slicing never goes out of range, for EVERY byte string from the peer *)
Theorem C13_record_read_no_panic : forall conn, exists r, record_read conn = Ok r.
Proof. exact record_read_no_panic. Qed.
Print Assumptions C13_record_read_no_panic.

Theorem C13_stream_reader_no_panic :
  forall conn sizes, exists x, sr_read_all (sr_init conn) sizes [] = Ok x.
Proof. exact stream_reader_no_panic. Qed.
Print Assumptions C13_stream_reader_no_panic.

(* Demultiplexing is exact: for EVERY sequence of output/stderr records (any content split, any
   padding length, any interleaving), followed by EndRequest and anything after it, and for
   EVERY sequence of caller buffer sizes: the bytes handed to the caller are a prefix of the
   concatenated output contents, the diverted bytes a prefix of the concatenated stderr
   contents, the only error is EOF, and at EOF both are complete. *)
Theorem C13_demux_exact :
  forall recs tail sizes d e s',
  Forall valid_rec recs ->
  sr_read_all (sr_init (wire_of recs ++ enc_rec end_rec ++ tail)) sizes [] = Ok (d, e, s') ->
  (e = None \/ e = Some REOF) /\
  (exists orest, stdout_of recs = d ++ orest /\ (e = Some REOF -> orest = [])) /\
  (exists erest, contents_of T_STDERR recs = stderr_of s' ++ erest /\ (e = Some REOF -> erest = [])).
Proof. exact demux_exact. Qed.
Print Assumptions C13_demux_exact.

Example C13_demux_exact_nonvacuous :
  sr_read_all (sr_init (wire_of [(6, bs "St", 3); (7, bs "warn", 0); (6, bs "atus", 1); (6, [], 0)]
                        ++ enc_rec end_rec ++ bs "junk")) [3; 0; 100; 5; 5]%nat []
  = Ok (bs "Status", Some REOF,
        {| s_conn := [0; 0; 0; 0; 0; 0; 0; 0] ++ bs "junk"; s_buf := []; s_stderr := [bs "warn"] |}).
Proof. vm_compute. reflexivity. Qed.


(* ... and a caller that keeps reading (buffers of at least one byte, enough reads) gets
   everything: all output bytes, all stderr bytes on the side, then EOF *)
Theorem C13_demux_complete :
  forall recs tail sizes d e s',
  Forall valid_rec recs ->
  (forall m, In m sizes -> (1 <= m)%nat) ->
  (length (stdout_of recs) + length recs < length sizes)%nat ->
  sr_read_all (sr_init (wire_of recs ++ enc_rec end_rec ++ tail)) sizes [] = Ok (d, e, s') ->
  e = Some REOF /\ d = stdout_of recs /\ stderr_of s' = contents_of T_STDERR recs.
Proof. exact demux_complete. Qed.
Print Assumptions C13_demux_complete.

(* The response as a whole: for EVERY conforming head (fields) and body, EVERY framing of
   head ++ body into output records with stderr records interleaved anywhere, what the client
   side parses is exactly the responder's fields and body; stderr is complete and separate. *)
Theorem C13_response_exact :
  forall fields body recs tail sizes d e s',
  Forall conf_field fields -> Forall valid_rec recs ->
  stdout_of recs = render_head fields ++ body ->
  (forall m, In m sizes -> (1 <= m)%nat) ->
  (length (stdout_of recs) + length recs < length sizes)%nat ->
  sr_read_all (sr_init (wire_of recs ++ enc_rec end_rec ++ tail)) sizes [] = Ok (d, e, s') ->
  parse_head d = Some (fields, body) /\ stderr_of s' = contents_of T_STDERR recs /\ e = Some REOF.
Proof. exact response_exact. Qed.
Print Assumptions C13_response_exact.

Example C13_response_exact_nonvacuous :
  let fields := [(bs "Status", bs "404 Not Found"); (bs "X-A", bs "1")] in
  let recs := [(6, bs "Status: 404 N", 0); (7, bs "oops", 2); (6, bs "ot Found" ++ [13; 10] ++ bs "X-A: 1" ++ [13], 5);
               (6, [10; 13; 10] ++ bs "body", 0)] in
  stdout_of recs = render_head fields ++ bs "body" /\ resp_status fields = Some 404.
Proof. vm_compute. split; reflexivity. Qed.

(* ---------- dispatch ---------- *)

(* A request path with the rule's extension (any letter case) under the rule's path, not
   excepted, is sent to a responder with the trimmed request path as script — for EVERY rule
   list, EVERY file system (whether or not the file exists) and EVERY path — PROVIDED the path
   can be split for that rule. *)
Theorem C13_ext_always_dispatched_partial :
  forall cs stat_ok open_ok rules i p r,
  In r rules -> rule_matches cs r p = true -> allowed cs r p = true ->
  r_ext r <> [] -> last_byte (r_ext r) <> Some SLASH ->
  has_suffix (to_lower (trim_right p)) (to_lower (r_ext r)) = true ->
  can_split cs r (trim_right p) = true ->
  exists j, serve cs stat_ok open_ok rules i p = ODispatch j (trim_right p).
Proof. exact serve_ext_dispatched. Qed.
Print Assumptions C13_ext_always_dispatched_partial.

(* With case-insensitive paths (the default) and a split string equal to the extension up to
   letter case (the php preset), the proviso always holds: the clause is true in full. *)
Theorem C13_ext_always_dispatched_default :
  forall stat_ok open_ok rules i p r,
  In r rules -> rule_matches false r p = true -> allowed false r p = true ->
  r_ext r <> [] -> last_byte (r_ext r) <> Some SLASH ->
  to_lower (r_split r) = to_lower (r_ext r) ->
  has_suffix (to_lower (trim_right p)) (to_lower (r_ext r)) = true ->
  exists j, serve false stat_ok open_ok rules i p = ODispatch j (trim_right p).
Proof. exact serve_ext_dispatched_default. Qed.
Print Assumptions C13_ext_always_dispatched_default.

Example C13_ext_always_dispatched_nonvacuous :
  serve false (fun _ => true) (fun _ => false) [php_rule] 0 (bs "/B.PHP. ") = ODispatch 0 (bs "/B.PHP").
Proof. vm_compute. reflexivity. Qed.

(* Without the proviso the clause is false: with CASE_SENSITIVE_PATH the existing file /B.PHP
   under the php preset goes to the next handler (the static file server). *)
Theorem C13_ext_always_dispatched_refuted :
  exists stat_ok open_ok rules p r,
    In r rules /\ rule_matches true r p = true /\ allowed true r p = true /\
    stat_ok (trim_right p) = true /\ r_ext r <> [] /\ last_byte (r_ext r) <> Some SLASH /\
    has_suffix (to_lower (trim_right p)) (to_lower (r_ext r)) = true /\
    serve true stat_ok open_ok rules 0 p = ONext.
Proof. exact ext_dispatch_case_sensitive_refuted. Qed.
Print Assumptions C13_ext_always_dispatched_refuted.

(* the dispatch decision itself never panics — EVERY rule list, file system and request path,
   the empty path included (strings.HasSuffix(fpath, "/") replaced fpath[len(fpath)-1]) *)
Theorem C13_dispatch_no_panic :
  forall cs stat_ok open_ok rules i p, serve cs stat_ok open_ok rules i p <> OPanic.
Proof. exact serve_no_panic. Qed.
Print Assumptions C13_dispatch_no_panic.

(* script name and path info are split at the FIRST occurrence of the configured split string
   (compared case-folded unless paths are case sensitive): DOCUMENT_URI ++ PATH_INFO is the script
   path, DOCUMENT_URI ends with the split string and no shorter prefix does *)
Theorem C13_split_env_spec :
  forall cs r f d pi,
  split_at cs r f = Ok (d, pi) ->
  d ++ pi = f /\
  has_suffix (fold cs d) (fold cs (r_split r)) = true /\
  exists pos, length d = (pos + length (r_split r))%nat /\
    forall k, (k < pos)%nat -> has_prefix (skipn k (fold cs f)) (fold cs (r_split r)) = false.
Proof. exact split_at_spec. Qed.
Print Assumptions C13_split_env_spec.

(* ... and once canSplit has accepted the path the split cannot go out of range: splitPos folds
   ASCII letters only (repaired, F-C13-3), which is the model's [fold], so the offset found in the
   folded path is an offset of the original path *)
Theorem C13_split_total :
  forall cs r f, can_split cs r f = true -> exists d pi, split_at cs r f = Ok (d, pi).
Proof. exact split_at_total. Qed.
Print Assumptions C13_split_total.

(* ---------- CGI variables ---------- *)

(* every header arrives as HTTP_<NAME> with its values joined by ", " — for EVERY request whose
   header fields map to distinct HTTP_* names, whatever the configured env entries and method *)
Theorem C13_env_headers_arrive :
  forall cs sv r q f el n vals,
  env_list cs sv r q f = Ok el ->
  NoDup (map (fun kv => env_name (fst kv)) (q_headers q)) ->
  In (n, vals) (q_headers q) ->
  env_lookup (env_name n) el = Some (join (bs ", ") vals).
Proof. exact env_headers_arrive. Qed.
Print Assumptions C13_env_headers_arrive.

(* every configured env entry arrives (the last one of a name wins) unless a request header maps
   to the same name or it is one of REQUEST_METHOD / CONTENT_LENGTH / CONTENT_TYPE, which the
   client sets per method *)
Theorem C13_env_entries_arrive_partial :
  forall cs sv r q f el k,
  env_list cs sv r q f = Ok el ->
  mem k (map (fun kv => env_name (fst kv)) (q_headers q)) = false ->
  mem k METHOD_VARS = false ->
  forall v, env_lookup k (r_env r) = Some v -> env_lookup k el = Some v.
Proof. exact env_entries_arrive. Qed.
Print Assumptions C13_env_entries_arrive_partial.

Example C13_split_env_spec_nonvacuous :
  split_at false php_rule (bs "/a/X.PHP/extra.php") = Ok (bs "/a/X.PHP", bs "/extra.php").
Proof. vm_compute. reflexivity. Qed.

Example C13_env_headers_arrive_nonvacuous :
  let q := {| q_method := bs "POST"; q_path := bs "/x.php"; q_query := []; q_requri := bs "/x.php";
              q_host := bs "h"; q_remote := bs "[::1]:9"; q_proto := bs "HTTP/1.1";
              q_headers := [(bs "X-Forwarded-For", [bs "a"; bs "b"]); (bs "Content-Length", [bs "3"])];
              q_prefix := [SLASH]; q_user := []; q_cl := 3%Z |} in
  let sv := {| sv_name := bs "s"; sv_port := bs "80"; sv_software := bs "Casket"; sv_version := bs "1" |} in
  match env_list false sv php_rule q (bs "/x.php") with
  | Ok el => env_lookup (bs "HTTP_X_FORWARDED_FOR") el = Some (bs "a, b") /\
             env_lookup (bs "REMOTE_ADDR") el = Some (bs "::1") /\
             env_lookup (bs "CONTENT_LENGTH") el = Some (bs "3") /\
             env_lookup (bs "SCRIPT_FILENAME") el = Some (bs "/srv/x.php")
  | Panic => False
  end.
Proof. vm_compute. repeat split; reflexivity. Qed.
