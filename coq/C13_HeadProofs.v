(* C13 — the header block reader and END_REQUEST: proofs over C13_Model's mime_head / client_view. *)
Require Import V.Lib V.GoPath V.C13_Model V.C13_Proofs.
From Coq Require Import Lia ZifyBool ZifyN.
Open Scope list_scope.
Open Scope N_scope.

(* What the client side makes of a response is a function of the responder's STDOUT byte stream only:
   two framings of the same output — any record sizes, any padding, stderr records anywhere, empty
   records in mid-stream, any trailing bytes — read with any two buffer-size sequences (long enough to
   reach the end) give the same status / header multimap / body, or the same refusal. *)
Lemma client_view_function_of_stdout recs1 recs2 tail1 tail2 sizes1 sizes2 d1 e1 s1 d2 e2 s2 :
  Forall valid_rec recs1 -> Forall valid_rec recs2 ->
  stdout_of recs1 = stdout_of recs2 ->
  (forall m, In m sizes1 -> (1 <= m)%nat) -> (forall m, In m sizes2 -> (1 <= m)%nat) ->
  (length (stdout_of recs1) + length recs1 < length sizes1)%nat ->
  (length (stdout_of recs2) + length recs2 < length sizes2)%nat ->
  sr_read_all (sr_init (wire_of recs1 ++ enc_rec end_rec ++ tail1)) sizes1 [] = Ok (d1, e1, s1) ->
  sr_read_all (sr_init (wire_of recs2 ++ enc_rec end_rec ++ tail2)) sizes2 [] = Ok (d2, e2, s2) ->
  d1 = d2 /\ client_view d1 = client_view (stdout_of recs1) /\ client_view d1 = client_view d2 /\
  stderr_of s1 = contents_of T_STDERR recs1 /\ stderr_of s2 = contents_of T_STDERR recs2.
Proof.
  intros Hv1 Hv2 Hout Hm1 Hm2 Hl1 Hl2 H1 H2.
  destruct (demux_complete _ _ _ _ _ _ Hv1 Hm1 Hl1 H1) as (_ & Hd1 & Hs1).
  destruct (demux_complete _ _ _ _ _ _ Hv2 Hm2 Hl2 H2) as (_ & Hd2 & Hs2).
  subst d1. subst d2. rewrite Hout. repeat split; auto.
Qed.

(* END_REQUEST ends the stream whatever it carries: any appStatus / protocolStatus bytes, any content
   length, any padding — the record's body is not even read *)
Lemma end_request_any_status c pad rest :
  record_read (enc_rec (T_END, c, pad) ++ rest) = Ok (RErr REOF (c ++ repeat 170 (N.to_nat pad) ++ rest)).
Proof. unfold enc_rec. cbn. rewrite <- app_assoc. reflexivity. Qed.

Lemma end_request_ends_the_read c pad rest m se :
  (1 <= m)%nat ->
  exists s', sr_read {| s_conn := enc_rec (T_END, c, pad) ++ rest; s_buf := []; s_stderr := se |} m = Ok ([], Some REOF, s')
             /\ s_stderr s' = se.
Proof.
  intros Hm. destruct m as [|m]; [lia|].
  unfold sr_read. cbn [s_buf s_conn s_stderr]. cbn [next_out].
  rewrite end_request_any_status. cbn. eexists. split; reflexivity.
Qed.

(* the status the client gets is a three-digit code, whatever the responder wrote *)
Lemma status_of_range fields st : status_of fields = Some st -> 100 <= st <= 999.
Proof.
  unfold status_of. destruct (first_value _ fields) as [|a v]; [intros H; injection H as <-; lia|].
  destruct (atoi _) as [c|]; [|discriminate].
  destruct ((c <? 100)%Z || (999 <? c)%Z) eqn:E; [discriminate|].
  intros H; injection H as <-. lia.
Qed.
Lemma client_view_status out st f b : client_view out = HResp st f b -> 100 <= st <= 999.
Proof.
  unfold client_view. destruct (mime_head out) as [|fl rest]; [discriminate|].
  destruct (status_of fl) as [s|] eqn:E; [|discriminate].
  intros H; injection H as <- _ _. exact (status_of_range _ _ E).
Qed.
(* without a Status field (or with an empty one) the status is 200 *)
Lemma no_status_is_200 fields : first_value (bs "Status") fields = [] -> status_of fields = Some 200.
Proof. unfold status_of. intros ->. reflexivity. Qed.
