(* C19 — peer-controlled bytes are processed totally, and what is recorded about a
   ClientHello does not depend on read segmentation: executable model.

   Mirrors, with CHECKED indexing/slicing (Lib.idx / slice / slice_from: out of range = Panic):
     caskethttp/httpserver/mitm.go   parseRawClientHello, looksLike{Firefox,Chrome,Edge,Safari,Tor},
                                     assertPresenceAndOrdering, hasGreaseCiphers, getVersion,
                                     tlsHandler.ServeHTTP's decision, clientHelloConn.Read
     caskethttp/push/link_parser.go  parseLinkHeader;  push/handler.go servePreloadLinks
     caskethttp/fastcgi/fcgiclient.go record.read, streamReader.Read, writePairs' truncation slice,
                                     the Status header of FCGIClient.Request + fastcgi.writeHeader
     caskethttp/fastcgi/fastcgi.go   the `fpath[len(fpath)-1]` gate of Handler.ServeHTTP
     caskethttp/httpserver/replacer.go  replacer.Replace scanning loops + getSubstitution's indexing
   Definitions only; proofs are in C19_Proofs.v. *)
Require Import V.Lib.
Require V.GoNet.
Open Scope N_scope.

(* ------------------------------------------------------------------------------------------ *)
(* generic helpers                                                                             *)
(* ------------------------------------------------------------------------------------------ *)
Fixpoint mapM {A B} (f : A -> res B) (l : list A) : res (list B) :=
  match l with
  | [] => Ok []
  | x :: r => do y <- f x; do ys <- mapM f r; Ok (y :: ys)
  end.

(* ASCII literals used below *)
Local Open Scope string_scope.
Definition lit_1_0 : bytes := bs "-1".
Definition lit_x_1 : bytes := bs "//".
Definition lit_Chrome_2 : bytes := bs "Chrome".
Definition lit_CriOS_3 : bytes := bs "CriOS".
Definition lit_Edge_4 : bytes := bs "Edge".
Definition lit_Firefox_5 : bytes := bs "Firefox".
Definition lit_MSIE_6 : bytes := bs "MSIE".
Definition lit_Safari_7 : bytes := bs "Safari".
Definition lit_Trident_8 : bytes := bs "Trident".
Definition lit_Windows_9 : bytes := bs "Windows".
Definition lit_http_10 : bytes := bs "http://".
Definition lit_https_11 : bytes := bs "https://".
Definition lit_nopush_12 : bytes := bs "nopush".
Definition lit_label_13 : bytes := bs "{label".
Local Close Scope string_scope.

(* run of [n] copies of byte [b] (compact literal for large generated cases) *)
Definition rep (b n : N) : bytes := repeat b (N.to_nat n).

Definition u16 (a b : N) : N := a * 256 + b.

Fixpoint prefixb (p s : bytes) : bool :=
  match p, s with
  | [], _ => true
  | y :: p', x :: s' => (x =? y) && prefixb p' s'
  | _ :: _, [] => false
  end.

(* strings.Index(s, p): byte offset of the first occurrence *)
Fixpoint index_from (p s : bytes) (i : nat) : option nat :=
  match s with
  | [] => match p with [] => Some i | _ => None end
  | _ :: r => if prefixb p s then Some i else index_from p r (S i)
  end.
Definition index_of (p s : bytes) : option nat := index_from p s 0.
Definition contains (s p : bytes) : bool := match index_of p s with Some _ => true | None => false end.

Definition remove_byte (c : N) (s : bytes) : bytes := filter (fun x => negb (x =? c)) s.

(* strings.Split(s, sep) for a 1-byte separator (never an empty result) *)
Fixpoint split_on (sep : N) (s : bytes) (cur : bytes) : list bytes :=
  match s with
  | [] => [rev cur]
  | c :: r => if c =? sep then rev cur :: split_on sep r [] else split_on sep r (c :: cur)
  end.
Definition split (sep : N) (s : bytes) : list bytes := split_on sep s [].

(* strings.TrimSpace: ASCII white space and the UTF-8 encodings of the other
   unicode.IsSpace runes (U+0085 U+00A0 U+1680 U+2000..U+200A U+2028 U+2029 U+202F U+205F U+3000);
   a byte >= 0x80 that does not start/end such an encoding decodes to RuneError and stops the trim *)
Definition is_ascii_space (c : N) : bool :=
  (c =? 9) || (c =? 10) || (c =? 11) || (c =? 12) || (c =? 13) || (c =? 32).
Definition uni_spaces : list bytes :=
  [ [194;133]; [194;160]; [225;154;128];
    [226;128;128]; [226;128;129]; [226;128;130]; [226;128;131]; [226;128;132]; [226;128;133];
    [226;128;134]; [226;128;135]; [226;128;136]; [226;128;137]; [226;128;138];
    [226;128;168]; [226;128;169]; [226;128;175]; [226;129;159]; [227;128;128] ].
Fixpoint trim_left_with (pats : list bytes) (fuel : nat) (s : bytes) : bytes :=
  match fuel with
  | O => s
  | S f =>
    match s with
    | [] => []
    | c :: r => if is_ascii_space c then trim_left_with pats f r
                else match find (fun p => prefixb p s) pats with
                     | Some p => trim_left_with pats f (skipn (length p) s)
                     | None => s
                     end
    end
  end.
Definition trim_left (s : bytes) : bytes := trim_left_with uni_spaces (length s) s.
Definition trim_right (s : bytes) : bytes :=
  rev (trim_left_with (map (@rev N) uni_spaces) (length s) (rev s)).
Definition trim_space (s : bytes) : bytes := trim_right (trim_left s).

(* ------------------------------------------------------------------------------------------ *)
(* mitm.go: parseRawClientHello                                                                *)
(* ------------------------------------------------------------------------------------------ *)
Record info := mkInfo {
  i_version : N; i_ciphers : list N; i_exts : list N; i_comp : list N;
  i_curves : list N; i_points : list N }.
Definition info0 : info := mkInfo 0 [] [] [] [] [].
Definition set_version (i : info) v := mkInfo v (i_ciphers i) (i_exts i) (i_comp i) (i_curves i) (i_points i).
Definition set_ciphers (i : info) v := mkInfo (i_version i) v (i_exts i) (i_comp i) (i_curves i) (i_points i).
Definition set_exts (i : info) v := mkInfo (i_version i) (i_ciphers i) v (i_comp i) (i_curves i) (i_points i).
Definition set_comp (i : info) v := mkInfo (i_version i) (i_ciphers i) (i_exts i) v (i_curves i) (i_points i).
Definition set_curves (i : info) v := mkInfo (i_version i) (i_ciphers i) (i_exts i) (i_comp i) v (i_points i).
Definition set_points (i : info) v := mkInfo (i_version i) (i_ciphers i) (i_exts i) (i_comp i) (i_curves i) v.

Definition nlist_beq := list_beq N.eqb.
Definition info_beq (a b : info) : bool :=
  (i_version a =? i_version b) && nlist_beq (i_ciphers a) (i_ciphers b) &&
  nlist_beq (i_exts a) (i_exts b) && nlist_beq (i_comp a) (i_comp b) &&
  nlist_beq (i_curves a) (i_curves b) && nlist_beq (i_points a) (i_points b).

(* for i := 0; i < numCurves; i++ { curves[i] = d[0]<<8 | d[1]; d = d[2:] } *)
Fixpoint curves_loop (n : nat) (d : bytes) : res (list N) :=
  match n with
  | O => Ok []
  | S n' => do a <- idx d 0; do b <- idx d 1; do d' <- slice_from d 2;
            do r <- curves_loop n' d'; Ok (u16 a b :: r)
  end.

(* copy(make([]uint8, n), src) *)
Definition copy_into (n : nat) (src : bytes) : bytes := firstn n src ++ repeat 0 (n - length src).

(* the switch in the extension loop: either `return` (SwReturn) or fall out of the switch *)
Inductive sw := SwReturn (i : info) | SwCont (i : info).
Definition ext_switch (ext : N) (len : nat) (data : bytes) (inf : info) : res sw :=
  if ext =? 10 then
    if (len <? 2)%nat then Ok (SwReturn inf) else
    do c0 <- idx data 0; do c1 <- idx data 1;
    let l := N.to_nat (u16 c0 c1) in
    if Nat.odd l || negb (len =? l + 2)%nat then Ok (SwReturn inf) else
    do d <- slice_from data 2;
    do cs <- curves_loop (Nat.div2 l) d;
    Ok (SwCont (set_curves inf cs))
  else if ext =? 11 then
    if (len <? 1)%nat then Ok (SwReturn inf) else
    do p0 <- idx data 0;
    let l := N.to_nat p0 in
    if negb (len =? l + 1)%nat then Ok (SwReturn inf) else
    do src <- slice_from data 1;
    Ok (SwCont (set_points inf (copy_into l src)))
  else Ok (SwCont inf).

(* for len(data) != 0 { ... }   — running out of fuel is reported as Panic so that the
   no-panic theorem also covers termination within the fuel given by the caller *)
Fixpoint ext_loop (fuel : nat) (data : bytes) (inf : info) : res info :=
  match fuel with
  | O => Panic
  | S fuel' =>
    if (length data =? 0)%nat then Ok inf else
    if (length data <? 4)%nat then Ok inf else
    do e0 <- idx data 0; do e1 <- idx data 1; do l0 <- idx data 2; do l1 <- idx data 3;
    let ext := u16 e0 e1 in
    let len := N.to_nat (u16 l0 l1) in
    do data4 <- slice_from data 4;
    if (length data4 <? len)%nat then Ok inf else
    let inf1 := set_exts inf (i_exts inf ++ [ext]) in
    do s <- ext_switch ext len data4 inf1;
    match s with
    | SwReturn i => Ok i
    | SwCont i => do rest <- slice_from data4 len; ext_loop fuel' rest i
    end
  end.

Definition cipher_at (data : bytes) (i : nat) : res N :=
  do a <- idx data (2 + 2 * i); do b <- idx data (3 + 2 * i); Ok (u16 a b).

Definition parse_raw_client_hello (data : bytes) : res info :=
  if (length data <? 42)%nat then Ok info0 else
  do v0 <- idx data 4; do v1 <- idx data 5;
  let inf := set_version info0 (u16 v0 v1) in
  do sl <- idx data 38;
  let sidlen := N.to_nat sl in
  if (32 <? sidlen)%nat || (length data <? 39 + sidlen)%nat then Ok inf else
  do data1 <- slice_from data (39 + sidlen);
  if (length data1 <? 2)%nat then Ok inf else
  do c0 <- idx data1 0; do c1 <- idx data1 1;
  let cslen := N.to_nat (u16 c0 c1) in
  if Nat.odd cslen || (length data1 <? 2 + cslen)%nat then Ok inf else
  do cs <- mapM (cipher_at data1) (seq 0 (Nat.div2 cslen));
  let inf2 := set_ciphers inf cs in
  do data2 <- slice_from data1 (2 + cslen);
  if (length data2 <? 1)%nat then Ok inf2 else
  do m0 <- idx data2 0;
  let cmlen := N.to_nat m0 in
  if (length data2 <? 1 + cmlen)%nat then Ok inf2 else
  do cm <- slice data2 1 (1 + cmlen);
  let inf3 := set_comp inf2 cm in
  do data3 <- slice_from data2 (1 + cmlen);
  if (length data3 <? 2)%nat then Ok inf3 else
  do x0 <- idx data3 0; do x1 <- idx data3 1;
  let extlen := N.to_nat (u16 x0 x1) in
  do data4 <- slice_from data3 2;
  if negb (extlen =? length data4)%nat then Ok inf3 else
  ext_loop (S (length data4)) data4 inf3.

(* ---- a structured ClientHello, its wire encoding and what the parser must extract ---- *)
Inductive ext :=
| ECurves (l : list N)              (* extension 10: list of uint16 curve ids *)
| EPoints (l : bytes)               (* extension 11 *)
| EOther (typ : N) (body : bytes).  (* any other extension type *)
Record hello := mkHello {
  h_version : N; h_random : bytes; h_sid : bytes; h_ciphers : list N; h_comp : bytes;
  h_exts : list ext }.

Definition be16 (n : N) : bytes := [n / 256; n mod 256].
Definition be24 (n : N) : bytes := [n / 65536; (n / 256) mod 256; n mod 256].
Definition nlen (l : bytes) : N := N.of_nat (length l).
Definition enc_u16s (l : list N) : bytes := flat_map be16 l.
Definition ext_type (e : ext) : N :=
  match e with ECurves _ => 10 | EPoints _ => 11 | EOther t _ => t end.
Definition ext_body (e : ext) : bytes :=
  match e with
  | ECurves l => be16 (2 * N.of_nat (length l)) ++ enc_u16s l
  | EPoints l => nlen l :: l
  | EOther _ b => b
  end.
Definition enc_ext (e : ext) : bytes := be16 (ext_type e) ++ be16 (nlen (ext_body e)) ++ ext_body e.
Definition enc_exts (es : list ext) : bytes := flat_map enc_ext es.
Definition hello_body (h : hello) : bytes :=
  be16 (h_version h) ++ h_random h ++ nlen (h_sid h) :: h_sid h ++
  be16 (2 * N.of_nat (length (h_ciphers h))) ++ enc_u16s (h_ciphers h) ++
  nlen (h_comp h) :: h_comp h ++
  be16 (nlen (enc_exts (h_exts h))) ++ enc_exts (h_exts h).
(* handshake message: type 1, 24-bit length, body *)
Definition encode_hello (h : hello) : bytes := 1 :: be24 (nlen (hello_body h)) ++ hello_body h.

Fixpoint last_curves (es : list ext) (acc : list N) : list N :=
  match es with [] => acc | ECurves l :: r => last_curves r l | _ :: r => last_curves r acc end.
Fixpoint last_points (es : list ext) (acc : bytes) : bytes :=
  match es with [] => acc | EPoints l :: r => last_points r l | _ :: r => last_points r acc end.
Definition info_of (h : hello) : info :=
  mkInfo (h_version h) (h_ciphers h) (map ext_type (h_exts h)) (h_comp h)
         (last_curves (h_exts h) []) (last_points (h_exts h) []).

Definition byte_ok (b : N) : bool := b <? 256.
Definition u16_ok (n : N) : bool := n <? 65536.
Definition ext_wf (e : ext) : bool :=
  match e with
  | ECurves l => forallb u16_ok l && (N.of_nat (length l) <? 32767)
  | EPoints l => forallb byte_ok l && (nlen l <? 256)
  | EOther t b => u16_ok t && negb (t =? 10) && negb (t =? 11) && forallb byte_ok b && (nlen b <? 65536)
  end.
Definition hello_wf (h : hello) : bool :=
  u16_ok (h_version h) && (length (h_random h) =? 32)%nat && forallb byte_ok (h_random h) &&
  (length (h_sid h) <=? 32)%nat && forallb byte_ok (h_sid h) &&
  forallb u16_ok (h_ciphers h) && (N.of_nat (length (h_ciphers h)) <? 32768) &&
  forallb byte_ok (h_comp h) && (nlen (h_comp h) <? 256) &&
  forallb ext_wf (h_exts h) && (nlen (enc_exts (h_exts h)) <? 65536).

(* ------------------------------------------------------------------------------------------ *)
(* mitm.go: heuristics                                                                         *)
(* ------------------------------------------------------------------------------------------ *)
(* assertPresenceAndOrdering: the index j only moves forward and stays on a found item, i.e.
   the scan continues in the suffix of the superset that starts at the item just found *)
Fixpoint drop_until (item : N) (l : list N) : list N :=
  match l with
  | [] => []
  | x :: r => if x =? item then l else drop_until item r
  end.
Fixpoint apo_go (subset superset : list N) : bool :=
  match subset with
  | [] => true
  | item :: s' => match drop_until item superset with
                  | [] => false
                  | r => apo_go s' r
                  end
  end.
Definition assert_presence_and_ordering (required candidate : list N) (required_is_subset : bool) : bool :=
  if required_is_subset then apo_go required candidate else apo_go candidate required.

Definition mem (x : N) (l : list N) : bool := existsb (N.eqb x) l.
Definition grease : list N :=
  [2570; 6682; 10794; 14906; 19018; 23130; 27242; 31354; 35466; 39578; 43690; 47802; 51914; 56026; 60138; 64250].
Definition has_grease (cs : list N) : bool := existsb (fun c => mem c grease) cs.

(* for i := range required { if l[off+i] != required[i] { return false } } *)
Fixpoint check_at (req : list N) (l : list N) (i : nat) : res bool :=
  match req with
  | [] => Ok true
  | r :: rs => do x <- idx l i; if x =? r then check_at rs l (S i) else Ok false
  end.

(* for i := range allowed { if off+i >= len(l) || l[off+i] != allowed[i] { return false } } *)
Fixpoint check_at_len (req : list N) (l : list N) (i : nat) : res bool :=
  match req with
  | [] => Ok true
  | r :: rs => if (length l <=? i)%nat then Ok false else
               do x <- idx l i; if x =? r then check_at_len rs l (S i) else Ok false
  end.

Definition ff_exts : list N := [23; 65281; 10; 11; 35; 16; 5; 13].
Definition ff_ciphers : list N :=
  [4865; 4867; 4866; 49195; 49199; 52393; 52392; 49196; 49200; 49162; 49161; 49171; 49172; 51; 57; 47; 53; 10].

Definition looks_like_firefox (inf : info) : res bool :=
  if negb (assert_presence_and_ordering ff_exts (i_exts inf) true) then Ok false else
  let curves := i_curves inf in
  if (length curves <? 4)%nat then Ok false else
  do ok <- check_at [29; 23; 24; 25] curves 0;
  if negb ok then Ok false else
  do ok2 <- (if (4 <? length curves)%nat then check_at_len [256; 257] curves 4 else Ok true);
  if negb ok2 then Ok false else
  if has_grease (i_ciphers inf) then Ok false else
  Ok (assert_presence_and_ordering ff_ciphers (i_ciphers inf) false).

Definition chrome_excl : list N := [49188; 49187; 49192; 49191; 61; 60; 51; 57].
Definition looks_like_chrome (inf : info) : res bool :=
  if existsb (fun c => mem c chrome_excl) (i_ciphers inf) then Ok false else
  if mem 25 (i_curves inf) then Ok false else
  if negb (has_grease (i_ciphers inf)) then Ok false else Ok true.

Fixpoint edge_loop (exts all : list N) (i : nat) : res bool :=
  match exts with
  | [] => Ok true
  | e :: r =>
    if e =? 5 then
      if (length all <=? i + 2)%nat then Ok false else
      do a <- idx all (i + 1); do b <- idx all (i + 2);
      if negb (a =? 10) || negb (b =? 11) then Ok false else edge_loop r all (S i)
    else edge_loop r all (S i)
  end.
Definition looks_like_edge (inf : info) : res bool :=
  do ok <- edge_loop (i_exts inf) (i_exts inf) 0;
  if negb ok then Ok false else
  if existsb (fun c => (c =? 255) || (c =? 4) || (c =? 5)) (i_ciphers inf) then Ok false else
  if has_grease (i_ciphers inf) then Ok false else Ok true.

Definition safari_exts : list N := [10; 11; 13; 13172; 16; 5; 18; 23].
Definition safari_exts_ios11 : list N := [65281; 0; 23; 13; 5; 13172; 18; 16; 11; 10].
Definition safari_ciphers : list N :=
  [49196; 49195; 49188; 49187; 49162; 49161; 49200; 49199; 49192; 49191; 49172; 49171; 157; 156; 61; 60; 53; 47].
Definition looks_like_safari (inf : info) : res bool :=
  do pre <-
    (if negb (assert_presence_and_ordering safari_exts (i_exts inf) true) then
       Ok (assert_presence_and_ordering safari_exts_ios11 (i_exts inf) true)
     else if (length (i_ciphers inf) <? 1)%nat then Ok false
     else do c0 <- idx (i_ciphers inf) 0; Ok (c0 =? 255));
  if negb pre then Ok false else
  if has_grease (i_ciphers inf) then Ok false else
  Ok (assert_presence_and_ordering safari_ciphers (i_ciphers inf) true).

Definition tor_exts : list N := [10; 11; 16; 5; 13].
Definition looks_like_tor (inf : info) : res bool :=
  if negb (assert_presence_and_ordering tor_exts (i_exts inf) true) then Ok false else
  if mem 35 (i_exts inf) then Ok false else
  do ic <- (if (length (i_curves inf) =? 4)%nat then
              do c0 <- idx (i_curves inf) 0;
              if negb (c0 =? 29) then Ok None else
              do t <- slice_from (i_curves inf) 1; Ok (Some t)
            else Ok (Some (i_curves inf)));
  match ic with
  | None => Ok false
  | Some curves =>
    if (length curves <? 3)%nat then Ok false else
    do ok <- check_at [23; 24; 25] curves 0;
    if negb ok then Ok false else
    if has_grease (i_ciphers inf) then Ok false else
    Ok (assert_presence_and_ordering ff_ciphers (i_ciphers inf) false)
  end.

Definition heartbeat (inf : info) : bool := mem 15 (i_exts inf).

(* which: 0 firefox, 1 chrome, 2 edge, 3 safari, 4 tor, 5 advertisesHeartbeatSupport *)
Definition looks_like (which : N) (inf : info) : res bool :=
  match which with
  | 0 => looks_like_firefox inf | 1 => looks_like_chrome inf | 2 => looks_like_edge inf
  | 3 => looks_like_safari inf | 4 => looks_like_tor inf | _ => Ok (heartbeat inf)
  end.

(* getVersion up to the string handed to strconv.ParseFloat:
   Ok None = softwareName not found (-1); Ok (Some s) = ParseFloat(s) *)
Definition get_version_str (ua name : bytes) : res (option bytes) :=
  let search := name ++ [47] in
  match index_of search ua with
  | None => Ok None
  | Some st =>
    let start := (st + length search)%nat in
    do tl <- slice_from ua start;
    let e := match index_of [32] tl with None => length ua | Some k => (k + start)%nat end in
    do v <- slice ua start e;
    let sv := remove_byte 45 v in
    match index_of [46] sv with
    | None => Ok (Some sv)
    | Some fd =>
      do a <- slice sv 0 (fd + 1); do b <- slice_from sv (fd + 1);
      Ok (Some (a ++ remove_byte 46 b))
    end
  end.

(* digits[.digits] with at most 15 significant digits: the class on which the float printed
   by the harness (shortest round-trip decimal) is compared exactly: (mantissa, decimals) *)
Definition is_digit (c : N) : bool := (48 <=? c) && (c <=? 57).
Fixpoint dec_value (s : bytes) (acc : N) : N :=
  match s with [] => acc | c :: r => dec_value r (acc * 10 + (c - 48)) end.
Fixpoint strip_zeros (m : N) (d : nat) : N * nat :=
  match d with
  | O => (m, O)
  | S d' => if m mod 10 =? 0 then strip_zeros (m / 10) d' else (m, d)
  end.
Definition simple_decimal (s : bytes) : option (N * nat) :=
  match split 46 s with
  | [a] => if forallb is_digit a && (0 <? length a)%nat && (length a <=? 15)%nat
           then Some (dec_value a 0, O) else None
  | [a; b] => if forallb is_digit a && forallb is_digit b && (0 <? length a)%nat &&
                 (length a + length b <=? 15)%nat
              then Some (strip_zeros (dec_value (a ++ b) 0) (length b)) else None
  | _ => None
  end.

(* tlsHandler.ServeHTTP's decision.  [torver] = (getVersion(ua,"Firefox") is 45.0 or 52.0), an
   oracle supplied by the implementation (float parsing is not modelled).
   Ok None = not checked, Ok (Some m) = checked with verdict mitm=m *)
Definition mitm_check (inf : info) (ua : bytes) (bluecoat fcckv2 torver : bool) : res (option bool) :=
  if bluecoat || fcckv2 || heartbeat inf then Ok (Some true)
  else if contains ua lit_Edge_4 || contains ua lit_MSIE_6 || contains ua lit_Trident_8 then
    do b <- looks_like_edge inf; Ok (Some (negb b))
  else if contains ua lit_Chrome_2 then do b <- looks_like_chrome inf; Ok (Some (negb b))
  else if contains ua lit_CriOS_3 then
    do b <- looks_like_chrome inf;
    if b then Ok (Some false) else do c <- looks_like_safari inf; Ok (Some (negb c))
  else if contains ua lit_Firefox_5 then
    if contains ua lit_Windows_9 && torver then do b <- looks_like_tor inf; Ok (Some (negb b))
    else do b <- looks_like_firefox inf; Ok (Some (negb b))
  else if contains ua lit_Safari_7 then do b <- looks_like_safari inf; Ok (Some (negb b))
  else Ok None.

(* ------------------------------------------------------------------------------------------ *)
(* mitm.go: clientHelloConn.Read as a state machine over the successive network reads          *)
(* ------------------------------------------------------------------------------------------ *)
Record conn := mkConn { c_read_hello : bool; c_buf : bytes; c_recorded : option info }.
Definition conn0 : conn := mkConn false [] None.

(* one successful Read that delivered [seg] (tee'd into the buffer) *)
Definition conn_read (c : conn) (seg : bytes) : res conn :=
  if c_read_hello c then Ok c else
  let buf := c_buf c ++ seg in
  if (length buf <? 5)%nat then Ok (mkConn false buf (c_recorded c)) else
  (* hdr := c.buf.Bytes()[:5]: the 5 header bytes are PEEKED and stay in the buffer *)
  do hdr <- slice buf 0 5;
  do h3 <- idx hdr 3; do h4 <- idx hdr 4;
  let len := N.to_nat (u16 h3 h4) in
  if (length buf <? 5 + len)%nat then Ok (mkConn false buf (c_recorded c)) else
  do buf5 <- slice_from buf 5;                                    (* c.buf.Next(5) *)
  do hello <- slice buf5 0 len; do rest <- slice_from buf5 len;
  do inf <- parse_raw_client_hello hello;
  Ok (mkConn true rest (Some inf)).

Fixpoint conn_run (c : conn) (segs : list bytes) : res conn :=
  match segs with
  | [] => Ok c
  | s :: r => do c' <- conn_read c s; conn_run c' r
  end.

(* cut a wire image into reads of the given sizes (the last read takes what is left only if
   sizes are exhausted: bytes beyond the sizes are not delivered) *)
Fixpoint cut (wire : bytes) (sizes : list nat) : list bytes :=
  match sizes with
  | [] => []
  | n :: r => firstn n wire :: cut (skipn n wire) r
  end.

(* what is recorded, as a function of the bytes delivered so far only (specification):
   nothing until the 5-byte header and the body it announces are there, then the parse of the body *)
Definition recorded_of (w : bytes) : option info :=
  if (length w <? 5)%nat then None else
  let len := N.to_nat (u16 (nth 3 w 0) (nth 4 w 0)) in
  if (length w <? 5 + len)%nat then None else
  match parse_raw_client_hello (firstn len (skipn 5 w)) with Ok i => Some i | Panic => None end.

(* ------------------------------------------------------------------------------------------ *)
(* push: parseLinkHeader + servePreloadLinks                                                   *)
(* ------------------------------------------------------------------------------------------ *)
Definition LT : N := 60. Definition GT : N := 62. Definition COMMA : N := 44.
Definition SEMI : N := 59. Definition EQ : N := 61.

Fixpoint set_param (k v : bytes) (l : list (bytes * bytes)) : list (bytes * bytes) :=
  match l with
  | [] => [(k, v)]
  | (k', v') :: r => if beq k k' then (k, v) :: r else (k', v') :: set_param k v r
  end.

(* strings.SplitN(s, "=", 2) *)
Definition splitn2 (s : bytes) : bytes * option bytes :=
  match index_of [EQ] s with
  | None => (s, None)
  | Some i => (firstn i s, Some (skipn (S i) s))
  end.

Definition parse_param (params : list (bytes * bytes)) (param : bytes) : list (bytes * bytes) :=
  let '(p0, p1) := splitn2 (trim_space param) in
  let key := trim_space p0 in
  match key with
  | [] => params
  | _ => match p1 with
         | None => set_param key key params
         | Some v => set_param key (trim_space v) params
         end
  end.

Definition parse_link (link : bytes) : res (option (bytes * list (bytes * bytes))) :=
  match index_of [LT] link, index_of [GT] link with
  | Some li, Some ri =>
    if (ri <? li)%nat then Ok None else      (* li == -1 || ri == -1 || ri < li: continue *)
    do u <- slice link (li + 1) ri;          (* link[li+1 : ri] *)
    do rest <- slice_from link (ri + 1);
    Ok (Some (trim_space u, fold_left parse_param (split SEMI (trim_space rest)) []))
  | _, _ => Ok None
  end.

Fixpoint parse_links (links : list bytes) : res (list (bytes * list (bytes * bytes))) :=
  match links with
  | [] => Ok []
  | l :: r => do x <- parse_link l; do xs <- parse_links r;
              Ok (match x with Some v => v :: xs | None => xs end)
  end.
Definition parse_link_header (header : bytes) : res (list (bytes * list (bytes * bytes))) :=
  match header with
  | [] => Ok []
  | _ => parse_links (split COMMA header)
  end.

Definition has_param (k : bytes) (ps : list (bytes * bytes)) : bool := existsb (fun p => beq (fst p) k) ps.
Definition is_remote (u : bytes) : bool :=
  prefixb lit_x_1 u || prefixb lit_http_10 u || prefixb lit_https_11 u.

(* the pusher fails on attempt number [failat] (counted from 0) when given; the list returned
   is every target Push was called with, in order *)
Fixpoint push_resources (rs : list (bytes * list (bytes * bytes))) (n : nat) (failat : option nat)
  : list bytes * nat * bool (* pushed, attempts so far, stop *) :=
  match rs with
  | [] => ([], n, false)
  | (u, ps) :: r =>
    if has_param lit_nopush_12 ps || is_remote u then push_resources r n failat
    else if match failat with Some f => (f =? n)%nat | None => false end then ([u], S n, true)
    else let '(p, n', st) := push_resources r (S n) failat in (u :: p, n', st)
  end.
Fixpoint serve_preload_links (values : list bytes) (n : nat) (failat : option nat) : res (list bytes) :=
  match values with
  | [] => Ok []
  | v :: r =>
    do rs <- parse_link_header v;
    let '(p, n', st) := push_resources rs n failat in
    if st then Ok p else do q <- serve_preload_links r n' failat; Ok (p ++ q)
  end.

(* class of the input that would make link[li+1:ri] invalid: '>' occurs before the first '<'
   (such a piece is skipped) *)
Definition gt_before_lt (link : bytes) : bool :=
  match index_of [LT] link, index_of [GT] link with
  | Some li, Some ri => (ri <? li)%nat
  | _, _ => false
  end.

(* ------------------------------------------------------------------------------------------ *)
(* fastcgi: record.read / streamReader                                                         *)
(* ------------------------------------------------------------------------------------------ *)
(* error classes: 1 io.EOF, 2 io.ErrUnexpectedEOF, 3 invalid header version *)
Inductive rec_result :=
| RErr (e : N)
| RRec (typ : N) (content rest : bytes).

Definition record_read (s : bytes) : res rec_result :=
  if (length s =? 0)%nat then Ok (RErr 1) else
  if (length s <? 8)%nat then Ok (RErr 2) else
  do ver <- idx s 0; do typ <- idx s 1; do cl1 <- idx s 4; do cl0 <- idx s 5; do pl <- idx s 6;
  do body <- slice_from s 8;
  if negb (ver =? 1) then Ok (RErr 3) else
  if typ =? 3 then Ok (RErr 1) else
  let cl := N.to_nat (u16 cl1 cl0) in
  let n := (cl + N.to_nat pl)%nat in
  (* rec.rbuf = make([]byte, n); io.ReadFull(r, rec.rbuf[:n]) *)
  if (n =? 0)%nat then Ok (RRec typ [] body) else
  if (length body =? 0)%nat then Ok (RErr 1) else
  if (length body <? n)%nat then Ok (RErr 2) else
  do rbuf <- slice body 0 n; do rest <- slice_from body n;
  do content <- slice rbuf 0 cl;            (* rec.rbuf[:ContentLength] *)
  Ok (RRec typ content rest).

(* everything a caller of streamReader.Read gets until the first error; stderr records (7)
   are diverted.  Fuel exhaustion = Panic (covered by the no-panic theorem). *)
Fixpoint stream_read (fuel : nat) (s : bytes) : res (bytes * N) :=
  match fuel with
  | O => Panic
  | S f =>
    do r <- record_read s;
    match r with
    | RErr e => Ok ([], e)
    | RRec typ content rest =>
      do t <- stream_read f rest;
      Ok (if typ =? 7 then t else (content ++ fst t, snd t))
    end
  end.
Definition stream_read_all (s : bytes) : res (bytes * N) := stream_read (S (length s)) s.

(* a well-formed record and its encoding (what a backend sends) *)
Record frec := mkRec { r_type : N; r_content : bytes; r_pad : nat }.
Definition enc_rec (r : frec) : bytes :=
  [1; r_type r; 0; 1] ++ be16 (nlen (r_content r)) ++ [N.of_nat (r_pad r); 0] ++
  r_content r ++ repeat 0 (r_pad r).
Definition frec_wf (r : frec) : bool :=
  byte_ok (r_type r) && negb (r_type r =? 3) && (nlen (r_content r) <? 65536) && (r_pad r <? 256)%nat.
Definition stdout_of (rs : list frec) : bytes :=
  flat_map (fun r => if r_type r =? 7 then [] else r_content r) rs.
Definition end_request : bytes := [1; 3; 0; 1; 0; 8; 0; 0; 0; 0; 0; 0; 0; 0; 0; 0].

(* writePairs: the value is cut to maxWrite-8-len(k) bytes (to nothing when the name leaves no
   room) when the encoded pair (each length takes 1 or 4 bytes) exceeds maxWrite; result = length
   of the value sent *)
Definition size_len (n : Z) : Z := if (127 <? n)%Z then 4%Z else 1%Z.     (* encodeSize's return *)
Definition enc_pair_len (klen vlen : Z) : Z := (size_len klen + size_len vlen + klen + vlen)%Z.
Definition write_pair_len (klen vlen : Z) : res Z :=
  if (65500 <? enc_pair_len klen vlen)%Z then
    let vl0 := (65500 - 8 - klen)%Z in
    let vl := if (vl0 <? 0)%Z then 0%Z else vl0 in               (* if vl < 0 { vl = 0 } *)
    if (vl <? 0)%Z || (vlen <? vl)%Z then Panic else Ok vl        (* v = v[:vl] *)
  else Ok vlen.

(* FCGIClient.Request: strconv.Atoi of the first token of the Status header; fastcgi.writeHeader
   passes the code to ResponseWriter.WriteHeader, which panics outside 100..999 *)
Fixpoint digits_value (s : bytes) (acc : Z) : option Z :=
  match s with
  | [] => Some acc
  | c :: r => if is_digit c then digits_value r (acc * 10 + Z.of_N (c - 48))%Z else None
  end.
Definition atoi (s : bytes) : option Z :=
  let '(neg, d) := match s with
                   | 43 :: r => (false, r)
                   | 45 :: r => (true, r)
                   | _ => (false, s)
                   end in
  match d with
  | [] => None
  | _ => match digits_value d 0 with
         | None => None
         | Some v => let v' := if neg then (- v)%Z else v in
                     if (v' <? -9223372036854775808)%Z || (9223372036854775807 <? v')%Z then None else Some v'
         end
  end.
(* FCGIClient.Request on a backend response whose Status header value is [v] (as delivered by the
   MIME reader: trimmed): no header = 200; otherwise the first space-separated token is parsed and
   must be a code in 100..999.  None = Request returns an error (the handler answers 502) *)
Definition fcgi_status_code (v : bytes) : option Z :=
  match v with
  | [] => Some 200%Z
  | _ =>
    let tok := match index_of [32] v with Some i => firstn i v | None => v end in
    match atoi tok with
    | None => None
    | Some c => if (c <? 100)%Z || (999 <? c)%Z then None else Some c
    end
  end.
(* net/http ResponseWriter.WriteHeader (checkWriteHeaderCode): panics outside 100..999 *)
Definition write_header (c : Z) : res Z := if (c <? 100)%Z || (999 <? c)%Z then Panic else Ok c.
(* outcome of serving: Ok (Some code) = header written with that code, Ok None = 502, Panic *)
Definition fcgi_status (v : bytes) : res (option Z) :=
  match fcgi_status_code v with
  | None => Ok None
  | Some c => do c' <- write_header c; Ok (Some c')
  end.

(* Handler.ServeHTTP: !h.exists(fpath) || strings.HasSuffix(fpath, "/") || HasSuffix(lower fpath, lower ext)
   (no index expression is left; the result type is kept for the correspondence cases) *)
Definition ends_with_slash (fpath : bytes) : bool :=
  match rev fpath with c :: _ => c =? 47 | [] => false end.
Definition fcgi_path_gate (fpath : bytes) (file_exists suffix_ok : bool) : res bool :=
  if negb file_exists then Ok true else Ok (ends_with_slash fpath || suffix_ok).

(* fpath = strings.TrimRight(r.URL.Path, " .") *)
Fixpoint drop_while (f : N -> bool) (s : bytes) : bytes :=
  match s with [] => [] | c :: r => if f c then drop_while f r else s end.
Definition fcgi_fpath (path : bytes) : bytes :=
  rev (drop_while (fun c => (c =? 32) || (c =? 46)) (rev path)).

(* ------------------------------------------------------------------------------------------ *)
(* replacer.go: Replace's scanning loops and getSubstitution's indexing                        *)
(* ------------------------------------------------------------------------------------------ *)
Definition LB : N := 123. Definition RB : N := 125. Definition BSL : N := 92.

(* find the first unescaped [c] in s (absolute offset), as the two inner `for` loops do:
   strings.Index in s[off:], escaped when preceded by a backslash inside the search space *)
Fixpoint find_unescaped (fuel : nat) (c : N) (s : bytes) (off : nat) : res (option nat) :=
  match fuel with
  | O => Panic
  | S f =>
    do sp <- slice_from s off;                     (* searchSpace := s[off:] *)
    match index_of [c] sp with
    | None => Ok None
    | Some i =>
      match i with
      | O => Ok (Some off)
      | S i' => do p <- idx sp i';                 (* searchSpace[i-1] *)
                if negb (p =? BSL) then Ok (Some (off + i)%nat)
                else find_unescaped f c s (off + i + 1)%nat
      end
    end
  end.

(* strings.Replace(s, "\\{", "{", -1) then "\\}" -> "}" *)
Fixpoint unesc1 (c : N) (s : bytes) : bytes :=
  match s with
  | [] => []
  | a :: r => match r with
              | b :: r' => if (a =? BSL) && (b =? c) then c :: unesc1 c r' else a :: unesc1 c r
              | [] => [a]
              end
  end.
Definition unescape_braces (s : bytes) : bytes := unesc1 RB (unesc1 LB s).
Definition trim_prefix_bsl (s : bytes) : bytes := match s with 92 :: r => r | _ => s end.

(* the indexing done by getSubstitution on a placeholder key "{...}":
   Ok (class, name): class 0 = whole key (default table / custom), 1 '>' request header,
   2 '<' response header (only with a recorder), 3 '~' cookie, 4 '?' query, 5 '$' env,
   6 {labelN} (name = N's digits) *)
Definition subst_key (key : bytes) : res (N * bytes) :=
  do k1 <- idx key 1;
  if (k1 =? 62) || (k1 =? 126) || (k1 =? 63) || (k1 =? 36) then
    do name <- slice key 2 (length key - 1);
    Ok ((if k1 =? 62 then 1 else if k1 =? 126 then 3 else if k1 =? 63 then 4 else 5), name)
  else if prefixb lit_label_13 key then
    do name <- slice key 6 (length key - 1); Ok (6, name)
  else Ok (0, key).

(* Replace with an arbitrary substitution function for the placeholder values *)
Fixpoint replace_loop (fuel : nat) (subst : N -> bytes -> bytes) (s : bytes) (result : bytes) : res bytes :=
  match fuel with
  | O => Panic
  | S f =>
    do st <- find_unescaped (S (length s)) LB s 0;
    match st with
    | None => Ok (result ++ unescape_braces s)
    | Some i0 =>
      do sp <- slice_from s i0;
      do en <- find_unescaped (S (length sp)) RB sp 0;
      match en with
      | None => Ok (result ++ unescape_braces s)
      | Some e =>
        let i1 := (i0 + e)%nat in
        do ph <- slice s i0 (i1 + 1);
        do kn <- subst_key (unescape_braces ph);
        do pre <- slice s 0 i0;
        do rest <- slice_from s (i1 + 1);
        replace_loop f subst rest
          (result ++ trim_prefix_bsl (unescape_braces pre) ++ subst (fst kn) (snd kn))
      end
    end
  end.
Definition has_brace (s : bytes) : bool := existsb (fun c => (c =? LB) || (c =? RB)) s.
Definition replace (subst : N -> bytes -> bytes) (s : bytes) : res bytes :=
  if negb (has_brace s) then Ok s else replace_loop (S (length s)) subst s [].

(* ------------------------------------------------------------------------------------------ *)
(* a hello as the peer puts it on the wire; the extensions whose bodies the parser skips        *)
(* ------------------------------------------------------------------------------------------ *)
(* TLS record: 3 header bytes (content type, legacy version: clientHelloConn does not look at
   them), 16-bit length, body *)
Definition without_exts (h : hello) : hello :=
  mkHello (h_version h) (h_random h) (h_sid h) (h_ciphers h) (h_comp h) [].
(* the four things a truncated hello can be recorded as *)
Definition stage_info (h : hello) (s : nat) : info :=
  match s with
  | 0%nat => info0
  | 1%nat => mkInfo (h_version h) [] [] [] [] []
  | 2%nat => mkInfo (h_version h) (h_ciphers h) [] [] [] []
  | _ => mkInfo (h_version h) (h_ciphers h) [] (h_comp h) [] []
  end.
Definition cut_stage (h : hello) (k : nat) : nat :=
  if (k <? 42)%nat then 0%nat
  else if (k <? 41 + length (h_sid h) + 2 * length (h_ciphers h))%nat then 1%nat
  else if (k <? 42 + length (h_sid h) + 2 * length (h_ciphers h) + length (h_comp h))%nat then 2%nat
  else 3%nat.


Definition tls_record (hdr3 body : bytes) : bytes := hdr3 ++ be16 (nlen body) ++ body.
(* server_name (0) with one host_name entry, ALPN (16) with a protocol list: both are [EOther]
   for parseRawClientHello, which records the type and skips the body *)
Definition e_server_name (host : bytes) : ext :=
  EOther 0 (be16 (nlen host + 3) ++ 0 :: be16 (nlen host) ++ host).
Definition e_alpn (protos : list bytes) : ext :=
  let l := flat_map (fun p => nlen p :: p) protos in EOther 16 (be16 (nlen l) ++ l).

(* ------------------------------------------------------------------------------------------ *)
(* mitm.go: tlsHelloListener.Accept and the pooled tee buffers, over ALL interleavings          *)
(* ------------------------------------------------------------------------------------------ *)
(* Accept takes the tee buffer of a new connection from a sync.Pool (bufpool.Get: ANY buffer
   lying in the pool, index [k], or a new empty one) and — [reset] — empties it (buf.Reset());
   clientHelloConn.Read hands the buffer back (bufpool.Put) once the hello is parsed, with the
   bytes that followed the ClientHello record in the same reads still in it.  Connections are
   keyed by remote address [id] (the key of helloInfos). *)
Inductive ev := EvAccept (id k : nat) | EvRead (id : nat) (seg : bytes).
Record lstate := mkL { l_pool : list bytes; l_conns : nat -> option conn }.
Definition upd {A} (m : nat -> option A) (id : nat) (c : option A) : nat -> option A :=
  fun j => if (j =? id)%nat then c else m j.
Fixpoint remove_nth {A} (k : nat) (l : list A) : list A :=
  match l with
  | [] => []
  | x :: r => match k with O => r | S k' => x :: remove_nth k' r end
  end.
Definition accept (reset : bool) (pool : list bytes) (k : nat) : conn * list bytes :=
  match nth_error pool k with
  | None => (conn0, pool)                                           (* bufpool.New *)
  | Some b => (mkConn false (if reset then [] else b) None, remove_nth k pool)
  end.
Definition l_step (reset : bool) (st : lstate) (e : ev) : res lstate :=
  match e with
  | EvAccept id k =>
      let '(c, p) := accept reset (l_pool st) k in Ok (mkL p (upd (l_conns st) id (Some c)))
  | EvRead id seg =>
      match l_conns st id with
      | None => Ok st
      | Some c =>
        do c' <- conn_read c seg;
        let put := negb (c_read_hello c) && c_read_hello c' in          (* bufpool.Put(c.buf) *)
        Ok (mkL (if put then c_buf c' :: l_pool st else l_pool st) (upd (l_conns st) id (Some c')))
      end
  end.
Fixpoint l_run (reset : bool) (st : lstate) (evs : list ev) : res lstate :=
  match evs with
  | [] => Ok st
  | e :: r => do st' <- l_step reset st e; l_run reset st' r
  end.
Definition l_init (pool : list bytes) : lstate := mkL pool (fun _ => None).
Definition recorded_for (st : lstate) (id : nat) : option info :=
  match l_conns st id with Some c => c_recorded c | None => None end.
(* the reads each connection made since it was accepted (specification side) *)
Definition own_step (accs : nat -> option (list bytes)) (e : ev) : nat -> option (list bytes) :=
  match e with
  | EvAccept id _ => upd accs id (Some [])
  | EvRead id seg => match accs id with Some l => upd accs id (Some (l ++ [seg])) | None => accs end
  end.
Definition own_segs (evs : list ev) : nat -> option (list bytes) :=
  fold_left own_step evs (fun _ => None).

(* ------------------------------------------------------------------------------------------ *)
(* fastcgi: record.read / streamReader over a connection that delivers SHORT READS              *)
(* ------------------------------------------------------------------------------------------ *)
(* io.ReadFull(r, buf[:n]) on a connection whose successive Reads deliver [segs] (a Read into k
   free bytes takes at most k bytes of the head segment, the rest stays for the next Read; empty
   reads allowed).  Result: bytes read, what the connection still holds, error class
   (0 nil, 1 io.EOF = nothing read, 2 io.ErrUnexpectedEOF) *)
Fixpoint read_full (segs : list bytes) (n : nat) (acc : bytes) {struct segs} : bytes * list bytes * N :=
  match n with
  | O => (acc, segs, 0)
  | S _ =>
    match segs with
    | [] => (acc, [], match acc with [] => 1 | _ => 2 end)
    | s :: r =>
      if (n <=? length s)%nat
      then (acc ++ firstn n s, (if (n <? length s)%nat then skipn n s :: r else r), 0)
      else read_full r (n - length s) (acc ++ s)
    end
  end.

Inductive srec_result :=
| SErr (e : N)
| SRec (typ : N) (content : bytes) (rest : list bytes).

(* record.read.  [wrap] = the sum ContentLength+PaddingLength computed in uint16 (it is computed
   in int by the code; the wrapped variant is what the seeded changes C19-m2/m4 introduce) *)
Definition record_read_seg (wrap : bool) (segs : list bytes) : res srec_result :=
  let '(h, segs1, e) := read_full segs 8 [] in                    (* binary.Read(r, BigEndian, &rec.h) *)
  if negb (e =? 0) then Ok (SErr e) else
  do ver <- idx h 0; do typ <- idx h 1; do cl1 <- idx h 4; do cl0 <- idx h 5; do pl <- idx h 6;
  if negb (ver =? 1) then Ok (SErr 3) else
  if typ =? 3 then Ok (SErr 1) else
  let cl := N.to_nat (u16 cl1 cl0) in
  let n := if wrap then N.to_nat ((u16 cl1 cl0 + pl) mod 65536) else (cl + N.to_nat pl)%nat in
  let rbuf := repeat 0 n in                                       (* make([]byte, n) *)
  do dst <- slice rbuf 0 n;                                       (* rec.rbuf[:n] *)
  let '(b, segs2, e2) := read_full segs1 (length dst) [] in       (* io.ReadFull *)
  if negb (e2 =? 0) then Ok (SErr e2) else
  do content <- slice b 0 cl;                                     (* rec.rbuf[:ContentLength] *)
  Ok (SRec typ content segs2).

Fixpoint stream_read_seg (wrap : bool) (fuel : nat) (segs : list bytes) : res (bytes * N) :=
  match fuel with
  | O => Panic
  | S f =>
    do r <- record_read_seg wrap segs;
    match r with
    | SErr e => Ok ([], e)
    | SRec typ content rest =>
      do t <- stream_read_seg wrap f rest;
      Ok (if typ =? 7 then t else (content ++ fst t, snd t))
    end
  end.
Definition stream_read_segs (wrap : bool) (segs : list bytes) : res (bytes * N) :=
  stream_read_seg wrap (S (length (concat segs))) segs.

(* ------------------------------------------------------------------------------------------ *)
(* replacer.go {labelN}: the host label picked by a peer-supplied Host header                   *)
(* ------------------------------------------------------------------------------------------ *)
(* Ok None = the empty value, Ok (Some l) = labels[n-1] *)
Definition label_subst (host nstr : bytes) : res (option bytes) :=
  match atoi nstr with
  | None => Ok None
  | Some n =>
    if (n <? 1)%Z then Ok None else
    let labels := split 46 host in
    if (Z.of_nat (length labels) <? n)%Z then Ok None else
    do l <- idx labels (Z.to_nat (n - 1)); Ok (Some l)
  end.

(* SPECIFICATION of {labelN} (no checked indexing, no reference to label_subst): the N-th
   dot-separated piece of the Host AS SENT (port, brackets and all), the empty value when N is
   not a number in 1..number of pieces *)
Definition label_spec (host nstr : bytes) : option bytes :=
  let pieces := split 46 host in
  match atoi nstr with
  | Some n => if (1 <=? n)%Z && (n <=? Z.of_nat (length pieces))%Z
              then Some (nth (Z.to_nat (n - 1)) pieces []) else None
  | None => None
  end.
Definition obytes_beq (a b : option bytes) : bool :=
  match a, b with Some x, Some y => beq x y | None, None => true | _, _ => false end.

(* ------------------------------------------------------------------------------------------ *)
(* proxy.go createUpstreamRequest: X-Forwarded-For folding                                      *)
(* ------------------------------------------------------------------------------------------ *)
Fixpoint join (sep : bytes) (l : list bytes) : bytes :=
  match l with
  | [] => []
  | x :: r => match r with [] => x | _ => x ++ sep ++ join sep r end
  end.
Definition comma_sp : bytes := [44; 32].
(* prior = the X-Forwarded-For values the peer sent (None: header absent); ip = host part of
   the connection's remote address *)
Definition xff_fold (prior : option (list bytes)) (ip : bytes) : bytes :=
  match prior with None => ip | Some p => join comma_sp p ++ comma_sp ++ ip end.
Definition last_elem (s : bytes) : bytes := trim_space (last (split COMMA s) []).

(* ------------------------------------------------------------------------------------------ *)
(* websocket.go findIncompleteRuneLength (bytes of the command's output, for an echoing          *)
(* command the peer's own bytes)                                                                *)
(* ------------------------------------------------------------------------------------------ *)
Fixpoint firl_loop (p : bytes) (len : nat) (start : nat) (steps : nat) {struct steps} : res nat :=
  match steps with
  | O => Ok O
  | S k =>
    do b <- idx p start;
    if b / 32 =? 6 then Ok (if (2 <=? len - start)%nat then O else 1%nat)
    else if b / 16 =? 14 then Ok (if (3 <=? len - start)%nat then O else (len - start)%nat)
    else if b / 8 =? 30 then Ok (if (4 <=? len - start)%nat then O else (len - start)%nat)
    else match start with O => Ok O | S s' => firl_loop p len s' k end
  end.
Definition find_incomplete_rune_length (p : bytes) (len : nat) : res nat :=
  if (len =? 0)%nat then Ok O else
  do lastb <- idx p (len - 1);
  if lastb <? 128 then Ok O else
  let lowest := (len - 4)%nat in
  (* for start := length-1; start >= lowest; start-- : (len - lowest) iterations *)
  firl_loop p len (len - 1) (len - lowest).

(* ------------------------------------------------------------------------------------------ *)
(* correspondence cases and judge                                                              *)
(* ------------------------------------------------------------------------------------------ *)
Definition oinfo_beq (a b : option info) : bool :=
  match a, b with
  | Some x, Some y => info_beq x y
  | None, None => true
  | _, _ => false
  end.
Definition res_oinfo (r : res info) : option info := match r with Ok i => Some i | Panic => None end.
Definition blist_beq := list_beq beq.
Definition sum_nat (l : list nat) : nat := fold_right Nat.add O l.

(* ------------------------------------------------------------------------------------------ *)
(* replacer.go {hostonly} / {server_port}: net.SplitHostPort (GoNet's model) of the peer's Host   *)
(* ------------------------------------------------------------------------------------------ *)
Definition host_only (host : bytes) : bytes :=
  match GoNet.split_host_port host with Some (h, _) => h | None => host end.
Definition lit_80 : bytes := [56; 48].
Definition server_port (host : bytes) : bytes :=                      (* request without TLS *)
  match GoNet.split_host_port host with Some (_, p) => p | None => lit_80 end.

(* ------------------------------------------------------------------------------------------ *)
(* what the property demands of ONE connection of a listener history: its recorded hello is the *)
(* implementation's own stateless parse [odirect] of the first record of ITS OWN bytes [w]      *)
(* ------------------------------------------------------------------------------------------ *)
Definition own_spec (parse : bytes -> option info) (w : bytes) (orec : option info) (odirect : info) : bool :=
  let none := match orec with None => true | Some _ => false end in
  if (5 <=? length w)%nat then
    let len := N.to_nat (u16 (nth 3 w 0) (nth 4 w 0)) in
    if (5 + len <=? length w)%nat
    then oinfo_beq orec (Some odirect) && oinfo_beq (parse (firstn len (skipn 5 w))) (Some odirect)
    else none
  else none.

Inductive case :=
(* raw bytes through parseRawClientHello; obs = None when the implementation panicked *)
| CParse (data : bytes) (obs : option info)
(* a structured hello encoded by the harness ([data]) and parsed by the implementation *)
| CHello (h : hello) (data : bytes) (obs : option info)
(* heuristic [which] on an info; obs 0 false, 1 true, 2 panic *)
| CLooks (which : N) (inf : info) (obs : N)
(* tlsHandler.ServeHTTP; obs 0 not checked, 1 checked mitm=false, 2 checked mitm=true, 3 panic *)
| CMitm (inf : info) (ua : bytes) (bluecoat fcckv2 torver : bool) (obs : N)
(* getVersion; obs = shortest decimal of the float returned *)
| CVersion (ua name : bytes) (obs_panic : bool) (obs : bytes)
(* clientHelloConn fed [wire] cut into reads of [sizes]: recorded info, bytes passed to the
   TLS stack, the implementation's own parse of the record body *)
| CConn (wire : bytes) (sizes : list nat) (obs_panic : bool) (obs_rec : option info)
        (obs_pass : bytes) (obs_direct : info)
(* push middleware with the given Link header values; obs = targets handed to Push *)
| CLink (values : list bytes) (failat : option nat) (obs_panic : bool) (obs : list bytes)
(* raw byte stream from a FastCGI backend read through FCGIClient.Do's reader *)
| CStream (s : bytes) (obs_panic : bool) (obs : bytes) (obs_err : N)
(* well-formed records followed by [tail] (0 = end-request record, 1 = plain close) *)
| CRecs (rs : list frec) (tail : N) (wire : bytes) (obs_panic : bool) (obs : bytes) (obs_err : N)
(* writePairs with a header of the given name/value lengths; obs = length of the value received *)
| CPairs (klen vlen : Z) (obs_panic : bool) (obs_vlen : Z)
(* backend response "Status: tok"; obs 0 = written (code), 1 = 502, 2 = panic *)
| CStatus (tok : bytes) (obs : N) (obs_code : Z)
(* fastcgi handler's path gate for request path [path] under `fastcgi / addr` (empty Ext) *)
| CGate (path : bytes) (file_exists : bool) (obs_panic : bool)
(* Replace(template) with the substitution values observed; obs = output *)
| CReplace (tmpl : bytes) (env : list (N * bytes * bytes)) (empty : bytes) (obs_panic : bool) (obs : bytes)
(* a real TLS handshake + request against a running Server (tlsHelloListener.Accept, tls.Server,
   tlsHandler): the client wrote the ClientHello record [wire] in pieces of [sizes] (then the
   rest); obs_rec = what the listener recorded for the connection, obs_direct = the
   implementation's parse of the record body, ok = handshake and request succeeded *)
| CTls (wire : bytes) (sizes : list nat) (ok : bool) (obs_rec : option info) (obs_direct : info)
(* code paths that are exercised but not modelled (net/http parsing in front of basicauth,
   matchers, cookies ...): only panic / no panic is judged *)
| CTotal (kind : N) (obs_panic : bool)
(* a structured hello followed by [g] through parseRawClientHello *)
| CHelloTrail (h : hello) (g : bytes) (data : bytes) (obs : option info)
(* the first [k] bytes of a structured hello through parseRawClientHello *)
| CHelloCut (h : hello) (k : nat) (data : bytes) (obs : option info)
(* websocket `type text` in front of an echoing command: the peer's message [data] comes back as
   one text message [obs] cut before an incomplete trailing UTF-8 sequence *)
| CWs (data : bytes) (obs_panic : bool) (obs : bytes)
(* END TO END: a structured hello framed as a TLS record, followed by [rest], cut into reads of
   [sizes], through clientHelloConn: what is recorded *)
| CHelloConn (h : hello) (rest : bytes) (wire : bytes) (sizes : list nat) (obs_panic : bool) (obs_rec : option info)
(* the running TLS server (real tlsHelloListener.Accept, pooled buffers): earlier connections wrote
   [stale] (each one write: a hello record and more), then a real handshake whose ClientHello
   record is [wire]; obs_rec = recorded for that last connection, obs_direct = the implementation's
   parse of its record body *)
| CPool (stale : list bytes) (wire : bytes) (ok : bool) (obs_rec : option info) (obs_direct : info)
(* FastCGI response bytes delivered by the underlying connection in reads [segs]; [rs] = the
   records the bytes were built from, if any (tail: 0 end-request, 1 close); obs1/oe1 = what the
   implementation returned for the same bytes delivered in one piece *)
| CStreamSeg (rs : option (list frec * N)) (segs : list bytes) (obs_panic : bool) (obs : bytes) (obs_err : N)
             (obs1 : bytes) (oe1 : N)
(* {labelN} with Host [host]; obs = None for the empty value *)
| CLabel (host nstr : bytes) (obs_panic : bool) (obs : option bytes)
(* proxy: X-Forwarded-For values sent by the peer, connection address; obs = header at the backend *)
| CXff (prior : option (list bytes)) (ip : bytes) (obs_panic : bool) (obs : bytes)
(* the REAL tlsHelloListener.Accept (Server.Serve over a scripted listener): [evs] = the accepts and
   the reads each scripted connection actually delivered, in order; obs = recorded per connection
   (read before the server closed it), direct = the implementation's parse of each connection's
   own first record *)
| CSeq (evs : list ev) (obs : list (option info)) (direct : list info) (obs_panic : bool)
(* {hostonly} and {server_port} (no TLS) with Host [host] *)
| CHostOnly (host : bytes) (obs_panic : bool) (obs_host obs_port : bytes).

(* values of the placeholders as observed from the implementation; a placeholder that is not in
   the table gets what getSubstitution returns for unknown names: "" for {?name} and {$name}
   (the text after '=' for {$name=default}), the configured empty value otherwise *)
Definition env_subst (env : list (N * bytes * bytes)) (empty : bytes) (cls : N) (name : bytes) : bytes :=
  match find (fun e => (fst (fst e) =? cls) && beq (snd (fst e)) name) env with
  | Some e => snd e
  | None => if cls =? 4 then []
            else if cls =? 5 then match index_of [EQ] name with Some i => skipn (S i) name | None => [] end
            else empty
  end.

Definition judge (c : case) : N :=
  match c with
  | CParse data obs =>
      verdict (oinfo_beq (res_oinfo (parse_raw_client_hello data)) obs)
              (match obs with Some _ => true | None => false end)
  | CHello h data obs =>
      verdict (beq (encode_hello h) data && oinfo_beq (res_oinfo (parse_raw_client_hello data)) obs)
              (* independent of the parser model: the fields the hello was built from *)
              (negb (hello_wf h) || oinfo_beq obs (Some (info_of h)))
  | CLooks which inf obs =>
      let m := match looks_like which inf with Ok false => 0 | Ok true => 1 | Panic => 2 end in
      verdict (m =? obs) (negb (obs =? 2))
  | CMitm inf ua bc fc tv obs =>
      let m := match mitm_check inf ua bc fc tv with
               | Ok None => 0 | Ok (Some false) => 1 | Ok (Some true) => 2 | Panic => 3 end in
      verdict (m =? obs) (negb (obs =? 3))
  | CVersion ua name op obs =>
      let agree :=
        match get_version_str ua name with
        | Panic => op
        | Ok None => negb op && beq obs lit_1_0
        | Ok (Some sv) =>
          negb op &&
          match simple_decimal sv with
          | None => true
          | Some (m, d) =>
            (* obs is the shortest decimal: compare as (mantissa, decimals) *)
            match simple_decimal obs with
            | Some (m', d') => (m =? m') && (d =? d')%nat
            | None => false
            end
          end
        end in
      verdict agree (negb op)
  | CConn wire sizes op orec opass odirect =>
      let segs := cut wire sizes in
      let m := conn_run conn0 segs in
      let agree :=
        match m with
        | Panic => op
        | Ok st => negb op && oinfo_beq (c_recorded st) orec
        end in
      let delivered := firstn (sum_nat sizes) wire in
      let spec :=
        negb op && beq opass delivered &&
        (* a complete record was delivered => its parse is what is recorded, whatever the cuts *)
        (if (5 <=? length delivered)%nat then
           let len := N.to_nat (u16 (nth 3 wire 0) (nth 4 wire 0)) in
           if (5 + len <=? length delivered)%nat
           then oinfo_beq orec (Some odirect) &&
                oinfo_beq (res_oinfo (parse_raw_client_hello (firstn len (skipn 5 wire)))) (Some odirect)
           else match orec with None => true | Some _ => false end
         else match orec with None => true | Some _ => false end) in
      verdict agree spec
  | CLink values failat op obs =>
      let agree := match serve_preload_links values 0 failat with
                   | Panic => op
                   | Ok l => negb op && blist_beq l obs
                   end in
      verdict agree (negb op)
  | CStream s op obs oe =>
      let agree := match stream_read_all s with
                   | Panic => op
                   | Ok (d, e) => negb op && beq d obs && (e =? oe)
                   end in
      verdict agree (negb op)
  | CRecs rs tail wire op obs oe =>
      let w := flat_map enc_rec rs ++ (if tail =? 0 then end_request else []) in
      let agree := beq w wire &&
                   match stream_read_all wire with
                   | Panic => op
                   | Ok (d, e) => negb op && beq d obs && (e =? oe)
                   end in
      (* independent of the reader model: the stdout contents the records were built from *)
      verdict agree (negb op && (negb (forallb frec_wf rs) || (beq obs (stdout_of rs) && (oe =? 1))))
  | CPairs klen vlen op ov =>
      let agree := match write_pair_len klen vlen with
                   | Panic => op
                   | Ok l => negb op && (l =? ov)%Z
                   end in
      (* no panic; a pair that fits one 65500-byte record arrives whole; otherwise the value is cut
         so that 8+len(k)+len(v') is the record size, or to nothing when the name leaves no room *)
      let fits := (enc_pair_len klen vlen <=? 65500)%Z in
      verdict agree (negb op && (ov <=? vlen)%Z &&
                     (fits || (8 + klen + ov =? 65500)%Z || ((65492 <? klen)%Z && (ov =? 0)%Z))
                     && (negb fits || (ov =? vlen)%Z))
  | CStatus tok obs ocode =>
      let agree := match fcgi_status tok with
                   | Ok (Some c) => (obs =? 0) && (c =? ocode)%Z
                   | Ok None => obs =? 1
                   | Panic => obs =? 2
                   end in
      (* no panic, and a header is only ever written with a code WriteHeader accepts *)
      verdict agree (negb (obs =? 2) && (negb (obs =? 0) || ((100 <=? ocode)%Z && (ocode <=? 999)%Z)))
  | CGate path ex op =>
      verdict (Bool.eqb (is_panic (fcgi_path_gate (fcgi_fpath path) ex true)) op) (negb op)
  | CReplace tmpl env empty op obs =>
      let agree := match replace (env_subst env empty) tmpl with
                   | Panic => op
                   | Ok o => negb op && beq o obs
                   end in
      verdict agree (negb op)
  | CTls wire sizes ok orec odirect =>
      let segs := cut wire (sizes ++ [length wire]) in
      (* network timing may merge the client's writes: what the model records does not depend on
         the segmentation (C19_hello_info_segmentation_independent), so it is compared always *)
      let agree :=
        match conn_run conn0 segs with
        | Ok st => oinfo_beq (c_recorded st) orec
        | Panic => false
        end in
      verdict agree (ok && oinfo_beq orec (Some odirect))
  | CTotal _ op => verdict true (negb op)
  | CHelloTrail h g data obs =>
      verdict (beq (encode_hello h ++ g) data && oinfo_beq (res_oinfo (parse_raw_client_hello data)) obs)
              (negb (hello_wf h) ||
               oinfo_beq obs (Some (info_of (match g with [] => h | _ => without_exts h end))))
  | CHelloCut h k data obs =>
      verdict (beq (firstn k (encode_hello h)) data && oinfo_beq (res_oinfo (parse_raw_client_hello data)) obs)
              (negb (hello_wf h) || negb (k <? length (encode_hello h))%nat ||
               oinfo_beq obs (Some (stage_info h (cut_stage h k))))
  | CWs data op obs =>
      let agree := match find_incomplete_rune_length data (length data) with
                   | Panic => op
                   | Ok r => negb op && beq obs (firstn (length data - r) data)
                   end in
      verdict agree (negb op && prefixb obs data && (length data <=? length obs + 3)%nat)
  | CHelloConn h rest wire sizes op orec =>
      let w := tls_record [22; 3; 1] (encode_hello h) ++ rest in
      let agree := beq w wire &&
                   match conn_run conn0 (cut wire sizes) with
                   | Panic => op
                   | Ok st => negb op && oinfo_beq (c_recorded st) orec
                   end in
      let complete := (5 + length (encode_hello h) <=? sum_nat sizes)%nat in
      verdict agree (negb op &&
                     (negb (hello_wf h && (nlen (encode_hello h) <? 65536)) ||
                      oinfo_beq orec (if complete then Some (info_of h) else None)))
  | CPool stale wire ok orec odirect =>
      let n := length stale in
      let evs := concat (map (fun iw => [EvAccept (fst iw) 0; EvRead (fst iw) (snd iw)])
                             (combine (seq 0 n) stale)) ++ [EvAccept n 0; EvRead n wire] in
      let agree := match l_run true (l_init []) evs with
                   | Ok st => oinfo_beq (recorded_for st n) orec
                   | Panic => false
                   end in
      verdict agree (ok && oinfo_beq orec (Some odirect))
  | CStreamSeg rs segs op obs oe obs1 oe1 =>
      let agree := match stream_read_segs false segs with
                   | Panic => op
                   | Ok (d, e) => negb op && beq d obs && (e =? oe)
                   end &&
                   match rs with
                   | Some (l, tail) => beq (concat segs) (flat_map enc_rec l ++ (if tail =? 0 then end_request else []))
                   | None => true
                   end in
      (* no panic; the same as for the bytes in one piece; the stdout the records were built from *)
      verdict agree (negb op && beq obs obs1 && (oe =? oe1) &&
                     match rs with
                     | Some (l, _) => negb (forallb frec_wf l) || (beq obs (stdout_of l) && (oe =? 1))
                     | None => true
                     end)
  | CLabel host nstr op obs =>
      let agree := match label_subst host nstr with
                   | Panic => op
                   | Ok None => negb op && match obs with None => true | Some _ => false end
                   | Ok (Some l) => negb op && match obs with Some o => beq l o | None => false end
                   end in
      (* no panic, and the value is the N-th dot-separated piece of the Host as the peer sent it *)
      verdict agree (negb op && obytes_beq obs (label_spec host nstr))
  | CXff prior ip op obs =>
      verdict (negb op && beq (xff_fold prior ip) obs) (negb op && beq (last_elem obs) ip)
  | CSeq evs obs direct op =>
      let ids := seq 0 (length obs) in
      let agree := match l_run true (l_init []) evs with
                   | Ok st => negb op && forallb (fun io => oinfo_beq (recorded_for st (fst io)) (snd io)) (combine ids obs)
                   | Panic => op
                   end in
      let own := own_segs evs in
      verdict agree
        (negb op && (length direct =? length obs)%nat &&
         forallb (fun iod => own_spec (fun b => res_oinfo (parse_raw_client_hello b))
                                      (match own (fst (fst iod)) with Some l => concat l | None => [] end)
                                      (snd (fst iod)) (snd iod))
                 (combine (combine ids obs) direct))
  | CHostOnly host op oh op_ =>
      verdict (negb op && beq (host_only host) oh && beq (server_port host) op_)
              (* independent of the model: the value is a piece of the Host, the port what follows
                 its last colon *)
              (negb op && (contains host oh) &&
               (beq oh host && beq op_ lit_80 ||
                beq (oh ++ [58] ++ op_) host || beq ([91] ++ oh ++ [93; 58] ++ op_) host))
  end.
