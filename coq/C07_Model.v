(* C07 — reloading the configuration never drops or misroutes a request.

   Small-step interleaving model of the listener hand-over protocol of
   casket.go: Instance.Restart -> startWithListenerFds -> startServers -> (old) Instance.Stop,
   httpserver/server.go: Server.Listen / Serve / Stop, tcpKeepAliveListener.File.

   Kernel side (ASSUMPTIONS of the model, sampled only by the correspondence runs):
     * a listening socket bound to a listen address lives as long as at least one file
       descriptor refers to it ([fdh a] = the instances holding one; File()+net.FileListener
       = dup: one more descriptor for the SAME socket, same accept queue);
     * a connect to an address with a live socket is queued ([CQueued]), otherwise refused;
       queued connections are lost only when the last descriptor is closed ([CReset]);
     * any committed acceptor goroutine of the socket (http.Server.Serve spawned by
       startServers and not yet shut down) may take a queued connection ([LAccept]; the
       goroutine scheduler is folded into this step);
     * an accepted connection is answered completely by the instance that accepted it
       (http.Server.Shutdown never kills an active connection; it only stops acceptors,
       closes the listener descriptor and waits for idle).

   Restart, exactly as coded (one label per atomic effect):
     LCall      wg.Add, new Instance appended to the instance list          (RLoad)
     LLoadFail  parse / directive setup / MakeServers failed (also a plugin's panic, which
                Restart recovers): the new instance is discarded, nothing else happened
                                                                           (-> RIdle, old kept)
     LLoadOk    -> the OnStartup callbacks of the new instance run          (RCb)
     LCbFail    one of them returns an error: the new instance is discarded; no listener of it
                exists yet, no acceptor was started                        (-> RIdle, old kept)
     LCbOk      -> startServers, first loop over the new servers           (RListen)
       LDup        address served by the old instance: old.listener.File() + FileListener
       LBind       address not served by the old instance: Server.Listen() binds a new socket
       LListenFail ... or fails (address in use): startServers closes every listener it has
                   opened for the new instance (the dup'ed descriptors and the freshly bound
                   sockets) and Restart returns the error
     LAdv       -> second loop: go s.Serve(ln) for every server             (RSpawn; LSpawn)
     LAdv       -> old.Stop(): for every old server Shutdown = close its descriptor and
                   stop its acceptor                                        (RStop; LStop)
       LStopTimeout the same, but a connection of the old server outlives the graceful
                   timeout: Shutdown returns `context deadline exceeded` AFTER having closed
                   the listener; Instance.Stop logs the error ([EDrain]) and goes on with the
                   next server; the connection stays with the old instance, which answers it
     LReturn    Restart returns the new instance.

   Configuration markers: the configuration given to the n-th Restart call is identified
   with the instance it creates (instance id n; the first Start is instance 0), so "answered
   by configuration n" = "answered by instance n". *)
Require Import V.Lib.
Open Scope nat_scope.

(* ---- small utilities ---- *)
Definition mem (x : nat) (l : list nat) : bool := existsb (Nat.eqb x) l.
Definition rem (x : nat) (l : list nat) : list nat := filter (fun y => negb (Nat.eqb x y)) l.
Definition upd {A} (f : nat -> A) (a : nat) (v : A) : nat -> A :=
  fun x => if Nat.eqb x a then v else f x.
Definition isnil {A} (l : list A) : bool := match l with [] => true | _ => false end.
Fixpoint nodupb (l : list nat) : bool :=
  match l with [] => true | x :: r => negb (mem x r) && nodupb r end.
Fixpoint set_nth {A} (l : list A) (i : nat) (v : A) : list A :=
  match l, i with
  | [], _ => []
  | _ :: r, O => v :: r
  | x :: r, S j => x :: set_nth r j v
  end.

(* ---- connections ---- *)
Inductive cstate :=
| CInit                (* the client has decided to send a request on a fresh connection *)
| CQueued              (* connected: in the accept queue of the listening socket *)
| CRefused             (* connect failed: no listening socket at the address *)
| CReset               (* was queued when the last descriptor of the socket was closed *)
| CAccepted (i : nat)  (* taken by an acceptor of instance i; request in flight there *)
| CAnswered (i : nat)  (* instance i wrote the complete response of ITS configuration *)
| CDone (i : nat)      (* the client has read it *)
| CFailed.             (* the client has seen the transport error *)

Record conn := { caddr : nat; csite : nat; cborn : nat; cst : cstate }.
Definition set_st (c : conn) (x : cstate) : conn :=
  {| caddr := caddr c; csite := csite c; cborn := cborn c; cst := x |}.

(* ---- observable history ---- *)
Inductive event :=
| ECall (addrs : list nat) (fate : nat)   (* Restart called; fate declared by the configuration:
                                             0 valid, 1 fails while loading (parse/setup/
                                             MakeServers), 2 fails at listen time, 3 fails in a
                                             startup callback *)
| ERet (r : nat)                          (* Restart returned: 0 ok, 1 error before listening, 2 listen error *)
| EStart (k a site : nat)                 (* client k starts a request to site [site] at address a *)
| EEnd (k : nat) (r : option (nat * nat * bool))
                                          (* client k finished: Some (marker, site, complete) / transport error *)
| EObs (a : nat) (isopen : bool) (sd : nat) (* listening socket at a: exists?, identity (bind generation) *)
| EDrain (a : nat)                        (* "[ERROR] Stopping <a>: context deadline exceeded" logged by old.Stop() *)
| EFds (a n : nat).                       (* the process holds n descriptors of the listening socket at a *)

(* what Restart returns for a configuration of the given fate *)
Definition ret_of_fate (fate : nat) : nat := if Nat.eqb fate 3 then 1 else fate.

Inductive rphase :=
| RIdle
| RLoad (n : nat)
| RListen (n : nat) (todo : list nat)
| RSpawn (n : nat) (todo : list nat)
| RStop (n : nat) (todo : list nat)
| RCb (n : nat).

Record state := {
  fdh   : nat -> list nat;        (* address -> instances holding a descriptor of the socket bound there *)
  sid   : nat -> nat;             (* address -> how many times a socket was bound there (its identity) *)
  ext   : nat -> bool;            (* address occupied by a foreign socket (another process) *)
  acc   : nat -> list nat;        (* address -> instances with a committed acceptor goroutine *)
  cfgs  : list (list nat * nat);  (* instance id -> (listen addresses, fate) of its configuration *)
  cur   : nat;                    (* the instance the caller holds: last successfully started *)
  rst   : rphase;                 (* the Restart call in progress *)
  conns : list conn;
  hist  : list event              (* observable events, newest first *)
}.

Definition addrs_of (s : state) (i : nat) : list nat := fst (nth i (cfgs s) ([], 0)).
Definition fate_of (s : state) (i : nat) : nat := snd (nth i (cfgs s) ([], 0)).

Inductive label :=
| LCall (addrs : list nat) (fate : nat)
| LLoadFail | LLoadOk | LDup | LBind | LListenFail | LAdv | LSpawn | LStop | LReturn
| LNew (a site : nat) | LConnect (k : nat) | LAccept (k i : nat) | LAnswer (k : nat) | LRecv (k : nat)
| LObs (a : nat)
| LCbOk | LCbFail | LStopTimeout
| LFds (a : nat).

Definition with_rst (s : state) (r : rphase) : state :=
  {| fdh := fdh s; sid := sid s; ext := ext s; acc := acc s; cfgs := cfgs s; cur := cur s;
     rst := r; conns := conns s; hist := hist s |}.
Definition with_hist (s : state) (e : event) : state :=
  {| fdh := fdh s; sid := sid s; ext := ext s; acc := acc s; cfgs := cfgs s; cur := cur s;
     rst := rst s; conns := conns s; hist := e :: hist s |}.
Definition with_conns (s : state) (cs : list conn) : state :=
  {| fdh := fdh s; sid := sid s; ext := ext s; acc := acc s; cfgs := cfgs s; cur := cur s;
     rst := rst s; conns := cs; hist := hist s |}.
Definition with_fdh (s : state) (f : nat -> list nat) : state :=
  {| fdh := f; sid := sid s; ext := ext s; acc := acc s; cfgs := cfgs s; cur := cur s;
     rst := rst s; conns := conns s; hist := hist s |}.
Definition with_acc (s : state) (f : nat -> list nat) : state :=
  {| fdh := fdh s; sid := sid s; ext := ext s; acc := f; cfgs := cfgs s; cur := cur s;
     rst := rst s; conns := conns s; hist := hist s |}.
Definition with_sid (s : state) (f : nat -> nat) : state :=
  {| fdh := fdh s; sid := f; ext := ext s; acc := acc s; cfgs := cfgs s; cur := cur s;
     rst := rst s; conns := conns s; hist := hist s |}.

Definition accepted_by (x : cstate) : option nat :=
  match x with CAccepted i | CAnswered i | CDone i => Some i | _ => None end.

(* the last descriptor of the socket at [a] was closed: its accept queue is dropped *)
Definition reset_queued (a : nat) (cs : list conn) : list conn :=
  map (fun c => match cst c with
                | CQueued => if Nat.eqb (caddr c) a then set_st c CReset else c
                | _ => c
                end) cs.

(* startServers' clean-up when a Listen fails: every descriptor the new instance n holds is
   closed; a socket that loses its last descriptor (one that n had bound itself) is gone, and
   with it its accept queue *)
Definition close_inst (n : nat) (s : state) : state :=
  let f := fun a => rem n (fdh s a) in
  with_conns (with_fdh s f)
    (map (fun c => match cst c with
                   | CQueued => if isnil (f (caddr c)) then set_st c CReset else c
                   | _ => c
                   end) (conns s)).

(* the old instance (cur) holds a connection at address a *)
Definition old_conn_at (s : state) (a : nat) : bool :=
  existsb (fun c => Nat.eqb (caddr c) a &&
                    match accepted_by (cst c) with Some i => Nat.eqb i (cur s) | None => false end) (conns s).

(* http.Server.Shutdown of the old instance's server at address a: its listener descriptor is
   closed and its acceptor stopped (whether or not the drain then times out); if that was the
   last descriptor of the socket its accept queue is dropped *)
Definition stop_old (s : state) (a : nat) : state :=
  let f := rem (cur s) (fdh s a) in
  let s1 := with_acc (with_fdh s (upd (fdh s) a f)) (upd (acc s) a (rem (cur s) (acc s a))) in
  if isnil f then with_conns s1 (reset_queued a (conns s1)) else s1.

Definition step (s : state) (l : label) : option state :=
  match l with
  | LCall addrs fate =>
      match rst s with
      | RIdle =>
          if nodupb addrs then
            Some {| fdh := fdh s; sid := sid s; ext := ext s; acc := acc s;
                    cfgs := cfgs s ++ [(addrs, fate)]; cur := cur s;
                    rst := RLoad (length (cfgs s)); conns := conns s;
                    hist := ECall addrs fate :: hist s |}
          else None
      | _ => None
      end
  | LLoadFail =>
      match rst s with
      | RLoad n => if Nat.eqb (fate_of s n) 1 then Some (with_hist (with_rst s RIdle) (ERet 1)) else None
      | _ => None
      end
  | LLoadOk =>
      match rst s with
      | RLoad n => if Nat.eqb (fate_of s n) 1 then None else Some (with_rst s (RCb n))
      | _ => None
      end
  | LCbOk =>
      match rst s with
      | RCb n => if Nat.eqb (fate_of s n) 3 then None else Some (with_rst s (RListen n (addrs_of s n)))
      | _ => None
      end
  | LCbFail =>
      match rst s with
      | RCb n => if Nat.eqb (fate_of s n) 3 then Some (with_hist (with_rst s RIdle) (ERet 1)) else None
      | _ => None
      end
  | LDup =>
      match rst s with
      | RListen n (a :: t) =>
          if mem a (addrs_of s (cur s))
          then Some (with_rst (with_fdh s (upd (fdh s) a (n :: fdh s a))) (RListen n t))
          else None
      | _ => None
      end
  | LBind =>
      match rst s with
      | RListen n (a :: t) =>
          if negb (mem a (addrs_of s (cur s))) && isnil (fdh s a) && negb (ext s a)
          then Some (with_rst (with_sid (with_fdh s (upd (fdh s) a [n])) (upd (sid s) a (S (sid s a))))
                              (RListen n t))
          else None
      | _ => None
      end
  | LListenFail =>
      match rst s with
      | RListen n (a :: t) =>
          if negb (mem a (addrs_of s (cur s))) && (negb (isnil (fdh s a)) || ext s a)
             && Nat.eqb (fate_of s n) 2
          then Some (with_hist (with_rst (close_inst n s) RIdle) (ERet 2))
          else None
      | _ => None
      end
  | LAdv =>
      match rst s with
      | RListen n [] => if Nat.eqb (fate_of s n) 0 then Some (with_rst s (RSpawn n (addrs_of s n))) else None
      | RSpawn n [] => Some (with_rst s (RStop n (addrs_of s (cur s))))
      | _ => None
      end
  | LSpawn =>
      match rst s with
      | RSpawn n (a :: t) => Some (with_rst (with_acc s (upd (acc s) a (n :: acc s a))) (RSpawn n t))
      | _ => None
      end
  | LStop =>
      match rst s with
      | RStop n (a :: t) => Some (with_rst (stop_old s a) (RStop n t))
      | _ => None
      end
  | LStopTimeout =>
      match rst s with
      | RStop n (a :: t) =>
          if old_conn_at s a
          then Some (with_hist (with_rst (stop_old s a) (RStop n t)) (EDrain a))
          else None
      | _ => None
      end
  | LReturn =>
      match rst s with
      | RStop n [] =>
          Some {| fdh := fdh s; sid := sid s; ext := ext s; acc := acc s; cfgs := cfgs s; cur := n;
                  rst := RIdle; conns := conns s; hist := ERet 0 :: hist s |}
      | _ => None
      end
  | LNew a site =>
      Some (with_hist (with_conns s (conns s ++ [{| caddr := a; csite := site; cborn := cur s; cst := CInit |}]))
                      (EStart (length (conns s)) a site))
  | LConnect k =>
      match nth_error (conns s) k with
      | Some c =>
          match cst c with
          | CInit => Some (with_conns s (set_nth (conns s) k
                             (set_st c (if isnil (fdh s (caddr c)) then CRefused else CQueued))))
          | _ => None
          end
      | None => None
      end
  | LAccept k i =>
      match nth_error (conns s) k with
      | Some c =>
          match cst c with
          | CQueued => if mem i (acc s (caddr c))
                       then Some (with_conns s (set_nth (conns s) k (set_st c (CAccepted i))))
                       else None
          | _ => None
          end
      | None => None
      end
  | LAnswer k =>
      match nth_error (conns s) k with
      | Some c =>
          match cst c with
          | CAccepted i => Some (with_conns s (set_nth (conns s) k (set_st c (CAnswered i))))
          | _ => None
          end
      | None => None
      end
  | LRecv k =>
      match nth_error (conns s) k with
      | Some c =>
          match cst c with
          | CAnswered i => Some (with_hist (with_conns s (set_nth (conns s) k (set_st c (CDone i))))
                                           (EEnd k (Some (i, csite c, true))))
          | CRefused | CReset => Some (with_hist (with_conns s (set_nth (conns s) k (set_st c CFailed)))
                                                 (EEnd k None))
          (* the client gives up on a connection that sits in the queue of a socket nobody
             accepts from (ASSUMPTION: committed acceptors are prompt relative to client timeouts) *)
          | CQueued => if isnil (acc s (caddr c))
                       then Some (with_hist (with_conns s (set_nth (conns s) k (set_st c CFailed))) (EEnd k None))
                       else None
          | _ => None
          end
      | None => None
      end
  | LObs a => Some (with_hist s (EObs a (negb (isnil (fdh s a))) (sid s a)))
  | LFds a => Some (with_hist s (EFds a (length (fdh s a))))
  end.

Fixpoint run (s : state) (ls : list label) : option state :=
  match ls with
  | [] => Some s
  | l :: r => match step s l with Some s' => run s' r | None => None end
  end.

(* the first Start: instance 0 listens and accepts on every address of its configuration;
   [blocked] = addresses held by foreign sockets *)
Definition init (a0 blocked : list nat) : state :=
  {| fdh := fun a => if mem a a0 then [0] else [];
     sid := fun _ => 0;
     ext := fun a => mem a blocked;
     acc := fun a => if mem a a0 then [0] else [];
     cfgs := [(a0, 0)]; cur := 0; rst := RIdle; conns := []; hist := [] |}.

Definition reachable (s : state) : Prop :=
  exists a0 blocked ls, nodupb a0 = true /\ run (init a0 blocked) ls = Some s.

(* the instance whose service is guaranteed: the new one once old.Stop() has begun *)
Definition owner (s : state) : nat :=
  match rst s with RStop n _ => n | _ => cur s end.

(* the new instance of the Restart call in progress *)
Definition pending (s : state) : option nat :=
  match rst s with
  | RIdle => None
  | RLoad n | RListen n _ | RSpawn n _ | RStop n _ | RCb n => Some n
  end.

Definition finished (x : cstate) : bool :=
  match x with CDone _ | CFailed => true | _ => false end.
Definition lost (x : cstate) : bool :=
  match x with CRefused | CReset | CFailed => true | _ => false end.

(* ====================================================================================== *)
(* Executable specification on observable histories (independent of [step]).              *)
(* One left-to-right scan; per request the set of configuration markers that may answer it *)
(* (those in force or being started between its start and its end), and whether its address *)
(* was served throughout.                                                                  *)

Record oreq := {
  q_addr : nat; q_site : nat;
  q_open : bool;
  q_allow : list nat;      (* markers that may answer *)
  q_must : bool            (* address served by every configuration in force since the start *)
}.

Record sp := {
  sp_ok : bool;
  sp_cur : nat; sp_addrs : list nat;        (* marker and addresses of the configuration in force *)
  sp_calls : nat;                            (* reload calls so far = marker of the newest configuration *)
  sp_pend : option (list nat * nat);         (* reload in progress: addresses, declared fate *)
  sp_reqs : list oreq;                       (* by request id *)
  sp_base : list (nat * nat);                (* socket identity seen at continuously served addresses *)
  sp_used : bool                             (* the reload in progress: its marker has been seen in a response *)
}.

Definition sp_init (a0 : list nat) : sp :=
  {| sp_ok := true; sp_cur := 0; sp_addrs := a0; sp_calls := 0; sp_pend := None; sp_reqs := []; sp_base := []; sp_used := false |}.

Definition sp_fail (p : sp) : sp :=
  {| sp_ok := false; sp_cur := sp_cur p; sp_addrs := sp_addrs p; sp_calls := sp_calls p;
     sp_pend := sp_pend p; sp_reqs := sp_reqs p; sp_base := sp_base p; sp_used := sp_used p |}.

Fixpoint lookup (a : nat) (l : list (nat * nat)) : option nat :=
  match l with
  | [] => None
  | (x, v) :: r => if Nat.eqb x a then Some v else lookup a r
  end.

Definition pend_has (p : sp) (a : nat) : bool :=
  match sp_pend p with Some (ad, _) => mem a ad | None => true end.

Definition spec_step (p : sp) (e : event) : sp :=
  match e with
  | ECall addrs fate =>
      match sp_pend p with
      | Some _ => sp_fail p
      | None =>
          if nodupb addrs then
            let n := S (sp_calls p) in
            {| sp_ok := sp_ok p; sp_cur := sp_cur p; sp_addrs := sp_addrs p; sp_calls := n;
               sp_pend := Some (addrs, fate);
               sp_reqs := map (fun q => {| q_addr := q_addr q; q_site := q_site q; q_open := q_open q;
                                           q_allow := n :: q_allow q;
                                           q_must := q_must q && mem (q_addr q) addrs |}) (sp_reqs p);
               sp_base := filter (fun av => mem (fst av) addrs) (sp_base p); sp_used := false |}
          else sp_fail p
      end
  | ERet r =>
      match sp_pend p with
      | None => sp_fail p
      | Some (addrs, fate) =>
          if Nat.eqb r (ret_of_fate fate) then
            if Nat.eqb r 0 then
              {| sp_ok := sp_ok p; sp_cur := sp_calls p; sp_addrs := addrs; sp_calls := sp_calls p;
                 sp_pend := None; sp_reqs := sp_reqs p; sp_base := sp_base p; sp_used := false |}
            else
              (* the reload failed: its configuration never answered anything and never will *)
              {| sp_ok := sp_ok p && negb (sp_used p); sp_cur := sp_cur p; sp_addrs := sp_addrs p;
                 sp_calls := sp_calls p; sp_pend := None;
                 sp_reqs := map (fun q => {| q_addr := q_addr q; q_site := q_site q; q_open := q_open q;
                                             q_allow := rem (sp_calls p) (q_allow q);
                                             q_must := q_must q |}) (sp_reqs p);
                 sp_base := sp_base p; sp_used := false |}
          else sp_fail p
      end
  | EStart k a site =>
      if Nat.eqb k (length (sp_reqs p)) then
        {| sp_ok := sp_ok p; sp_cur := sp_cur p; sp_addrs := sp_addrs p; sp_calls := sp_calls p;
           sp_pend := sp_pend p;
           sp_reqs := sp_reqs p ++ [{| q_addr := a; q_site := site; q_open := true;
                                       q_allow := match sp_pend p with
                                                  | Some _ => [sp_calls p; sp_cur p]
                                                  | None => [sp_cur p]
                                                  end;
                                       q_must := mem a (sp_addrs p) && pend_has p a |}];
           sp_base := sp_base p; sp_used := sp_used p |}
      else sp_fail p
  | EEnd k r =>
      match nth_error (sp_reqs p) k with
      | None => sp_fail p
      | Some q =>
          let good :=
            q_open q &&
            match r with
            | Some (m, site, complete) => complete && Nat.eqb site (q_site q) && mem m (q_allow q)
            | None => negb (q_must q)
            end in
          {| sp_ok := sp_ok p && good; sp_cur := sp_cur p; sp_addrs := sp_addrs p; sp_calls := sp_calls p;
             sp_pend := sp_pend p;
             sp_reqs := set_nth (sp_reqs p) k
                          {| q_addr := q_addr q; q_site := q_site q; q_open := false;
                             q_allow := q_allow q; q_must := q_must q |};
             sp_base := sp_base p;
             sp_used := sp_used p ||
                        match sp_pend p, r with
                        | Some _, Some (m, _, _) => Nat.eqb m (sp_calls p)
                        | _, _ => false
                        end |}
      end
  | EObs a isopen sd =>
      if mem a (sp_addrs p) && pend_has p a then
        match lookup a (sp_base p) with
        | Some b =>
            {| sp_ok := sp_ok p && isopen && Nat.eqb b sd; sp_cur := sp_cur p; sp_addrs := sp_addrs p;
               sp_calls := sp_calls p; sp_pend := sp_pend p; sp_reqs := sp_reqs p; sp_base := sp_base p; sp_used := sp_used p |}
        | None =>
            {| sp_ok := sp_ok p && isopen; sp_cur := sp_cur p; sp_addrs := sp_addrs p;
               sp_calls := sp_calls p; sp_pend := sp_pend p; sp_reqs := sp_reqs p;
               sp_base := (a, sd) :: sp_base p; sp_used := sp_used p |}
        end
      else p
  (* the old server of an address logs a drain timeout only while it is being replaced *)
  | EDrain a =>
      match sp_pend p with
      | Some _ => p
      | None => sp_fail p
      end
  (* how many descriptors the process holds is not part of the property (it is compared with
     the model's count by [accepts]: a descriptor that leaks is a model/implementation difference) *)
  | EFds _ _ => p
  end.

Definition spec_scan (a0 : list nat) (evs : list event) : sp := fold_left spec_step evs (sp_init a0).
Definition spec_trace (a0 : list nat) (evs : list event) : bool := sp_ok (spec_scan a0 evs).

(* ====================================================================================== *)
(* Acceptance of an observed history by the model: a full schedule (hidden steps included) *)
(* is synthesised event by event and EXECUTED with [step]; the history is accepted when    *)
(* every step is enabled and the model's own observable history equals the observed one.   *)
(* Hidden steps are placed where they leave most freedom: the new acceptors start right at *)
(* the call, the old ones stop right before the return, a connection is accepted by the    *)
(* instance that answered it as soon as that instance has an acceptor.                     *)

Fixpoint ans_of (evs : list event) (k : nat) : option nat :=
  match evs with
  | [] => None
  | EEnd k' (Some (m, _, _)) :: r => if Nat.eqb k k' then Some m else ans_of r k
  | _ :: r => ans_of r k
  end.

Fixpoint next_ret (evs : list event) : option nat :=
  match evs with
  | [] => None
  | ERet r :: _ => Some r
  | _ :: r => next_ret r
  end.

Fixpoint listen_labels (old : list nat) (todo : list nat) : list label :=
  match todo with
  | [] => []
  | a :: t => (if mem a old then LDup else LBind) :: listen_labels old t
  end.

(* dup the inherited addresses and bind the free new ones in order, until the first one that
   cannot be bound: fail there *)
Fixpoint listen_fail_labels (s : state) (old : list nat) (todo : list nat) : list label :=
  match todo with
  | [] => []
  | a :: t => if mem a old then LDup :: listen_fail_labels s old t
              else if isnil (fdh s a) && negb (ext s a) then LBind :: listen_fail_labels s old t
              else [LListenFail]
  end.

Fixpoint accept_waiting (ans : nat -> option nat) (n : nat) (addrs : list nat) (cs : list conn) (k : nat)
  : list label :=
  match cs with
  | [] => []
  | c :: r =>
      let rest := accept_waiting ans n addrs r (S k) in
      match cst c, ans k with
      | CQueued, Some m => if Nat.eqb m n && mem (caddr c) addrs then LAccept k n :: rest else rest
      | CInit, Some m => if Nat.eqb m n && mem (caddr c) addrs then LConnect k :: LAccept k n :: rest else rest
      | _, _ => rest
      end
  end.

Fixpoint stop_until (a : nat) (todo : list nat) : list label :=
  match todo with
  | [] => [LStopTimeout]
  | b :: t => if Nat.eqb b a then [LStopTimeout] else LStop :: stop_until a t
  end.

Definition labels_for (ans : nat -> option nat) (ret : option nat) (s : state) (e : event) : list label :=
  match e with
  | ECall addrs fate =>
      let n := length (cfgs s) in
      match ret with
      | Some 0 =>
          LCall addrs fate :: LLoadOk :: LCbOk :: listen_labels (addrs_of s (cur s)) addrs
            ++ [LAdv] ++ map (fun _ => LSpawn) addrs ++ accept_waiting ans n addrs (conns s) 0
      | _ => [LCall addrs fate]
      end
  | ERet r =>
      match r, rst s with
      | 0, RSpawn n _ => LAdv :: map (fun _ => LStop) (addrs_of s (cur s)) ++ [LReturn]
      | 0, RStop n todo => map (fun _ => LStop) todo ++ [LReturn]
      | 1, RLoad n => if Nat.eqb (fate_of s n) 3 then [LLoadOk; LCbFail] else [LLoadFail]
      | 2, RLoad n => LLoadOk :: LCbOk :: listen_fail_labels s (addrs_of s (cur s)) (addrs_of s n)
      | _, _ => [LReturn]  (* not enabled: the history is rejected *)
      end
  (* the old servers are stopped in the order of the old configuration's addresses: those before
     [a] stop cleanly, the one at [a] times out *)
  | EDrain a =>
      match rst s with
      | RSpawn n _ => LAdv :: stop_until a (addrs_of s (cur s))
      | RStop n todo => stop_until a todo
      | _ => [LStopTimeout]  (* not enabled: the history is rejected *)
      end
  | EFds a _ => [LFds a]
  | EStart k a site =>
      (* answered later by an instance that binds the address itself: the connect waits for it *)
      LNew a site ::
      match ans k with
      | Some m => if mem m (acc s a) then [LConnect k; LAccept k m]
                  else if isnil (fdh s a) then [] else [LConnect k]
      | None => [LConnect k]
      end
  | EEnd k (Some _) => [LAnswer k; LRecv k]
  | EEnd k None => [LRecv k]
  | EObs a _ _ => [LObs a]
  end.

Fixpoint replay (ans : nat -> option nat) (s : state) (evs : list event) : option state :=
  match evs with
  | [] => Some s
  | e :: r =>
      let ret := match e with ECall _ _ => next_ret r | _ => None end in
      match run s (labels_for ans ret s e) with
      | Some s' => replay ans s' r
      | None => None
      end
  end.

(* ---- boolean equality of events ---- *)
Definition natlist_eqb (a b : list nat) : bool := list_beq Nat.eqb a b.
Definition bool_eqb (a b : bool) : bool := if a then b else negb b.
Definition event_eqb (x y : event) : bool :=
  match x, y with
  | ECall a f, ECall b g => natlist_eqb a b && Nat.eqb f g
  | ERet r, ERet r' => Nat.eqb r r'
  | EStart k a s, EStart k' a' s' => Nat.eqb k k' && Nat.eqb a a' && Nat.eqb s s'
  | EEnd k None, EEnd k' None => Nat.eqb k k'
  | EEnd k (Some (m, s, c)), EEnd k' (Some (m', s', c')) =>
      Nat.eqb k k' && Nat.eqb m m' && Nat.eqb s s' && bool_eqb c c'
  | EObs a o d, EObs a' o' d' => Nat.eqb a a' && bool_eqb o o' && Nat.eqb d d'
  | EDrain a, EDrain a' => Nat.eqb a a'
  | EFds a n, EFds a' n' => Nat.eqb a a' && Nat.eqb n n'
  | _, _ => false
  end.

Definition accepts (a0 blocked : list nat) (evs : list event) : bool :=
  nodupb a0 &&
  match replay (ans_of evs) (init a0 blocked) evs with
  | Some s => list_beq event_eqb (rev (hist s)) evs
  | None => false
  end.

(* ====================================================================================== *)
(* Event hooks across reloads (plugins.go: eventHooks, RegisterEventHook, cloneEventHooks,  *)
(* purgeEventHooks, restoreEventHooks, EmitEvent; sigtrap_posix.go: the SIGUSR1 handler;     *)
(* casket.go: startWithListenerFds).  A hook is (name, generation whose configuration        *)
(* registered it); the directives of a configuration register their hooks while the          *)
(* configuration is loaded (RegisterEventHook panics on a name that is already registered;   *)
(* Restart recovers the panic and fails).                                                    *)
(*   SIGUSR1 handler:  outer := clone; purge; EmitEvent(InstanceRestartEvent) (reaches the   *)
(*                     hooks registered at THAT moment); Restart; on error restore outer     *)
(*   Restart (startWithListenerFds): inner := clone; load (registers); on any failure        *)
(*                     restore inner                                                         *)
Definition hook := (nat * nat)%type.
Definition hmem (x : nat) (h : list hook) : bool := existsb (fun p => Nat.eqb (fst p) x) h.

Fixpoint hregister (g : nat) (names : list nat) (h : list hook) : option (list hook) :=
  match names with
  | [] => Some h
  | x :: r => if hmem x h then None else hregister g r (h ++ [(x, g)])
  end.

Record hcall := { hc_sig : bool;          (* through the SIGUSR1 handler / Instance.Restart called directly *)
                  hc_names : list nat;    (* hook names its directives register *)
                  hc_fate : nat }.        (* 0 valid, otherwise the reload fails (after the registrations: the
                                             latest possible moment; everything registered is thrown away) *)

Record hstate := {
  hs_reg : list hook;              (* the registry, in registration order *)
  hs_cur : nat;                    (* generation in force *)
  hs_names : list nat;             (* hook names of the configuration in force *)
  hs_calls : nat;                  (* reload calls so far *)
  hs_okg : list nat;               (* generations that were started successfully *)
  hs_emit : list (list hook)       (* receivers of every InstanceRestartEvent emitted so far *)
}.

Definition hreload (s : hstate) (c : hcall) : hstate * bool :=
  let g := S (hs_calls s) in
  let outer := hs_reg s in
  let h1 := if hc_sig c then [] else hs_reg s in
  let em := if hc_sig c then h1 :: hs_emit s else hs_emit s in
  let inner := h1 in
  let fail := {| hs_reg := if hc_sig c then outer else inner; hs_cur := hs_cur s; hs_names := hs_names s;
                 hs_calls := g; hs_okg := hs_okg s; hs_emit := em |} in
  match hregister g (hc_names c) h1 with
  | Some h2 =>
      if Nat.eqb (hc_fate c) 0
      then ({| hs_reg := h2; hs_cur := g; hs_names := hc_names c; hs_calls := g;
               hs_okg := g :: hs_okg s; hs_emit := em |}, true)
      else (fail, false)
  | None => (fail, false)
  end.

Definition hinit (names0 : list nat) : hstate :=
  {| hs_reg := map (fun x => (x, 0)) names0; hs_cur := 0; hs_names := names0; hs_calls := 0;
     hs_okg := [0]; hs_emit := [] |}.

Fixpoint hrun (s : hstate) (cs : list hcall) : hstate :=
  match cs with [] => s | c :: r => hrun (fst (hreload s c)) r end.

(* census (hook names that answer an event) after every reload, as the model predicts it *)
Fixpoint hcensus (s : hstate) (cs : list hcall) : list (list nat) :=
  match cs with
  | [] => []
  | c :: r => let s' := fst (hreload s c) in map fst (hs_reg s') :: hcensus s' r
  end.

(* executable specification on the OBSERVED censuses (independent of [hreload]): per reload
   (names, observed success, census after the return).  The census always contains the hooks of
   the configuration in force and never a hook of a configuration whose reload failed; a failed
   reload leaves it as it was; through the SIGUSR1 handler it is exactly the hooks of the
   configuration in force. *)
Definition subset (a b : list nat) : bool := forallb (fun x => mem x b) a.
Definition disjoint (a b : list nat) : bool := forallb (fun x => negb (mem x b)) a.
Fixpoint hspec (sig : bool) (curn prev failed : list nat) (obs : list (list nat * bool * list nat)) : bool :=
  match obs with
  | [] => true
  | (names, ok, cen) :: r =>
      let curn' := if ok then names else curn in
      let failed' := if ok then failed else names ++ failed in
      subset curn' cen && disjoint cen failed'
      && (if ok then true else natlist_eqb cen prev)
      && (if sig then subset cen curn' else true)
      && hspec sig curn' cen failed' r
  end.

Definition hooks_agree (sig : bool) (names0 : list nat) (cen0 : list nat)
           (obs : list (list nat * nat * bool * list nat)) : bool :=
  natlist_eqb cen0 names0 &&
  list_beq natlist_eqb
    (hcensus (hinit names0) (map (fun o => match o with (names, fate, _, _) =>
                                   {| hc_sig := sig; hc_names := names; hc_fate := fate |} end) obs))
    (map (fun o => match o with (_, _, _, cen) => cen end) obs).

Definition hooks_spec (sig : bool) (names0 cen0 : list nat) (obs : list (list nat * nat * bool * list nat)) : bool :=
  subset names0 cen0 && subset cen0 names0 &&
  hspec sig names0 cen0 [] (map (fun o => match o with (names, _, ok, cen) => (names, ok, cen) end) obs).

(* ---- cases ---- *)
Inductive case :=
| CHist (a0 blocked : list nat) (evs : list event)
(* the same lineage together with the event-hook censuses taken after the first Start and after
   every reload: per reload (hook names of the configuration, declared fate (0 valid), observed
   success, census) *)
| CHistH (a0 blocked : list nat) (evs : list event) (sig : bool) (names0 cen0 : list nat)
         (hobs : list (list nat * nat * bool * list nat)).

Definition judge (c : case) : N :=
  match c with
  | CHist a0 blocked evs => verdict (accepts a0 blocked evs) (spec_trace a0 evs)
  | CHistH a0 blocked evs sig names0 cen0 hobs =>
      verdict (accepts a0 blocked evs && hooks_agree sig names0 cen0 hobs)
              (spec_trace a0 evs && hooks_spec sig names0 cen0 hobs)
  end.
