(* C12 — proofs, part 4: the third pool (ResponseBuffer's copy buffers), the recorder. *)
Require Import V.Lib V.C12_Model V.C12_Proofs V.C12_Proofs2.
Open Scope Z_scope.

(* ---------- io.CopyBuffer through a dirty buffer ---------- *)
Lemma cb_read_length buf ch : (length ch <= length buf)%nat -> length (cb_read buf ch) = length buf.
Proof. intro H. unfold cb_read. rewrite app_length, skipn_length. lia. Qed.
Lemma cb_read_prefix buf ch : firstn (length ch) (cb_read buf ch) = ch.
Proof.
  unfold cb_read. rewrite firstn_app, Nat.sub_diag, firstn_all. cbn [firstn]. apply app_nil_r.
Qed.

Lemma copy_buffer_exact reads : forall buf,
  forallb (fun ch => Nat.leb (length ch) (length buf)) reads = true ->
  fst (copy_buffer buf reads) = concat reads /\ length (snd (copy_buffer buf reads)) = length buf.
Proof.
  induction reads as [|ch r IH]; intros buf H; [split; reflexivity|].
  cbn [forallb] in H. apply andb_true_iff in H. destruct H as [Hc Hr].
  apply Nat.leb_le in Hc.
  cbn [copy_buffer concat fst snd]. rewrite cb_read_prefix.
  assert (Hl : length (cb_read buf ch) = length buf) by (apply cb_read_length; exact Hc).
  destruct (IH (cb_read buf ch)) as [IH1 IH2]; [rewrite Hl; exact Hr|].
  rewrite IH1, IH2, Hl. split; reflexivity.
Qed.

Lemma cops_through_exact L fresh ks : forall cp,
  length fresh = L -> pool_len_ok L cp = true -> forallb (cop_fits L) ks = true ->
  fst (cops_through fresh cp ks) = map cop_plain ks /\ pool_len_ok L (snd (cops_through fresh cp ks)) = true.
Proof.
  induction ks as [|k r IH]; intros cp Hf Hp Hk; [split; [reflexivity|exact Hp]|].
  cbn [forallb] in Hk. apply andb_true_iff in Hk. destruct Hk as [Hk Hr].
  destruct k as [o|reads].
  - cbn [cops_through fst snd map cop_plain]. destruct (IH cp Hf Hp Hr) as [I1 I2].
    rewrite I1. split; [reflexivity|exact I2].
  - cbn [cops_through fst snd map cop_plain].
    assert (Hg : length (fst (cp_get fresh cp)) = L /\ pool_len_ok L (snd (cp_get fresh cp)) = true).
    { destruct cp as [|b cp']; cbn [cp_get fst snd]; [split; [exact Hf|reflexivity]|].
      cbn [pool_len_ok forallb] in Hp. apply andb_true_iff in Hp. destruct Hp as [Hb Hp'].
      apply Nat.eqb_eq in Hb. split; [exact Hb|exact Hp']. }
    destruct Hg as [Hg1 Hg2].
    cbn [cop_fits] in Hk.
    destruct (copy_buffer_exact reads (fst (cp_get fresh cp))) as [C1 C2]; [rewrite Hg1; exact Hk|].
    destruct (IH (snd (copy_buffer (fst (cp_get fresh cp)) reads) :: snd (cp_get fresh cp)) Hf) as [I1 I2].
    + cbn [pool_len_ok forallb]. rewrite C2, Hg1, Nat.eqb_refl. exact Hg2.
    + exact Hr.
    + rewrite I1, C1. split; [reflexivity|exact I2].
Qed.

Lemma serve_srv3_fst et c L fresh sv q :
  length fresh = L -> pool_len_ok L (cp_pool sv) = true -> creq_fits L q = true ->
  fst (serve_srv3 et c fresh sv q) = serve_req et c (creq_plain q) /\
  pool_len_ok L (cp_pool (snd (serve_srv3 et c fresh sv q))) = true.
Proof.
  intros Hf Hp Hq. unfold serve_srv3. cbn [fst snd cp_pool].
  destruct (cops_through_exact L fresh (k_ops q) (cp_pool sv) Hf Hp Hq) as [T1 T2].
  rewrite serve_srv_fst, T1. split; [reflexivity|exact T2].
Qed.

Lemma three_pools_independent et c L fresh qs : forall sv,
  length fresh = L -> pool_len_ok L (cp_pool sv) = true -> forallb (creq_fits L) qs = true ->
  run_hist3 et c fresh sv qs = map (fun q => serve_req et c (creq_plain q)) qs.
Proof.
  induction qs as [|q r IH]; intros sv Hf Hp Hq; [reflexivity|].
  cbn [forallb] in Hq. apply andb_true_iff in Hq. destruct Hq as [Hq Hr].
  destruct (serve_srv3_fst et c L fresh sv q Hf Hp Hq) as [S1 S2].
  cbn [run_hist3 map]. rewrite S1, (IH _ Hf S2 Hr). reflexivity.
Qed.

Lemma srv3_after_len et c L fresh qs : forall sv,
  length fresh = L -> pool_len_ok L (cp_pool sv) = true -> forallb (creq_fits L) qs = true ->
  pool_len_ok L (cp_pool (srv3_after et c fresh sv qs)) = true.
Proof.
  induction qs as [|q r IH]; intros sv Hf Hp Hq; [exact Hp|].
  cbn [forallb] in Hq. apply andb_true_iff in Hq. destruct Hq as [Hq Hr].
  destruct (serve_srv3_fst et c L fresh sv q Hf Hp Hq) as [_ S2].
  cbn [srv3_after]. apply IH; assumption.
Qed.

Lemma three_pools_next et c L fresh sv hist q :
  length fresh = L -> pool_len_ok L (cp_pool sv) = true -> forallb (creq_fits L) hist = true -> creq_fits L q = true ->
  fst (serve_srv3 et c fresh (srv3_after et c fresh sv hist) q) = serve_req et c (creq_plain q).
Proof.
  intros Hf Hp Hh Hq.
  apply (serve_srv3_fst et c L fresh _ q Hf (srv3_after_len et c L fresh hist sv Hf Hp Hh) Hq).
Qed.

(* ---------- the recorder ---------- *)
Definition rec_inv (x : st) (r : recd) : Prop :=
  match cm x with
  | None => r_wrote r = false /\ r_status r = 200 /\ sup x = 0%nat
  | Some s => sup x = 0%nat -> r_status r = s
  end.
Lemma rec_inv_step x r k : ccall_ok k = true -> rec_inv x r -> rec_inv (conn_step x k) (rec_step r k).
Proof.
  intros Hk Hi. unfold rec_inv in *. destruct k as [s|g|]; cbn [ccall_ok] in Hk.
  - apply andb_true_iff in Hk. destruct Hk as [H1 H2]. apply Z.leb_le in H1. apply Z.leb_le in H2.
    unfold conn_step, c_wh. destruct (cm x) as [s0|] eqn:Hc.
    + cbn. intro H0. discriminate H0.
    + destruct Hi as [Hw [Hs H0]].
      assert (Hv : valid_code s = true) by (unfold valid_code; apply andb_true_iff; split; apply Z.leb_le; lia).
      rewrite Hv. cbn. intros _. unfold rec_step. rewrite Hw.
      assert (H199 : (199 <? s) = true) by (apply Z.ltb_lt; lia).
      rewrite H199, orb_true_r. reflexivity.
  - unfold conn_step, c_wr. destruct (cm x) as [s0|] eqn:Hc.
    + rewrite Hc. destruct (bodyless s0); cbn; try rewrite Hc; exact Hi.
    + destruct Hi as [Hw [Hs H0]]. cbn. intros _. exact Hs.
  - unfold conn_step, c_fl. destruct (cm x) as [s0|] eqn:Hc; cbn.
    + try rewrite Hc. exact Hi.
    + destruct Hi as [Hw [Hs H0]]. intros _. exact Hs.
Qed.
Lemma recorder_logs_client_status ks : forall x r,
  forallb ccall_ok ks = true -> rec_inv x r ->
  sup (fold_left conn_step ks x) = 0%nat ->
  r_status (fold_left rec_step ks r) = client_status (fold_left conn_step ks x).
Proof.
  induction ks as [|k ks IH]; intros x r Hk Hi H0.
  - cbn in *. unfold rec_inv, client_status in *. destruct (cm x); [exact (Hi H0)|]. destruct Hi as [_ [Hs _]]. exact Hs.
  - cbn [forallb] in Hk. apply andb_true_iff in Hk. destruct Hk as [Hk Hr].
    cbn [fold_left] in *. apply IH; [exact Hr|apply rec_inv_step; assumption|exact H0].
Qed.
Lemma rec_inv0 : rec_inv st0 recd0.
Proof. cbn. repeat split. Qed.
