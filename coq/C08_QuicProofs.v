(* C08 — proofs about the packet-connection stage of startServers (QUIC flag on); model in C08_Model.v *)
Require Import V.Lib V.C08_Model.
Open Scope N_scope.

Lemma qaddr_eqb_refl : forall a, qaddr_eqb a a = true.
Proof. destruct a; simpl; auto using N.eqb_refl. Qed.

Lemma q_close_all_app : forall acc l, q_close_all acc (acc ++ l) = l.
Proof.
  induction acc as [|a acc IH]; intros l; simpl; auto.
  rewrite qaddr_eqb_refl. apply IH.
Qed.

(* the deferred clean-up of startServers, at whichever stage of whichever server the failure is: the two descriptor
   tables are exactly what they were before the call *)
Lemma qss_full_fail : forall held old addrs acc t0 u0 tu,
  q_start_servers QcFull held old addrs acc (acc ++ t0) (acc ++ u0) = (false, tu) -> tu = (t0, u0).
Proof.
  intros held old addrs; induction addrs as [|a r IH]; intros acc t0 u0 tu H; simpl in H.
  - discriminate.
  - destruct (existsb (qaddr_eqb a) old || q_listen held a).
    + destruct (existsb (qaddr_eqb a) old || q_listen_packet held a).
      * apply (IH (a :: acc) t0 u0 tu). exact H.
      * rewrite ?qaddr_eqb_refl in H. injection H as <-. rewrite !q_close_all_app. reflexivity.
    + injection H as <-. rewrite !q_close_all_app. reflexivity.
Qed.

Lemma packet_stage_failure_closes_what_it_opened : forall held old addrs t u t' u',
  q_start_servers QcFull held old addrs [] t u = (false, (t', u')) -> t' = t /\ u' = u.
Proof.
  intros held old addrs t u t' u' H.
  pose proof (qss_full_fail held old addrs [] t u (t', u') H) as E. injection E as -> ->. auto.
Qed.

Lemma q_start_fail : forall held old addrs on st st',
  q_start QcFull held old addrs on st = (false, st') -> st' = st.
Proof.
  intros held old addrs on st st' H. unfold q_start in H.
  destruct (q_start_servers QcFull held old addrs [] (q_tcp st) (q_udp st)) as [ok [t u]] eqn:E.
  destruct ok; [discriminate|].
  apply packet_stage_failure_closes_what_it_opened in E. destruct E as [-> ->].
  injection H as <-. destruct st; reflexivity.
Qed.

Lemma q_reload_fail : forall held id addrs on st st',
  q_reload QcFull held id addrs on st = (false, st') -> st' = st.
Proof.
  intros held id addrs on st st' H. unfold q_reload in H.
  destruct (q_insts st) as [|[oid oaddrs] rest]; [injection H as <-; reflexivity|].
  destruct (q_start QcFull held oaddrs addrs on st) as [ok st1] eqn:E.
  destruct ok; [discriminate|]. injection H as <-. apply q_start_fail in E. exact E.
Qed.

(* a refused attempt of any kind, at either stage of any server, leaves the whole state as it was *)
Lemma quic_refused_attempt_changes_nothing : forall m id addrs on held st,
  fst (q_attempt m id addrs on held st) = false -> snd (q_attempt m id addrs on held st) = st.
Proof.
  intros m id addrs on held st H. unfold q_attempt, q_attempt_gen in *.
  destruct m.
  - destruct (q_start QcFull held [] addrs on st) as [ok st1] eqn:E.
    destruct ok; simpl in *; [discriminate|]. apply q_start_fail in E. exact E.
  - simpl in H. discriminate.
  - destruct (q_reload QcFull held id addrs on st) as [ok st1] eqn:E.
    destruct ok; simpl in *; [discriminate|]. apply q_reload_fail in E. exact E.
  - destruct (q_insts st) as [|i rest] eqn:EI; [reflexivity|].
    destruct (q_reload QcFull held id addrs on (set_qhooks st 0)) as [ok st1] eqn:E.
    destruct ok; simpl in *; [discriminate|]. apply q_reload_fail in E. subst st1.
    destruct st; reflexivity.
  - simpl in H. discriminate.
Qed.

(* over all histories of refused attempts: the state is the state, so whatever is attempted next has the outcome
   and the effect it has without them *)
Lemma quic_refused_history_changes_nothing : forall ops held st,
  q_all_refused held ops st -> q_final held ops st = (held, st).
Proof.
  induction ops as [|o r IH]; intros held st H; simpl in *; auto.
  destruct o as [m id addrs on|]; [|contradiction].
  destruct H as [H1 H2]. rewrite (quic_refused_attempt_changes_nothing _ _ _ _ _ _ H1) in *. apply IH. exact H2.
Qed.

Lemma quic_attempt_after_refused_history : forall ops held st m id addrs on,
  q_all_refused held ops st ->
  q_attempt m id addrs on (fst (q_final held ops st)) (snd (q_final held ops st)) = q_attempt m id addrs on held st.
Proof.
  intros ops held st m id addrs on H. rewrite (quic_refused_history_changes_nothing _ _ _ H). reflexivity.
Qed.

(* a configuration whose addresses are free binds every one of them, whatever is inherited *)
Lemma qss_free_ok : forall k held old addrs acc t u,
  (held = false \/ forallb q_is_eph addrs = true) -> fst (q_start_servers k held old addrs acc t u) = true.
Proof.
  intros k held old addrs; induction addrs as [|a r IH]; intros acc t u H; simpl; auto.
  assert (Ha : q_listen held a = true /\ q_listen_packet held a = true /\ (held = false \/ forallb q_is_eph r = true)).
  { destruct H as [->|H]; [destruct a; simpl; auto|].
    simpl in H. apply andb_prop in H. destruct H as [Ha Hr]. destruct a; simpl in *; try discriminate; auto. }
  destruct Ha as [-> [-> Hr]]. rewrite !Bool.orb_true_r. apply IH. exact Hr.
Qed.

Lemma quic_free_configuration_loads : forall id addrs on held st,
  (held = false \/ forallb q_is_eph addrs = true) -> fst (q_attempt Load id addrs on held st) = true.
Proof.
  intros id addrs on held st H. unfold q_attempt, q_attempt_gen, q_start.
  pose proof (qss_free_ok QcFull held [] addrs [] (q_tcp st) (q_udp st) H) as E.
  destruct (q_start_servers QcFull held [] addrs [] (q_tcp st) (q_udp st)) as [ok [t u]].
  simpl in E. subst ok. reflexivity.
Qed.

Lemma quic_valid_loads_after_refused_history : forall ops held st id addrs on,
  q_all_refused held ops st -> (held = false \/ forallb q_is_eph addrs = true) ->
  fst (q_attempt Load id addrs on (fst (q_final held ops st)) (snd (q_final held ops st))) = true.
Proof.
  intros ops held st id addrs on H V. rewrite quic_attempt_after_refused_history by exact H.
  apply quic_free_configuration_loads. exact V.
Qed.

(* the two defective clean-ups leave the listener of the server whose ListenPacket failed / the sockets of the
   servers before it open *)
Lemma packet_stage_shadowed_cleanup_refuted :
  exists held old addrs t u, q_start_servers QcShadow held old addrs [] t u = (false, ([QUdpHeld], [])) /\ t = [] /\ u = [].
Proof. exists true, [], [QUdpHeld], [], []. vm_compute. auto. Qed.

Lemma packet_stage_typed_nil_cleanup_refuted :
  exists held old addrs t u, q_start_servers QcTypedNil held old addrs [] t u = (false, ([QEph 1], [QEph 1])) /\ t = [] /\ u = [].
Proof. exists true, [], [QEph 1; QUdpHeld], [], []. vm_compute. auto. Qed.

(* when the failing stage is Listen the shadowed clean-up does what the faithful one does: only the failure point
   between the two stages tells them apart *)
Lemma packet_stage_shadowed_same_without_packet_failure : forall held old addrs acc t u,
  forallb (fun a => existsb (qaddr_eqb a) old || q_listen_packet held a) addrs = true ->
  q_start_servers QcShadow held old addrs acc t u = q_start_servers QcFull held old addrs acc t u.
Proof.
  intros held old addrs; induction addrs as [|a r IH]; intros acc t u H; simpl in *; auto.
  apply andb_prop in H. destruct H as [Ha Hr]. rewrite Ha.
  destruct (existsb (qaddr_eqb a) old || q_listen held a); auto.
Qed.

(* witnesses of the nonvacuity examples *)
Lemma packet_stage_failure_closes_what_it_opened_nonvacuous_w :
  q_start_servers QcFull true [QEph 1] [QEph 1; QEph 2; QUdpHeld] [] [QEph 1] [QEph 1] = (false, ([QEph 1], [QEph 1]))
  /\ q_start_servers QcFull true [] [QEph 2; QTcpHeld] [] [] [] = (false, ([], [])).
Proof. vm_compute. auto. Qed.

Lemma quic_refused_attempt_changes_nothing_nonvacuous_w :
  let st := snd (q_attempt Load 1 [QEph 1] 1 true q0) in
  fst (q_attempt Reload 2 [QEph 1; QUdpHeld] 2 true st) = false /\ fst (q_attempt Sigusr1 3 [QTcpHeld] 0 true st) = false
  /\ fst (q_attempt Load 4 [QEph 2; QUdpHeld; QEph 3] 1 true st) = false.
Proof. vm_compute. auto. Qed.

Lemma quic_valid_loads_after_refused_history_nonvacuous_w :
  q_all_refused true [QAttempt Load 1 [QUdpHeld] 1; QAttempt Load 2 [QEph 1; QTcpHeld] 0; QAttempt Reload 3 [QEph 1] 0] q0.
Proof. vm_compute. auto. Qed.

Lemma packet_stage_shadowed_cleanup_same_without_packet_failure_partial_nonvacuous_w :
  forallb (fun a => existsb (qaddr_eqb a) [] || q_listen_packet true a) [QEph 1; QTcpHeld] = true.
Proof. vm_compute. auto. Qed.

